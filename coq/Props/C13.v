(** C13 -- target manager: strict per-target session discipline; silence after
    Remove.  Only theorem statements closed by [exact]; proofs and the
    [Example]s showing that the hypotheses are satisfiable ([log0_emitted],
    [log0_run_quiescent], [log0_shape], [loop_state_reachable],
    [finished_state_reachable], [cause_full_nonvacuous], [kf1_log_rejected_by_model]) are in
    Manager/ManagerProofs.v and Manager/ManagerProofs2.v.

    [run c init tr s]: the model of manager.go can produce the per-name log
    [tr] (markers of the client's Add/Remove/Reconnect calls, every environment
    query with its answer, every callback) and be in state [s] afterwards; the
    environment's answers and the moments of Remove/Reconnect are unconstrained,
    so every statement below holds for all fault scripts and all timings,
    including calls for the same name made by a second client goroutine while a
    Remove is in progress ([XCalled] / [XReturned]). *)
From Coq Require Import List Bool ZArith NArith.
Import ListNotations.
From Gnmi Require Import Manager.ManagerModel Manager.ManagerCheck Manager.ManagerProofs
  Manager.ManagerProofs2.

(** every producible log projects on a prefix of the session language
    ( CE ME | [Connect (Update|Sync)*] Reset CE ME )*, the DFA state being
    determined by the goroutine's control point *)
Theorem C13_trace_in_language :
  forall c tr s, run c init tr s ->
  exists d, drun D0 (callbacks tr) = Some d /\ Rlang (s_pc s) d.
Proof. exact trace_in_language. Qed.
Print Assumptions C13_trace_in_language.

(** ... and on a word of it, read declaratively, whenever the goroutine is
    between attempts (always the case once Remove has returned) *)
Theorem C13_complete_sessions :
  forall c tr s, run c init tr s -> quiescent (s_pc s) = true -> sessions (callbacks tr).
Proof. exact model_sessions. Qed.
Print Assumptions C13_complete_sessions.

(** Connect is reported only directly after the first message of a new stream *)
Theorem C13_connect_after_first_msg :
  forall c a b s, run c init (a ++ CConnect :: b) s ->
  exists a' x, gor a = a' ++ [ESend true; ERecv (RMsg x)].
Proof. exact connect_after_first_msg. Qed.
Print Assumptions C13_connect_after_first_msg.

(** an Update callback carries the notification just received (next letter
    after its Recv, or after the Connect that the first message triggers) *)
Theorem C13_updates_within_session_update :
  forall c a n b s, run c init (a ++ CUpdate n :: b) s ->
  ends_with (gor a) [ERecv (RMsg (MUpdate n))]
  \/ ends_with (gor a) [ERecv (RMsg (MUpdate n)); CConnect].
Proof. exact update_after_its_message. Qed.
Print Assumptions C13_updates_within_session_update.

Theorem C13_updates_within_session_sync :
  forall c a b s, run c init (a ++ CSync :: b) s ->
  ends_with (gor a) [ERecv (RMsg MSync)] \/ ends_with (gor a) [ERecv (RMsg MSync); CConnect].
Proof. exact sync_after_its_message. Qed.
Print Assumptions C13_updates_within_session_sync.

(** whole-log structure: the goroutine's letters are letters outside streams
    and complete streams  Send; (Recv m; [Connect if first]; callback of m)*;
    failed Recv; Reset  -- delivery in stream order, nothing else delivered,
    between the Connect and the Reset of that stream *)
Theorem C13_updates_within_session :
  forall c tr s, run c init tr s -> quiescent (s_pc s) = true -> wf_log (gor tr).
Proof. exact model_wf_log. Qed.
Print Assumptions C13_updates_within_session.

(** every opened stream is ended by exactly one Reset before the next stream
    (and there is no Reset without a stream) *)
Theorem C13_one_reset_per_stream :
  forall c tr s, run c init tr s -> quiescent (s_pc s) = true -> alt false (gor tr) = true.
Proof. exact one_reset_per_stream. Qed.
Print Assumptions C13_one_reset_per_stream.

(** retry_forever (enabledness): the goroutine is never stuck and accepts every
    answer of the environment; *)
Theorem C13_retry_forever_enabled : forall c s, gor_ready c s.
Proof. exact goroutine_enabled. Qed.
Print Assumptions C13_retry_forever_enabled.

(** a failed attempt always reports ConnectError, MonitorError and is back at
    the loop; *)
Theorem C13_retry_forever_failure_returns :
  forall c s, s_pc s = PCE -> run c s [CConnErr; CMonErr] (set_pc s PLoop).
Proof. exact failure_returns_to_loop. Qed.
Print Assumptions C13_retry_forever_failure_returns.

(** from the loop, while the context is not cancelled, the only way on is the
    next attempt; *)
Theorem C13_retry_forever_loop :
  forall c s, s_pc s = PLoop -> s_cdone s = false ->
  (exists s', In s' (tau c s) /\ s_pc s' = PMeta)
  /\ (forall s', In s' (tau c s) -> s_pc s' = PLoop \/ s_pc s' = PMeta).
Proof. exact loop_retries. Qed.
Print Assumptions C13_retry_forever_loop.

(** and the context is cancelled / the goroutine ends only after Remove was called *)
Theorem C13_retry_forever_exit_only_by_remove :
  forall c tr s, run c init tr s -> s_pc s = PFinished -> s_rmc s = true.
Proof. exact finished_only_after_remove. Qed.
Print Assumptions C13_retry_forever_exit_only_by_remove.

(** once Remove has returned there is no callback and no environment query
    for that name unless Add has been called: by the same client goroutine
    afterwards, or by a second goroutine (possibly while that Remove was still
    in progress -- such an Add only takes effect after the Remove, see
    the C13_overlap theorems) *)
Theorem C13_silence_after_remove :
  forall c a b e b' s,
  run c init (a ++ ERemoveReturned true :: b ++ e :: b') s -> is_gor e = true ->
  In EAddCalled b \/ In (XCalled KAdd) (a ++ b).
Proof. exact silence_after_remove. Qed.
Print Assumptions C13_silence_after_remove.

Theorem C13_duplicate_add_refused :
  forall c a m ok s, run c init (a ++ EAdd true :: m ++ [EAdd ok]) s ->
  no_remove_ok m = true -> ok = false.
Proof. exact duplicate_add_refused. Qed.
Print Assumptions C13_duplicate_add_refused.

Theorem C13_unknown_remove_refused :
  forall c m ok s, run c init (m ++ [ERemoveReturned ok]) s -> no_add_ok m = true -> ok = false.
Proof. exact unknown_remove_refused. Qed.
Print Assumptions C13_unknown_remove_refused.

(** calls for the same name made by a SECOND client goroutine while a Remove is
    in progress: such a call gets through only once that Remove has completed
    and the name is unmanaged -- an Add is never accepted while the old target
    is still managed, it then starts a fresh monitor; *)
Theorem C13_overlap_call_effect_after_remove :
  forall c s s' k, In s' (tau c s) -> s_x s = XP k -> s_x s' = XE k ->
  s_rmc s = false /\ s_pc s = PIdle /\ s_pc s' = (match k with KAdd => PLoop | _ => PIdle end).
Proof. exact overlap_call_effect_after_remove. Qed.
Print Assumptions C13_overlap_call_effect_after_remove.

(** while the Remove is in progress none of them has got through; *)
Theorem C13_overlap_pending_while_remove :
  forall c tr s, run c init tr s -> s_rmc s = true -> forall k, s_x s <> XE k.
Proof. exact overlap_pending_while_remove. Qed.
Print Assumptions C13_overlap_pending_while_remove.

(** and their results are those of calls made after the Remove: Add succeeds,
    Remove and Reconnect report an unknown target *)
Theorem C13_overlap_results :
  forall c a k ok s, run c init (a ++ [XReturned k ok]) s ->
  ok = match k with KAdd => true | _ => false end.
Proof. exact overlap_results. Qed.
Print Assumptions C13_overlap_results.

(** mode A: a log accepted by the executable subset construction is a log of
    the model, ending with the name unmanaged; hence everything above holds of it *)
Theorem C13_accepts_sound :
  forall c tr, accepts c tr = true -> exists s, run c init tr s /\ final s = true.
Proof. exact accepts_sound. Qed.
Print Assumptions C13_accepts_sound.

Theorem C13_accepts_spec :
  forall c tr, accepts c tr = true ->
  emits c tr /\ sessions (callbacks tr) /\ k_stream tr = true /\ k_silence tr = true
  /\ k_refuse tr = true.
Proof. exact accepts_spec. Qed.
Print Assumptions C13_accepts_spec.

(** soundness of the executable property checkers K_P applied to the
    implementation's logs *)
Theorem C13_k_lang_sound : forall tr, k_lang tr = true -> sessions (callbacks tr).
Proof. exact k_lang_sound. Qed.
Print Assumptions C13_k_lang_sound.

Theorem C13_k_stream_sound : forall tr, k_stream tr = true -> wf_log (gor tr).
Proof. exact k_stream_sound. Qed.
Print Assumptions C13_k_stream_sound.

Theorem C13_k_silence_sound :
  forall tr, k_silence tr = true ->
  forall a e b, tr = a ++ e :: b -> is_gor e = true -> In EAddCalled a \/ In (XCalled KAdd) a.
Proof. exact k_silence_sound. Qed.
Print Assumptions C13_k_silence_sound.

Theorem C13_k_refuse_sound_add :
  forall a m ok, k_refuse (a ++ EAdd true :: m ++ [EAdd ok]) = true ->
  no_remove_ok m = true -> ok = false.
Proof. exact duplicate_add_refused_k. Qed.
Print Assumptions C13_k_refuse_sound_add.

Theorem C13_k_backoff_sound :
  forall mingap gaps, k_backoff mingap gaps = true -> Forall (fun g => (mingap <= g)%Z) gaps.
Proof. exact k_backoff_sound. Qed.
Print Assumptions C13_k_backoff_sound.

(** the model satisfies the refusal and silence monitors on every log, overlapping calls included *)
Theorem C13_model_refusals : forall c tr s, run c init tr s -> k_refuse tr = true.
Proof. exact model_refusals. Qed.
Print Assumptions C13_model_refusals.

Theorem C13_model_silence : forall c tr s, run c init tr s -> k_silence tr = true.
Proof. exact model_silence. Qed.
Print Assumptions C13_model_silence.

(** attribution of cancellations: a stream is cancelled only by a Reconnect or
    Remove of that name issued before, or by its receive timeout *)
Theorem C13_cancel_attributed :
  forall c tr s, run c init tr s -> k_cause (c_timeout c) 0 false tr = true.
Proof. exact cause_full. Qed.
Print Assumptions C13_cancel_attributed.

(** C13 -- target manager: strict per-target session discipline; silence after
    Remove.  Only theorem statements closed by [exact]; proofs and the
    [Example]s showing that the hypotheses are satisfiable ([log0_emitted],
    [log0_run_quiescent], [log0_shape], [loop_state_reachable],
    [finished_state_reachable], [cause_full_nonvacuous], [kf1_log_rejected_by_model]) are in
    Manager/ManagerProofs.v and Manager/ManagerProofs2.v.

    [run c init tr s]: the model of manager.go can produce the per-name log
    [tr] (markers of the client's Add/Remove/Reconnect calls, every environment
    query with its answer, every callback) and be in state [s] afterwards; the
    environment's answers and the moments of Remove/Reconnect are unconstrained,
    so every statement below holds for all fault scripts and all timings,
    including calls for the same name made by a second client goroutine while a
    Remove is in progress ([XCalled] / [XReturned]). *)
From Coq Require Import List Bool ZArith NArith.
Import ListNotations.
From Gnmi Require Import Manager.ManagerModel Manager.ManagerCheck Manager.ManagerProofs
  Manager.ManagerProofs2 Manager.ManagerLive.

(** every producible log projects on a prefix of the session language
    ( CE ME | [Connect (Update|Sync)*] Reset CE ME )*, the DFA state being
    determined by the goroutine's control point *)
Theorem C13_trace_in_language :
  forall c tr s, run c init tr s ->
  exists d, drun D0 (callbacks tr) = Some d /\ Rlang (s_pc s) d.
Proof. exact trace_in_language. Qed.
Print Assumptions C13_trace_in_language.

(** ... and on a word of it, read declaratively, whenever the goroutine is
    between attempts (always the case once Remove has returned) *)
Theorem C13_complete_sessions :
  forall c tr s, run c init tr s -> quiescent (s_pc s) = true -> sessions (callbacks tr).
Proof. exact model_sessions. Qed.
Print Assumptions C13_complete_sessions.

(** Connect is reported only directly after the first message of a new stream *)
Theorem C13_connect_after_first_msg :
  forall c a b s, run c init (a ++ CConnect :: b) s ->
  exists a' x, gor a = a' ++ [ESend true; ERecv (RMsg x)].
Proof. exact connect_after_first_msg. Qed.
Print Assumptions C13_connect_after_first_msg.

(** an Update callback carries the notification just received (next letter
    after its Recv, or after the Connect that the first message triggers) *)
Theorem C13_updates_within_session_update :
  forall c a n b s, run c init (a ++ CUpdate n :: b) s ->
  ends_with (gor a) [ERecv (RMsg (MUpdate n))]
  \/ ends_with (gor a) [ERecv (RMsg (MUpdate n)); CConnect].
Proof. exact update_after_its_message. Qed.
Print Assumptions C13_updates_within_session_update.

Theorem C13_updates_within_session_sync :
  forall c a b s, run c init (a ++ CSync :: b) s ->
  ends_with (gor a) [ERecv (RMsg MSync)] \/ ends_with (gor a) [ERecv (RMsg MSync); CConnect].
Proof. exact sync_after_its_message. Qed.
Print Assumptions C13_updates_within_session_sync.

(** whole-log structure: the goroutine's letters are letters outside streams
    and complete streams  Send; (Recv m; [Connect if first]; callback of m)*;
    failed Recv; Reset  -- delivery in stream order, nothing else delivered,
    between the Connect and the Reset of that stream *)
Theorem C13_updates_within_session :
  forall c tr s, run c init tr s -> quiescent (s_pc s) = true -> wf_log (gor tr).
Proof. exact model_wf_log. Qed.
Print Assumptions C13_updates_within_session.

(** every opened stream is ended by exactly one Reset before the next stream
    (and there is no Reset without a stream) *)
Theorem C13_one_reset_per_stream :
  forall c tr s, run c init tr s -> quiescent (s_pc s) = true -> alt false (gor tr) = true.
Proof. exact one_reset_per_stream. Qed.
Print Assumptions C13_one_reset_per_stream.

(** retry_forever (enabledness): the goroutine is never stuck and accepts every
    answer of the environment; *)
Theorem C13_retry_forever_enabled : forall c s, gor_ready c s.
Proof. exact goroutine_enabled. Qed.
Print Assumptions C13_retry_forever_enabled.

(** a failed attempt always reports ConnectError, MonitorError and is back at
    the loop; *)
Theorem C13_retry_forever_failure_returns :
  forall c s, s_pc s = PCE -> run c s [CConnErr; CMonErr] (set_pc s PLoop).
Proof. exact failure_returns_to_loop. Qed.
Print Assumptions C13_retry_forever_failure_returns.

(** from the loop, while the context is not cancelled, the only way on is the
    next attempt; *)
Theorem C13_retry_forever_loop :
  forall c s, s_pc s = PLoop -> s_cdone s = false ->
  (exists s', In s' (tau c s) /\ s_pc s' = PMeta)
  /\ (forall s', In s' (tau c s) -> s_pc s' = PLoop \/ s_pc s' = PMeta).
Proof. exact loop_retries. Qed.
Print Assumptions C13_retry_forever_loop.

(** and the context is cancelled / the goroutine ends only after Remove was called *)
Theorem C13_retry_forever_exit_only_by_remove :
  forall c tr s, run c init tr s -> s_pc s = PFinished -> s_rmc s = true.
Proof. exact finished_only_after_remove. Qed.
Print Assumptions C13_retry_forever_exit_only_by_remove.

(** once Remove has returned there is no callback and no environment query
    for that name unless Add has been called: by the same client goroutine
    afterwards, or by a second goroutine (possibly while that Remove was still
    in progress -- such an Add only takes effect after the Remove, see
    the C13_overlap theorems) *)
Theorem C13_silence_after_remove :
  forall c a b e b' s,
  run c init (a ++ ERemoveReturned true :: b ++ e :: b') s -> is_gor e = true ->
  In EAddCalled b \/ In (XCalled KAdd) (a ++ b).
Proof. exact silence_after_remove. Qed.
Print Assumptions C13_silence_after_remove.

Theorem C13_duplicate_add_refused :
  forall c a m ok s, run c init (a ++ EAdd true :: m ++ [EAdd ok]) s ->
  no_remove_ok m = true -> ok = false.
Proof. exact duplicate_add_refused. Qed.
Print Assumptions C13_duplicate_add_refused.

Theorem C13_unknown_remove_refused :
  forall c m ok s, run c init (m ++ [ERemoveReturned ok]) s -> no_add_ok m = true -> ok = false.
Proof. exact unknown_remove_refused. Qed.
Print Assumptions C13_unknown_remove_refused.

(** a refused call changes nothing: an Add with invalid arguments (nil request,
    nil target, no addresses, empty name) is never accepted, in any state of the
    name, and leaves the state as it is; so do a Remove / Reconnect of an
    unmanaged name; a duplicate Add (call, then refusal) brings the state back *)
Theorem C13_invalid_add_never_accepted : forall c s, vis c s (EAddInvalid true) = [].
Proof. exact invalid_add_never_accepted. Qed.
Print Assumptions C13_invalid_add_never_accepted.

Theorem C13_refused_call_changes_nothing :
  forall c s e s', In s' (vis c s e) ->
  e = EAddInvalid false \/ e = ERemoveReturned false \/ e = EReconnectReturned false ->
  s' = s.
Proof. exact refused_call_changes_nothing. Qed.
Print Assumptions C13_refused_call_changes_nothing.

Theorem C13_refused_duplicate_add_changes_nothing :
  forall c s s1 s2, managed s = true ->
  In s1 (vis c s EAddCalled) -> In s2 (vis c s1 (EAdd false)) -> s2 = s.
Proof. exact refused_duplicate_add_changes_nothing. Qed.
Print Assumptions C13_refused_duplicate_add_changes_nothing.

(** calls for the same name made by a SECOND client goroutine while a Remove is
    in progress: such a call gets through only once that Remove has completed
    and the name is unmanaged -- an Add is never accepted while the old target
    is still managed, it then starts a fresh monitor; *)
Theorem C13_overlap_call_effect_after_remove :
  forall c s s' k, In s' (tau c s) -> s_x s = XP k -> s_x s' = XE k ->
  s_rmc s = false /\ s_pc s = PIdle /\ s_pc s' = (match k with KAdd => PLoop | _ => PIdle end).
Proof. exact overlap_call_effect_after_remove. Qed.
Print Assumptions C13_overlap_call_effect_after_remove.

(** while the Remove is in progress none of them has got through; *)
Theorem C13_overlap_pending_while_remove :
  forall c tr s, run c init tr s -> s_rmc s = true -> forall k, s_x s <> XE k.
Proof. exact overlap_pending_while_remove. Qed.
Print Assumptions C13_overlap_pending_while_remove.

(** and their results are those of calls made after the Remove: Add succeeds,
    Remove and Reconnect report an unknown target *)
Theorem C13_overlap_results :
  forall c a k ok s, run c init (a ++ [XReturned k ok]) s ->
  ok = match k with KAdd => true | _ => false end.
Proof. exact overlap_results. Qed.
Print Assumptions C13_overlap_results.

(** mode A: a log accepted by the executable subset construction is a log of
    the model, ending with the name unmanaged; hence everything above holds of it *)
Theorem C13_accepts_sound :
  forall c tr, accepts c tr = true -> exists s, run c init tr s /\ final s = true.
Proof. exact accepts_sound. Qed.
Print Assumptions C13_accepts_sound.

Theorem C13_accepts_spec :
  forall c tr, accepts c tr = true ->
  emits c tr /\ sessions (callbacks tr) /\ k_stream tr = true /\ k_silence tr = true
  /\ k_refuse tr = true.
Proof. exact accepts_spec. Qed.
Print Assumptions C13_accepts_spec.

(** soundness of the executable property checkers K_P applied to the
    implementation's logs *)
Theorem C13_k_lang_sound : forall tr, k_lang tr = true -> sessions (callbacks tr).
Proof. exact k_lang_sound. Qed.
Print Assumptions C13_k_lang_sound.

Theorem C13_k_stream_sound : forall tr, k_stream tr = true -> wf_log (gor tr).
Proof. exact k_stream_sound. Qed.
Print Assumptions C13_k_stream_sound.

Theorem C13_k_silence_sound :
  forall tr, k_silence tr = true ->
  forall a e b, tr = a ++ e :: b -> is_gor e = true -> In EAddCalled a \/ In (XCalled KAdd) a.
Proof. exact k_silence_sound. Qed.
Print Assumptions C13_k_silence_sound.

Theorem C13_k_refuse_sound_add :
  forall a m ok, k_refuse (a ++ EAdd true :: m ++ [EAdd ok]) = true ->
  no_remove_ok m = true -> ok = false.
Proof. exact duplicate_add_refused_k. Qed.
Print Assumptions C13_k_refuse_sound_add.

Theorem C13_k_backoff_sound :
  forall mingap gaps, k_backoff mingap gaps = true -> Forall (fun g => (mingap <= g)%Z) gaps.
Proof. exact k_backoff_sound. Qed.
Print Assumptions C13_k_backoff_sound.

(** the model satisfies the refusal and silence monitors on every log, overlapping calls included *)
Theorem C13_model_refusals : forall c tr s, run c init tr s -> k_refuse tr = true.
Proof. exact model_refusals. Qed.
Print Assumptions C13_model_refusals.

Theorem C13_model_silence : forall c tr s, run c init tr s -> k_silence tr = true.
Proof. exact model_silence. Qed.
Print Assumptions C13_model_silence.

(** attribution of cancellations: a stream is cancelled only by a Reconnect or
    Remove of that name issued before, or by its receive timeout *)
Theorem C13_cancel_attributed :
  forall c tr s, run c init tr s -> k_cause (c_timeout c) 0 false tr = true.
Proof. exact cause_full. Qed.
Print Assumptions C13_cancel_attributed.

(** * Liveness over infinite fair runs (Manager/ManagerLive.v)

    A run is a sequence of states [r : nat -> st] with an optional label per
    step ([LG] hidden step of the monitor goroutine, [LH] any other hidden
    step, [LV e] the letter [e], [None] nobody moves).  Weak fairness
    ([wfair]): from every point on the thread eventually moves or is disabled.
    Threads: the monitor goroutine ([mon_moves]: [LG] and the callbacks), the
    environment answering the goroutine's calls ([env_moves]: credentials,
    dial, done, open, Send, Recv -- a fair environment completes a pending
    call), the caller of Remove ([rm_moves]: cancel, completion, return).
    Satisfiability: [retry_run_hypotheses] / [retry_run_retried] (a stream
    breaks, then the address refuses every dial for ever) and
    [good_run_hypotheses] / [good_run_returns] (a late message, then Remove). *)

(** retried for ever: the stream of a target that is never removed has ended
    ([PReset]: Recv failed with an error, EOF or cancellation): its Reset is
    made and a new connection attempt on a fresh sub-context starts *)
Theorem C13_live_retried_for_ever :
  forall c r lb, is_lrun c r lb ->
  (forall j, lb j <> Some (LV ERemoveCalled)) ->
  wfair r (mon_moves lb) (mon_can c) -> wfair r (env_moves lb) (env_can c) ->
  forall k, s_pc (r k) = PReset -> alive (r k) ->
  exists j1, k <= j1 /\ lb j1 = Some (LV CReset)
  /\ exists j2, j1 < j2 /\ s_pc (r j2) = PMeta /\ s_sdone (r j2) = false /\ alive (r j2).
Proof. exact retried_for_ever. Qed.
Print Assumptions C13_live_retried_for_ever.

(** a forced Reconnect or a receive timeout (sub-context done while a stream is
    open), provided the cancelled stream delivers no further message: the
    stream is ended, Reset is made, a new attempt starts *)
Theorem C13_live_forced_reconnect_retried :
  forall c r lb, is_lrun c r lb ->
  (forall j, lb j <> Some (LV ERemoveCalled)) ->
  wfair r (mon_moves lb) (mon_can c) -> wfair r (env_moves lb) (env_can c) ->
  (forall j, s_sdone (r j) = true -> forall m, lb j <> Some (LV (ERecv (RMsg m)))) ->
  forall k, doomed (r k) -> in_stream (s_pc (r k)) = true ->
  exists j1, k <= j1 /\ lb j1 = Some (LV CReset)
  /\ exists j2, j1 < j2 /\ s_pc (r j2) = PMeta /\ s_sdone (r j2) = false /\ alive (r j2).
Proof. exact forced_reconnect_retried. Qed.
Print Assumptions C13_live_forced_reconnect_retried.

(** Remove returns: a Remove in progress on a managed target ([s_rmc]) is
    followed by its return, if from some step [K] on a cancelled stream
    delivers no further message and the select of the retry loop takes the
    ctx.Done branch (i.e. late messages and lost races happen finitely often) *)
Theorem C13_live_remove_returns :
  forall c r lb, is_lrun c r lb -> r 0 = init ->
  wfair r (mon_moves lb) (mon_can c) -> wfair r (env_moves lb) (env_can c) ->
  wfair r (rm_moves r lb) rm_can ->
  forall K,
  (forall j, K <= j -> s_sdone (r j) = true -> forall m, lb j <> Some (LV (ERecv (RMsg m)))) ->
  (forall j, K <= j -> s_pc (r j) = PLoop -> s_cdone (r j) = true -> s_pc (r (S j)) <> PMeta) ->
  forall k, s_rmc (r k) = true ->
  exists j, k <= j /\ lb j = Some (LV (ERemoveReturned true)).
Proof. exact remove_returns. Qed.
Print Assumptions C13_live_remove_returns.

(** when it returns, every stream that was opened has had its Reset *)
Theorem C13_live_reset_before_return :
  forall c r lb, is_lrun c r lb -> r 0 = init ->
  forall j, lb j = Some (LV (ERemoveReturned true)) -> quiescent (s_pc (r (S j))) = true ->
  alt false (gor (trace_of lb (S j))) = true.
Proof. exact reset_before_return. Qed.
Print Assumptions C13_live_reset_before_return.

(** silence after Remove over infinite runs: after the return no callback and no
    environment query of that name occurs at any later step, unless Add is
    called again (afterwards by the same client, or by a second goroutine) *)
Theorem C13_live_silence_after_return :
  forall c r lb, is_lrun c r lb -> r 0 = init ->
  forall k j e, lb k = Some (LV (ERemoveReturned true)) -> k < j ->
  lb j = Some (LV e) -> is_gor e = true ->
  (exists i, k < i /\ i < j /\ lb i = Some (LV EAddCalled))
  \/ (exists i, i < j /\ lb i = Some (LV (XCalled KAdd))).
Proof. exact silence_after_return. Qed.
Print Assumptions C13_live_silence_after_return.

(** the statements discriminate: the mechanism of C13/seed_vb (the receive loop
    waits on the timer channel for ever once the timer has fired while a message
    was in flight, i.e. the goroutine never moves from [blocked] states) has a
    run in which every other hypothesis of C13_live_remove_returns holds,
    Remove is in progress at step 13 and never returns *)
Theorem C13_live_remove_returns_refuted_for_blocked_receive_loop :
  is_lrun cfgL bad_run bad_lab /\ bad_run 0 = init
  /\ (forall k, mon_moves bad_lab k -> blocked cfgL (bad_run k) = false)
  /\ wfair bad_run (mon_moves bad_lab) (fun s => mon_can cfgL s /\ blocked cfgL s = false)
  /\ wfair bad_run (env_moves bad_lab) (env_can cfgL)
  /\ wfair bad_run (rm_moves bad_run bad_lab) rm_can
  /\ (forall j, 11 <= j -> s_sdone (bad_run j) = true ->
                forall m, bad_lab j <> Some (LV (ERecv (RMsg m))))
  /\ (forall j, s_pc (bad_run j) = PLoop -> s_cdone (bad_run j) = true ->
                s_pc (bad_run (S j)) <> PMeta)
  /\ s_rmc (bad_run 13) = true
  /\ forall j, bad_lab j <> Some (LV (ERemoveReturned true)).
Proof. exact remove_returns_refuted_for_blocked_receive_loop. Qed.
Print Assumptions C13_live_remove_returns_refuted_for_blocked_receive_loop.

(** C10 -- path tree is safe and per-path atomic under concurrent use.
    This file holds only the property theorems, each closed by [exact] of a
    lemma proved elsewhere, with [Print Assumptions] beneath.

    The model is the labelled transition system of CTree/CTreeConc.v: a heap
    of nodes with RWMutex state, one thread per API call, one step per lock
    operation or guarded critical section.  [reach ops s]: state [s] is
    reachable from the empty tree by SOME interleaving of the calls [ops]
    (every schedule, no bound on the number of threads or steps). *)
From Gnmi Require Import Base.Prelude CTree.CTreeModel CTree.CTreeCheck CTree.CTreeConc
  CTree.CTreeConcProofs CTree.CTreeConcLin CTree.CTreeConcAbs CTree.LinCheck CTree.C10Check.

(** lock coupling: a tree operation that holds any lock holds the root lock *)
Theorem C10_lock_coupling :
  forall ops s i t,
    reach ops s -> nth_error (thr s) i = Some t -> is_handle_pc (tpc t) = false ->
    held t <> [] -> exists m, In (0%nat, m) (held t).
Proof. exact lock_coupling. Qed.
Print Assumptions C10_lock_coupling.

(** a call that has returned (normally, with its own error, or with the error of
    a failing VisitFunc: [CQuery q (Some k)]) holds no lock *)
Theorem C10_returned_holds_nothing :
  forall ops s i t,
    reach ops s -> nth_error (thr s) i = Some t -> is_done (tpc t) = true -> held t = [].
Proof. exact returned_holds_nothing. Qed.
Print Assumptions C10_returned_holds_nothing.

(** locks are acquired in strictly increasing node id (= strictly increasing depth) *)
Theorem C10_lock_order :
  forall ops s i t n,
    reach ops s -> nth_error (thr s) i = Some t ->
    (lockop_of t = LRLock n \/ lockop_of t = LReq n \/ lockop_of t = LAcq n) ->
    Forall (fun x => (fst x < n)%nat) (held t).
Proof. exact lock_order. Qed.
Print Assumptions C10_lock_order.

(** no deadlock: while some call has not returned, some thread can step, even
    with every announced writer preferred over arriving readers *)
Theorem C10_deadlock_free :
  forall ops s,
    reach ops s ->
    (exists i t, nth_error (thr s) i = Some t /\ is_done (tpc t) = false) ->
    exists j, enabled_strict s j = true.
Proof. exact deadlock_free. Qed.
Print Assumptions C10_deadlock_free.

(** [patched_op]: the program uses the Delete of the current code (repo commit
    3480f62: the write lock of every visited node), not [CDeleteUnlocked] *)

(** no data race, unconditionally: no two threads ever stand at conflicting
    content accesses -- leaf/node-handle operations against Delete included *)
Theorem C10_no_data_race :
  forall ops s i j ti tj,
    forallb patched_op ops = true -> reach ops s -> i <> j ->
    nth_error (thr s) i = Some ti -> nth_error (thr s) j = Some tj ->
    race_between (hp s) ti tj = false.
Proof. exact no_data_race_patched. Qed.
Print Assumptions C10_no_data_race.

(** for programs that may also contain the pre-3480f62 Delete: the only
    possible race is a handle operation against that Delete's critical section *)
Theorem C10_no_data_race_any_variant :
  forall ops s i j ti tj,
    reach ops s -> i <> j ->
    nth_error (thr s) i = Some ti -> nth_error (thr s) j = Some tj ->
    race_between (hp s) ti tj = true ->
    (is_handle_pc (tpc ti) = true /\ exists q, tpc tj = PDelCrit q) \/
    (is_handle_pc (tpc tj) = true /\ exists q, tpc ti = PDelCrit q).
Proof. exact no_data_race. Qed.
Print Assumptions C10_no_data_race_any_variant.

(** regression witness for defect C10_1 (fixed by 3480f62): with the old Delete
    ([CDeleteUnlocked]) a handle update races with Delete's critical section *)
Theorem C10_handle_delete_race_refuted :
  exists ops s i j ti tj,
    reach ops s /\ i <> j /\
    nth_error (thr s) i = Some ti /\ nth_error (thr s) j = Some tj /\
    is_handle_pc (tpc ti) = true /\ (exists q, tpc tj = PDelCrit q) /\
    race_between (hp s) ti tj = true.
Proof. exact handle_delete_race_refuted. Qed.
Print Assumptions C10_handle_delete_race_refuted.

(** a Delete that has entered the tree (it holds the root write lock from its
    first to its last critical section) excludes every other tree operation *)
Theorem C10_delete_atomic :
  forall ops s i j ti tj,
    reach ops s -> i <> j ->
    nth_error (thr s) i = Some ti -> nth_error (thr s) j = Some tj ->
    in_delete (tpc ti) = true ->
    (is_handle_pc (tpc tj) = false -> held tj = []) /\ (forall m, ~ In (0%nat, m) (held tj)).
Proof. exact delete_atomic_patched. Qed.
Print Assumptions C10_delete_atomic.

(** more generally, whoever holds the root's write lock excludes them *)
Theorem C10_root_writer_excludes :
  forall ops s i j ti tj,
    reach ops s -> i <> j ->
    nth_error (thr s) i = Some ti -> nth_error (thr s) j = Some tj ->
    In (0%nat, MW) (held ti) ->
    (is_handle_pc (tpc tj) = false -> held tj = []) /\ (forall m, ~ In (0%nat, m) (held tj)).
Proof. exact root_writer_excludes. Qed.
Print Assumptions C10_root_writer_excludes.

(** the re-check after the reader->writer exchange: no step replaces or drops
    an existing child *)
Theorem C10_upgrade_recheck :
  forall ops s i s' p n,
    forallb quiet_op ops = true -> reach ops s -> step s i = Some s' ->
    resolve (hp s) 0 p = Some n -> resolve (hp s') 0 p = Some n.
Proof. exact upgrade_recheck. Qed.
Print Assumptions C10_upgrade_recheck.

(** concurrent adds all survive *)
Theorem C10_concurrent_adds_survive :
  forall ops s i t p v,
    forallb quiet_op ops = true -> reach ops s ->
    nth_error (thr s) i = Some t -> nth_error ops i = Some (CAdd p v) ->
    tpc t = PDone (XAdd true) -> leaf_at (hp s) p.
Proof. exact concurrent_adds_survive. Qed.
Print Assumptions C10_concurrent_adds_survive.

(** linearization points (proved part of linearizable_point_ops): for ALL
    programs -- Deletes and handle updates included -- and all interleavings,
    a Get or an Add that has walked part of its path stands on the node that
    this prefix leads to in the CURRENT tree *)
Theorem C10_linearizable_point_ops_partial :
  forall ops s i t p t0 p',
    reach ops s -> nth_error (thr s) i = Some t -> walk_pos t = Some (p, t0, p') ->
    exists pre, p = pre ++ p' /\ resolve (hp s) 0 pre = Some t0.
Proof. exact point_ops_on_current_node. Qed.
Print Assumptions C10_linearizable_point_ops_partial.

(** Get's final read is of the node stored at its path at that moment *)
Theorem C10_get_reads_current_node :
  forall ops s i t p t0,
    reach ops s -> nth_error (thr s) i = Some t ->
    top t = CGetVal p -> tpc t = PGetRead t0 [] -> resolve (hp s) 0 p = Some t0.
Proof. exact get_reads_current_node. Qed.
Print Assumptions C10_get_reads_current_node.

(** Add's write goes to the node stored at its path at that moment *)
Theorem C10_add_writes_current_node :
  forall ops s i t p v t0 v',
    reach ops s -> nth_error (thr s) i = Some t ->
    top t = CAdd p v -> tpc t = PAddTCrit t0 v' -> resolve (hp s) 0 p = Some t0.
Proof. exact add_writes_current_node. Qed.
Print Assumptions C10_add_writes_current_node.

(** ** the abstraction [absf h p] = the value stored at path p, ignoring locks *)

(** every reachable heap of the current code is a tree: unique child names,
    one parent per node -- hence every node has exactly one path *)
Theorem C10_tree_shape :
  forall ops s, forallb patched_op ops = true -> reach ops s -> tree_shape (hp s).
Proof. intros ops s Q R. exact (proj2 (proj2 (reach_TInv ops s Q R))). Qed.
Print Assumptions C10_tree_shape.

(** what ONE step does to the abstraction, for ALL programs of the current code:
    nothing; or it is the write step of Add(p,v) and the content becomes
    [upd content p v]; or Leaf.Update through a handle; or a step of Delete,
    which only removes *)
Theorem C10_step_abs_effect :
  forall ops s i s' t,
    forallb patched_op ops = true -> reach ops s ->
    step s i = Some s' -> nth_error (thr s) i = Some t ->
    abs_effect (hp s) (hp s') t.
Proof.
  intros ops s i s' t Q R. exact (step_abs_effect s i s' t (reach_TInv ops s Q R) (reach_val_ok ops s R)).
Qed.
Print Assumptions C10_step_abs_effect.

(** linearization points, answers included (linearizable_point_ops, proved parts) *)
Theorem C10_add_success_point :
  forall ops s i s' t p v t0,
    forallb patched_op ops = true -> reach ops s ->
    nth_error (thr s) i = Some t -> top t = CAdd p v -> tpc t = PAddTCrit t0 v ->
    is_branch_c (get_cont (hp s) t0) = false -> step s i = Some s' ->
    conflict_free (absf (hp s)) p /\ (forall q, absf (hp s') q = upd (absf (hp s)) p v q).
Proof. exact add_success_point. Qed.
Print Assumptions C10_add_success_point.

Theorem C10_add_failure_point_leaf_above :
  forall ops s i t p v t0 k r v',
    reach ops s -> nth_error (thr s) i = Some t -> top t = CAdd p v ->
    (tpc t = PAddIRead t0 k r v' \/ tpc t = PAddSlow t0 k r v') ->
    (exists w, get_cont (hp s) t0 = CLeaf w) ->
    exists q, strict_prefix q p = true /\ absf (hp s) q <> None.
Proof. exact add_failure_point_leaf_above. Qed.
Print Assumptions C10_add_failure_point_leaf_above.

Theorem C10_add_failure_point_branch_at :
  forall ops s i t p v t0 v' cs,
    forallb quiet_op ops = true -> reach ops s ->
    nth_error (thr s) i = Some t -> top t = CAdd p v -> tpc t = PAddTCrit t0 v' ->
    get_cont (hp s) t0 = CBranch cs ->
    exists q, strict_prefix p q = true /\ absf (hp s) q <> None.
Proof. exact add_failure_point_branch_at. Qed.
Print Assumptions C10_add_failure_point_branch_at.

Theorem C10_get_hit_point :
  forall ops s i t p n,
    forallb quiet_op ops = true -> reach ops s ->
    nth_error (thr s) i = Some t -> top t = CGetVal p -> tpc t = PHValRead n ->
    exists s', step s i = Some s' /\
               nth_error (thr s') i = Some (TH (top t) (PHRel (XVal (absf (hp s) p))) (held t)) /\
               hp s' = hp s.
Proof. exact get_hit_point. Qed.
Print Assumptions C10_get_hit_point.

Theorem C10_get_miss_point :
  forall ops s i t p t0 k r,
    reach ops s -> nth_error (thr s) i = Some t -> top t = CGetVal p -> tpc t = PGetRead t0 (k :: r) ->
    match get_cont (hp s) t0 with CBranch cs => assoc k cs = None | _ => True end ->
    absf (hp s) p = None.
Proof. exact get_miss_point. Qed.
Print Assumptions C10_get_miss_point.

(** the content is, at every moment, the replay of the write events in order
    (programs of Add / GetLeafValue / Query / handle reads) *)
Theorem C10_content_is_log :
  forall ops s log,
    forallb quiet_op ops = true -> reach_log ops s log ->
    forall q, absf (hp s) q = apply_log log q.
Proof. exact content_is_log. Qed.
Print Assumptions C10_content_is_log.

(** quiescent serializability for that fragment (in fact at every reachable
    state): the content equals the sequential application of distinct Add calls
    of the program, among them every Add that reported success *)
Theorem C10_quiescent_serializable_partial :
  forall ops s,
    forallb quiet_op ops = true -> reach ops s ->
    exists order : list (nat * path * Z),
      NoDup (map (fun e => fst (fst e)) order) /\
      (forall i p v, In (i, p, v) order -> nth_error ops i = Some (CAdd p v)) /\
      (forall i t p v, nth_error (thr s) i = Some t -> nth_error ops i = Some (CAdd p v) ->
                       tpc t = PDone (XAdd true) -> In (i, p, v) order) /\
      (forall q, absf (hp s) q = apply_log order q).
Proof. exact quiescent_serializable_adds. Qed.
Print Assumptions C10_quiescent_serializable_partial.

(** query stability, soundness half: what a Query / Walk reports is stored, with
    that value, at the moment of the report *)
Theorem C10_query_stability_partial :
  forall ops s i t t0 pre q acc fr v,
    forallb quiet_op ops = true -> reach ops s ->
    nth_error (thr s) i = Some t -> tpc t = PQRead t0 pre q acc fr ->
    query_visits (get_cont (hp s) t0) q = Some v ->
    absf (hp s) pre = Some v /\
    (exists s', step s i = Some s' /\
       exists t', nth_error (thr s') i = Some t' /\ tpc t' = PQVisit pre v acc ([] :: fr)).
Proof. exact query_reports_present. Qed.
Print Assumptions C10_query_stability_partial.

(** the executable linearizability checker is sound (this is K_P) *)
Theorem C10_lin_check_sound :
  forall (St Op Rt : Type) (sstep : St -> Op -> Rt -> list St) (pure : Op -> Rt -> bool) (s0 : St)
         (h : list (@opr Op Rt)) (fin : St -> bool),
    lin_check sstep pure s0 h fin = true -> linearizable sstep s0 h (fun s => fin s = true).
Proof. exact (@lin_check_sound). Qed.
Print Assumptions C10_lin_check_sound.

(** an accepted window of observations is linearizable w.r.t. the flat
    prefix-free map of C09 and ends in the observed content
    (= quiescent serializability of what the implementation did) *)
Theorem C10_window_check_linearizable :
  forall s0 ops final,
    window_check s0 ops final = [] ->
    linearizable spec_step s0 (filter (fun o => negb (is_query o)) ops)
                 (fun f => same_content f final = true).
Proof. exact window_check_linearizable. Qed.
Print Assumptions C10_window_check_linearizable.

(* linearizable_point_ops (full statement, NOT proved over the LTS):
     forall ops s, reach ops s -> all threads done ->
       linearizable (flat specification of C09) [] (history of the run) (abs (hp s) = .)
   with linearization points: the write step of Add (PAddTCrit / the inserting
   PAddSlow), the final read of Get, the critical section of Delete.
   Proved parts: C10_linearizable_point_ops_partial with its two corollaries
   (Get's final read and Add's write act on the node currently stored at the
   path), C10_delete_atomic (Delete's point is exclusive),
   C10_upgrade_recheck + C10_concurrent_adds_survive (Add's effect is never
   undone by another Add), C10_no_data_race (every point is a guarded access).
   quiescent_serializable and query_stability over the LTS: not proved; they
   are checked on the implementation's histories by K_P
   (C10_window_check_linearizable, C10Check.query_ok). *)

(** C10 -- path tree is safe and per-path atomic under concurrent use.
    This file holds only the property theorems, each closed by [exact] of a
    lemma proved elsewhere, with [Print Assumptions] beneath.

    The model is the labelled transition system of CTree/CTreeConc.v: a heap
    of nodes with RWMutex state, one thread per API call, one step per lock
    operation or guarded critical section.  [reach ops s]: state [s] is
    reachable from the empty tree by SOME interleaving of the calls [ops]
    (every schedule, no bound on the number of threads or steps). *)
From Gnmi Require Import Base.Prelude CTree.CTreeModel CTree.CTreeCheck CTree.CTreeConc
  CTree.CTreeConcProofs CTree.CTreeConcLin CTree.CTreeConcAbs CTree.CTreeConcDel CTree.CTreeConcGet CTree.LinCheck
  CTree.C10Check.

(** lock coupling: a tree operation that holds any lock holds the root lock *)
Theorem C10_lock_coupling :
  forall ops s i t,
    reach ops s -> nth_error (thr s) i = Some t -> is_handle_pc (tpc t) = false ->
    held t <> [] -> exists m, In (0%nat, m) (held t).
Proof. exact lock_coupling. Qed.
Print Assumptions C10_lock_coupling.

(** a call that has returned (normally, with its own error, or with the error of
    a failing VisitFunc: [CQuery q (Some k)]) holds no lock *)
Theorem C10_returned_holds_nothing :
  forall ops s i t,
    reach ops s -> nth_error (thr s) i = Some t -> is_done (tpc t) = true -> held t = [].
Proof. exact returned_holds_nothing. Qed.
Print Assumptions C10_returned_holds_nothing.

(** locks are acquired in strictly increasing node id (= strictly increasing depth) *)
Theorem C10_lock_order :
  forall ops s i t n,
    reach ops s -> nth_error (thr s) i = Some t ->
    (lockop_of t = LRLock n \/ lockop_of t = LReq n \/ lockop_of t = LAcq n) ->
    Forall (fun x => (fst x < n)%nat) (held t).
Proof. exact lock_order. Qed.
Print Assumptions C10_lock_order.

(** no deadlock: while some call has not returned, some thread can step, even
    with every announced writer preferred over arriving readers *)
Theorem C10_deadlock_free :
  forall ops s,
    reach ops s ->
    (exists i t, nth_error (thr s) i = Some t /\ is_done (tpc t) = false) ->
    exists j, enabled_strict s j = true.
Proof. exact deadlock_free. Qed.
Print Assumptions C10_deadlock_free.

(** no data race, unconditionally: no two threads ever stand at conflicting
    content accesses -- leaf/node-handle operations against Delete included *)
Theorem C10_no_data_race :
  forall ops s i j ti tj,
    forallb patched_op ops = true -> reach ops s -> i <> j ->
    nth_error (thr s) i = Some ti -> nth_error (thr s) j = Some tj ->
    race_between (hp s) ti tj = false.
Proof. exact no_data_race_patched. Qed.
Print Assumptions C10_no_data_race.

(** for programs that may also contain the pre-3480f62 Delete: the only
    possible race is a handle operation against that Delete's critical section *)
Theorem C10_no_data_race_any_variant :
  forall ops s i j ti tj,
    reach ops s -> i <> j ->
    nth_error (thr s) i = Some ti -> nth_error (thr s) j = Some tj ->
    race_between (hp s) ti tj = true ->
    (is_handle_pc (tpc ti) = true /\ exists q, tpc tj = PDelCrit q) \/
    (is_handle_pc (tpc tj) = true /\ exists q, tpc ti = PDelCrit q).
Proof. exact no_data_race. Qed.
Print Assumptions C10_no_data_race_any_variant.

(** regression witness for defect C10_1 (fixed by 3480f62): with the old Delete
    ([CDeleteUnlocked]) a handle update races with Delete's critical section *)
Theorem C10_handle_delete_race_refuted :
  exists ops s i j ti tj,
    reach ops s /\ i <> j /\
    nth_error (thr s) i = Some ti /\ nth_error (thr s) j = Some tj /\
    is_handle_pc (tpc ti) = true /\ (exists q, tpc tj = PDelCrit q) /\
    race_between (hp s) ti tj = true.
Proof. exact handle_delete_race_refuted. Qed.
Print Assumptions C10_handle_delete_race_refuted.

(** a Delete that has entered the tree (it holds the root write lock from its
    first to its last critical section) excludes every other tree operation *)
Theorem C10_delete_atomic :
  forall ops s i j ti tj,
    reach ops s -> i <> j ->
    nth_error (thr s) i = Some ti -> nth_error (thr s) j = Some tj ->
    in_delete (tpc ti) = true ->
    (is_handle_pc (tpc tj) = false -> held tj = []) /\ (forall m, ~ In (0%nat, m) (held tj)).
Proof. exact delete_atomic_patched. Qed.
Print Assumptions C10_delete_atomic.

(** more generally, whoever holds the root's write lock excludes them *)
Theorem C10_root_writer_excludes :
  forall ops s i j ti tj,
    reach ops s -> i <> j ->
    nth_error (thr s) i = Some ti -> nth_error (thr s) j = Some tj ->
    In (0%nat, MW) (held ti) ->
    (is_handle_pc (tpc tj) = false -> held tj = []) /\ (forall m, ~ In (0%nat, m) (held tj)).
Proof. exact root_writer_excludes. Qed.
Print Assumptions C10_root_writer_excludes.

(** the re-check after the reader->writer exchange: no step replaces or drops
    an existing child *)
Theorem C10_upgrade_recheck :
  forall ops s i s' p n,
    forallb quiet_op ops = true -> reach ops s -> step s i = Some s' ->
    resolve (hp s) 0 p = Some n -> resolve (hp s') 0 p = Some n.
Proof. exact upgrade_recheck. Qed.
Print Assumptions C10_upgrade_recheck.

(** concurrent adds all survive *)
Theorem C10_concurrent_adds_survive :
  forall ops s i t p v,
    forallb quiet_op ops = true -> reach ops s ->
    nth_error (thr s) i = Some t -> nth_error ops i = Some (CAdd p v) ->
    tpc t = PDone (XAdd true) -> leaf_at (hp s) p.
Proof. exact concurrent_adds_survive. Qed.
Print Assumptions C10_concurrent_adds_survive.

(** linearization points are taken on the CURRENT tree, for ALL programs (Deletes and
    handle updates included): (1) a Get or an Add that has walked part of its path stands
    on the node this prefix leads to now; (2) Get's final read and (3) Add's store act on
    the node stored at the path at that moment *)
Theorem C10_point_ops_on_current_node :
  (forall ops s i t p t0 p',
    reach ops s -> nth_error (thr s) i = Some t -> walk_pos t = Some (p, t0, p') ->
    exists pre, p = pre ++ p' /\ resolve (hp s) 0 pre = Some t0) /\
  (forall ops s i t p t0,
    reach ops s -> nth_error (thr s) i = Some t ->
    top t = CGetVal p -> tpc t = PGetRead t0 [] -> resolve (hp s) 0 p = Some t0) /\
  (forall ops s i t p v t0 v',
    reach ops s -> nth_error (thr s) i = Some t ->
    top t = CAdd p v -> tpc t = PAddTCrit t0 v' -> resolve (hp s) 0 p = Some t0).
Proof.
  split. { exact point_ops_on_current_node. }
  split. { exact get_reads_current_node. }
  exact add_writes_current_node.
Qed.
Print Assumptions C10_point_ops_on_current_node.


(** [absf h p] = the value stored at path p, ignoring locks.  (1) every reachable heap of
    the current code is a tree (unique child names, one parent per node); (2) what ONE step
    does to the abstraction, for ALL programs: nothing; or it is the write step of Add(p,v)
    and the content becomes [upd content p v]; or Leaf.Update through a handle; or a step
    of Delete, which only removes *)
Theorem C10_abstraction_step :
  (forall ops s, forallb patched_op ops = true -> reach ops s -> tree_shape (hp s)) /\
  (forall ops s i s' t,
    forallb patched_op ops = true -> reach ops s ->
    step s i = Some s' -> nth_error (thr s) i = Some t ->
    abs_effect (hp s) (hp s') t).
Proof.
  split. { intros ops s Q R. exact (proj2 (proj2 (reach_TInv ops s Q R))). }
  intros ops s i s' t Q R. exact (step_abs_effect s i s' t (reach_TInv ops s Q R) (reach_val_ok ops s R)).
Qed.
Print Assumptions C10_abstraction_step.


(** the answers at the linearization points agree with the flat specification applied to
    the abstraction: (1) Add's store: no conflict, content becomes upd; (2,3) Add's two ways
    to fail: a stored strict prefix / a stored strict extension; (4) Value() returns what is
    stored at the path at that moment; (5) a failed lookup: nothing is stored there *)
Theorem C10_linearization_points :
  (forall ops s i s' t p v t0,
    forallb patched_op ops = true -> reach ops s ->
    nth_error (thr s) i = Some t -> top t = CAdd p v -> tpc t = PAddTCrit t0 v ->
    is_branch_c (get_cont (hp s) t0) = false -> step s i = Some s' ->
    conflict_free (absf (hp s)) p /\ (forall q, absf (hp s') q = upd (absf (hp s)) p v q)) /\
  (forall ops s i t p v t0 k r v',
    reach ops s -> nth_error (thr s) i = Some t -> top t = CAdd p v ->
    (tpc t = PAddIRead t0 k r v' \/ tpc t = PAddSlow t0 k r v') ->
    (exists w, get_cont (hp s) t0 = CLeaf w) ->
    exists q, strict_prefix q p = true /\ absf (hp s) q <> None) /\
  (forall ops s i t p v t0 v' cs,
    forallb quiet_op ops = true -> reach ops s ->
    nth_error (thr s) i = Some t -> top t = CAdd p v -> tpc t = PAddTCrit t0 v' ->
    get_cont (hp s) t0 = CBranch cs ->
    exists q, strict_prefix p q = true /\ absf (hp s) q <> None) /\
  (forall ops s i t p n,
    forallb quiet_op ops = true -> reach ops s ->
    nth_error (thr s) i = Some t -> top t = CGetVal p -> tpc t = PHValRead n ->
    exists s', step s i = Some s' /\
               nth_error (thr s') i = Some (TH (top t) (PHRel (XVal (absf (hp s) p))) (held t)) /\
               hp s' = hp s) /\
  (forall ops s i t p t0 k r,
    reach ops s -> nth_error (thr s) i = Some t -> top t = CGetVal p -> tpc t = PGetRead t0 (k :: r) ->
    match get_cont (hp s) t0 with CBranch cs => assoc k cs = None | _ => True end ->
    absf (hp s) p = None).
Proof.
  split. { exact add_success_point. }
  split. { exact add_failure_point_leaf_above. }
  split. { exact add_failure_point_branch_at. }
  split. { exact get_hit_point. }
  exact get_miss_point.
Qed.
Print Assumptions C10_linearization_points.






(** (1) programs of Add / GetLeafValue / Query / handle reads: the content is at every
    moment the replay of the write events in their order; (2) quiescent serializability for
    them (in fact at every reachable state): the content is the sequential application of
    distinct Add calls of the program, among them every Add that reported success; (3) with
    Delete in the program (no handle Update): whatever is stored was written by an Add *)
Theorem C10_quiescent_serializable_partial :
  (forall ops s log,
    forallb quiet_op ops = true -> reach_log ops s log ->
    forall q, absf (hp s) q = apply_log log q) /\
  (forall ops s,
    forallb quiet_op ops = true -> reach ops s ->
    exists order : list (nat * path * Z),
      NoDup (map (fun e => fst (fst e)) order) /\
      (forall i p v, In (i, p, v) order -> nth_error ops i = Some (CAdd p v)) /\
      (forall i t p v, nth_error (thr s) i = Some t -> nth_error ops i = Some (CAdd p v) ->
                       tpc t = PDone (XAdd true) -> In (i, p, v) order) /\
      (forall q, absf (hp s) q = apply_log order q)) /\
  (forall ops s log,
    forallb no_hupd_op ops = true -> reach_log ops s log ->
    forall q v, absf (hp s) q = Some v -> exists i, In (i, q, v) log).
Proof.
  split. { exact content_is_log. }
  split. { exact quiescent_serializable_adds. }
  exact stored_was_added.
Qed.
Print Assumptions C10_quiescent_serializable_partial.


(** linearizability of Add / GetLeafValue (programs without Delete and handle Update) by
    forward simulation to the flat prefix-free map of C09.  [reach_lin ops s log ev]: a run
    to [s] with the sequence [ev] of linearization events (thread, answer).
    (1) sequential witness: the events with the calls' answers are a run of the
    specification from the empty map ending in the abstraction of the current heap;
    (2) every call that has its answer is in the sequence with that answer; (3) at most
    once; (4) real-time order: a call that returned before another was invoked precedes it;
    (5) every run has such an instrumented version; (6) the chain an Add inserts stays
    private until it returns: its final store finds its own value *)
Theorem C10_linearizable_add_get :
  (forall ops s log ev,
    forallb quiet_op ops = true -> reach_lin ops s log ev ->
    exists m, spec_run (fun _ => None) (ev_ops ops ev) m /\ forall q, m q = absf (hp s) q) /\
  (forall ops s log ev,
    reach_lin ops s log ev -> forall i t r,
    nth_error (thr s) i = Some t -> point_op (top t) = true -> CTreeConcAbs.res_of (tpc t) = Some r -> In (i, r) ev) /\
  (forall ops s log ev,
    forallb quiet_op ops = true -> reach_lin ops s log ev -> NoDup (map fst ev)) /\
  (forall ops s1 log1 ev1 s2 log2 ev2 a ta ra b tb o rb,
    forallb quiet_op ops = true ->
    reach_lin ops s1 log1 ev1 -> run_lin ops (s1, log1, ev1) (s2, log2, ev2) ->
    nth_error (thr s1) a = Some ta -> point_op (top ta) = true -> tpc ta = PDone ra ->
    nth_error (thr s1) b = Some tb -> tpc tb = PStart o ->
    In (b, rb) ev2 ->
    exists l1 l2 l3, ev2 = l1 ++ (a, ra) :: l2 ++ (b, rb) :: l3) /\
  (forall ops s, reach ops s -> exists log ev, reach_lin ops s log ev) /\
  (forall ops s log i t p v t0 v',
    forallb quiet_op ops = true -> reach_log ops s log ->
    nth_error (thr s) i = Some t -> top t = CAdd p v -> tpc t = PAddTCrit t0 v' ->
    In (i, p, v) log ->
    get_cont (hp s) t0 = CLeaf v /\ absf (hp s) p = Some v).
Proof.
  split. { exact lin_simulation. }
  split. { exact lin_complete. }
  split. { exact lin_unique. }
  split. { exact lin_real_time. }
  split. { exact reach_reach_lin. }
  exact add_rewalk_store_is_noop.
Qed.
Print Assumptions C10_linearizable_add_get.


(** query stability (programs without Delete / handle Update): (1) what a Query / Walk
    reports is stored, with that value, at the moment of the report; (2) it reports every
    leaf that matches it and was stored when it was invoked (such a leaf stays stored) *)
Theorem C10_query_stability :
  (forall ops s i t t0 pre q acc fr v,
    forallb quiet_op ops = true -> reach ops s ->
    nth_error (thr s) i = Some t -> tpc t = PQRead t0 pre q acc fr ->
    query_visits (get_cont (hp s) t0) q = Some v ->
    absf (hp s) pre = Some v /\
    (exists s', step s i = Some s' /\
       exists t', nth_error (thr s') i = Some t' /\ tpc t' = PQVisit pre v acc ([] :: fr))) /\
  (forall ops s1 s2 i t1 t2 q acc,
    forallb quiet_op ops = true -> reach ops s1 -> steps s1 s2 ->
    nth_error (thr s1) i = Some t1 -> tpc t1 = PStart (CQuery q None) ->
    nth_error (thr s2) i = Some t2 -> tpc t2 = PDone (XLeaves acc) ->
    forall pth, absf (hp s1) pth <> None -> qmatch q pth = true -> In pth (map fst acc)).
Proof.
  split. { exact query_reports_present. }
  exact query_reports_all.
Qed.
Print Assumptions C10_query_stability.


(** the executable linearizability checker is sound (this is K_P) *)
Theorem C10_lin_check_sound :
  forall (St Op Rt : Type) (sstep : St -> Op -> Rt -> list St) (pure : Op -> Rt -> bool) (s0 : St)
         (h : list (@opr Op Rt)) (fin : St -> bool),
    lin_check sstep pure s0 h fin = true -> linearizable sstep s0 h (fun s => fin s = true).
Proof. exact (@lin_check_sound). Qed.
Print Assumptions C10_lin_check_sound.

(** an accepted window of observations is linearizable w.r.t. the flat
    prefix-free map of C09 and ends in the observed content
    (= quiescent serializability of what the implementation did) *)
Theorem C10_window_check_linearizable :
  forall s0 ops final,
    window_check s0 ops final = [] ->
    linearizable spec_step s0 (filter (fun o => negb (is_query o)) ops)
                 (fun f => same_content f final = true).
Proof. exact window_check_linearizable. Qed.
Print Assumptions C10_window_check_linearizable.

(** while a Delete is inside the tree nobody else changes the stored content
    (programs without Leaf.Update through a handle): between its first and its
    last critical section the only abstract changes are Delete's own removals *)
Theorem C10_delete_excludes_writers :
  forall ops s d td j s' tj,
    forallb no_hupd_op ops = true -> reach ops s ->
    nth_error (thr s) d = Some td -> in_delete (tpc td) = true ->
    d <> j -> nth_error (thr s) j = Some tj -> step s j = Some s' ->
    forall q, absf (hp s') q = absf (hp s) q.
Proof. exact delete_excludes_writers. Qed.
Print Assumptions C10_delete_excludes_writers.

(** Delete refines the flat specification's delete (programs of Add / GetLeafValue /
    Query / Walk / Leaf.Value / Delete; the code as of 3480f62): from the step with which
    thread [d] takes the root lock (state [s1]) to its last critical section (state [s2]),
    with any steps of any threads in between, a Delete(q) removes exactly the stored paths
    [q] selects, leaves every other stored path with its value, and returns exactly the
    removed paths *)
Theorem C10_delete_refines_spec :
  forall ops s1 d t1 q s1' s2 t2 del ls s2',
    forallb no_hupd_op ops = true -> reach ops s1 ->
    nth_error (thr s1) d = Some t1 -> tpc t1 = PLDelAcq q -> step s1 d = Some s1' ->
    steps s1' s2 ->
    nth_error (thr s2) d = Some t2 -> tpc t2 = PLRet del ls [] -> step s2 d = Some s2' ->
    (forall p, absf (hp s2') p = if qmatch q p then None else absf (hp s1) p) /\
    (forall p, In p ls <-> (absf (hp s1) p <> None /\ qmatch q p = true)) /\
    tpc_of s2' d = Some (PUnwind (UDone (XPaths ls))).
Proof. exact delete_refines_spec. Qed.
Print Assumptions C10_delete_refines_spec.


(** linearizability of Add and Delete by forward simulation to the flat prefix-free map
    (programs without Leaf.Update through a handle).  [reach_lin_D ops s log ev]: a run to
    [s] with the sequence [ev] of linearization events (thread, answer) -- Add's as in
    C10_linearizable_add_get, Delete's at its last critical section.
    (1) sequential witness: the events with the calls' answers are a run of the
    specification ([spec_step_D]: Add as before, Delete(q) removes exactly what q selects
    and returns it) from the empty map, ending in a map related to the state by [sim_rel];
    (2) when no Delete holds the root lock that map is the content of the heap;
    (3) every returned Add / Delete is in the sequence with its answer; (4) at most once;
    (5) real-time order; (6) every run has such an instrumented version; (7) every reachable
    branch node has a stored leaf below it whenever no Delete is at work (pruning) *)
Theorem C10_linearizable_add_delete :
  (forall ops s log ev,
    forallb no_hupd_op ops = true -> reach_lin_D ops s log ev ->
    exists m, spec_run_D (fun _ => None) (ev_ops ops ev) m /\ sim_rel m s) /\
  (forall ops s log ev,
    forallb no_hupd_op ops = true -> reach_lin_D ops s log ev -> nobody_in s ->
    exists m, spec_run_D (fun _ => None) (ev_ops ops ev) m /\ forall q, m q = absf (hp s) q) /\
  (forall ops s log ev,
    reach_lin_D ops s log ev -> forall i t r,
    nth_error (thr s) i = Some t -> point_op_D (top t) = true ->
    CTreeConcAbs.res_of (tpc t) = Some r -> In (i, r) ev) /\
  (forall ops s log ev,
    forallb no_hupd_op ops = true -> reach_lin_D ops s log ev -> NoDup (map fst ev)) /\
  (forall ops s1 log1 ev1 s2 log2 ev2 a ta ra b tb o rb,
    forallb no_hupd_op ops = true ->
    reach_lin_D ops s1 log1 ev1 -> run_lin_D ops (s1, log1, ev1) (s2, log2, ev2) ->
    nth_error (thr s1) a = Some ta -> point_op_D (top ta) = true -> tpc ta = PDone ra ->
    nth_error (thr s1) b = Some tb -> tpc tb = PStart o ->
    In (b, rb) ev2 ->
    exists l1 l2 l3, ev2 = l1 ++ (a, ra) :: l2 ++ (b, rb) :: l3) /\
  (forall ops s, reach ops s -> exists log ev, reach_lin_D ops s log ev) /\
  (forall ops s log ev m,
    forallb no_hupd_op ops = true -> reach_lin_D ops s log ev -> nobody_in s -> sim_rel m s ->
    forall p n cs, resolve (hp s) 0 p = Some n -> get_cont (hp s) n = CBranch cs ->
                   exists sfx, sfx <> [] /\ absf (hp s) (p ++ sfx) <> None).
Proof.
  split. { exact lin_simulation_D. }
  split. { exact lin_simulation_D_content. }
  split. { exact lin_complete_D. }
  split. { exact lin_unique_D. }
  split. { exact lin_real_time_D. }
  split. { exact reach_reach_lin_D. }
  intros ops s log ev m Q R NB [[_ [_ [_ BF]]]|[d [td [qd [Ed [ID _]]]]]] p n cs Rp En.
  - exact (BF p n cs Rp En eq_refl).
  - rewrite (NB _ _ Ed) in ID. discriminate.
Qed.
Print Assumptions C10_linearizable_add_delete.


(** quiescent serializability with Delete: when every call of a run of Add / GetLeafValue /
    Query / Walk / Leaf.Value / Delete calls has returned, the stored content is what the
    flat specification computes by executing the Add and Delete calls one after the other in
    the order of their linearization events, each with the answer it actually returned;
    every Add / Delete is in that sequence, exactly once (real-time order: (5) above);
    the reading calls change nothing and can be put anywhere *)
Theorem C10_quiescent_serializable :
  forall ops s log ev,
    forallb no_hupd_op ops = true -> reach_lin_D ops s log ev ->
    (forall i t, nth_error (thr s) i = Some t -> is_done (tpc t) = true) ->
    exists m, spec_run_D (fun _ => None) (ev_ops ops ev) m /\ (forall q, m q = absf (hp s) q) /\
              NoDup (map fst ev) /\
              (forall i t r, nth_error (thr s) i = Some t -> point_op_D (top t) = true ->
                             tpc t = PDone r -> In (i, r) ev).
Proof. exact quiescent_serializable_D. Qed.
Print Assumptions C10_quiescent_serializable.


(** Query / Walk under concurrency, also in programs with Delete (everything except
    Leaf.Update through a handle): (1) what is reported is stored, with that value, at the
    moment of the report -- so every reported leaf was present at some moment during the
    call; (2) a leaf that the query selects and that is stored in every state from the
    invocation to the return is reported; (3) nothing is reported twice (all programs with
    the current Delete).  (2) + (3): a matching leaf present during the whole call is
    visited exactly once. *)
Theorem C10_query_stability_with_delete :
  (forall ops s i t t0 pre q acc fr v,
    forallb no_hupd_op ops = true -> reach ops s ->
    nth_error (thr s) i = Some t -> tpc t = PQRead t0 pre q acc fr ->
    query_visits (get_cont (hp s) t0) q = Some v ->
    absf (hp s) pre = Some v /\
    (exists s', step s i = Some s' /\
       exists t', nth_error (thr s') i = Some t' /\ tpc t' = PQVisit pre v acc ([] :: fr))) /\
  (forall ops s1 s2 i t1 t2 q acc pth,
    forallb no_hupd_op ops = true -> reach ops s1 ->
    steps_all (fun s => absf (hp s) pth <> None) s1 s2 ->
    nth_error (thr s1) i = Some t1 -> tpc t1 = PStart (CQuery q None) ->
    nth_error (thr s2) i = Some t2 -> tpc t2 = PDone (XLeaves acc) ->
    qmatch q pth = true -> In pth (map fst acc)) /\
  (forall ops s i t acc,
    forallb patched_op ops = true -> reach ops s ->
    nth_error (thr s) i = Some t -> tpc t = PDone (XLeaves acc) -> NoDup (map fst acc)).
Proof.
  split. { exact query_reports_present_D. }
  split. { exact query_reports_all_D. }
  exact query_reports_once.
Qed.
Print Assumptions C10_query_stability_with_delete.


(** linearizability of ALL point operations -- Add, GetLeafValue, Delete -- in programs
    without Leaf.Update through a handle.  GetLeafValue is Get + Value, two critical
    sections: it is linearized at a miss of its walk, or at its Value read, or -- when a
    Delete unlinks the node between the two -- just before that Delete's event ("helping":
    [helpers]).  [reach_lin_G ops s log ev]: a run to [s] with the event sequence [ev].
    (1) the events with the calls' answers are a run of the flat specification
    ([spec_step_G]: Add, Delete as before, GetLeafValue(p) answers the stored value) from
    the empty map, ending in the content of the heap whenever no Delete holds the root lock;
    every call that has its answer is in the sequence with that answer, exactly once;
    (2) real-time order; (3) every run has such an instrumented version *)
Theorem C10_linearizable_point_ops :
  (forall ops s log ev,
    forallb no_hupd_op ops = true -> reach_lin_G ops s log ev ->
    (exists m, spec_run_G (fun _ => None) (ev_ops ops ev) m /\
               (nobody_in s -> forall q, m q = absf (hp s) q)) /\
    NoDup (map fst ev) /\
    (forall i t r, nth_error (thr s) i = Some t -> point_op_G (top t) = true ->
                   CTreeConcAbs.res_of (tpc t) = Some r -> In (i, r) ev)) /\
  (forall ops s1 log1 ev1 s2 log2 ev2 a ta ra b tb o rb,
    forallb no_hupd_op ops = true ->
    reach_lin_G ops s1 log1 ev1 -> run_lin_G ops (s1, log1, ev1) (s2, log2, ev2) ->
    nth_error (thr s1) a = Some ta -> point_op_G (top ta) = true -> tpc ta = PDone ra ->
    nth_error (thr s1) b = Some tb -> tpc tb = PStart o ->
    In (b, rb) ev2 ->
    exists l1 l2 l3, ev2 = l1 ++ (a, ra) :: l2 ++ (b, rb) :: l3) /\
  (forall ops s, reach ops s -> exists log ev, reach_lin_G ops s log ev).
Proof.
  split. { exact linearizable_point_ops. }
  split. { exact lin_real_time_G. }
  exact reach_reach_lin_G.
Qed.
Print Assumptions C10_linearizable_point_ops.

(** non-vacuity of the helping case: GetLeafValue(a/b) gets its node, the whole Delete of
    a/[*] runs, only then the Value read happens -- it answers 1, and its event stands
    before the Delete's in the witness *)
Theorem C10_helping_example :
  (let c := run_G (init_state del_ex_ops, [], []) help_ex_sched in
   (map tpc (thr (fst (fst c))), snd c)
   = ([PDone (XAdd true); PDone (XAdd true); PDone (XPaths [["a"; "b"]; ["a"; "c"]]%string);
       PDone (XAdd true); PDone (XVal (Some 1%Z))],
      [(0%nat, XAdd true); (1%nat, XAdd true); (4%nat, XVal (Some 1%Z));
       (2%nat, XPaths [["a"; "b"]; ["a"; "c"]]%string); (3%nat, XAdd true)])) /\
  (let c := run_G (init_state del_ex_ops, [], []) help_ex_sched in
   reach_lin_G del_ex_ops (fst (fst c)) (snd (fst c)) (snd c)).
Proof. split; [exact help_example|exact help_example_reach]. Qed.
Print Assumptions C10_helping_example.


(** non-vacuity: a run in which a Delete with a glob is interleaved with a blocked Add and
    a GetLeafValue that reads its leaf after it was unlinked; in the middle of the Delete the
    content is neither the old nor the new one; the sequential witness of the whole run *)
Theorem C10_delete_examples :
  (forallb no_hupd_op del_ex_ops = true /\
   reach del_ex_ops (run_sched (init_state del_ex_ops) del_ex_sched2)) /\
  (let s := run_sched (init_state del_ex_ops) del_ex_sched1 in
   (map (fun t => in_delete (tpc t)) (thr s), map (absf (hp s)) [["a"; "b"]; ["a"; "c"]; ["d"]]%string)
   = ([false; false; true; false; false], [None; Some 2%Z; None])) /\
  (let s := run_sched (init_state del_ex_ops) del_ex_sched2 in
   (map tpc (thr s), map (absf (hp s)) [["a"; "b"]; ["a"; "c"]; ["d"]; []]%string)
   = ([PDone (XAdd true); PDone (XAdd true); PDone (XPaths [["a"; "b"]; ["a"; "c"]]%string);
       PDone (XAdd true); PDone (XVal (Some 1%Z))],
      [None; None; Some 3%Z; None])).
Proof.
  split. { exact delete_example_hyps. }
  split. { exact delete_example_mid. }
  exact delete_example_end.
Qed.

(** ... and a Query parked in its visitor that keeps a Delete waiting at the root lock *)
Theorem C10_query_delete_example :
  (let s := run_sched (init_state qd_ex_ops) qd_ex_sched1 in
   map (fun t => (tpc t, held t)) (thr s)
   = [(PDone (XAdd true), []); (PDone (XAdd true), []);
      (PQVisit ["a"; "b"]%string 1 [] [[]; [(3%nat, ["a"; "c"]%string, [])]; []], [(2%nat, MR); (1%nat, MR); (0%nat, MR)]);
      (PLDelAcq ["a"; "b"]%string, [])]) /\
  (let s := run_sched (init_state qd_ex_ops) qd_ex_sched2 in
   (map tpc (thr s), map (absf (hp s)) [["a"; "b"]; ["a"; "c"]]%string)
   = ([PDone (XAdd true); PDone (XAdd true);
       PDone (XLeaves [(["a"; "b"]%string, 1%Z); (["a"; "c"]%string, 2%Z)]); PDone (XPaths [["a"; "b"]%string])],
      [None; Some 2%Z])).
Proof. exact query_delete_example. Qed.
Print Assumptions C10_query_delete_example.
Print Assumptions C10_delete_examples.

(* What is still NOT proved over the LTS (round 5v):
   - programs with Leaf.Update through a handle ([CHUpdate n v] acts on an arbitrary node
     id; the flat specification has no node identities, and the LTS has no call
     "GetLeaf(p).Update(v)" that acquires the handle).  For them: C10_no_data_race,
     C10_delete_atomic, C10_abstraction_step (ae_hupd), reported-once.
   - DeleteConditional with a condition that refuses, WalkDeleted (modelled as Delete with
     the always-true condition).
   Everything else of the property text is a theorem for programs of Add / GetLeafValue /
   Query / Walk / Leaf.Value / Delete: C10_delete_refines_spec, C10_linearizable_point_ops,
   C10_quiescent_serializable, C10_query_stability_with_delete.  The clauses above are
   still judged on every implementation history by the verified checker
   (C10_window_check_linearizable, C10Check.query_ok). *)

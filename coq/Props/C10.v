(** C10 -- path tree is safe and per-path atomic under concurrent use.
    This file holds only the property theorems, each closed by [exact] of a
    lemma proved elsewhere, with [Print Assumptions] beneath. *)
From Gnmi Require Import Base.Prelude CTree.CTreeModel CTree.CTreeCheck CTree.CTreeConc CTree.LinCheck CTree.C10Check.

Theorem C10_lin_check_sound :
  forall (St Op Rt : Type) (sstep : St -> Op -> Rt -> list St) (pure : Op -> Rt -> bool) (s0 : St)
         (h : list (@opr Op Rt)) (fin : St -> bool),
    lin_check sstep pure s0 h fin = true -> linearizable sstep s0 h (fun s => fin s = true).
Proof. exact (@lin_check_sound). Qed.
Print Assumptions C10_lin_check_sound.

(** C10 -- path tree is safe and per-path atomic under concurrent use.
    This file holds only the property theorems, each closed by [exact] of a
    lemma proved elsewhere, with [Print Assumptions] beneath.

    The model is the labelled transition system of CTree/CTreeConc.v: a heap
    of nodes with RWMutex state, one thread per API call, one step per lock
    operation or guarded critical section.  [reach ops s]: state [s] is
    reachable from the empty tree by SOME interleaving of the calls [ops]
    (every schedule, no bound on the number of threads or steps). *)
From Gnmi Require Import Base.Prelude CTree.CTreeModel CTree.CTreeCheck CTree.CTreeConc
  CTree.CTreeConcProofs CTree.CTreeConcLin CTree.CTreeConcAbs CTree.LinCheck CTree.C10Check.

(** lock coupling: a tree operation that holds any lock holds the root lock *)
Theorem C10_lock_coupling :
  forall ops s i t,
    reach ops s -> nth_error (thr s) i = Some t -> is_handle_pc (tpc t) = false ->
    held t <> [] -> exists m, In (0%nat, m) (held t).
Proof. exact lock_coupling. Qed.
Print Assumptions C10_lock_coupling.

(** a call that has returned (normally, with its own error, or with the error of
    a failing VisitFunc: [CQuery q (Some k)]) holds no lock *)
Theorem C10_returned_holds_nothing :
  forall ops s i t,
    reach ops s -> nth_error (thr s) i = Some t -> is_done (tpc t) = true -> held t = [].
Proof. exact returned_holds_nothing. Qed.
Print Assumptions C10_returned_holds_nothing.

(** locks are acquired in strictly increasing node id (= strictly increasing depth) *)
Theorem C10_lock_order :
  forall ops s i t n,
    reach ops s -> nth_error (thr s) i = Some t ->
    (lockop_of t = LRLock n \/ lockop_of t = LReq n \/ lockop_of t = LAcq n) ->
    Forall (fun x => (fst x < n)%nat) (held t).
Proof. exact lock_order. Qed.
Print Assumptions C10_lock_order.

(** no deadlock: while some call has not returned, some thread can step, even
    with every announced writer preferred over arriving readers *)
Theorem C10_deadlock_free :
  forall ops s,
    reach ops s ->
    (exists i t, nth_error (thr s) i = Some t /\ is_done (tpc t) = false) ->
    exists j, enabled_strict s j = true.
Proof. exact deadlock_free. Qed.
Print Assumptions C10_deadlock_free.

(** no data race, unconditionally: no two threads ever stand at conflicting
    content accesses -- leaf/node-handle operations against Delete included *)
Theorem C10_no_data_race :
  forall ops s i j ti tj,
    forallb patched_op ops = true -> reach ops s -> i <> j ->
    nth_error (thr s) i = Some ti -> nth_error (thr s) j = Some tj ->
    race_between (hp s) ti tj = false.
Proof. exact no_data_race_patched. Qed.
Print Assumptions C10_no_data_race.

(** for programs that may also contain the pre-3480f62 Delete: the only
    possible race is a handle operation against that Delete's critical section *)
Theorem C10_no_data_race_any_variant :
  forall ops s i j ti tj,
    reach ops s -> i <> j ->
    nth_error (thr s) i = Some ti -> nth_error (thr s) j = Some tj ->
    race_between (hp s) ti tj = true ->
    (is_handle_pc (tpc ti) = true /\ exists q, tpc tj = PDelCrit q) \/
    (is_handle_pc (tpc tj) = true /\ exists q, tpc ti = PDelCrit q).
Proof. exact no_data_race. Qed.
Print Assumptions C10_no_data_race_any_variant.

(** regression witness for defect C10_1 (fixed by 3480f62): with the old Delete
    ([CDeleteUnlocked]) a handle update races with Delete's critical section *)
Theorem C10_handle_delete_race_refuted :
  exists ops s i j ti tj,
    reach ops s /\ i <> j /\
    nth_error (thr s) i = Some ti /\ nth_error (thr s) j = Some tj /\
    is_handle_pc (tpc ti) = true /\ (exists q, tpc tj = PDelCrit q) /\
    race_between (hp s) ti tj = true.
Proof. exact handle_delete_race_refuted. Qed.
Print Assumptions C10_handle_delete_race_refuted.

(** a Delete that has entered the tree (it holds the root write lock from its
    first to its last critical section) excludes every other tree operation *)
Theorem C10_delete_atomic :
  forall ops s i j ti tj,
    reach ops s -> i <> j ->
    nth_error (thr s) i = Some ti -> nth_error (thr s) j = Some tj ->
    in_delete (tpc ti) = true ->
    (is_handle_pc (tpc tj) = false -> held tj = []) /\ (forall m, ~ In (0%nat, m) (held tj)).
Proof. exact delete_atomic_patched. Qed.
Print Assumptions C10_delete_atomic.

(** more generally, whoever holds the root's write lock excludes them *)
Theorem C10_root_writer_excludes :
  forall ops s i j ti tj,
    reach ops s -> i <> j ->
    nth_error (thr s) i = Some ti -> nth_error (thr s) j = Some tj ->
    In (0%nat, MW) (held ti) ->
    (is_handle_pc (tpc tj) = false -> held tj = []) /\ (forall m, ~ In (0%nat, m) (held tj)).
Proof. exact root_writer_excludes. Qed.
Print Assumptions C10_root_writer_excludes.

(** the re-check after the reader->writer exchange: no step replaces or drops
    an existing child *)
Theorem C10_upgrade_recheck :
  forall ops s i s' p n,
    forallb quiet_op ops = true -> reach ops s -> step s i = Some s' ->
    resolve (hp s) 0 p = Some n -> resolve (hp s') 0 p = Some n.
Proof. exact upgrade_recheck. Qed.
Print Assumptions C10_upgrade_recheck.

(** concurrent adds all survive *)
Theorem C10_concurrent_adds_survive :
  forall ops s i t p v,
    forallb quiet_op ops = true -> reach ops s ->
    nth_error (thr s) i = Some t -> nth_error ops i = Some (CAdd p v) ->
    tpc t = PDone (XAdd true) -> leaf_at (hp s) p.
Proof. exact concurrent_adds_survive. Qed.
Print Assumptions C10_concurrent_adds_survive.

(** linearization points are taken on the CURRENT tree, for ALL programs (Deletes and
    handle updates included): (1) a Get or an Add that has walked part of its path stands
    on the node this prefix leads to now; (2) Get's final read and (3) Add's store act on
    the node stored at the path at that moment *)
Theorem C10_point_ops_on_current_node :
  (forall ops s i t p t0 p',
    reach ops s -> nth_error (thr s) i = Some t -> walk_pos t = Some (p, t0, p') ->
    exists pre, p = pre ++ p' /\ resolve (hp s) 0 pre = Some t0) /\
  (forall ops s i t p t0,
    reach ops s -> nth_error (thr s) i = Some t ->
    top t = CGetVal p -> tpc t = PGetRead t0 [] -> resolve (hp s) 0 p = Some t0) /\
  (forall ops s i t p v t0 v',
    reach ops s -> nth_error (thr s) i = Some t ->
    top t = CAdd p v -> tpc t = PAddTCrit t0 v' -> resolve (hp s) 0 p = Some t0).
Proof.
  split. { exact point_ops_on_current_node. }
  split. { exact get_reads_current_node. }
  exact add_writes_current_node.
Qed.
Print Assumptions C10_point_ops_on_current_node.


(** [absf h p] = the value stored at path p, ignoring locks.  (1) every reachable heap of
    the current code is a tree (unique child names, one parent per node); (2) what ONE step
    does to the abstraction, for ALL programs: nothing; or it is the write step of Add(p,v)
    and the content becomes [upd content p v]; or Leaf.Update through a handle; or a step
    of Delete, which only removes *)
Theorem C10_abstraction_step :
  (forall ops s, forallb patched_op ops = true -> reach ops s -> tree_shape (hp s)) /\
  (forall ops s i s' t,
    forallb patched_op ops = true -> reach ops s ->
    step s i = Some s' -> nth_error (thr s) i = Some t ->
    abs_effect (hp s) (hp s') t).
Proof.
  split. { intros ops s Q R. exact (proj2 (proj2 (reach_TInv ops s Q R))). }
  intros ops s i s' t Q R. exact (step_abs_effect s i s' t (reach_TInv ops s Q R) (reach_val_ok ops s R)).
Qed.
Print Assumptions C10_abstraction_step.


(** the answers at the linearization points agree with the flat specification applied to
    the abstraction: (1) Add's store: no conflict, content becomes upd; (2,3) Add's two ways
    to fail: a stored strict prefix / a stored strict extension; (4) Value() returns what is
    stored at the path at that moment; (5) a failed lookup: nothing is stored there *)
Theorem C10_linearization_points :
  (forall ops s i s' t p v t0,
    forallb patched_op ops = true -> reach ops s ->
    nth_error (thr s) i = Some t -> top t = CAdd p v -> tpc t = PAddTCrit t0 v ->
    is_branch_c (get_cont (hp s) t0) = false -> step s i = Some s' ->
    conflict_free (absf (hp s)) p /\ (forall q, absf (hp s') q = upd (absf (hp s)) p v q)) /\
  (forall ops s i t p v t0 k r v',
    reach ops s -> nth_error (thr s) i = Some t -> top t = CAdd p v ->
    (tpc t = PAddIRead t0 k r v' \/ tpc t = PAddSlow t0 k r v') ->
    (exists w, get_cont (hp s) t0 = CLeaf w) ->
    exists q, strict_prefix q p = true /\ absf (hp s) q <> None) /\
  (forall ops s i t p v t0 v' cs,
    forallb quiet_op ops = true -> reach ops s ->
    nth_error (thr s) i = Some t -> top t = CAdd p v -> tpc t = PAddTCrit t0 v' ->
    get_cont (hp s) t0 = CBranch cs ->
    exists q, strict_prefix p q = true /\ absf (hp s) q <> None) /\
  (forall ops s i t p n,
    forallb quiet_op ops = true -> reach ops s ->
    nth_error (thr s) i = Some t -> top t = CGetVal p -> tpc t = PHValRead n ->
    exists s', step s i = Some s' /\
               nth_error (thr s') i = Some (TH (top t) (PHRel (XVal (absf (hp s) p))) (held t)) /\
               hp s' = hp s) /\
  (forall ops s i t p t0 k r,
    reach ops s -> nth_error (thr s) i = Some t -> top t = CGetVal p -> tpc t = PGetRead t0 (k :: r) ->
    match get_cont (hp s) t0 with CBranch cs => assoc k cs = None | _ => True end ->
    absf (hp s) p = None).
Proof.
  split. { exact add_success_point. }
  split. { exact add_failure_point_leaf_above. }
  split. { exact add_failure_point_branch_at. }
  split. { exact get_hit_point. }
  exact get_miss_point.
Qed.
Print Assumptions C10_linearization_points.






(** (1) programs of Add / GetLeafValue / Query / handle reads: the content is at every
    moment the replay of the write events in their order; (2) quiescent serializability for
    them (in fact at every reachable state): the content is the sequential application of
    distinct Add calls of the program, among them every Add that reported success; (3) with
    Delete in the program (no handle Update): whatever is stored was written by an Add *)
Theorem C10_quiescent_serializable_partial :
  (forall ops s log,
    forallb quiet_op ops = true -> reach_log ops s log ->
    forall q, absf (hp s) q = apply_log log q) /\
  (forall ops s,
    forallb quiet_op ops = true -> reach ops s ->
    exists order : list (nat * path * Z),
      NoDup (map (fun e => fst (fst e)) order) /\
      (forall i p v, In (i, p, v) order -> nth_error ops i = Some (CAdd p v)) /\
      (forall i t p v, nth_error (thr s) i = Some t -> nth_error ops i = Some (CAdd p v) ->
                       tpc t = PDone (XAdd true) -> In (i, p, v) order) /\
      (forall q, absf (hp s) q = apply_log order q)) /\
  (forall ops s log,
    forallb no_hupd_op ops = true -> reach_log ops s log ->
    forall q v, absf (hp s) q = Some v -> exists i, In (i, q, v) log).
Proof.
  split. { exact content_is_log. }
  split. { exact quiescent_serializable_adds. }
  exact stored_was_added.
Qed.
Print Assumptions C10_quiescent_serializable_partial.


(** linearizability of Add / GetLeafValue (programs without Delete and handle Update) by
    forward simulation to the flat prefix-free map of C09.  [reach_lin ops s log ev]: a run
    to [s] with the sequence [ev] of linearization events (thread, answer).
    (1) sequential witness: the events with the calls' answers are a run of the
    specification from the empty map ending in the abstraction of the current heap;
    (2) every call that has its answer is in the sequence with that answer; (3) at most
    once; (4) real-time order: a call that returned before another was invoked precedes it;
    (5) every run has such an instrumented version; (6) the chain an Add inserts stays
    private until it returns: its final store finds its own value *)
Theorem C10_linearizable_add_get :
  (forall ops s log ev,
    forallb quiet_op ops = true -> reach_lin ops s log ev ->
    exists m, spec_run (fun _ => None) (ev_ops ops ev) m /\ forall q, m q = absf (hp s) q) /\
  (forall ops s log ev,
    reach_lin ops s log ev -> forall i t r,
    nth_error (thr s) i = Some t -> point_op (top t) = true -> CTreeConcAbs.res_of (tpc t) = Some r -> In (i, r) ev) /\
  (forall ops s log ev,
    forallb quiet_op ops = true -> reach_lin ops s log ev -> NoDup (map fst ev)) /\
  (forall ops s1 log1 ev1 s2 log2 ev2 a ta ra b tb o rb,
    forallb quiet_op ops = true ->
    reach_lin ops s1 log1 ev1 -> run_lin ops (s1, log1, ev1) (s2, log2, ev2) ->
    nth_error (thr s1) a = Some ta -> point_op (top ta) = true -> tpc ta = PDone ra ->
    nth_error (thr s1) b = Some tb -> tpc tb = PStart o ->
    In (b, rb) ev2 ->
    exists l1 l2 l3, ev2 = l1 ++ (a, ra) :: l2 ++ (b, rb) :: l3) /\
  (forall ops s, reach ops s -> exists log ev, reach_lin ops s log ev) /\
  (forall ops s log i t p v t0 v',
    forallb quiet_op ops = true -> reach_log ops s log ->
    nth_error (thr s) i = Some t -> top t = CAdd p v -> tpc t = PAddTCrit t0 v' ->
    In (i, p, v) log ->
    get_cont (hp s) t0 = CLeaf v /\ absf (hp s) p = Some v).
Proof.
  split. { exact lin_simulation. }
  split. { exact lin_complete. }
  split. { exact lin_unique. }
  split. { exact lin_real_time. }
  split. { exact reach_reach_lin. }
  exact add_rewalk_store_is_noop.
Qed.
Print Assumptions C10_linearizable_add_get.


(** query stability (programs without Delete / handle Update): (1) what a Query / Walk
    reports is stored, with that value, at the moment of the report; (2) it reports every
    leaf that matches it and was stored when it was invoked (such a leaf stays stored) *)
Theorem C10_query_stability :
  (forall ops s i t t0 pre q acc fr v,
    forallb quiet_op ops = true -> reach ops s ->
    nth_error (thr s) i = Some t -> tpc t = PQRead t0 pre q acc fr ->
    query_visits (get_cont (hp s) t0) q = Some v ->
    absf (hp s) pre = Some v /\
    (exists s', step s i = Some s' /\
       exists t', nth_error (thr s') i = Some t' /\ tpc t' = PQVisit pre v acc ([] :: fr))) /\
  (forall ops s1 s2 i t1 t2 q acc,
    forallb quiet_op ops = true -> reach ops s1 -> steps s1 s2 ->
    nth_error (thr s1) i = Some t1 -> tpc t1 = PStart (CQuery q None) ->
    nth_error (thr s2) i = Some t2 -> tpc t2 = PDone (XLeaves acc) ->
    forall pth, absf (hp s1) pth <> None -> qmatch q pth = true -> In pth (map fst acc)).
Proof.
  split. { exact query_reports_present. }
  exact query_reports_all.
Qed.
Print Assumptions C10_query_stability.


(** the executable linearizability checker is sound (this is K_P) *)
Theorem C10_lin_check_sound :
  forall (St Op Rt : Type) (sstep : St -> Op -> Rt -> list St) (pure : Op -> Rt -> bool) (s0 : St)
         (h : list (@opr Op Rt)) (fin : St -> bool),
    lin_check sstep pure s0 h fin = true -> linearizable sstep s0 h (fun s => fin s = true).
Proof. exact (@lin_check_sound). Qed.
Print Assumptions C10_lin_check_sound.

(** an accepted window of observations is linearizable w.r.t. the flat
    prefix-free map of C09 and ends in the observed content
    (= quiescent serializability of what the implementation did) *)
Theorem C10_window_check_linearizable :
  forall s0 ops final,
    window_check s0 ops final = [] ->
    linearizable spec_step s0 (filter (fun o => negb (is_query o)) ops)
                 (fun f => same_content f final = true).
Proof. exact window_check_linearizable. Qed.
Print Assumptions C10_window_check_linearizable.

(** while a Delete is inside the tree nobody else changes the stored content
    (programs without Leaf.Update through a handle): between its first and its
    last critical section the only abstract changes are Delete's own removals *)
Theorem C10_delete_excludes_writers :
  forall ops s d td j s' tj,
    forallb no_hupd_op ops = true -> reach ops s ->
    nth_error (thr s) d = Some td -> in_delete (tpc td) = true ->
    d <> j -> nth_error (thr s) j = Some tj -> step s j = Some s' ->
    forall q, absf (hp s') q = absf (hp s) q.
Proof. exact delete_excludes_writers. Qed.
Print Assumptions C10_delete_excludes_writers.

(* What is still NOT proved over the LTS:
   - linearizable_point_ops WITH Delete: Delete's critical sections (one per
     visited node, all under the root write lock, C10_delete_atomic) are shown
     to only remove (C10_abstraction_step, ae_remove), to be the only abstract
     changes while the Delete is inside the tree (C10_delete_excludes_writers)
     and to act on locked nodes
     (C10_no_data_race); that their net effect and the returned paths are the
     specification's [fkeep]/[fselect] -- a refinement of the frame machine
     PLVisit/PLNext/PLBack to CTreeModel.del_node -- is not proved.
     Full statement:
       forall ops s log ev, forallb patched_op ops = true -> reach_lin' ops s log ev ->
         exists m, spec_run' (fun _ => None) (ev_ops ops ev) m /\ forall q, m q = absf (hp s) q
     with spec_run' extended by  Delete q / XPaths (map fst (select q m)) / keep q m.
   - quiescent_serializable with Delete (follows from the above).
   - query_stability in the presence of Delete / handle Update (both halves are
     proved for programs without them: C10_query_stability_partial = soundness,
     C10_query_stability_complete = completeness).
   These clauses are judged on every implementation history by the verified
   checker (C10_window_check_linearizable, C10Check.query_ok). *)

(** C07 -- subscribers never receive data for targets their ACL denies.
    Only the property theorems, each closed by [exact] of a lemma proved in
    Subscribe/SubProofs.v, with [Print Assumptions] beneath.

    The ACL oracle is the universally quantified [allow : user -> target -> bool]
    (section variable of SubModel.v); [ACLUser None] = an ACL is installed but
    NewRPCACL fails, [ACLUser (Some u)] = the per-RPC ACL of user [u], [NoACL] =
    no ACL installed.  A script is any list of cache operations (updates,
    deletes, atomic containers, target removal), the Subscribe call and poll
    triggers; [run] yields, per step, the group of responses sent. *)
From Gnmi Require Import Base.Prelude CTree.CTreeModel Subscribe.SubModel Subscribe.SubProofs
  Subscribe.C05Check Subscribe.C07Check Subscribe.SubCheckProofs.

Theorem C07_unauthenticated_if_no_rpcacl :
  forall allow rq c pre post,
    no_sub pre ->
    let r := run allow (ACLUser None) rq (RS c PBefore) (pre ++ SSub :: post) in
    silent (fst r) /\ final_status (rs_phase (snd r)) = SUnauthenticated.
Proof. exact unauthenticated_if_no_rpcacl. Qed.
Print Assumptions C07_unauthenticated_if_no_rpcacl.

Theorem C07_single_target_denied_no_data :
  forall allow u rq pf c pre post,
    no_sub pre -> accepted (cache_after c pre) rq pf ->
    g_target pf <> "*" -> allow u (g_target pf) = false ->
    let r := run allow (ACLUser (Some u)) (Some rq) (RS c PBefore) (pre ++ SSub :: post) in
    silent (fst r) /\ final_status (rs_phase (snd r)) = SPermissionDenied.
Proof. exact single_target_denied_no_data. Qed.
Print Assumptions C07_single_target_denied_no_data.

(** every update/delete response in every group of every script, from every
    state (all modes, snapshot, streamed updates, deletes, target removal), has
    a prefix target that the user's ACL allows *)
Theorem C07_never_sends_denied :
  forall allow u rq st ops g n,
    In g (fst (run allow (ACLUser (Some u)) rq st ops)) -> In (RUpd n) (fst g) ->
    allow u (g_target (n_prefix n)) = true.
Proof. exact never_sends_denied_user. Qed.
Print Assumptions C07_never_sends_denied.

(** everything for authorised targets is still delivered: the run with the ACL
    is the run without ACL with the denied responses filtered out, group by
    group, with the same cache-operation outcomes and the same final state *)
Theorem C07_allowed_complete :
  forall allow u rq st ops,
    admits allow u rq ->
    let a := ACLUser (Some u) in
    map fst (fst (run allow a rq st ops))
      = map (fun g => send_filter allow a (fst g)) (fst (run allow NoACL rq st ops))
    /\ map snd (fst (run allow a rq st ops)) = map snd (fst (run allow NoACL rq st ops))
    /\ snd (run allow a rq st ops) = snd (run allow NoACL rq st ops).
Proof. exact allowed_complete. Qed.
Print Assumptions C07_allowed_complete.

(** without an ACL nothing is filtered *)
Theorem C07_no_acl_sends_everything :
  forall allow l, send_filter allow NoACL l = l.
Proof. exact send_filter_noacl. Qed.
Print Assumptions C07_no_acl_sends_everything.

(** soundness of the executable specification applied to the implementation's
    observations (C07Check.kp_c07) *)
Theorem C07_kp_sound :
  forall cs tbl u,
    c_acl cs = Some tbl -> c_user cs = Some u -> has_sub_step (c_ops cs) = true ->
    has_acl_step (c_ops cs) = false ->
    kp_c07 cs = [] ->
    forall ob n d, In ob (c_obs cs) -> In (OUpd n d) (ob_group ob) ->
                   allow_of tbl u (g_target (n_prefix n)) = true.
Proof. exact kp_c07_sound. Qed.
Print Assumptions C07_kp_sound.

Theorem C07_kp_sound_unauthenticated :
  forall cs tbl,
    c_acl cs = Some tbl -> c_user cs = None -> has_sub_step (c_ops cs) = true ->
    kp_c07 cs = [] ->
    status_eqb (c_status cs) SUnauthenticated = true /\ groups_empty (c_obs cs) = true.
Proof. exact kp_c07_sound_unauthenticated. Qed.
Print Assumptions C07_kp_sound_unauthenticated.

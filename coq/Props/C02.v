(** C02 -- cache keeps the newest value per leaf (timestamp discipline).
    Only property theorems, each closed by [exact] of a lemma proved
    elsewhere, with [Print Assumptions] beneath. *)
From Gnmi Require Import Base.Prelude CTree.CTreeModel Path.PathModel Cache.CacheModel Cache.CacheProofs.

Theorem C02_check_timestamp_ge :
  forall t ts z, t_ts (check_timestamp t ts) = Some z -> (ts <= z)%Z.
Proof. exact check_timestamp_ge. Qed.
Print Assumptions C02_check_timestamp_ge.

(** C02 -- cache keeps the newest value per leaf (timestamp discipline).
    Only property theorems, each closed by [exact] of a lemma proved
    elsewhere, with [Print Assumptions] beneath. *)
From Gnmi Require Import Base.Prelude CTree.CTreeModel Path.PathModel Cache.CacheModel.

Theorem C02_check_timestamp_monotone :
  forall t ts z, t_ts (check_timestamp t ts) = Some z -> (ts <= z)%Z.
Proof.
  intros t ts z. unfold check_timestamp. destruct (t_ts t) as [z0|] eqn:E; cbn.
  - destruct (Z.ltb_spec z0 ts); cbn; intros H.
    + inversion H; lia.
    + rewrite E in H. inversion H; lia.
  - intros H; inversion H; lia.
Qed.
Print Assumptions C02_check_timestamp_monotone.

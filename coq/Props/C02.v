(** C02 -- cache keeps the newest value per leaf (timestamp discipline).
    Only the property theorems, each closed by [exact] of a lemma proved in
    Cache/CacheProofs.v, with [Print Assumptions] beneath.

    Vocabulary (CacheModel.v / CacheProofs.v): a history is a list of
    (clock reading, notification); [trun t H] runs Target.GnmiUpdate over it;
    [clean_history t H]: no call panicked or refused a unit for a schema
    collision; [project t H q]: the events of H that concern index path q
    ([LUpd now latest m]: a unit m addressed to q, with the clock and the
    target's latest accepted timestamp at that moment; [LDel T]: a delete at
    time T whose path matches q); [spec_leaf] folds the four-line rule
    [spec_leaf_step] over them. *)
From Gnmi Require Import Base.Prelude CTree.CTreeModel CTree.CTreeProofs Path.PathModel
  Cache.CacheModel Cache.CacheProofs Cache.C02Check Cache.C03Check Cache.FeedReplay Cache.C02History.
Local Open Scope Z_scope.

(** the refinement: for EVERY history on a fresh target and EVERY index path,
    the leaf holds exactly what the per-leaf rule computes from the events
    that concern it (hence also: what has no event does not change) *)
Theorem C02_leaf_holds_newest :
  forall name cfg (H : hist) (q : path),
    clean_history (new_target name cfg) H ->
    lookup (t_tree (trun (new_target name cfg) H)) q =
    spec_leaf (cfg_future_threshold cfg) (project (new_target name cfg) H q).
Proof. exact leaf_holds_newest. Qed.
Print Assumptions C02_leaf_holds_newest.

(** round 7: the refinement over ALL histories in which no call panics (panics
    are C12's).  Units refused for a leaf/branch collision are dropped from
    the projection, and WHICH units are refused is decided by the
    specification side alone: [project_all] threads a flat map (moved only by
    [spec_leaf_step], [C02History.funit]) and drops an update unit iff its
    index path is a strict prefix of, or strictly extends, a path stored in
    that flat map ([C02History.refused] = K_P's [sconflict]); stale, future,
    invalid-path and wrong-type units need no hypothesis at all.  Second
    conjunct: the flat map itself ([frun]) holds exactly the tree's leaves.
    Witness history with a collision, a stale unit and a delete:
    [C02History.ex_hist_all_hyps], [ex_hist_all_events]. *)
Theorem C02_leaf_holds_newest_all :
  forall name cfg (H : hist) (q : path),
    no_panic_history (new_target name cfg) H ->
    lookup (t_tree (trun (new_target name cfg) H)) q =
    spec_leaf (cfg_future_threshold cfg)
              (project_all (cfg_future_threshold cfg) (new_target name cfg) [] H q) /\
    lookup (t_tree (trun (new_target name cfg) H)) q =
    slookup (frun (cfg_future_threshold cfg) (new_target name cfg) [] H) q.
Proof. exact leaf_holds_newest_all. Qed.
Print Assumptions C02_leaf_holds_newest_all.

(** round 7b: the same with NO model state on the right-hand side.  The latest
    accepted timestamp (reference of the future guard) is threaded on the
    specification side too: after a notification it becomes
    max(latest, n_ts) exactly when the notification is tracked ([tracks_ts]: a
    function of the notification alone) and accepted, i.e. some update unit of
    it, met in the flat map its predecessors left, is neither refused nor kept
    out by the four-line rule ([C02History.units_accept]); it moves only after
    the whole notification ([slatest_next]).  [project_spec], [sfrun],
    [slatest] take the threshold, the history and the index path only.  Third
    conjunct: the model's [t_ts] IS the specification's latest.  Witness:
    [C02History.ex_hist_spec_events]. *)
Theorem C02_leaf_holds_newest_spec :
  forall name cfg (H : hist) (q : path),
    no_panic_history (new_target name cfg) H ->
    lookup (t_tree (trun (new_target name cfg) H)) q =
      spec_leaf (cfg_future_threshold cfg) (project_spec (cfg_future_threshold cfg) None [] H q) /\
    lookup (t_tree (trun (new_target name cfg) H)) q =
      slookup (sfrun (cfg_future_threshold cfg) None [] H) q /\
    t_ts (trun (new_target name cfg) H) = slatest (cfg_future_threshold cfg) None [] H.
Proof. exact leaf_holds_newest_spec. Qed.
Print Assumptions C02_leaf_holds_newest_spec.

(** the same from any well-formed state (any reachable tree) *)
Theorem C02_leaf_holds_newest_from :
  forall t (H : hist) (q : path),
    wf_tree (t_tree t) -> clean_history t H ->
    lookup (t_tree (trun t H)) q =
    fold_left (spec_leaf_step (thr_of t)) (project t H q) (lookup (t_tree t) q).
Proof. exact leaf_holds_newest_from. Qed.
Print Assumptions C02_leaf_holds_newest_from.

(** one notification (single, multi, atomic, delete, empty) acts on every leaf
    as the fold of its units' events, updates first, then deletes *)
Theorem C02_notification_is_event_fold :
  forall t now n t' fd r,
    wf_tree (t_tree t) -> target_gnmi_update t now n = (t', fd, r) -> clean r ->
    wf_tree (t_tree t') /\ t_cfg t' = t_cfg t /\ t_name t' = t_name t /\
    forall q, lookup (t_tree t') q = lookup_after t now q (units n) (lookup (t_tree t) q).
Proof. exact notif_leaf. Qed.
Print Assumptions C02_notification_is_event_fold.

Theorem C02_stale_rejected_noop :
  forall t now n u us p old,
    n_upd n = u :: us -> unit_index n = Ok p -> p <> [] -> is_real p = true ->
    lookup (t_tree t) p = Some old ->
    (n_ts n < n_ts old \/ (n_ts n = n_ts old /\ notif_eqb old n = true)) ->
    gnmi_update1 t now n = (add_int t md_stale_count 1, Err err_stale).
Proof. exact stale_rejected_noop. Qed.
Print Assumptions C02_stale_rejected_noop.

Theorem C02_equal_ts_replaces :
  forall t now n u us p old t' r,
    wf_tree (t_tree t) ->
    n_upd n = u :: us -> unit_index n = Ok p -> p <> [] -> is_real p = true ->
    lookup (t_tree t) p = Some old ->
    n_ts n = n_ts old -> notif_eqb old n = false ->
    gnmi_update1 t now n = (t', r) ->
    r <> Err err_stale /\ r <> Err err_future /\ ~ collision r /\
    lookup (t_tree t') p = Some n /\
    forall q, q <> p -> lookup (t_tree t') q = lookup (t_tree t) q.
Proof. exact equal_ts_replaces. Qed.
Print Assumptions C02_equal_ts_replaces.

Theorem C02_future_rejected_noop :
  forall t now n u us p old,
    n_upd n = u :: us -> unit_index n = Ok p -> p <> [] -> is_real p = true ->
    lookup (t_tree t) p = Some old ->
    n_ts old < n_ts n ->
    future_guard (thr_of t) now (t_ts t) (n_ts n) = true ->
    gnmi_update1 t now n = (add_int t md_future_count 1, Err err_future).
Proof. exact future_rejected_noop. Qed.
Print Assumptions C02_future_rejected_noop.

Theorem C02_newer_accepted :
  forall t now n u us p t' r,
    wf_tree (t_tree t) ->
    n_upd n = u :: us -> unit_index n = Ok p -> p <> [] -> is_real p = true ->
    (lookup (t_tree t) p = None \/
     exists old, lookup (t_tree t) p = Some old /\ n_ts old < n_ts n /\
                 future_guard (thr_of t) now (t_ts t) (n_ts n) = false) ->
    gnmi_update1 t now n = (t', r) -> ~ collision r ->
    lookup (t_tree t') p = Some n.
Proof. exact newer_accepted. Qed.
Print Assumptions C02_newer_accepted.

Theorem C02_delete_exact :
  forall t n p t' r,
    wf_tree (t_tree t) -> del_ok n = Some p -> gnmi_remove t n = (t', r) ->
    (forall s, lookup (t_tree t') s =
               match lookup (t_tree t) s with
               | Some v => if qmatch p s && Z.ltb (n_ts v) (n_ts n) then None else Some v
               | None => None
               end) /\
    exists removed, r = Ok removed /\
      forall v, In v removed <->
                exists s, lookup (t_tree t) s = Some v /\ qmatch p s = true /\ n_ts v < n_ts n.
Proof. exact delete_exact. Qed.
Print Assumptions C02_delete_exact.

Theorem C02_collision_rejected_noop :
  forall t now n u us p t' r,
    n_upd n = u :: us -> unit_index n = Ok p -> p <> [] -> is_real p = true ->
    gnmi_update1 t now n = (t', r) -> collision r -> t' = t.
Proof. exact collision_rejected_noop. Qed.
Print Assumptions C02_collision_rejected_noop.

Theorem C02_collision_iff :
  forall t now n u us p t' r,
    wf_tree (t_tree t) ->
    n_upd n = u :: us -> unit_index n = Ok p -> p <> [] -> is_real p = true ->
    gnmi_update1 t now n = (t', r) ->
    (collision r <->
     exists q w, lookup (t_tree t) q = Some w /\ (strict_prefix q p = true \/ strict_prefix p q = true)).
Proof. exact collision_iff. Qed.
Print Assumptions C02_collision_iff.

(** the latest accepted timestamp (reference of the future guard) only grows,
    and only to the timestamp of the notification being processed *)
Theorem C02_latest_step :
  forall t now n,
    let t' := fst (fst (target_gnmi_update t now n)) in
    t_ts t' = t_ts t \/
    (t_ts t' = Some (n_ts n) /\ tracks_ts n = true /\
     match t_ts t with Some z => z < n_ts n | None => True end).
Proof. exact latest_step. Qed.
Print Assumptions C02_latest_step.

(** K_P (the executable specification run on the implementation's answers)
    applies the very rule the theorems are about *)
Theorem C02_K_leaf_rule_sound :
  forall thr now latest old m,
    match fst (leaf_update thr now latest old m) with
    | Some v => Some v
    | None => old
    end = spec_leaf_step thr old (LUpd now latest m).
Proof. exact K_leaf_rule_sound. Qed.
Print Assumptions C02_K_leaf_rule_sound.

Theorem C02_K_leaf_class_sound :
  forall thr now latest o m,
    snd (leaf_update thr now latest (Some o) m) =
    if Z.ltb (n_ts m) (n_ts o) then RStale
    else if Z.eqb (n_ts m) (n_ts o) then (if notif_eqb o m then RStale else ROk)
    else if future_guard thr now latest (n_ts m) then RFuture else ROk.
Proof. exact K_leaf_class_sound. Qed.
Print Assumptions C02_K_leaf_class_sound.

(** two concurrent writers of one target: with the per-target write lock held
    across [decide; write; announce] (b865e5c) every schedule of the two
    critical sections ends in the state and feed of one of the two sequential
    orders, for ANY sequential call semantics [f] ... *)
Theorem C02_locked_writers_serialise :
  forall (S F O : Type) (f : S -> O -> S * list F) (op : bool -> O) (s0 : S) sched st,
    trun2 f op true sched (tinit s0) = Some st ->
    (sh st, fd st) = seqrun f op s0 (ord st) /\
    (w_pc (wt st) = 4%nat -> w_pc (wf st) = 4%nat -> ord st = [true; false] \/ ord st = [false; true]).
Proof. intros S F O f op s0 sched st. exact (locked_writers_serialise f op s0 true sched st eq_refl). Qed.
Print Assumptions C02_locked_writers_serialise.

(** ... in particular for two calls on the cache model *)
Theorem C02_cache_writers_serialise :
  forall (c0 : cache) (a b : cop) sched st,
    trun2 (fun c o => let '(c', _, mf) := mstep c o in (c', cfeed mf)) (fun i : bool => if i then a else b) true
          sched (tinit c0) = Some st ->
    w_pc (wt st) = 4%nat -> w_pc (wf st) = 4%nat ->
    let g := fun c o => let '(c', _, mf) := mstep c o in (c', cfeed mf) in
    (sh st, fd st) = seqrun g (fun i : bool => if i then a else b) c0 [true; false] \/
    (sh st, fd st) = seqrun g (fun i : bool => if i then a else b) c0 [false; true].
Proof. exact cache_writers_serialise. Qed.
Print Assumptions C02_cache_writers_serialise.

(** ... and without the lock the decision is stale at commit time (refuted:
    stored 50, writers 100 and 200, the leaf ends at 100) *)
Theorem C02_unlocked_lost_update :
  let f := fun (s v : Z) => if Z.ltb s v then (v, [v]) else (s, []) in
  let op := fun i : bool => if i then 100 else 200 in
  exists sched st,
    trun2 f op false sched (tinit 50) = Some st /\
    w_pc (wt st) = 4%nat /\ w_pc (wf st) = 4%nat /\
    (sh st, fd st) <> seqrun f op 50 [true; false] /\
    (sh st, fd st) <> seqrun f op 50 [false; true] /\ sh st = 100.
Proof. exact unlocked_lost_update. Qed.
Print Assumptions C02_unlocked_lost_update.

(** round 7b: K_P's "tracked" test is the one of the specification's latest rule *)
Theorem C02_K_tracks_sound : forall n, stracks n = tracks_ts n.
Proof. exact K_tracks_sound. Qed.
Print Assumptions C02_K_tracks_sound.

(** C15 (placeholder, replaced below) *)
From Gnmi Require Import Base.Prelude Latency.LatencyModel.
Theorem C15_lat_new_empty : forall sizes p, l_count (lat_new sizes p) = 0%Z.
Proof. reflexivity. Qed.
Print Assumptions C15_lat_new_empty.

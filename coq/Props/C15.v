(** C15: per-target metadata counters and latency statistics are truthful.

    Counter laws over CacheModel.v ([D t t' k] = movement of counter [k], read
    with "unset = 0"), latency bounds over LatencyModel.v (unbounded Z), and the
    lockset annotation of the fields shared with the periodic refresh. *)
From Gnmi Require Import Base.Prelude CTree.CTreeModel Path.PathModel Cache.CacheModel
  Cache.MultiCache Cache.C14Proofs Cache.C14Check Cache.C15Check Cache.C15Proofs Cache.C15Count Cache.C15Latest Cache.C15History Cache.C15KSound Cache.C15CounterReset Latency.LatencyModel Latency.LatencyProofs.
Local Open Scope Z_scope.

(** update_accounting.  Reading fixed in DESIGN section 6: the law is per
    ingest unit -- a single update, each update and each delete of a multi
    notification, or one atomic group, which weighs its number of updates in
    [updated] but 1 in stale / future.  [law t t' u w errs]: there are a, s >= 0
    with updated moved by w*a, suppressed by s, stale / future by the number of
    stale / future errors returned, empty by 0, and
    a + s + #stale + #future + #other errors = u.
    Hypothesis [no_counter_reset]: no delete of the notification is addressed
    to the metadata leaf of one of the counters themselves (gnmiRemove resets
    the counter a delete of [meta/<counter>] names). *)
Theorem C15_update_accounting : forall t now n t' fd r,
  target_gnmi_update t now n = (t', fd, r) -> (forall w, r <> GPanic w) ->
  Forall (no_counter_reset (n_prefix n)) (n_del n) ->
  match units n with
  | None => forall k, In k counters -> D t t' k = 0
  | Some (u, w) =>
      if Z.eqb u 0
      then D t t' md_empty_count = 1 /\
           forall k, In k counters -> k <> md_empty_count -> D t t' k = 0
      else law t t' u w (errs_of r)
  end.
Proof. exact update_accounting. Qed.
Print Assumptions C15_update_accounting.

(** one unit inside gnmiUpdate: exactly the counter of its fate moves, and the
    leaf counters move (together) only when a new non-metadata leaf is created *)
Theorem C15_unit_accounting : forall t now n t' r,
  gnmi_update1 t now n = (t', r) ->
  exists real_new, unit_moves (t_meta t) (t_meta t') real_new (fate_of r).
Proof. exact gnmi_update1_moves. Qed.
Print Assumptions C15_unit_accounting.

(** leafcount_add_minus_del: across every notification the leaf count moves
    by (added - deleted) *)
Theorem C15_leafcount_add_minus_del : forall t now n t' fd r,
  target_gnmi_update t now n = (t', fd, r) -> (forall w, r <> GPanic w) ->
  Forall (no_counter_reset (n_prefix n)) (n_del n) ->
  D t t' md_leaf_count = D t t' md_add_count - D t t' md_del_count.
Proof. exact leafcount_add_minus_del_step. Qed.
Print Assumptions C15_leafcount_add_minus_del.

(** leafcount_is_tree: after every history of calls (GnmiUpdate, Reset, Remove,
    Add, Sync, Connect, ConnectError, UpdateMetadata, UpdateSize, subscribing)
    none of which panics, deletes the metadata leaf of a counter itself or adds
    a target with the empty name, for every target the exported leaf count
    equals the number of leaves stored outside "meta" ([real_count] = length of
    [filter (not under meta) (walk tree)]).  This was false before ccc875e
    (DESIGN 7.11, found by this check: ConnectError; Connect gave -1). *)
Theorem C15_leafcount_is_tree : forall cfg names ops,
  ~ In ""%string names -> good_run (new_cache cfg names) ops ->
  forall name t, assoc name (c_targets (crun (new_cache cfg names) ops)) = Some t ->
    gi (t_meta t) md_leaf_count = real_count (t_tree t).
Proof. exact leafcount_is_tree. Qed.
Print Assumptions C15_leafcount_is_tree.

(** its two local halves: gnmiRemove subtracts exactly the removed leaves not
    under "meta"; gnmiUpdate keeps (count - stored) unchanged *)
Theorem C15_leafcount_remove : forall t n d ds t' r,
  n_del n = d :: ds -> no_counter_reset (n_prefix n) d ->
  gnmi_remove t n = (t', r) -> (forall w, r <> Panic w) ->
  exists removed, r = Ok removed /\
    forall k', In k' counters ->
      gi (t_meta t') k' = gi (t_meta t) k' +
        (if String.eqb k' md_leaf_count then - counted removed
         else if String.eqb k' md_del_count then counted removed else 0).
Proof. exact gnmi_remove_moves. Qed.
Print Assumptions C15_leafcount_remove.

Theorem C15_leafcount_update : forall t now n t' r,
  struct_inv (t_tree t) -> gnmi_update1 t now n = (t', r) ->
  struct_inv (t_tree t') /\ off t' = off t /\
  (forall p, unit_index n = Ok p -> is_real p = false ->
             gi (t_meta t') md_leaf_count = gi (t_meta t) md_leaf_count).
Proof. exact gnmi_update1_off. Qed.
Print Assumptions C15_leafcount_update.

(** latest_is_max: the latest timestamp never decreases, and moves only to the
    timestamp of a notification whose first update is tracked ([tracks_ts]: the
    index path -- prefix + first update path, the prefix alone when atomic -- is
    not under "meta"; since a096aa9, the fix of DESIGN 7.12 found by this check) *)
Theorem C15_latest_step : forall t now n t' fd r,
  target_gnmi_update t now n = (t', fd, r) ->
  (t_ts t' = t_ts t \/
   (tracks_ts n = true /\ t_ts t' = Some (n_ts n) /\ forall z, t_ts t = Some z -> z < n_ts n)) /\
  ts_le (t_ts t) (t_ts t').
Proof. exact latest_step. Qed.
Print Assumptions C15_latest_step.

(** ... an accepted tracked update brings it to at least its own timestamp, a
    rejected one leaves it alone *)
Theorem C15_latest_single : forall t now n u t' fd r,
  n_atomic n = false -> n_upd n = [u] -> n_del n = [] ->
  target_gnmi_update t now n = (t', fd, r) ->
  match r with
  | GOk => tracks_ts n = true -> ts_le (Some (n_ts n)) (t_ts t')
  | _ => t_ts t' = t_ts t
  end.
Proof. exact latest_single. Qed.
Print Assumptions C15_latest_single.

(** latency_bounds: after any history of Compute / UpdateReset / UpdateLast
    with non-decreasing update times on a fresh Latency, whatever the next
    update writes for a window: max and min are samples of the retained slots,
    the average lies strictly within (min S - p, max S + p) for the scaling
    factor p (the precision), nothing is written from an empty sample set, and
    the retained slots are exactly those closed after [t - window] *)
Theorem C15_latency_bounds : forall sizes p ops t ignore,
  0 <= p -> mono_from 0 ops -> last_update 0 ops <= t ->
  let l := lrun (lat_new sizes p) ops in
  Forall2 (fun w' o => forall st, o = Some st ->
             stats_bounded w' st /\
             Forall (fun s => t - w_size w' < sl_end s) (w_slots w'))
          (l_windows (fst (lat_update l t ignore))) (snd (lat_update l t ignore)).
Proof. exact latency_bounds. Qed.
Print Assumptions C15_latency_bounds.

Theorem C15_latency_avg_arith : forall sf S lo hi,
  1 <= sf -> S <> [] -> (forall d, In d S -> lo <= d <= hi) ->
  lo - sf < Z.quot (sumq sf S) (Z.of_nat (List.length S)) * sf < hi + sf.
Proof. exact avg_bounds. Qed.
Print Assumptions C15_latency_avg_arith.

(** "without unsynchronised access": over the lockset annotation of the access
    sites ([C15Proofs.accesses]: field, read/write, which of the two goroutines
    -- update stream, periodic refresh -- reaches the site, mutexes held) every
    conflicting pair shares a mutex, for every shared field (sync, ts, metadata
    values, latency accumulators, tree).  True since b865e5c (Target.wmu); the
    annotation without it is refuted in [lockset_before_wmu_refuted] (former
    known finding 7.13).  That the annotation matches the code is validated
    only by the race detector (thorough tier). *)
Theorem C15_no_unprotected_access : forall f, no_unprotected_access f = true.
Proof. exact lockset_all. Qed.
Print Assumptions C15_no_unprotected_access.

(** ... and the coupled state (tree and the incrementally maintained leaf
    counters) is written only under the target's write lock, held exclusively:
    what a location-wise lockset cannot express (a recount by the periodic
    UpdateSize under the metadata mutex alone passes the lockset and loses
    updates: [recount_outside_wmu_refuted]) *)
Theorem C15_coupled_writes_serialised : coupled_writes_serialised accesses = true.
Proof. exact coupled_writes_all. Qed.
Print Assumptions C15_coupled_writes_serialised.

(** soundness of the executable specification used on the implementation's
    exported statistics (tag 6) *)
Theorem C15_K_latency_sound : forall S p st,
  p <> 0 -> kp_window S p (Some st) = true ->
  match zmin_list S, zmax_list S with
  | Some lo, Some hi =>
      (forall v, ws_max st = Some v -> lo <= v <= hi) /\
      (forall v, ws_min st = Some v -> lo <= v <= hi) /\
      (forall v, ws_avg st = Some v -> lo - p < v < hi + p)
  | _, _ => ws_avg st = None /\ ws_max st = None /\ ws_min st = None
  end.
Proof. exact kp_window_sound. Qed.
Print Assumptions C15_K_latency_sound.

(** latest_is_max, exact one-call form (round 7): after ANY notification
    (single, multi, atomic, delete, empty; panicking calls included) the latest
    timestamp is max(old, n.timestamp) exactly when the notification is tracked
    (index path of its FIRST update not under "meta": the first update decides
    for the whole notification) and accepted ([C15Latest.accepted]: the
    updateTS flag of the code), and unchanged otherwise *)
Theorem C15_latest_exact : forall t now n t' fd r,
  target_gnmi_update t now n = (t', fd, r) ->
  t_ts t' = if tracks_ts n && accepted t now n then zmax_opt (t_ts t) (n_ts n) else t_ts t.
Proof. exact latest_exact. Qed.
Print Assumptions C15_latest_exact.

(** ... where a multi notification is accepted iff some update unit of it, run
    in the state its predecessors left and before any panic, was not refused by
    gnmiUpdate (announced or suppressed); deletes never count *)
Theorem C15_latest_accepted_multi : forall now n us a,
  a_ok (fold_left (multi_update_step now n) us a) = true <->
  a_ok a = true \/
  exists us1 u us2, us = us1 ++ u :: us2 /\
    unit_accepted_at now n (fold_left (multi_update_step now n) us1 a) u.
Proof. exact accepted_multi_spec. Qed.
Print Assumptions C15_latest_accepted_multi.

(** the reading "greatest timestamp of an accepted non-metadata UNIT" is false
    of the code (first update under meta, second a new real leaf: accepted, the
    latest timestamp does not move); the documented first-update quirk (no corpus witness yet) *)
Theorem C15_latest_is_max_of_units_refuted :
  exists t now n t' fd r u,
    target_gnmi_update t now n = (t', fd, r) /\ r = GOk /\ In u (n_upd n) /\
    tracks_ts (clone_with_update n u) = true /\ t_ts t' <> zmax_opt (t_ts t) (n_ts n).
Proof. exact latest_is_max_of_units_refuted. Qed.
Print Assumptions C15_latest_is_max_of_units_refuted.

(** latest_is_max, HISTORY form: after every history of calls (no hypothesis on
    the calls: single / multi / atomic notifications, deletes, Sync, Connect,
    ConnectError, Reset, Add, Remove, UpdateMetadata, UpdateSize, subscribers,
    panicking calls included) the latest timestamp of every target with a
    non-empty name is the greatest timestamp of the accepted tracked
    notifications handed to it since its last Reset / Add / Remove
    ([tracked_since_reset]; [None] = time.Time{} when there is none) *)
Theorem C15_latest_history : forall cfg names ops name t,
  name <> ""%string ->
  assoc name (c_targets (crun (new_cache cfg names) ops)) = Some t ->
  t_ts t = zmax_list (tracked_since_reset name (new_cache cfg names) ops).
Proof. exact latest_history. Qed.
Print Assumptions C15_latest_history.

(** ... and that is what UpdateMetadata then exports for the target: the
    maximum, or the documented sentinel time.Time{}.UnixNano() when nothing was
    accepted (KF-C15-2) *)
Theorem C15_latest_history_exported : forall cfg names ops name t now,
  name <> ""%string ->
  assoc name (c_targets (crun (new_cache cfg names) ops)) = Some t ->
  gi (t_meta (fst (fst (update_meta t now)))) md_latest_ts =
  match zmax_list (tracked_since_reset name (new_cache cfg names) ops) with
  | Some z => z
  | None => zero_time_unixnano
  end.
Proof. exact latest_history_exported. Qed.
Print Assumptions C15_latest_history_exported.

(** [zmax_list] is the maximum: a member and an upper bound ([] <-> None) *)
Theorem C15_zmax_list_is_max : forall l,
  match zmax_list l with
  | None => l = []
  | Some m => In m l /\ forall y, In y l -> y <= m
  end.
Proof. exact zmax_list_spec. Qed.
Print Assumptions C15_zmax_list_is_max.

(** the hypothesis [name <> ""] is needed: in the model, Sync on a target named
    "" is tracked (index list ["meta"; "sync"], second element not "meta") *)
Theorem C15_latest_history_empty_name_refuted :
  exists cfg names ops t,
    assoc ""%string (c_targets (crun (new_cache cfg names) ops)) = Some t /\
    t_ts t <> zmax_list (tracked_since_reset "" (new_cache cfg names) ops).
Proof. exact latest_history_empty_name_refuted. Qed.
Print Assumptions C15_latest_history_empty_name_refuted.

(** K_P tag 5 follows the code.  Tracking: K_P's test on the first update is the
    model's [tracks_ts] for every notification.  Acceptance: gnmiRemove returns
    no error, so for a non-panicking multi notification "fewer errors returned
    than updates submitted" ([C15Check.accepted_any]) is exactly the updateTS
    flag of the code, whatever the deletes do *)
Theorem C15_K_tracked_agrees : forall n, kp_tracked n = tracks_ts n.
Proof. exact kp_tracked_agrees. Qed.
Print Assumptions C15_K_tracked_agrees.

Theorem C15_K_accept_is_updateTS : forall t now n us ds,
  a_panic (fold_left (multi_delete_step n) ds
             (fold_left (multi_update_step now n) us (Acc t [] [] false None))) = None ->
  (a_ok (fold_left (multi_delete_step n) ds
           (fold_left (multi_update_step now n) us (Acc t [] [] false None))) = true <->
   (List.length (a_errs (fold_left (multi_delete_step n) ds
                          (fold_left (multi_update_step now n) us (Acc t [] [] false None))))
    < List.length us)%nat).
Proof. exact multi_accept_is_fewer_errors. Qed.
Print Assumptions C15_K_accept_is_updateTS.

(** soundness of the K_P clause latest_is_max (tag 5), from the implementation's
    observations alone: what K_P remembers for a target over the steps of a case
    is the maximum of [obs_tracked] -- the timestamps of the notifications
    addressed to the (existing) target since its last Reset / Add / Remove that
    the implementation accepted and whose first update is tracked -- and a silent
    clause means the exported value is that maximum (0 when there is none).
    With C15_K_tracked_agrees / C15_K_accept_is_updateTS the two tests inside
    [obs_tracked] are those of [tracked_since_reset] in C15_latest_history. *)
Theorem C15_K_latest_memory_sound : forall t steps,
  k_latest (kget (kt_run [] steps) t) = zmax_list (obs_tracked t steps []).
Proof. exact kp_latest_memory_sound. Qed.
Print Assumptions C15_K_latest_memory_sound.

Theorem C15_K_latest_sound : forall ks ob t a m,
  kp_latest_one ks ob t = [] ->
  assoc t (o_tgts ob) = Some a -> to_meta a = Some m ->
  geti m md_latest_ts = match k_latest (kget ks t) with Some z => z | None => 0 end.
Proof. exact kp_latest_one_sound. Qed.
Print Assumptions C15_K_latest_sound.

(** known finding KF-C15-3 (tag 14): C15_leafcount_is_tree without the
    hypothesis [no_counter_reset] is false -- update a/b, then a delete addressed
    to meta/targetLeaves (gnmiRemove -> metadata.ResetEntry): no call panics, the
    counter reads 0, one non-metadata leaf is stored.  Witness
    corpus/C15/kf3_counter_reset.json *)
Theorem C15_leafcount_without_no_counter_reset_refuted :
  exists cfg names ops,
    ~ In ""%string names /\
    (forall k, (k < List.length ops)%nat ->
       snd (fst (cstep (crun (new_cache cfg names) (firstn k ops)) (nth k ops MGate))) <> RPanic) /\
    exists name t, assoc name (c_targets (crun (new_cache cfg names) ops)) = Some t /\
                   gi (t_meta t) md_leaf_count = 0 /\ real_count (t_tree t) = 1.
Proof. exact leafcount_is_tree_without_no_counter_reset_refuted. Qed.
Print Assumptions C15_leafcount_without_no_counter_reset_refuted.

(** Glue -- coherence of the independently written models.

    The property checks C01..C20 were built in parallel; several components of
    the Go code are modelled more than once.  The theorems below say that the
    abstract copies used by C01, C04/C08 and C05/C07 are the authoritative
    models (C06 match trie, C11 coalescing queue, C19 path indexing, C02/C03
    cache) seen through explicit abstraction functions, so that the property
    theorems proved over the copies are statements about the same system.

    This file holds only the statements, each closed by [exact] of a lemma
    proved under coq/Glue/, with [Print Assumptions] beneath.  See
    docs/Glue.md for the table of pairs, domains and what remains. *)
From Gnmi Require Import Base.Prelude Base.Lts CTree.CTreeModel Path.PathModel Path.PathProofs
  Match.MatchModel Match.MatchProofs
  Coalesce.QueueModel Coalesce.QueueLts Coalesce.QueueProofs.
From Gnmi Require Subscribe.SubModel Pipeline.PipelineModel Stream.StreamLts Cache.CacheModel.
From Gnmi Require Import Value.ValueModel Cache.CacheModel.
From Gnmi Require Stream.StreamProofs.
From Gnmi Require Import Glue.GluePath Glue.GlueMatch Glue.GlueQueue Glue.GlueTree Glue.GlueCacheSub
  Glue.GlueCacheStream Glue.GlueCachePipe Glue.GlueMulti Glue.GlueHandle Glue.GlueOnce.
From Gnmi Require CTree.CTreeConc CTree.CTreeConcProofs CTree.CTreeConcAbs CTree.CTreeConcDel
  Subscribe.SubProofs.
From Gnmi Require Coalesce.QueueLive Cache.MultiCache Total.IngestModel Total.StreamModel
  CTree.CTreeCheck CTree.CTreeHandle.
Open Scope string_scope.
Open Scope list_scope.

(** * 1. The streaming match relation (authoritative: Match/MatchModel.v, C06) *)

(** The relation "registered query q is reached by update path p" of
    StreamLts (C04/C08), SubModel (C05/C07) and PipelineModel (C01) is
    MatchModel.compat, on all pairs of paths. *)
Theorem Glue_stream_compat_eq :
  forall q p : path, StreamLts.compat q p = compat q p.
Proof. exact stream_compat_eq. Qed.
Print Assumptions Glue_stream_compat_eq.

Theorem Glue_sub_mmatch_eq :
  forall q p : path, SubModel.mmatch q p = compat q p.
Proof. exact sub_mmatch_eq. Qed.
Print Assumptions Glue_sub_mmatch_eq.

Theorem Glue_pipe_mmatch_eq :
  forall q p : path, PipelineModel.mmatch q p = compat q p.
Proof. exact pipe_mmatch_eq. Qed.
Print Assumptions Glue_pipe_mmatch_eq.

(** The query relation of StreamLts (which leaves a snapshot walk / a delete
    selects) is CTreeModel.qmatch, the relation C09 proves Query and Delete to
    implement. *)
Theorem Glue_stream_covers_eq :
  forall d p : path, StreamLts.covers d p = qmatch d p.
Proof. exact stream_covers_eq. Qed.
Print Assumptions Glue_stream_covers_eq.

(** For every well-formed trie in which client c is registered with exactly
    the queries qs, the real walk (one UpdateOnce per update/delete path, one
    shared "updated" set) calls c once if some path is compatible with some
    query and not at all otherwise. *)
Theorem Glue_trie_offer_count :
  forall (b : branch) (c : cid) (qs : list path) (prefix : path) (paths : list path),
    registered_exactly b c qs ->
    count_occ Nat.eq_dec (update_notification b prefix paths) c = abstract_offers qs prefix paths.
Proof. exact trie_offer_count. Qed.
Print Assumptions Glue_trie_offer_count.

(** StreamLts.mult (how many times one announcement is inserted into a
    subscriber's queue) is the number of calls the real trie makes, for every
    trie reachable by registrations and removals whose live registrations of
    the client are the subscriber's registered queries. *)
Theorem Glue_stream_mult_is_trie_offer :
  forall (h : list hop) (c : cid) (s : StreamLts.sub) (prefix p : path),
    (forall q, In (q, c) (regs h) <-> In q (StreamLts.regq s)) ->
    StreamLts.mult s (prefix ++ p) =
    count_occ Nat.eq_dec (update_notification (run_hist h) prefix [p]) c.
Proof. exact stream_mult_hist. Qed.
Print Assumptions Glue_stream_mult_is_trie_offer.

(** LCancel changes no registration and no other subscriber; the ended
    subscriber takes no further deliveries. *)
Theorem Glue_stream_cancel_step :
  forall h st s st',
    StreamLts.step h st (StreamLts.LCancel s) = Some st' ->
    StreamLts.st_tree st' = StreamLts.st_tree st /\ StreamLts.st_feeds st' = StreamLts.st_feeds st /\
    (forall s', s' <> s -> nth_error (StreamLts.st_subs st') s' = nth_error (StreamLts.st_subs st) s') /\
    exists sb sb', nth_error (StreamLts.st_subs st) s = Some sb /\
                   nth_error (StreamLts.st_subs st') s = Some sb' /\
                   StreamLts.regq sb' = StreamLts.regq sb /\ StreamLts.s_end sb' = true /\
                   (forall it, StreamLts.deliver st' it sb' = sb').
Proof. exact stream_cancel_step. Qed.
Print Assumptions Glue_stream_cancel_step.

(** LUnreg removes (at most) the last registered path of the ended subscriber
    and touches nothing else ... *)
Theorem Glue_stream_unreg_step :
  forall h st s st',
    StreamLts.step h st (StreamLts.LUnreg s) = Some st' ->
    StreamLts.st_tree st' = StreamLts.st_tree st /\ StreamLts.st_feeds st' = StreamLts.st_feeds st /\
    (forall s', s' <> s -> nth_error (StreamLts.st_subs st') s' = nth_error (StreamLts.st_subs st) s') /\
    exists sb sb' gone, nth_error (StreamLts.st_subs st) s = Some sb /\
                        nth_error (StreamLts.st_subs st') s = Some sb' /\
                        StreamLts.s_end sb = true /\
                        StreamLts.regq sb = StreamLts.regq sb' ++ gone /\ (List.length gone <= 1)%nat.
Proof. exact stream_unreg_step. Qed.
Print Assumptions Glue_stream_unreg_step.

(** ... which on the trie is the removal closure of that (path, client): the
    client's registrations become the shorter list, every other client keeps
    its registrations, hence the offer count StreamLts computes for it is
    still the count of the real trie after the removal. *)
Theorem Glue_registered_exactly_remove :
  forall b c qs q,
    registered_exactly b c (qs ++ [q]) -> ~ In q qs -> registered_exactly (remove_root q c b) c qs.
Proof. exact registered_exactly_remove. Qed.
Print Assumptions Glue_registered_exactly_remove.

Theorem Glue_stream_unreg_others_offers :
  forall b c c' q (s' : StreamLts.sub) prefix p,
    c' <> c -> registered_exactly b c' (StreamLts.regq s') ->
    StreamLts.mult s' (prefix ++ p) =
    count_occ Nat.eq_dec (update_notification (remove_root q c b) prefix [p]) c'.
Proof. exact stream_unreg_others_offers. Qed.
Print Assumptions Glue_stream_unreg_others_offers.

(** SubModel.offers is the number of calls Server.Update -> UpdateNotification
    makes on the real trie. *)
Theorem Glue_sub_offers_is_trie_offer :
  forall (b : branch) (c : cid) (qs : list path) (n : SubModel.noti),
    registered_exactly b c qs -> sub_noti_wf n ->
    SubModel.offers qs n =
    count_occ Nat.eq_dec
      (server_update b (Some (sub_gp (SubModel.n_prefix n))) (sub_ups n) (sub_dels n)) c.
Proof. exact sub_offers_is_trie_offer. Qed.
Print Assumptions Glue_sub_offers_is_trie_offer.

(** SubModel.sub_queries is, as a set, what MatchModel.add_subscription
    registers. *)
Theorem Glue_sub_queries_are_registered :
  forall (pf : SubModel.gpath) (subs : list (option SubModel.gpath)) (q : path),
    sub_wf pf -> Forall sub_owf subs ->
    (In q (SubModel.sub_queries pf subs) <->
     In q (sub_queries fixed_C06_2 (sub_gp pf) (sub_ents subs))).
Proof. exact sub_queries_are_registered. Qed.
Print Assumptions Glue_sub_queries_are_registered.

(** End to end for the stream phase of C05/C07: after the real registration
    on any well-formed trie not yet holding the client, the real walk offers a
    notification as often as SubModel says. *)
Theorem Glue_sub_stream_offers_real_trie :
  forall b c pf subs b' qs n,
    wf b -> (forall q, ~ In c (clients_at b q)) ->
    sub_wf pf -> Forall sub_owf subs -> sub_noti_wf n ->
    add_subscription b c (sub_gp pf) (sub_ents subs) = Some (b', qs) ->
    SubModel.offers (SubModel.sub_queries pf subs) n =
    count_occ Nat.eq_dec
      (server_update b' (Some (sub_gp (SubModel.n_prefix n))) (sub_ups n) (sub_dels n)) c.
Proof. exact sub_stream_offers_real_trie. Qed.
Print Assumptions Glue_sub_stream_offers_real_trie.

(** The pipeline's single subscriber is offered a leaf iff the real trie
    holding its one registration offers it. *)
Theorem Glue_pipe_feed_is_trie_offer :
  forall (b : branch) (c : cid) (sb : PipelineModel.subscriber) (full : path),
    registered_exactly b c [PipelineModel.sb_query sb] ->
    (PipelineModel.mmatch (PipelineModel.sb_query sb) full = true <-> In c (match_update b full)).
Proof. exact pipe_feed_is_trie_offer. Qed.
Print Assumptions Glue_pipe_feed_is_trie_offer.

(** * 2. The coalescing queue (authoritative: Coalesce/QueueModel.v + QueueLts.v, C11) *)

(** For every injective numbering of StreamLts's items, StreamLts.q_insert is
    the abstract coalescing queue's insertion (duplicate counts included) ... *)
Theorem Glue_stream_insert_is_aq_insert :
  forall (enc : StreamLts.item -> item),
    (forall a b, enc a = enc b -> a = b) ->
    forall (it : StreamLts.item) (q : StreamLts.queue),
      abs_q enc (StreamLts.q_insert it q) = fst (aq_insert (enc it) (abs_q enc q)).
Proof. exact stream_insert_is_aq_insert. Qed.
Print Assumptions Glue_stream_insert_is_aq_insert.

(** ... and the head removal of LDeq is its Next. *)
Theorem Glue_stream_deq_is_aq_next :
  forall (enc : StreamLts.item -> item) (x : StreamLts.item * nat) (q : StreamLts.queue),
    aq_next (abs_q enc (x :: q)) = Some (enc (fst x), N.of_nat (snd x), abs_q enc q).
Proof. exact stream_deq_is_aq_next. Qed.
Print Assumptions Glue_stream_deq_is_aq_next.

(** The concrete critical sections of coalesce.Queue simulate them. *)
Theorem Glue_qsim_insert :
  forall (enc : StreamLts.item -> item),
    (forall a b, enc a = enc b -> a = b) ->
    forall sq cs it,
      qsim enc sq cs ->
      qsim enc (StreamLts.q_insert it sq) (fst (locked_insert cs (enc it))) /\
      snd (locked_insert cs (enc it)) = negb (existsb (fun xd => StreamLts.item_eqb (fst xd) it) sq).
Proof. exact qsim_insert. Qed.
Print Assumptions Glue_qsim_insert.

Theorem Glue_qsim_next :
  forall (enc : StreamLts.item -> item) x sq cs,
    qsim enc (x :: sq) cs ->
    exists cs', locked_next cs = Some (enc (fst x), N.of_nat (snd x), cs') /\ qsim enc sq cs'.
Proof. exact qsim_next. Qed.
Print Assumptions Glue_qsim_next.

(** From every state of C11's transition system (any producers, one consumer,
    every schedule) whose queue abstracts to a StreamLts queue, the producer's
    locked insert / the consumer's locked next lead to a state abstracting to
    the StreamLts queue after q_insert / after the head removal, and Next
    returns the head with its duplicate count. *)
Theorem Glue_stream_insert_in_queue_lts :
  forall (enc : StreamLts.item -> item),
    (forall a b, enc a = enc b -> a = b) ->
    forall s n it sq,
      lreach s -> l_pp s n = PChecked (enc it) -> q_abs (l_q s) = abs_q enc sq ->
      exists s', lstep s (LP n) = Some s' /\
                 q_abs (l_q s') = abs_q enc (StreamLts.q_insert it sq) /\
                 l_pp s' n = PInserted (enc it)
                               (negb (existsb (fun xd => StreamLts.item_eqb (fst xd) it) sq)).
Proof. exact stream_insert_in_queue_lts. Qed.
Print Assumptions Glue_stream_insert_in_queue_lts.

Theorem Glue_stream_deq_in_queue_lts :
  forall (enc : StreamLts.item -> item) s x sq,
    lreach s -> l_cp s = CIdle \/ l_cp s = CTry -> q_abs (l_q s) = abs_q enc (x :: sq) ->
    exists s' pre,
      lstep s LC = Some s' /\ l_cp s' = CIdle /\ q_abs (l_q s') = abs_q enc sq /\
      l_hist s' = ERetNext (NItem (enc (fst x)) (N.of_nat (snd x)))
                    :: EPop (enc (fst x)) (N.of_nat (snd x)) :: pre.
Proof. exact stream_deq_in_queue_lts. Qed.
Print Assumptions Glue_stream_deq_in_queue_lts.

(** The pipeline's queue is the abstract queue with the counts forgotten. *)
Theorem Glue_pipe_insert_leaf_keys :
  forall (enc : PipelineModel.qitem -> item) g (q : list PipelineModel.qitem) (a : aq),
    map fst a = map enc q ->
    (forall x, In x q -> enc x = enc (PipelineModel.QLeaf g) -> x = PipelineModel.QLeaf g) ->
    map fst (fst (aq_insert (enc (PipelineModel.QLeaf g)) a)) = map enc (PipelineModel.q_insert_leaf q g).
Proof. exact pipe_insert_leaf_keys. Qed.
Print Assumptions Glue_pipe_insert_leaf_keys.

Theorem Glue_pipe_insert_del_keys :
  forall (enc : PipelineModel.qitem -> item) d (q : list PipelineModel.qitem) (a : aq),
    map fst a = map enc q -> ~ In (enc (PipelineModel.QDel d)) (map enc q) ->
    map fst (fst (aq_insert (enc (PipelineModel.QDel d)) a)) = map enc (q ++ [PipelineModel.QDel d]).
Proof. exact pipe_insert_del_keys. Qed.
Print Assumptions Glue_pipe_insert_del_keys.

(** * 3. Path indexing (authoritative: Path/PathModel.v, C19) *)

(** SubModel's ToStrings / CompletePath / joinPrefixAndPath are PathModel's on
    the image of [sub_gp], for every path whose key maps are maps. *)
Theorem Glue_sub_to_strings_eq :
  forall (o : option SubModel.gpath) (pre : bool),
    sub_owf o -> SubModel.to_strings o pre = to_strings pre (sub_ogp o).
Proof. exact sub_to_strings_eq. Qed.
Print Assumptions Glue_sub_to_strings_eq.

Theorem Glue_sub_complete_path_eq :
  forall prefix p : option SubModel.gpath,
    sub_owf prefix -> sub_owf p ->
    SubModel.complete_path prefix p = ok_to_option (complete_path (sub_ogp prefix) (sub_ogp p)).
Proof. exact sub_complete_path_eq. Qed.
Print Assumptions Glue_sub_complete_path_eq.

Theorem Glue_sub_join_eq :
  forall (pr : SubModel.gpath) (ph : option SubModel.gpath),
    sub_wf pr -> sub_owf ph ->
    SubModel.join_prefix_path pr ph = ok_to_option (join_prefix_and_path (sub_gp pr) (sub_ogp ph)).
Proof. exact sub_join_eq. Qed.
Print Assumptions Glue_sub_join_eq.

(** the hypothesis on key maps cannot be dropped *)
Theorem Glue_sub_elem_strings_needs_wf :
  exists e, ~ pelem_wf e /\ SubModel.elem_strings e <> elem_index e.
Proof. exact sub_elem_strings_needs_wf. Qed.
Print Assumptions Glue_sub_elem_strings_needs_wf.

(** PipelineModel's, on the image of [pipe_gp] (deprecated element encoding included). *)
Theorem Glue_pipe_to_strings_eq :
  forall (p : PipelineModel.gpath) (pre : bool),
    pipe_wf p -> PipelineModel.to_strings_gp p pre = to_strings pre (pipe_gp p).
Proof. exact pipe_to_strings_gp_eq. Qed.
Print Assumptions Glue_pipe_to_strings_eq.

Theorem Glue_pipe_complete_path_eq :
  forall pre p : PipelineModel.gpath,
    pipe_wf pre -> pipe_wf p ->
    PipelineModel.complete_path pre p = ok_to_option (complete_path (pipe_gp pre) (pipe_gp p)).
Proof. exact pipe_complete_path_eq. Qed.
Print Assumptions Glue_pipe_complete_path_eq.

Theorem Glue_pipe_join_eq :
  forall pre p : PipelineModel.gpath,
    pipe_wf pre -> pipe_wf p ->
    PipelineModel.join_prefix_and_path pre p =
    ok_to_option (join_prefix_and_path (pipe_gp pre) (pipe_gp p)).
Proof. exact pipe_join_eq. Qed.
Print Assumptions Glue_pipe_join_eq.

Theorem Glue_pipe_sub_query_eq :
  forall q : PipelineModel.cquery,
    pipe_wf (PipelineModel.cq_prefix q) -> pipe_wf (PipelineModel.cq_path q) ->
    PipelineModel.sub_query q =
    sub_query (pipe_gp (PipelineModel.cq_prefix q)) (pipe_gp (PipelineModel.cq_path q)).
Proof. exact pipe_sub_query_eq. Qed.
Print Assumptions Glue_pipe_sub_query_eq.

(** CacheModel's wrapper is PathModel's function with the panic renumbered. *)
Theorem Glue_cache_join_path_eq :
  forall pr ph : option gpath,
    CacheModel.join_path pr ph =
    match join_prefix_and_path (gp_of_opt pr) (gp_of_opt ph) with
    | Panic _ => Panic CacheModel.panic_join
    | r => r
    end.
Proof. exact cache_join_path_eq. Qed.
Print Assumptions Glue_cache_join_path_eq.

(** * 4. The cache (authoritative: Cache/CacheModel.v, C02/C03/C14/C15) *)


(** ** SubModel's cache-as-content (C05, C07)

    Abstraction: [sub_notif] embeds SubModel's notifications in CacheModel's;
    trees are related leaf by leaf ([tsim]: the target's tree is the image
    under [tmap sub_notif]); [Inv]: stored notifications are well formed and
    carry an update.  Domain: future threshold <= 0, event-driven emulation on
    ([cfg_ok], SubModel's stated defaults), key maps are maps ([noti_wf]), and
    the index path is outside "meta" (SubModel answers UMeta there and nothing
    is claimed). *)

(** Target.gnmiUpdate: same tree, same verdict (stored and announced / stored
    and suppressed / rejected), panics exactly together. *)
Theorem Glue_sub_update1_sim :
  forall tr n t now,
    Inv tr -> tsim tr t -> noti_wf n ->
    match SubModel.gnmi_update1 tr n with
    | SubModel.URes tr' feed err =>
        let r := gnmi_update1 t now (sub_notif n) in
        Inv tr' /\ tsim tr' (fst r) /\
        match snd r with
        | Ok (Some nd) => err = false /\ feed = [n] /\ nd = sub_notif n
        | Ok None => err = false /\ feed = []
        | Err _ => err = true /\ feed = [] /\ tr' = tr
        | Panic _ => False
        end
    | SubModel.UPanic => exists w, snd (gnmi_update1 t now (sub_notif n)) = Panic w
    | SubModel.UMeta => True
    end.
Proof. exact sub_update1_sim. Qed.
Print Assumptions Glue_sub_update1_sim.

(** Target.gnmiRemove with toDeleteNotification. *)
Theorem Glue_sub_remove1_sim :
  forall tr n t,
    Inv tr -> tsim tr t -> noti_wf n ->
    match SubModel.gnmi_remove1 tr n with
    | SubModel.URes tr' feed err =>
        let r := gnmi_remove t (sub_notif n) in
        Inv tr' /\ tsim tr' (fst r) /\ err = false /\
        exists removed, snd r = Ok removed /\
                        render_deletes removed (SubModel.n_ts n) = map sub_notif feed
    | SubModel.UPanic => exists w, snd (gnmi_remove t (sub_notif n)) = Panic w
    | SubModel.UMeta => True
    end.
Proof. exact sub_remove1_sim. Qed.
Print Assumptions Glue_sub_remove1_sim.

(** Target.GnmiUpdate: atomic / empty / single update / single delete /
    several updates and deletes; tree, rendered feed, error flag, panic. *)
Theorem Glue_sub_tgt_update_sim :
  forall tr n t now,
    Inv tr -> tsim tr t -> noti_wf n ->
    tgt_rel tr t now n (SubModel.tgt_update tr n).
Proof. exact sub_tgt_update_sim. Qed.
Print Assumptions Glue_sub_tgt_update_sim.

(** One operation of SubModel's harness on a cache with any number of
    targets against the corresponding CacheModel call ([cache_do]). *)
Theorem Glue_sub_cache_op_sim :
  forall c C now o,
    csim c C -> cop_wf o ->
    let S := SubModel.cache_op c o in
    let D := cache_do C now o in
    cres_rel (snd S) (snd D) /\
    (clean (snd S) -> csim (fst (fst S)) (fst (fst D)) /\ snd (fst D) = map sub_notif (snd (fst S))).
Proof. exact sub_cache_op_sim. Qed.
Print Assumptions Glue_sub_cache_op_sim.

(** Any script (any length, any clock): as long as SubModel stays inside its
    modelled fragment, the caches stay related and every step's feed is the
    image of SubModel's. *)
Theorem Glue_sub_script_sim :
  forall ops c C clock k,
    csim c C -> Forall cop_wf ops ->
    snd (sub_script c ops) = true ->
    csim (fst (fst (sub_script c ops))) (fst (cache_script C clock k ops)) /\
    snd (cache_script C clock k ops) = map (map sub_notif) (snd (fst (sub_script c ops))).
Proof. exact sub_script_sim. Qed.
Print Assumptions Glue_sub_script_sim.

(** Cache.Query on related caches returns the image of what SubModel's
    snapshot walk reads (ONCE / POLL / the first walk of STREAM). *)
Theorem Glue_sub_query_sim :
  forall c C tn q,
    csim c C -> tn <> ""%string ->
    match cache_query C tn q with Some l => map snd l | None => [] end =
    map sub_notif (flat_map (fun tr => map snd (CTreeModel.query tr q)) (SubModel.sel_trees c tn)).
Proof. exact sub_query_sim. Qed.
Print Assumptions Glue_sub_query_sim.

(** proto.Equal as the two models state it agrees on well-formed notifications. *)
Theorem Glue_sub_notif_eqb_agree :
  forall a b, noti_wf a -> noti_wf b -> notif_eqb (sub_notif a) (sub_notif b) = SubModel.noti_eqb a b.
Proof. exact notif_eqb_agree. Qed.
Print Assumptions Glue_sub_notif_eqb_agree.

(** ** StreamLts's abstract cache (C04, C08)

    Abstraction [Rs st name tr]: the ctree [tr] holds at index path [p] the
    canonical notification [s_noti name p (v, ts)] exactly where StreamLts
    holds [(v, ts)] at [name :: p].  [StreamProofs.GInv] holds in every
    reachable state of the transition system.  Domain: non-empty target name,
    index path not empty and not under "meta". *)

(** [write .. (WUpd ..)] against Target.gnmiUpdate with the event-driven switch
    as a parameter ([gen_update1]; [gen_update1 true] is SubModel's function). *)
Theorem Glue_stream_write_upd_sim :
  forall h st w name k rest v ts st' res tr,
    StreamProofs.GInv st -> Rs st name tr ->
    name <> ""%string -> k <> "meta"%string ->
    StreamLts.write h st w (StreamLts.WUpd (name :: k :: rest) v ts) = Some (st', res) ->
    match gen_update1 (StreamLts.h_ed h) tr (s_noti name (k :: rest) (v, ts)) with
    | SubModel.URes tr' feed err =>
        Rs st' name tr' /\
        (forall name' tr0, name' <> name -> Rs st name' tr0 -> Rs st' name' tr0) /\
        match res with
        | StreamLts.WOk =>
            err = false /\
            exists f, StreamLts.st_feeds st' = StreamLts.set_feed st w f /\
                      map (item_noti st') f = map Some feed
        | _ => err = true /\ feed = [] /\ st' = st
        end
    | _ => False
    end.
Proof. exact stream_write_upd_sim. Qed.
Print Assumptions Glue_stream_write_upd_sim.

Theorem Glue_gen_update1_true :
  forall tr n, gen_update1 true tr n = SubModel.gnmi_update1 tr n.
Proof. exact gen_update1_true. Qed.
Print Assumptions Glue_gen_update1_true.

(** ... and against CacheModel.gnmi_update1, for both settings of the switch. *)
Theorem Glue_stream_write_upd_cache :
  forall h st w name k rest v ts st' res tr t now,
    StreamProofs.GInv st -> Rs st name tr -> tsim_ed (StreamLts.h_ed h) tr t ->
    name <> ""%string -> k <> "meta"%string ->
    StreamLts.write h st w (StreamLts.WUpd (name :: k :: rest) v ts) = Some (st', res) ->
    let n := s_noti name (k :: rest) (v, ts) in
    let r := gnmi_update1 t now (sub_notif n) in
    exists tr',
      Rs st' name tr' /\ tsim_ed (StreamLts.h_ed h) tr' (fst r) /\
      (forall name' tr0, name' <> name -> Rs st name' tr0 -> Rs st' name' tr0) /\
      match res with
      | StreamLts.WOk =>
          exists f feed, StreamLts.st_feeds st' = StreamLts.set_feed st w f /\
                         map (item_noti st') f = map Some feed /\
                         match snd r with
                         | Ok (Some nd) => feed = [n] /\ nd = sub_notif n
                         | Ok None => feed = []
                         | _ => False
                         end
      | _ => st' = st /\ exists e, snd r = Err e
      end.
Proof. exact stream_write_upd_cache. Qed.
Print Assumptions Glue_stream_write_upd_cache.

(** [write .. (WDel ..)] against Target.gnmiRemove (SubModel's, then CacheModel's). *)
Theorem Glue_stream_write_del_sim :
  forall h st w name d ts order st' res tr,
    StreamProofs.GInv st -> Rs st name tr -> name <> ""%string ->
    match d with k :: _ => k <> "meta"%string | [] => True end ->
    StreamLts.write h st w (StreamLts.WDel (name :: d) ts order) = Some (st', res) ->
    match SubModel.gnmi_remove1 tr (s_del name d ts) with
    | SubModel.URes tr' feed err =>
        res = StreamLts.WOk /\ err = false /\ Rs st' name tr' /\
        (forall name' tr0, name' <> name -> Rs st name' tr0 -> Rs st' name' tr0) /\
        exists nd,
          StreamLts.st_dels st' = StreamLts.st_dels st ++ nd /\
          StreamLts.st_feeds st' =
            StreamLts.set_feed st w (map StreamLts.IDel (seq (List.length (StreamLts.st_dels st)) (List.length nd))) /\
          (forall dn, In dn feed <-> exists q, In (name :: q, ts) nd /\ dn = del_noti name q ts)
    | _ => False
    end.
Proof. exact stream_write_del_sim. Qed.
Print Assumptions Glue_stream_write_del_sim.

Theorem Glue_stream_write_del_cache :
  forall h st w name d ts order st' res tr ed t,
    StreamProofs.GInv st -> Rs st name tr -> tsim_ed ed tr t -> name <> ""%string ->
    match d with k :: _ => k <> "meta"%string | [] => True end ->
    StreamLts.write h st w (StreamLts.WDel (name :: d) ts order) = Some (st', res) ->
    let r := gnmi_remove t (sub_notif (s_del name d ts)) in
    exists tr' removed nd,
      res = StreamLts.WOk /\ Rs st' name tr' /\ tsim_ed ed tr' (fst r) /\ snd r = Ok removed /\
      (forall name' tr0, name' <> name -> Rs st name' tr0 -> Rs st' name' tr0) /\
      StreamLts.st_dels st' = StreamLts.st_dels st ++ nd /\
      StreamLts.st_feeds st' =
        StreamLts.set_feed st w (map StreamLts.IDel (seq (List.length (StreamLts.st_dels st)) (List.length nd))) /\
      (forall x, In x (render_deletes removed ts) <->
                 exists q, In (name :: q, ts) nd /\ x = sub_notif (del_noti name q ts)).
Proof. exact stream_write_del_cache. Qed.
Print Assumptions Glue_stream_write_del_cache.

(** [write .. (WDelSub ..)] against ctree.Delete (one root child of Target.Reset). *)
Theorem Glue_stream_write_delsub_sim :
  forall h st w name d st' res tr,
    StreamProofs.GInv st -> Rs st name tr ->
    StreamLts.write h st w (StreamLts.WDelSub (name :: d)) = Some (st', res) ->
    res = StreamLts.WOk /\
    Rs st' name (fst (CTreeModel.delete tr d)) /\
    (forall name' tr0, name' <> name -> Rs st name' tr0 -> Rs st' name' tr0) /\
    StreamLts.st_dels st' = StreamLts.st_dels st ++ [((name :: d) ++ [StreamLts.star], 0%Z)] /\
    StreamLts.st_feeds st' = StreamLts.set_feed st w [StreamLts.IDel (List.length (StreamLts.st_dels st))].
Proof. exact stream_write_delsub_sim. Qed.
Print Assumptions Glue_stream_write_delsub_sim.

(** The bare target path (empty index path): everybody rejects it.  (Up to
    StreamLts as of 96c7803 this was a difference -- StreamLts attached a leaf
    there; its owner added the guard.) *)
Theorem Glue_stream_bare_target_agree :
  forall h st w name v ts tr t now,
    name <> ""%string ->
    StreamLts.write h st w (StreamLts.WUpd [name] v ts) = None /\
    SubModel.gnmi_update1 tr (s_noti name [] (v, ts)) = SubModel.URes tr [] true /\
    gnmi_update1 t now (sub_notif (s_noti name [] (v, ts))) = (t, Err err_invalid_path).
Proof. exact stream_bare_target_agree. Qed.
Print Assumptions Glue_stream_bare_target_agree.

(** ** PipelineModel's cache stage (C01)

    Abstraction [Rp emb okv w t]: CacheModel's tree holds [rec_notif r]
    exactly where the pipeline's tree holds a leaf id whose heap record is
    [r]; ids are unique per leaf and below the allocation counter.  The value
    embedding is a parameter: any [emb] that respects value.Equal and
    proto.Equal on the class [okv] (instantiated by [scalar_emb]/[scalar_ok]:
    strings, integers, booleans, bytes, JSON, ASCII, proto bytes). *)

Theorem Glue_pipe_update_one_sim :
  forall (emb : PipelineModel.tv -> ValueModel.tv) (okv : PipelineModel.tv -> Prop),
    (forall a b, okv a -> okv b -> value_equal (Some (emb a)) (Some (emb b)) = PipelineModel.tv_equal a b) ->
    (forall a b, okv a -> okv b -> CacheModel.tv_eqb (emb a) (emb b) = PipelineModel.tv_eqb a b) ->
    forall w r t now,
      PipelineModel.w_fault w = None -> Rp emb okv w t -> rec_wf okv r ->
      let w' := PipelineModel.cache_update_one w r in
      let R := gnmi_update1 t now (rec_notif emb r) in
      match PipelineModel.w_fault w' with
      | Some (PipelineModel.FPanic 1%N) => exists x, snd R = Panic x
      | Some (PipelineModel.FPanic _) => False
      | Some (PipelineModel.FUnmodelled _) => True
      | None =>
          Rp emb okv w' (fst R) /\
          match snd R with
          | Ok (Some nd) =>
              nd = rec_notif emb r /\
              exists p g, join_prefix_and_path (pipe_gp (PipelineModel.lr_prefix r))
                                               (pipe_gp (PipelineModel.lr_path r)) = Ok p /\
                          id_at w' p = Some g /\ PipelineModel.hget (PipelineModel.w_heap w') g = Some r /\
                          PipelineModel.w_sub w' =
                            PipelineModel.feed_leaf (PipelineModel.w_sub w) g (PipelineModel.full_path r)
          | Ok None => PipelineModel.w_sub w' = PipelineModel.w_sub w
          | Err _ => w' = w
          | Panic _ => False
          end
      end.
Proof. exact pipe_update_one_sim. Qed.
Print Assumptions Glue_pipe_update_one_sim.

Theorem Glue_pipe_delete_one_sim :
  forall (emb : PipelineModel.tv -> ValueModel.tv) (okv : PipelineModel.tv -> Prop) ts pre w d t,
    PipelineModel.w_fault w = None -> Rp emb okv w t -> pipe_wf pre -> pipe_wf d ->
    let w' := PipelineModel.cache_delete_one ts pre w d in
    let R := gnmi_remove t (Notif ts (Some (pipe_gp pre)) None [] [pipe_gp d] false) in
    match PipelineModel.w_fault w' with
    | Some (PipelineModel.FPanic 1%N) => exists x, snd R = Panic x
    | Some (PipelineModel.FPanic _) => False
    | Some (PipelineModel.FUnmodelled _) => True
    | None =>
        Rp emb okv w' (fst R) /\
        exists idx removedT,
          join_prefix_and_path (pipe_gp pre) (pipe_gp d) = Ok idx /\ snd R = Ok removedT /\
          let removedP := snd (delete_cond (PipelineModel.w_tree w) idx
                                 (fun g => match PipelineModel.hget (PipelineModel.w_heap w) g with
                                           | Some r => (PipelineModel.lr_ts r <? ts)%Z | None => false end)) in
          Permutation (map (fun pg => view emb (PipelineModel.w_heap w) (snd pg)) removedP) (map Some removedT) /\
          PipelineModel.w_sub w' =
            fold_left (fun s pg => match PipelineModel.hget (PipelineModel.w_heap w) (snd pg) with
                                   | Some old => PipelineModel.feed_del s (PipelineModel.to_delete old ts)
                                   | None => s
                                   end) removedP (PipelineModel.w_sub w)
    end.
Proof. exact pipe_delete_one_sim. Qed.
Print Assumptions Glue_pipe_delete_one_sim.

(** One whole stamped, non-atomic notification: the pipeline's two loops
    against CacheModel's dispatch (empty / one update / one delete / several).
    If the pipeline model ends without fault the states are related and the
    cache did not panic; its "p[1:] of an empty slice" fault is a panic of the
    cache as well. *)
Theorem Glue_pipe_target_gnmi_update_sim :
  forall (emb : PipelineModel.tv -> ValueModel.tv) (okv : PipelineModel.tv -> Prop),
    (forall a b, okv a -> okv b -> value_equal (Some (emb a)) (Some (emb b)) = PipelineModel.tv_equal a b) ->
    (forall a b, okv a -> okv b -> CacheModel.tv_eqb (emb a) (emb b) = PipelineModel.tv_eqb a b) ->
    forall w n pre t now,
      PipelineModel.w_fault w = None -> Rp emb okv w t -> notification_wf okv n pre ->
      let w' := PipelineModel.target_gnmi_update w n pre in
      let R := target_gnmi_update t now (pipe_notif emb n pre) in
      match PipelineModel.w_fault w' with
      | None => Rp emb okv w' (fst (fst R)) /\ (forall x, snd R <> GPanic x)
      | Some (PipelineModel.FPanic 1%N) => exists x, snd R = GPanic x
      | Some _ => True
      end.
Proof. exact pipe_target_gnmi_update_sim. Qed.
Print Assumptions Glue_pipe_target_gnmi_update_sim.

(** the delete notification the pipeline hands to its subscriber is the one
    cache.toDeleteNotification builds *)
Theorem Glue_pipe_to_delete_agree :
  forall (emb : PipelineModel.tv -> ValueModel.tv) r ts,
    del_notif (PipelineModel.to_delete r ts) = mk_delete (rec_notif emb r) ts (del_path (rec_notif emb r)).
Proof. exact to_delete_agree. Qed.
Print Assumptions Glue_pipe_to_delete_agree.

(** the hypotheses on the embedding hold for the scalar class *)
Theorem Glue_scalar_emb_respects :
  (forall a b, scalar_ok a -> scalar_ok b ->
     value_equal (Some (scalar_emb a)) (Some (scalar_emb b)) = PipelineModel.tv_equal a b) /\
  (forall a b, scalar_ok a -> scalar_ok b ->
     CacheModel.tv_eqb (scalar_emb a) (scalar_emb b) = PipelineModel.tv_eqb a b).
Proof. exact (conj scalar_emb_equal scalar_emb_eqb). Qed.
Print Assumptions Glue_scalar_emb_respects.

(** ([scalar_ok] now contains floats and doubles: PipelineModel's tv_eqb
    follows proto.Equal on floating point since its owner's repair.)  The two
    former differences, as agreements: the same leaf written at the same
    timestamp with +0 then -0 is a rejected duplicate in both models ... *)
Theorem Glue_pipe_zero_update_agree :
  let r0 := ex_rec 5 (PipelineModel.TVDouble 0) in
  let r1 := ex_rec 5 (PipelineModel.TVDouble (2 ^ 63)) in
  let w1 := PipelineModel.cache_update_one ex_w0 r0 in
  let t1 := fst (gnmi_update1 (new_target "dev" (Cfg 0 true [])) 0 (rec_notif scalar_emb r0)) in
  PipelineModel.cache_update_one w1 r1 = w1 /\
  PipelineModel.hget (PipelineModel.w_heap w1) 0%nat = Some r0 /\
  gnmi_update1 t1 0 (rec_notif scalar_emb r1) = (add_int t1 md_stale_count 1, Err err_stale).
Proof. exact pipe_zero_update_agree. Qed.
Print Assumptions Glue_pipe_zero_update_agree.

(** ... and an empty index path is an error that changes nothing in both. *)
Theorem Glue_pipe_empty_index_agree :
  let r := {| PipelineModel.lr_ts := 1; PipelineModel.lr_prefix := ex_gp "dev" "" [];
              PipelineModel.lr_path := ex_gp "" "" []; PipelineModel.lr_val := PipelineModel.TVInt 1 |} in
  PipelineModel.cache_update_one ex_w0 r = ex_w0 /\
  gnmi_update1 (new_target "dev" (Cfg 0 true [])) 0 (rec_notif scalar_emb r)
  = (new_target "dev" (Cfg 0 true []), Err err_invalid_path).
Proof. exact pipe_empty_index_agree. Qed.
Print Assumptions Glue_pipe_empty_index_agree.

(** Cache.Reset / Target.Reset: cutting the same roots off both trees keeps the
    states related; the announcement per root is the delete notification
    Target.Reset builds. *)
Theorem Glue_pipe_reset_roots_sim :
  forall (emb : PipelineModel.tv -> ValueModel.tv) (okv : PipelineModel.tv -> Prop) roots w t,
    Rp emb okv w t ->
    Rp emb okv
       {| PipelineModel.w_tree :=
            fold_left (fun tr r => fst (CTreeModel.delete tr [r])) roots (PipelineModel.w_tree w);
          PipelineModel.w_heap := PipelineModel.w_heap w; PipelineModel.w_gen := PipelineModel.w_gen w;
          PipelineModel.w_sub := PipelineModel.w_sub w; PipelineModel.w_fault := PipelineModel.w_fault w |}
       (set_tree t (fold_left (fun tr r => fst (CTreeModel.delete tr [r])) roots (t_tree t))).
Proof. exact pipe_reset_roots_sim. Qed.
Print Assumptions Glue_pipe_reset_roots_sim.

Theorem Glue_pipe_root_delete_agree :
  forall name r, del_notif (PipelineModel.root_delete name r) = delete_noti name r 0 ["*"].
Proof. exact pipe_root_delete_agree. Qed.
Print Assumptions Glue_pipe_root_delete_agree.

(** * 5. Round 5v: MultiCache's subscriber layer (C14/C15), StreamModel (C12),
      the handle layer (C09), fair runs of the queue (C11) *)

(** ** MultiCache.mmatch / offered / MUnsub (authoritative: MatchModel, C06) *)

Theorem Glue_multi_mmatch_eq :
  forall q p : path, MultiCache.mmatch q p = compat q p.
Proof. exact multi_mmatch_eq. Qed.
Print Assumptions Glue_multi_mmatch_eq.

(** [offered T q n] is the number of calls the real trie walk makes on a client
    registered with exactly [T :: q] (any well-formed trie, in particular every
    trie reachable by registrations and removals). *)
Theorem Glue_multi_offered_is_trie_offer :
  forall b c T q (n : notif),
    registered_exactly b c [T :: q] ->
    (if MultiCache.offered T q n then 1%nat else 0%nat) =
    count_occ Nat.eq_dec (server_update b (n_prefix n) (map u_path (n_upd n)) (map Some (n_del n))) c.
Proof. exact multi_offered_is_trie_offer. Qed.
Print Assumptions Glue_multi_offered_is_trie_offer.

(** MUnsub: after the removal closure the real trie offers the client nothing
    (as MultiCache's cancelled subscriber receives nothing). *)
Theorem Glue_multi_unsub_no_offer :
  forall b c T q prefix paths,
    registered_exactly b c [T :: q] ->
    count_occ Nat.eq_dec (update_notification (remove_root (T :: q) c b) prefix paths) c = 0%nat.
Proof. exact multi_unsub_no_offer. Qed.
Print Assumptions Glue_multi_unsub_no_offer.

(** ** isTargetDelete: three copies, one predicate *)

Theorem Glue_itd_stream_eq_multi :
  forall n : IngestModel.notif,
    StreamModel.is_target_delete n = MultiCache.is_target_delete (ing_notif n).
Proof. exact itd_stream_eq_multi. Qed.
Print Assumptions Glue_itd_stream_eq_multi.

Theorem Glue_itd_sub_eq_multi :
  forall n : SubModel.noti,
    noti_wf n -> SubModel.is_target_delete n = MultiCache.is_target_delete (sub_notif n).
Proof. exact itd_sub_eq_multi. Qed.
Print Assumptions Glue_itd_sub_eq_multi.

(** what it says on the notifications the cache produces: Cache.Remove's
    announcement is a whole-target delete (CacheModel's and SubModel's, which
    are the same notification) ... *)
Theorem Glue_itd_remove :
  forall c now name,
    Forall (fun x => MultiCache.is_target_delete x = true) (snd (cache_remove c now name)).
Proof. exact itd_remove. Qed.
Print Assumptions Glue_itd_remove.

Theorem Glue_itd_sub_remove :
  forall t now,
    SubModel.is_target_delete (SubModel.target_delete_noti t now) = true /\
    sub_notif (SubModel.target_delete_noti t now) = delete_noti t "" now ["*"].
Proof. exact itd_sub_remove. Qed.
Print Assumptions Glue_itd_sub_remove.

(** ... Target.Reset's per-root delete is one only for the empty root name, and
    nothing without exactly one delete is. *)
Theorem Glue_itd_reset_root :
  forall name r now,
    MultiCache.is_target_delete (delete_noti name r now ["*"]) = String.eqb r "".
Proof. exact itd_reset_root. Qed.
Print Assumptions Glue_itd_reset_root.

Theorem Glue_itd_has_delete :
  forall n : notif, MultiCache.is_target_delete n = true -> exists d, n_del n = [d].
Proof. exact itd_has_delete. Qed.
Print Assumptions Glue_itd_has_delete.

(** sendStreamingResults over the feed of one call: MultiCache's on the image
    of a SubModel feed is SubModel's (no ACL, the one query [T :: q]). *)
Theorem Glue_multi_stream_feed_eq :
  forall (allow : string -> string -> bool) T q feed,
    Forall noti_wf feed ->
    let R := SubModel.stream_feed allow SubModel.NoACL (negb (String.eqb T "*")) [T :: q] feed in
    MultiCache.stream_feed T q (map sub_notif feed) = (map resp_conv (fst R), snd R).
Proof. exact multi_stream_feed_eq. Qed.
Print Assumptions Glue_multi_stream_feed_eq.

(** ** StreamLts's leaf handles against the handle layer (CTreeHandle, C09)

    The handle-layer tree is the TIMESTAMP projection [ts_tree tr] of the ctree
    related to StreamLts by [Rs] (the layer's conditional delete tests the stored
    number, StreamLts's tests the timestamp). *)

Theorem Glue_stream_hold_at_enqueue :
  forall st name tr k rest l sl n s,
    StreamProofs.GInv st -> Rs st name tr ->
    StreamLts.tlookup (name :: k :: rest) (StreamLts.st_tree st) = Some l ->
    CTreeHandle.hmstep (ts_tree tr, (sl, n)) (CTreeHandle.HHold s (k :: rest)) =
      ((ts_tree tr, (CTreeHandle.sset sl s (CTreeHandle.HLive (k :: rest)), n)), CTreeCheck.RBool true) /\
    hrel st name l (CTreeHandle.HLive (k :: rest)).
Proof. exact stream_hold_at_enqueue. Qed.
Print Assumptions Glue_stream_hold_at_enqueue.

(** one [write] -- any operation, any target, any outcome -- is the
    corresponding handle-layer steps: trees stay related, the slot evolves as
    the handle does *)
Theorem Glue_stream_write_handle_step :
  forall h st w o st' res name tr l slot n,
    StreamProofs.GInv st -> Rs st name tr -> hrel st name l slot ->
    StreamLts.write h st w o = Some (st', res) ->
    exists tr' slot',
      hrun (ts_tree tr, ([slot], n)) (hops_of name o res) =
        (ts_tree tr', ([slot'], (n + List.length (hops_of name o res))%nat)) /\
      Rs st' name tr' /\ hrel st' name l slot'.
Proof. exact stream_write_handle_step. Qed.
Print Assumptions Glue_stream_write_handle_step.

Theorem Glue_stream_read_is_handle_value :
  forall st name tr l h n d P v ts,
    StreamProofs.GInv st -> Rs st name tr -> hrel st name l h ->
    StreamLts.build st (StreamLts.ILeaf l) d = Some (StreamLts.RUpd P v ts d) ->
    CTreeHandle.hmstep (ts_tree tr, ([h], n)) (CTreeHandle.HValue 0) =
      ((ts_tree tr, ([h], n)), CTreeCheck.RKind (CTreeCheck.KLeaf ts)).
Proof. exact stream_read_is_handle_value. Qed.
Print Assumptions Glue_stream_read_is_handle_value.

(** enqueue, ANY sequence of writes, send: what the sender reads is [HValue] of
    the handle taken at enqueue time after the corresponding script (live: the
    current timestamp; detached by a delete: the last one) *)
Theorem Glue_stream_read_after_writes :
  forall h name st hs st' tr k rest l n d P v ts,
    StreamProofs.GInv st -> Rs st name tr ->
    StreamLts.tlookup (name :: k :: rest) (StreamLts.st_tree st) = Some l ->
    wrun h name st hs st' -> StreamProofs.GInv st' ->
    StreamLts.build st' (StreamLts.ILeaf l) d = Some (StreamLts.RUpd P v ts d) ->
    snd (CTreeHandle.hmstep
           (hrun (fst (CTreeHandle.hmstep (ts_tree tr, ([], n)) (CTreeHandle.HHold 0 (k :: rest)))) hs)
           (CTreeHandle.HValue 0))
    = CTreeCheck.RKind (CTreeCheck.KLeaf ts).
Proof. exact stream_read_after_writes. Qed.
Print Assumptions Glue_stream_read_after_writes.

(** a detached handle is inert (both components of its content) *)
Theorem Glue_stream_handle_value_kept :
  forall h st w o st' res name l p e x,
    StreamProofs.GInv st -> hrel st name l (CTreeHandle.HStale p e x) ->
    StreamLts.write h st w o = Some (st', res) ->
    nth_error (StreamLts.st_leaves st') l = nth_error (StreamLts.st_leaves st) l.
Proof. exact stream_handle_value_kept. Qed.
Print Assumptions Glue_stream_handle_value_kept.

(** ** fair runs of the queue (QueueLive, C11): every item of a StreamLts queue
       is eventually popped *)
Theorem Glue_stream_queue_item_eventually_delivered :
  forall (enc : StreamLts.item -> item) run lab,
    run 0%nat = l_init -> QueueLive.is_run lstep run lab ->
    QueueLive.wfair lstep run lab cons_label ->
    (forall n, QueueLive.wfair lstep run lab (fun l => l = LP n)) ->
    forall k sq it,
      q_abs (l_q (run k)) = abs_q enc sq -> In it (map fst sq) ->
      exists j, (k <= j)%nat /\ QueueLive.delivers run lab j (enc it).
Proof. exact stream_queue_item_eventually_delivered. Qed.
Print Assumptions Glue_stream_queue_item_eventually_delivered.

(** * 6. C05's assumed weak query specification, from C10's theorem over the ctree LTS

    [SubProofs.weak_query] (the hypothesis of C05_once_weak_partial, through
    [conc_walk]) is implied by CTreeConcDel.query_reports_present_D /
    query_reports_all_D (= C10_query_stability_with_delete) for Query calls in
    runs of the ctree LTS -- programs WITHOUT Leaf.Update through a retained
    handle ([no_hupd_op]; note that the cache overwrites an existing leaf by
    exactly that operation) -- through the abstraction [rep nu tr s] (tree [tr]
    holds [nu v] where LTS state [s] holds [v]): every state between the
    invocation and the return of the Query is represented in the history. *)

(** the invariant of the query thread this needed on top of C10's theorem:
    everything accumulated matched the query and was stored, with that value,
    in some state of the run so far *)
Theorem Glue_query_thread_inv :
  forall ops q s1 sts s2 i t1,
    forallb CTreeConcAbs.no_hupd_op ops = true -> CTreeConcProofs.reach ops s1 ->
    nth_error (CTreeConc.thr s1) i = Some t1 ->
    CTreeConc.tpc t1 = CTreeConc.PStart (CTreeConc.CQuery q None) ->
    lrun s1 sts s2 ->
    exists t2, nth_error (CTreeConc.thr s2) i = Some t2 /\ TI q (seen sts) t2.
Proof. exact query_thread_inv. Qed.
Print Assumptions Glue_query_thread_inv.

Theorem Glue_ctree_query_run_weak :
  forall nu trs q l, ctree_query_run nu trs q l -> SubProofs.weak_query trs q l.
Proof. exact ctree_query_run_weak. Qed.
Print Assumptions Glue_ctree_query_run_weak.

Theorem Glue_lts_walk_is_conc_walk :
  forall nu hist names pf subs ups,
    lts_walk nu hist names pf subs ups -> SubProofs.conc_walk hist names pf subs ups.
Proof. exact lts_walk_is_conc_walk. Qed.
Print Assumptions Glue_lts_walk_is_conc_walk.

(** C05's conclusion WITHOUT the assumed specification, for walks whose
    per-tree queries are Query calls in runs of the ctree LTS *)
Theorem Glue_once_weak_from_ctree_lts :
  forall nu hist names pf subs ups,
    lts_walk nu hist names pf subs ups ->
    (forall n, In (SubModel.RUpd n) ups ->
       exists c t tr p sp full,
         In c hist /\ In t names /\ assoc t c = Some tr /\ lookup tr p = Some n
         /\ In sp subs /\ SubModel.complete_path pf sp = Some full /\ qmatch full p = true)
    /\ (forall t p sp full,
          In t names -> In sp subs -> SubModel.complete_path pf sp = Some full -> qmatch full p = true ->
          (forall tr, In tr (SubProofs.trees_of hist t) -> lookup tr p <> None) ->
          exists n c tr, In (SubModel.RUpd n) ups /\ In c hist /\ assoc t c = Some tr /\ lookup tr p = Some n)
    /\ ~ In SubModel.RSync ups.
Proof. exact once_weak_from_ctree_lts. Qed.
Print Assumptions Glue_once_weak_from_ctree_lts.

(** the hypotheses are satisfiable: a run of the LTS (an Add, then a Query),
    its history, the walk *)
Theorem Glue_once_weak_example :
  lts_walk ex_nu [[("dev"%string, ex_tr)]] ["dev"%string] (Some (SubModel.GP "dev" "" []))
           [Some (SubModel.GP "" "" [("a"%string, [])])] [SubModel.RUpd (ex_nu 5)].
Proof. exact ex_lts_walk. Qed.
Print Assumptions Glue_once_weak_example.

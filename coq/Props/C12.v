(** C12: no message from a remote peer can crash a process. *)
From Gnmi Require Import Base.Prelude Total.IngestModel Total.SubReqModel
  Total.ClientRecvModel Total.CliDisplayModel Total.C12Check Total.TotalProofs.

Theorem subscribe_request_total :
  forall e f w, se_has_peer e = true -> subscribe e f <> Panic w.
Proof. exact subscribe_no_panic_with_peer. Qed.
Print Assumptions subscribe_request_total.

(** C12: no message from a remote peer can crash a process.

    Statements only; proofs in Total/TotalProofs.v.  [cur_flags] /
    [defect_C12_4] are the defect switches of the models as they stand now (all
    off: the patches are committed); [all_defects] is the code before them. *)
From Gnmi Require Import Base.Prelude CTree.CTreeModel Total.IngestModel Total.SubReqModel
  Total.ClientRecvModel Total.CliDisplayModel Total.StreamModel Total.C12Check Total.TotalProofs.

(** 1. Cache ingest.  For every well-formed cache state and every
    wire-realisable notification, Cache.GnmiUpdate does not panic. *)
Theorem ingest_total :
  forall c n w, st_wf c -> wire_notif n = true -> snd (ingest cur_flags c n) <> GPanic w.
Proof. exact ingest_total_cur. Qed.
Print Assumptions ingest_total.

(** ... stated for every combination of the defect switches: a panic is always
    one of the listed defects, its switch is on, and the message lies in the
    class predicate K_P uses for it. *)
Theorem ingest_panic_attributed :
  forall fl c n c' w, st_wf c -> wire_notif n = true -> ingest fl c n = (c', GPanic w) ->
    attrib fl n w.
Proof. exact TotalProofs.ingest_panic_attributed. Qed.
Print Assumptions ingest_panic_attributed.

(** the state hypothesis is an invariant: it holds initially and is preserved *)
Theorem ingest_wf_initial :
  forall names, ~ In ""%string names -> st_wf (new_cstate names).
Proof. exact st_wf_new. Qed.
Print Assumptions ingest_wf_initial.

Theorem ingest_wf_preserved :
  forall fl c n, st_wf c -> wire_notif n = true -> st_wf (fst (ingest fl c n)).
Proof. exact ingest_preserves_wf. Qed.
Print Assumptions ingest_wf_preserved.

(** before the patches each class crashed the cache (witnesses in corpus/C12) *)
Theorem ingest_total_refuted_index_path :
  exists c n w, st_wf c /\ wire_notif n = true /\ snd (ingest all_defects c n) = GPanic w.
Proof. exact ingest_total_refuted_idx. Qed.
Print Assumptions ingest_total_refuted_index_path.

Theorem ingest_total_refuted_meta_nil_value :
  exists c n w, st_wf c /\ wire_notif n = true /\ snd (ingest all_defects c n) = GPanic w.
Proof. exact ingest_total_refuted_nilval. Qed.
Print Assumptions ingest_total_refuted_meta_nil_value.

Theorem ingest_total_refuted_value_equal :
  exists c n w, st_wf c /\ wire_notif n = true /\ snd (ingest all_defects c n) = GPanic w.
Proof. exact ingest_total_refuted_equal. Qed.
Print Assumptions ingest_total_refuted_value_equal.

Theorem meta_refresh_refuted :
  exists c n, st_wf c /\ wire_notif n = true /\
    snd (ingest all_defects c n) = GOk /\ exists w, refresh all_defects (fst (ingest all_defects c n)) = Panic w.
Proof. exact meta_refresh_refuted_lemma. Qed.
Print Assumptions meta_refresh_refuted.

(** 2. A rejected notification (single error) leaves every stored leaf of every
    target as it was, whatever the switches. *)
Theorem rejected_preserves :
  forall fl c n c' e, ingest fl c n = (c', GErr e) -> dump c' = dump c.
Proof. exact rejected_preserves_gen. Qed.
Print Assumptions rejected_preserves.

(** 3. Subscribe request validation; the stream context carries a gRPC peer. *)
Theorem subscribe_request_total :
  forall e f w, se_has_peer e = true -> subscribe e f <> Panic w.
Proof. exact subscribe_no_panic_with_peer. Qed.
Print Assumptions subscribe_request_total.

Theorem subscribe_request_total_needs_peer :
  exists e f w, se_has_peer e = false /\ subscribe e f = Panic w.
Proof. exact subscribe_needs_peer. Qed.
Print Assumptions subscribe_request_total_needs_peer.

(** 4. Client receive path: any script of wire-realisable responses, any JSON
    oracle, any query type. *)
Theorem client_recv_total :
  forall jv qt rs connected w,
    forallb wire_resp rs = true -> snd (ClientRecvModel.run jv qt connected rs) <> Panic w.
Proof. exact client_recv_total_args. Qed.
Print Assumptions client_recv_total.

(** 5. CLI display (the assertion in pathmap.add is safe because the client
    tree is prefix-free, C09). *)
Theorem cli_display_total :
  forall jv dt qt with_ts rs w,
    forallb wire_resp rs = true ->
    snd (query_display defect_C12_4 jv dt qt with_ts rs) <> Panic w.
Proof. exact cli_display_total_lemma. Qed.
Print Assumptions cli_display_total.

Theorem cli_display_total_refuted :
  exists jv dt qt with_ts rs w,
    forallb wire_resp rs = true /\ snd (query_display true jv dt qt with_ts rs) = Panic w.
Proof. exact cli_display_refuted_lemma. Qed.
Print Assumptions cli_display_total_refuted.

(** 2'. A multi notification whose every update was rejected (errlist as long
    as the update list, no deletes) leaves every stored leaf as it was. *)
Theorem rejected_all_preserves :
  forall fl c n c' es, ingest fl c n = (c', GErrs es) ->
    List.length es = List.length (n_upd n) -> n_del n = [] -> dump c' = dump c.
Proof. exact rejected_all_preserves_gen. Qed.
Print Assumptions rejected_all_preserves.

(** 1'. The periodic metadata refresh (Cache.UpdateMetadata reading back the
    registered leaves under meta/).
    (a) With checked assertions (patch C12_5) it cannot panic, whatever is stored. *)
Theorem refresh_total :
  forall fl c, f_refresh fl = false -> refresh fl c = Ok tt.
Proof. exact refresh_total_patched. Qed.
Print Assumptions refresh_total.

(** (b) Without the server-name and latency options the type guards at ingest
    already suffice, even with unchecked assertions: [st_wf2] (st_wf + every
    leaf at meta/<registered name> holds the asserted kind) holds initially, is
    preserved by patched ingest, and implies [refresh = Ok]. *)
Theorem refresh_total_default_options :
  forall fl c, f_server_name fl = false -> f_latency fl = false -> st_wf2 c -> refresh fl c = Ok tt.
Proof. exact refresh_total_lemma. Qed.
Print Assumptions refresh_total_default_options.

(** (c) With the options and unchecked assertions (HEAD before C12_5, every
    other patch in) a target crashes the refresh through meta/serverName and,
    once a latency sample exists, through meta/latency/window/<w>/<stat>. *)
Theorem meta_refresh_refuted_server_name :
  exists c n, st_wf c /\ wire_notif n = true /\
    snd (ingest head_flags_opts c n) = GOk /\
    exists w, refresh head_flags_opts (fst (ingest head_flags_opts c n)) = Panic w.
Proof. exact TotalProofs.meta_refresh_refuted_server_name. Qed.
Print Assumptions meta_refresh_refuted_server_name.

Theorem meta_refresh_refuted_latency :
  exists c n, st_wf c /\ wire_notif n = true /\
    snd (ingest head_flags_opts c n) = GOk /\
    exists w, refresh head_flags_opts (fst (ingest head_flags_opts c n)) = Panic w.
Proof. exact TotalProofs.meta_refresh_refuted_latency. Qed.
Print Assumptions meta_refresh_refuted_latency.

Theorem refresh_wf_initial :
  forall names, ~ In ""%string names -> st_wf2 (new_cstate names).
Proof. exact st_wf2_new. Qed.
Print Assumptions refresh_wf_initial.

Theorem refresh_wf_preserved :
  forall fl c n, f_nilval fl = false -> f_intmeta fl = false ->
    st_wf2 c -> wire_notif n = true -> st_wf2 (fst (ingest fl c n)).
Proof. exact ingest_preserves_wf2. Qed.
Print Assumptions refresh_wf_preserved.

(** K_P is sound: an empty verdict of the checker on a case means no panic was
    observed (Subscribe: unless there was no gRPC peer) and the Query dump was
    unchanged across every rejected message. *)
Theorem K_sound :
  forall c, check_case c = [] -> case_obs_ok c.
Proof. exact check_case_sound. Qed.
Print Assumptions K_sound.

(** 6. The target manager's handling of one received response. *)
Theorem manager_handle_total :
  forall r w, manager_handle r <> Panic w.
Proof. exact TotalProofs.manager_handle_total. Qed.
Print Assumptions manager_handle_total.

(** the state hypothesis "no target registered under the empty name" is needed *)
Theorem ingest_total_needs_named_targets :
  exists n w, wire_notif n = true /\ snd (ingest fixed_flags (new_cstate [""%string]) n) = GPanic w.
Proof. exact ingest_needs_named_targets. Qed.
Print Assumptions ingest_total_needs_named_targets.

(** 7. The per-RPC sender goroutine's post-processing of every notification
    the cache queues for a subscriber (MakeSubscribeResponse, isTargetDelete),
    for every duplicate count and every notification, whatever the encoding of
    its delete path. *)
Theorem stream_post_total :
  forall dup n w, stream_post dup n <> Panic w.
Proof. exact stream_post_total_lemma. Qed.
Print Assumptions stream_post_total.

Theorem stream_target_delete_exact :
  forall n, is_target_delete n = true <->
    exists d, n_del n = [d] /\ gp_origin (gp_of_opt (n_prefix n)) = ""%string /\
              to_strings false (gp_of_opt (n_prefix n)) ++ to_strings false d = ["*"%string].
Proof. exact is_target_delete_spec. Qed.
Print Assumptions stream_target_delete_exact.

(** 8. The event-driven suppression step of gnmiUpdate is total over every pair
    of stored / new updates, whatever their value encodings (typed value,
    deprecated value only, neither, both): it reads the [Val] fields only. *)
Theorem suppression_step_total :
  forall (old new : upd) w, wire_upd old = true -> wire_upd new = true ->
    equal_gen false (u_val old) (u_val new) <> Panic w.
Proof. exact suppression_step_total_lemma. Qed.
Print Assumptions suppression_step_total.

(** C19 -- path indexing and value conversion are deterministic, faithful and
    total.  This file holds only the property theorems, each closed by [exact]
    of a lemma proved elsewhere, with [Print Assumptions] beneath. *)
From Gnmi Require Import Base.Prelude Path.PathModel.

Theorem C19_to_strings_prefix_flag_off :
  forall p, to_strings false p = match gp_elems p with [] => gp_element p | _ :: _ => flat_map elem_index (gp_elems p) end.
Proof. reflexivity. Qed.
Print Assumptions C19_to_strings_prefix_flag_off.

(** C19 -- path indexing and value conversion are deterministic, faithful and
    total.  This file holds only the property theorems, each closed by [exact]
    of a lemma proved elsewhere, with [Print Assumptions] beneath.

    The statement marked PARTIAL carries the full statement in a comment: the
    full statement is false of the code (known finding KF-C19-3) and the
    [_refuted] theorem beside it proves that on a witness.

    Totality and symmetry of Equal and totality of ToScalar were false before
    the fix commits b28d6aa / e8be1b1 (DEFECT C19_1 / C19_2); the
    [_before_fix_refuted] theorems keep the witnesses, stated over the model
    with the defect switched on ([equal_gen true], [to_scalar_gen true]). *)
From Gnmi Require Import Base.Prelude Path.PathModel Path.QueryString Value.ValueModel.
From Gnmi Require Import Path.PathProofs Path.QueryProofs Value.ValueProofs Value.FloatProofs.
From Gnmi Require Import Path.C19Check Path.C19CheckProofs.
From Coq Require Import Sorting.Sorted.

(** ** indexing *)

(** the index does not depend on the order in which the key maps are listed
    (Go's map iteration order) *)
Theorem C19_to_strings_perm :
  forall (prefix : bool) (p p' : gpath),
    gpath_wf p -> gpath_equiv p p' -> to_strings prefix p = to_strings prefix p'.
Proof. exact to_strings_perm. Qed.
Print Assumptions C19_to_strings_perm.

(** each element contributes its name followed by its key values in key-name
    order: for ANY arrangement of every key map by strictly increasing key
    name the index is name, values, name, values, ... *)
Theorem C19_to_strings_keys_sorted :
  forall (prefix : bool) (p : gpath) (arr : pelem -> list (string * string)),
    gpath_wf p ->
    (forall e, In e (gp_elems p) -> Permutation (arr e) (snd e) /\ StronglySorted key_lt (arr e)) ->
    to_strings prefix p = index_of arr prefix p.
Proof. exact to_strings_keys_sorted. Qed.
Print Assumptions C19_to_strings_keys_sorted.

(** such an arrangement always exists (non-vacuity of the previous theorem) *)
Theorem C19_sorted_arrangement_exists :
  forall m : list (string * string),
    NoDup (keys m) ->
    Permutation (isort PathProofs.kv_leb m) m /\ StronglySorted key_lt (isort PathProofs.kv_leb m).
Proof. exact sorted_arrangement_exists. Qed.
Print Assumptions C19_sorted_arrangement_exists.

(** target and origin lead the index, in this order, only when requested and
    non-empty *)
Theorem C19_to_strings_prefix_flag :
  forall p : gpath,
    to_strings true p = nonempty (gp_target p) ++ nonempty (gp_origin p) ++ to_strings false p.
Proof. exact to_strings_prefix_flag. Qed.
Print Assumptions C19_to_strings_prefix_flag.

Theorem C19_to_strings_noprefix_ignores_target_origin :
  forall t o t' o' es el,
    to_strings false (GPath t o es el) = to_strings false (GPath t' o' es el).
Proof. exact to_strings_noprefix_ignores. Qed.
Print Assumptions C19_to_strings_noprefix_ignores_target_origin.

(** CompletePath: never a panic; rejected iff both origins are set or the path
    has an origin while the prefix has elements; otherwise origin, prefix
    index, path index *)
Theorem C19_complete_path_spec :
  forall pre p : gpath,
    (forall w, complete_path pre p <> Panic w) /\
    ((exists c, complete_path pre p = Err c) <->
     (set (gp_origin pre) /\ set (gp_origin p)) \/
     (set (gp_origin p) /\ to_strings false pre <> [])) /\
    (forall r, complete_path pre p = Ok r ->
     r = nonempty (gp_origin pre) ++ nonempty (gp_origin p) ++ to_strings false pre ++ to_strings false p).
Proof. exact complete_path_spec. Qed.
Print Assumptions C19_complete_path_spec.

(** ** client query -> wire -> server index *)

(** PARTIAL.  Full statement (false, see the refutation below):
      forall q, forallb plain q = true -> query_index q = Ok q.
    Proved with the side condition that the last element does not end in '/'. *)
Theorem C19_query_roundtrip_partial :
  forall q : list string,
    forallb plain q = true -> last_ok q = true -> query_index q = Ok q.
Proof. exact query_roundtrip. Qed.
Print Assumptions C19_query_roundtrip_partial.

Theorem C19_query_roundtrip_refuted :
  exists q, forallb plain q = true /\ query_index q <> Ok q.
Proof. exact query_roundtrip_trailing_slash_refuted. Qed.
Print Assumptions C19_query_roundtrip_refuted.

(** ** scalars *)

(** whatever FromScalar accepts comes back from ToScalar as the same scalar up
    to integer width and float precision *)
Theorem C19_scalar_roundtrip :
  forall (jv : string -> bool) (x : gscalar) (t : tv),
    from_scalar x = Ok t -> to_scalar jv t = Ok (widen x).
Proof. exact scalar_roundtrip. Qed.
Print Assumptions C19_scalar_roundtrip.

(** "up to float precision": the float64 a float32 is widened to denotes the
    same real number with the same sign (sub-normals included); infinities and
    NaNs keep class and sign.  Numbers as (sign, mantissa, binary exponent). *)
Theorem C19_widen32_exact :
  forall b : N,
    f32_exp b <> 255%N -> same_number (f32_decode b) (f64_decode (widen32 b)) = true.
Proof. exact widen32_exact. Qed.
Print Assumptions C19_widen32_exact.

Theorem C19_widen32_special :
  forall b : N,
    f32_exp b = 255%N ->
    f64_exp (widen32 b) = 2047%N /\
    (f64_man (widen32 b) = 0%N <-> f32_man b = 0%N) /\
    N.land (N.shiftr (widen32 b) 63) 1 = f32_sign b.
Proof. exact widen32_special. Qed.
Print Assumptions C19_widen32_special.

(** FromScalar is total: a value for supported input, an error otherwise *)
Theorem C19_from_scalar_total :
  forall x : gscalar,
    if ValueProofs.supported x then exists t, from_scalar x = Ok t else exists c, from_scalar x = Err c.
Proof. exact from_scalar_supported. Qed.
Print Assumptions C19_from_scalar_total.

(** ToScalar is total: a scalar or an error, never a panic *)
Theorem C19_to_scalar_total :
  forall (jv : string -> bool) (t : tv) (w : N), to_scalar jv t <> Panic w.
Proof. exact to_scalar_total. Qed.
Print Assumptions C19_to_scalar_total.

Theorem C19_to_scalar_total_before_fix_refuted :
  exists jv t w, to_scalar_gen true jv t = Panic w.
Proof. exact to_scalar_total_refuted. Qed.
Print Assumptions C19_to_scalar_total_before_fix_refuted.

(** ... and even before the fix it was total outside the nil class *)
Theorem C19_to_scalar_total_outside_nil_class :
  forall (d : bool) (jv : string -> bool) (t : tv) (w : N),
    has_nil t = false -> to_scalar_gen d jv t <> Panic w.
Proof. exact to_scalar_total_partial. Qed.
Print Assumptions C19_to_scalar_total_outside_nil_class.

(** ** Equal *)

(** Equal is total: true or false for every pair, never a panic *)
Theorem C19_equal_total :
  forall a b : tv, exists r, equal a b = Ok r.
Proof. exact equal_total. Qed.
Print Assumptions C19_equal_total.

Theorem C19_equal_total_before_fix_refuted :
  exists a b w, equal_gen true a b = Panic w.
Proof. exact equal_total_refuted. Qed.
Print Assumptions C19_equal_total_before_fix_refuted.

(** Equal is symmetric *)
Theorem C19_equal_sym :
  forall a b : tv, equal a b = equal b a.
Proof. exact equal_sym. Qed.
Print Assumptions C19_equal_sym.

Theorem C19_equal_sym_before_fix_refuted :
  exists a b, equal_gen true a b <> equal_gen true b a.
Proof. exact equal_sym_refuted. Qed.
Print Assumptions C19_equal_sym_before_fix_refuted.

(** ... and even before the fix both held outside the nil class *)
Theorem C19_equal_total_sym_outside_nil_class :
  forall (d : bool) (a b : tv),
    has_nil a = false -> has_nil b = false ->
    (exists r, equal_gen d a b = Ok r) /\ equal_gen d a b = equal_gen d b a.
Proof. exact equal_outside_nil_class. Qed.
Print Assumptions C19_equal_total_sym_outside_nil_class.

(** Equal never reports two different values as equal: "true" only on the same
    value, up to the sign of a floating-point zero (Go's ==) and a nil inner
    message standing for the empty one *)
Theorem C19_equal_sound :
  forall a b : tv, equal a b = Ok true -> tv_equiv a b.
Proof. exact equal_sound. Qed.
Print Assumptions C19_equal_sound.

(** ** the executable specification used on the implementation's observations *)

Theorem C19_spec_index_correct :
  forall (prefix : bool) (p : gpath), gpath_wf p -> to_strings prefix p = spec_index prefix p.
Proof. exact spec_index_correct. Qed.
Print Assumptions C19_spec_index_correct.

Theorem C19_spec_complete_correct :
  forall pre p : gpath,
    gpath_wf pre -> gpath_wf p -> project (complete_path pre p) = spec_complete pre p.
Proof. exact spec_complete_correct. Qed.
Print Assumptions C19_spec_complete_correct.

Theorem C19_K_index_sound :
  forall prefix p runs,
    check_case (CIndex prefix p runs) = [] ->
    Forall (fun r => r = ROk (spec_index prefix (gp_of_opt p))) runs.
Proof. exact K_index_sound. Qed.
Print Assumptions C19_K_index_sound.

Theorem C19_K_complete_sound :
  forall pre p r,
    check_case (CComplete pre p r) = [] -> r = spec_complete (gp_of_opt pre) (gp_of_opt p).
Proof. exact K_complete_sound. Qed.
Print Assumptions C19_K_complete_sound.

Theorem C19_K_query_sound :
  forall q r,
    check_case (CQuery q r) = [] -> forallb plain q = true ->
    exists es el, r = ROk (es, el, q).
Proof. exact K_query_sound. Qed.
Print Assumptions C19_K_query_sound.

Theorem C19_K_equal_sound :
  forall a b rab rba,
    check_case (CEqual a b rab rba) = [] ->
    rab <> RPanic /\ rba <> RPanic /\ rab <> RDiff /\ rba <> RDiff /\
    rab = rba /\ (rab = ROk true -> tv_equiv a b).
Proof. exact K_equal_sound. Qed.
Print Assumptions C19_K_equal_sound.

Theorem C19_K_fromto_sound :
  forall x jvalid r1 r2,
    check_case (CFromTo x jvalid r1 r2) = [] ->
    r1 <> RPanic /\ r2 <> RPanic /\ r1 <> RDiff /\ r2 <> RDiff /\
    (forall t, r1 = ROk t -> ores_eqb gs_eqb r2 (ROk (widen x)) = true) /\
    (r1 = RErr <-> C19Check.supported x = false).
Proof. exact K_fromto_sound. Qed.
Print Assumptions C19_K_fromto_sound.

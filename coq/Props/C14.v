(** C14: Reset/Remove clear exactly one target and announce it; targets are isolated. *)
From Gnmi Require Import Base.Prelude CTree.CTreeModel Path.PathModel Cache.CacheModel Cache.MultiCache Cache.C14Proofs.

Theorem C14_remove_unknown_has : forall c now name,
  cache_wf c -> name <> "*"%string ->
  cache_has_target (fst (cache_remove c now name)) name = false.
Proof. exact remove_unknown_has. Qed.
Print Assumptions C14_remove_unknown_has.

(** C14: Reset/Remove clear exactly one target and announce it; targets are isolated.

    Model: CacheModel.v (cache = list (string * target), per-target ingest path,
    Reset, Remove, metadata) + MultiCache.v (one operation type for every call,
    HasTarget / Query / Metadata observers, sequential STREAM subscribers).
    [cinv] (distinct names; every target is well formed, keeps its name and
    stores only notifications carrying its own name) holds in every reachable
    state ([C14_invariant_all_histories]); the Reset / Remove / isolation
    statements are proved from it. *)
From Gnmi Require Import Base.Prelude CTree.CTreeModel CTree.CTreeProofs Path.PathModel
  Cache.CacheModel Cache.MultiCache Cache.C14Check Cache.C14Proofs.
Local Open Scope Z_scope.

(** every history from any initial target list reaches a state satisfying the
    invariant *)
Theorem C14_invariant_all_histories : forall cfg names ops,
  cinv (ms_cache (mrun (minit cfg names) ops)).
Proof. exact reachable_cinv. Qed.
Print Assumptions C14_invariant_all_histories.

Theorem C14_invariant_step : forall c o, cinv c -> cinv (fst (fst (cstep c o))).
Proof. exact cstep_cinv. Qed.
Print Assumptions C14_invariant_step.

(** isolation, one call: for every operation addressed to [t] (GnmiUpdate by
    prefix target, Reset, Remove, Add, Sync, Connect, ConnectError) and every
    other name [t']: the whole stored record of [t'] (tree, metadata, latest
    timestamp, sync flag) is unchanged, so are HasTarget / Query / Metadata for
    it, and every announced entry carries [t] *)
Theorem C14_isolation_step : forall c o t t' c' r f,
  cinv c -> op_addr o = AOne t -> t' <> t -> cstep c o = (c', r, f) ->
  assoc t' (c_targets c') = assoc t' (c_targets c) /\
  model_tobs c' t' = model_tobs c t' /\
  Forall (fun n => ntgt n = t) (mfeed_list f).
Proof. exact isolation_step. Qed.
Print Assumptions C14_isolation_step.

(** a call addressed to no target (no prefix; attaching a subscriber) changes
    and announces nothing *)
Theorem C14_isolation_none : forall c o c' r f,
  op_addr o = ANone -> cstep c o = (c', r, f) -> c' = c /\ mfeed_list f = [].
Proof. exact isolation_none. Qed.
Print Assumptions C14_isolation_none.

(** isolation, all histories: whatever sequence of calls addressed to other
    targets (or to none) is made, [t'] is untouched and nothing announced
    carries [t'] *)
Theorem C14_isolation : forall t' ops c,
  cinv c -> Forall (spares t') ops ->
  assoc t' (c_targets (crun c ops)) = assoc t' (c_targets c) /\
  model_tobs (crun c ops) t' = model_tobs c t' /\
  Forall (fun n => ntgt n <> t') (run_feed c ops).
Proof. exact isolation_history. Qed.
Print Assumptions C14_isolation.

(** Remove: unknown afterwards to HasTarget, Query, Metadata and GnmiUpdate;
    exactly one entry is announced: the whole-target delete of that name *)
Theorem C14_remove_forgets : forall c now name,
  cinv c -> name <> "*"%string ->
  let c' := fst (cache_remove c now name) in
  cache_has_target c' name = false /\
  target_dump c' name = None /\
  target_meta c' name = None /\
  (forall now' n pr, n_prefix n = Some pr -> gp_target pr = name ->
     cache_gnmi_update c' now' n = (c', [], GErr err_no_target)) /\
  snd (cache_remove c now name) = [delete_noti name "" now ["*"]] /\
  is_target_delete (delete_noti name "" now ["*"]) = true /\
  ntgt (delete_noti name "" now ["*"]) = name.
Proof. exact remove_forgets. Qed.
Print Assumptions C14_remove_forgets.

(** ... which reaches EVERY subscriber of that name, whatever its subscription
    path [q], and ends its stream with status OK right after forwarding it,
    while a stream on "*" forwards it and goes on *)
Theorem C14_remove_ends_stream : forall name now q,
  name <> "*"%string -> name <> ""%string ->
  sub_step [delete_noti name "" now ["*"]] (Sub name q SRunning) =
    (Sub name q SEndedOk, [SUpd (delete_noti name "" now ["*"])]) /\
  sub_step [delete_noti name "" now ["*"]] (Sub "*" q SRunning) =
    (Sub "*" q SRunning, [SUpd (delete_noti name "" now ["*"])]).
Proof. exact remove_ends_stream. Qed.
Print Assumptions C14_remove_ends_stream.

Theorem C14_ended_stream_silent : forall feed T q st,
  st <> SRunning -> sub_step feed (Sub T q st) = (Sub T q st, []).
Proof. exact ended_stream_silent. Qed.
Print Assumptions C14_ended_stream_silent.

Theorem C14_star_stream_never_ends : forall feed q,
  fst (sub_step feed (Sub "*" q SRunning)) = Sub "*" q SRunning.
Proof. exact star_stream_never_ends. Qed.
Print Assumptions C14_star_stream_never_ends.

(** several subscribers of one target (nested / sibling subscription paths):
    what one of them is sent is [sub_step] of its own registration, whatever
    the others are, and disconnecting subscriber i leaves every other entry of
    the subscriber list untouched *)
Theorem C14_subscriber_independent : forall feed s others1 others2,
  In (sub_step feed s) (map (sub_step feed) (others1 ++ s :: others2)).
Proof. exact subscriber_independent. Qed.
Print Assumptions C14_subscriber_independent.

Theorem C14_disconnect_spares_others : forall i l j s,
  nth_error l j = Some s -> j <> i -> nth_error (cancel_sub i l) j = Some s.
Proof. exact cancel_sub_other. Qed.
Print Assumptions C14_disconnect_spares_others.

(** Reset, leaves: nothing outside "meta" remains, and every leaf that was
    stored outside "meta" is matched by an announced delete of this target
    (origin = its first index element, path "*") *)
Theorem C14_reset_clears_leaves : forall t now t' feed,
  wf_tree (t_tree t) -> t_name t <> ""%string ->
  target_reset t now = (t', feed, None) ->
  (forall p0 rest v, lookup (t_tree t') (p0 :: rest) = Some v -> p0 = md_root) /\
  (forall p0 rest v, lookup (t_tree t) (p0 :: rest) = Some v -> p0 <> md_root ->
     In (delete_noti (t_name t) p0 now ["*"]) feed /\
     qmatch [p0; "*"] (p0 :: rest) = true).
Proof. exact reset_clears_leaves. Qed.
Print Assumptions C14_reset_clears_leaves.

(** Reset, metadata: back to the initial values (not synced, not connected,
    counters and size 0, latest timestamp cleared) provided no stored metadata
    leaf is newer than the clock.  The exported latestTimestamp is
    [ts_unixnano None] = time.Time{}.UnixNano(), not 0: known finding KF-C14-1
    (fixes/C14_1_zero_time_latest.diff), see [C14_reset_latest_refuted]. *)
Theorem C14_reset_clears_meta : forall t now t' feed,
  wf_tree (t_tree t) -> t_name t <> ""%string -> calm now t ->
  target_reset t now = (t', feed, None) ->
  md_get_bool (t_meta t') md_sync = Some false /\
  md_get_bool (t_meta t') md_connected = Some false /\
  Forall (fun k => md_get_int (t_meta t') k = Some 0) reset_counters /\
  md_get_int (t_meta t') md_latest_ts = Some (ts_unixnano None) /\
  md_get_str (t_meta t') md_connected_addr = Some ""%string /\
  t_ts t' = None.
Proof. exact reset_clears_meta. Qed.
Print Assumptions C14_reset_clears_meta.

(** "latest timestamp back to its initial value 0" is false of the faithful model *)
Theorem C14_reset_latest_refuted : exists t now t' feed,
  wf_tree (t_tree t) /\ t_name t <> ""%string /\ calm now t /\
  target_reset t now = (t', feed, None) /\
  md_get_int (t_meta (new_target (t_name t) (t_cfg t))) md_latest_ts = Some 0 /\
  md_get_int (t_meta t') md_latest_ts <> Some 0.
Proof. exact reset_latest_refuted. Qed.
Print Assumptions C14_reset_latest_refuted.

(** the hypotheses of the Reset theorems hold for every target of every
    reachable cache *)
Theorem C14_reachable_target : forall cfg names ops name t,
  assoc name (c_targets (crun (new_cache cfg names) ops)) = Some t ->
  wf_tree (t_tree t) /\ t_name t = name /\
  (forall p v, lookup (t_tree t) p = Some v -> ntgt v = name).
Proof. exact reachable_target. Qed.
Print Assumptions C14_reachable_target.

(** soundness of the executable specification used on the implementation's
    observations (tag 2): [kp_isolation = true] implies the isolation property
    of the observations *)
Theorem C14_K_isolation_sound : forall prev o ob t,
  op_addr o = AOne t -> kp_isolation prev o ob = true ->
  (forall k a, In (k, a) (o_tgts ob) -> k <> t ->
     exists b, assoc k prev = Some b /\ tobs_eqb b a = true) /\
  (forall n, In n (o_feed ob) -> feed_tgt n = t).
Proof. exact kp_isolation_sound. Qed.
Print Assumptions C14_K_isolation_sound.

(** isolation for the call addressed to every target: after UpdateMetadata
    every target stores, outside "meta", exactly what it stored before (and
    exists iff it existed) *)
Theorem C14_update_metadata_frame : forall c now name,
  cinv c -> name <> ""%string ->
  forall p0 rest, p0 <> md_root ->
    match assoc name (c_targets (fst (fst (cache_update_metadata c now)))), assoc name (c_targets c) with
    | Some t', Some t => lookup (t_tree t') (p0 :: rest) = lookup (t_tree t) (p0 :: rest)
    | None, None => True
    | _, _ => False
    end.
Proof. exact update_metadata_frame. Qed.
Print Assumptions C14_update_metadata_frame.

(** round 6: names that look like defaults.  The per-root delete of Reset
    (prefix origin = root name, path "*") is never a whole-target delete, whatever
    the root or origin is called, and so never ends a stream *)
Theorem C14_reset_root_delete_not_target_delete : forall name r now,
  r <> ""%string -> is_target_delete (delete_noti name r now ["*"]) = false.
Proof. exact reset_root_delete_not_target_delete. Qed.
Print Assumptions C14_reset_root_delete_not_target_delete.

Theorem C14_reset_root_delete_keeps_stream : forall name r now T q,
  r <> ""%string -> snd (stream_feed T q [delete_noti name r now ["*"]]) = false.
Proof. exact reset_root_delete_keeps_stream. Qed.
Print Assumptions C14_reset_root_delete_keeps_stream.

(** round 6: construction options.  The layer for cache.WithServerName (refresh
    of the leaf meta/serverName by UpdateMetadata / Reset) keeps the invariant,
    is local to its target, announces only that target, and changes no other
    path of the tree *)
Theorem C14_server_name_refresh_local : forall sname now c name,
  cinv c ->
  cinv (fst (srv_refresh_in sname now c name)) /\
  Forall (owns name) (snd (srv_refresh_in sname now c name)) /\
  forall k, k <> name ->
    assoc k (c_targets (fst (srv_refresh_in sname now c name))) = assoc k (c_targets c).
Proof. exact srv_refresh_in_local. Qed.
Print Assumptions C14_server_name_refresh_local.

Theorem C14_server_name_refresh_frame : forall sname now t q,
  wf_tree (t_tree t) -> t_name t <> ""%string -> q <> [md_root; md_server_name] ->
  lookup (t_tree (fst (srv_refresh sname now t))) q = lookup (t_tree t) q.
Proof. exact srv_refresh_frame. Qed.
Print Assumptions C14_server_name_refresh_frame.

(** round 7: legal input addressed to the metadata subtree x lifecycle.  The
    history [ops] is arbitrary -- in particular it may hold deletes / updates
    addressed to meta/targetLeaves, meta, meta/* ..., which rewrite the
    bookkeeping (gnmiRemove -> ResetEntry) while the data leaves stay stored.
    Whatever the counters say, Cache.Reset of an existing target (not refused by
    a panic) leaves no leaf outside "meta" and announces, for every leaf that was
    stored outside "meta", the delete of its root that matches it.  No hypothesis
    on the metadata: [C14_reset_clears_leaves] carried none either; this is its
    form over all reachable caches ([ex7_reset_hyps]: the counter reads 0 while
    two leaves are stored). *)
Theorem C14_reset_clears_leaves_any_history : forall cfg names ops name now t c' feed,
  name <> ""%string ->
  assoc name (c_targets (crun (new_cache cfg names) ops)) = Some t ->
  cache_reset (crun (new_cache cfg names) ops) now name = (c', feed, None) ->
  exists t', assoc name (c_targets c') = Some t' /\
    (forall p0 rest v, lookup (t_tree t') (p0 :: rest) = Some v -> p0 = md_root) /\
    (forall p0 rest v, lookup (t_tree t) (p0 :: rest) = Some v -> p0 <> md_root ->
       In (delete_noti name p0 now ["*"]) feed /\ qmatch [p0; "*"] (p0 :: rest) = true).
Proof. exact reset_clears_leaves_any_history. Qed.
Print Assumptions C14_reset_clears_leaves_any_history.

(** C20 -- synthetic target emits an ordered, bounded, reproducible update stream.
    This file holds only the property theorems, each closed by [exact] of a
    lemma proved elsewhere, with [Print Assumptions] beneath. *)
From Gnmi Require Import Base.Prelude FakeQ.GoRand FakeQ.FakeQModel.

Theorem C20_deterministic :
  forall vs g ds n r1 r2, run_cfg vs g ds n = r1 -> run_cfg vs g ds n = r2 -> r1 = r2.
Proof. intros; congruence. Qed.
Print Assumptions C20_deterministic.

(** C20 -- synthetic target emits an ordered, bounded, reproducible update stream.
    This file holds only the property theorems, each closed by [exact] of a
    lemma proved elsewhere, with [Print Assumptions] beneath.

    Vocabulary (FakeQModel / FakeQProofs): [run_cfg vs g ds n] is the list of
    values returned by the first n calls of Next on the queue that client.go
    reset builds from the values [vs] (each with the raw Int63 tape of its own
    generator, if it has a seed), the raw tape [g] of the global generator and
    the DisableSync flag [ds], together with how the run ended.  All theorems
    hold for every configuration and every tape (arbitrary [list Z]). *)
From Gnmi Require Import Base.Prelude FakeQ.GoRand FakeQ.FakeQModel FakeQ.FakeQProofs.
From Coq Require Import Sorting.Sorted.
Open Scope Z_scope.

(** clause 1: non-decreasing timestamps, unconditionally (since df96f85 a step
    that would leave int64 is an error that ends the stream; the unpatched
    variant is refuted by C20_update_ts_unpatched_wraps) *)
Theorem C20_ts_nondecreasing :
  forall vs g ds n, StronglySorted Z.le (map vts (fst (run_cfg vs g ds n))).
Proof. exact ts_nondecreasing. Qed.
Print Assumptions C20_ts_nondecreasing.

Theorem C20_update_ts_unpatched_wraps :
  exists ts dmin dmax t ts' t',
    0 <= ts <= max_i64 /\ 0 <= dmin <= dmax /\ dmax <= max_i64 /\
    update_ts_gen false false ts dmin dmax t = RV ts' t' /\ ts' < ts.
Proof. exact update_ts_unpatched_wraps. Qed.
Print Assumptions C20_update_ts_unpatched_wraps.

(** clause 2: repeat counts (at most [repeat] emissions; exactly [repeat] when
    the queue runs dry, which cannot happen while an unbounded value exists) *)
Theorem C20_repeat_exact :
  forall vs g ds n v,
    ids_ok vs -> In v (full_cfg vs ds) ->
    (0 < vrep v -> count (vid v) (fst (run_cfg vs g ds n)) <= vrep v) /\
    (snd (run_cfg vs g ds n) = EDone ->
       0 < vrep v /\ count (vid v) (fst (run_cfg vs g ds n)) = vrep v).
Proof. exact repeat_exact. Qed.
Print Assumptions C20_repeat_exact.

(** clause 3: every emitted value is a configured value as configured or lies
    inside the configured range / option list (doubles: under non-NaN bounds,
    unless the clamped sum is itself NaN) *)
Theorem C20_in_range :
  forall vs g ds n, Forall (genuine (full_cfg vs ds)) (fst (run_cfg vs g ds n)).
Proof. exact in_range_run. Qed.
Print Assumptions C20_in_range.

(** clause 3, one step, all kinds: what [nextValue] generates from any state of
    a configured kind lies in the configured range / option list *)
Theorem C20_generated_in_range :
  forall k0 k t k' t', like k0 k -> update_kind k t = RV k' t' -> like k0 k' /\ in_range k0 k'.
Proof. exact update_kind_gen. Qed.
Print Assumptions C20_generated_in_range.

(** the bounded draws of the math/rand port stay in [0, n) for every tape *)
Theorem C20_int63n_range :
  forall n t x t', int63n n t = RV x t' -> 0 <= x < n.
Proof. exact int63n_range. Qed.
Print Assumptions C20_int63n_range.

Theorem C20_intn_range :
  forall n t x t', intn n t = RV x t' -> 0 <= x < n.
Proof. exact intn_range. Qed.
Print Assumptions C20_intn_range.

(** clause 4: timestamp steps of one value stay within its delta bounds, for
    every configuration whose timestamps and deltas are int64 values *)
Theorem C20_ts_step_bounds :
  forall vs g ds n a x b y c,
    ids_ok vs -> Forall i64v vs ->
    fst (run_cfg vs g ds n) = a ++ x :: b ++ y :: c -> vid y = vid x ->
    (forall w, In w b -> vid w <> vid x) ->
    0 <= vdmin x /\ vdmin x <= vts y - vts x <= vdmax x.
Proof. exact ts_step_bounds. Qed.
Print Assumptions C20_ts_step_bounds.

(** clause 5: the injected sync comes after the first emission of every
    configured value *)
Theorem C20_sync_after_first_emissions :
  forall vs g n a s b,
    ids_ok vs ->
    fst (run_cfg vs g false n) = a ++ s :: b -> vid s = List.length vs ->
    forall v, In v vs -> In (vid v) (ids a).
Proof. exact sync_after_first_emissions. Qed.
Print Assumptions C20_sync_after_first_emissions.

(** clause 6: a function of configuration and tapes *)
Theorem C20_deterministic :
  forall vs g ds n r1 r2, run_cfg vs g ds n = r1 -> run_cfg vs g ds n = r2 -> r1 = r2.
Proof. exact deterministic. Qed.
Print Assumptions C20_deterministic.

(** addValue's binary search is the stable sorted insertion *)
Theorem C20_insert_is_sorted_insertion :
  forall v q, wf q -> insert_value v q = Ok (ins v q).
Proof. exact insert_value_ins. Qed.
Print Assumptions C20_insert_is_sorted_insertion.

(** the width guard (c1a0b35): updateTimestamp no longer panics; before the
    repair it panicked exactly when delta_max-delta_min+1 left int64, which an
    int64 configuration can do (regression witnesses) *)
Theorem C20_update_ts_no_panic :
  forall f2 ts dmin dmax t, update_ts_gen true f2 ts dmin dmax t <> RPanic.
Proof. exact update_ts_no_panic. Qed.
Print Assumptions C20_update_ts_no_panic.

Theorem C20_update_ts_unpatched_panic_iff :
  forall f2 ts dmin dmax t,
    update_ts_gen false f2 ts dmin dmax t = RPanic <->
    (0 <= ts /\ 0 <= dmin <= dmax /\ wrap64 (dmax - dmin + 1) <= 0).
Proof. exact update_ts_unpatched_panic_iff. Qed.
Print Assumptions C20_update_ts_unpatched_panic_iff.

Theorem C20_update_ts_unpatched_panics :
  exists ts dmin dmax t, 0 <= ts <= max_i64 /\ 0 <= dmin <= dmax /\ dmax <= max_i64 /\
    update_ts_gen false false ts dmin dmax t = RPanic.
Proof. exact update_ts_unpatched_panics. Qed.
Print Assumptions C20_update_ts_unpatched_panics.

(** soundness of the order clause of the executable specification K_P (the one
    applied to the implementation's own observations) *)
Theorem C20_K_ts_sorted_sound :
  forall l, FakeQCheck.ts_sorted_from None l = true -> StronglySorted Z.le (timed l).
Proof. exact K_ts_sorted_sound. Qed.
Print Assumptions C20_K_ts_sorted_sound.

(** FixedQueue (fixed_queue.go through client.go reset): strict delivery of the
    configured responses followed by the sync marker *)
Theorem C20_fixed_strict_delivery :
  forall (R : Type) (arr : list R) k nosync sync steps,
    (k <= List.length arr)%nat ->
    fq_run steps (fst (fixed_reset arr k nosync sync)) =
    firstn steps (firstn k arr ++ if nosync then [] else [sync]).
Proof. exact @fixed_strict_delivery. Qed.
Print Assumptions C20_fixed_strict_delivery.

(** reproducibility of successive fixed generators built from prefixes of one
    backing array: holds with the sync disabled, and in general once NewFixed no
    longer shares the configuration's slice (KF-C20-3) *)
Theorem C20_fixed_scenario_repro :
  forall (R : Type) ks (arr : list R) nosync sync steps,
    fix_C20_3 = true \/ nosync = true ->
    Forall (fun k => (k <= List.length arr)%nat) ks ->
    fixed_scenario arr ks nosync sync steps =
    map (fun k => firstn steps (firstn k arr ++ if nosync then [] else [sync])) ks.
Proof. exact @fixed_scenario_repro. Qed.
Print Assumptions C20_fixed_scenario_repro.

Theorem C20_fixed_repro_refuted :
  fix_C20_3 = false ->
  exists (arr : list nat) k sync steps,
    nth 0 (fixed_scenario arr [List.length arr; k; List.length arr] false sync steps) [] <>
    nth 2 (fixed_scenario arr [List.length arr; k; List.length arr] false sync steps) [].
Proof. exact fixed_repro_refuted. Qed.
Print Assumptions C20_fixed_repro_refuted.

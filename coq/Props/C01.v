(** C01 -- the collector relays each configured target's state to subscribers
    faithfully, end to end.  This file holds only the property theorems, each
    closed by [exact] of a lemma proved in Pipeline/PipelineProofs.v, with
    [Print Assumptions] beneath.

    Vocabulary (Pipeline/PipelineModel.v): [pipeline cfg ss q sched] is what a
    client subscribed with [q] (STREAM) holds at quiescence when the collector
    runs configuration [cfg], every target [n] streams [ss n], and stream
    arrivals, sender steps and the subscription happen in the order [sched]
    (any list of actions; whatever is still in flight afterwards is delivered).
    [replay s] is the target's own final state under gNMI semantics (deletes
    before updates in a notification), [stamp_paths name] presents it under
    the configured target name with client-decoded values, [selects Q] keeps
    the leaves below the subscription path.

    [replay] keeps the newest value per leaf: an update older than what the leaf
    holds (or an unchanged repeat at the same timestamp) is a no-op, a delete
    removes what is older than it, and a rejected update never keeps the other
    operations of its notification from taking effect.  Timestamps are
    arbitrary (no monotonicity is assumed).

    [stream_ok name Vals Q s] (PipelineProofs.conforms) says of the subscribed
    target's stream: the replay is prefix-free at every instant
    ([prefix_free_from [] s = true]: no update meets a stored path that is a
    proper prefix or extension of its own); every update path is glob-free and
    the subscription path does not run below it; values are drawn from [Vals];
    the stamped origin is not [meta]; no origin is carried in a path
    ([no_porigin], open finding 7.21).  [Vals] is any set of values the client
    can decode, on which value.Equal implies equal decoding (this excludes a
    leaf alternating between +0 and -0, open finding) and proto.Equal implies
    identity (no two NaN payloads).

    Sessions.  [IReset] in a stream is a stream failure (error, EOF or timeout of
    the target stream at any point): the collector resets the target
    (Cache.Reset: every non-meta root cut off, one <root>/* delete announced
    for each) and a new session starts; [replay] restarts from nothing.
    [stream_ok] allows [IReset] anywhere, in the subscribed target's and in the
    other targets' streams, any number of times, so [C01_relay_faithful] IS the
    statement over histories of several sessions; [join_sessions earlier last]
    spells such a history out and [C01_relay_sessions] is the reading "what the
    client holds at quiescence is what the target's LAST session holds".
    [C01_relay_no_stale_leaf] is the statement at every intermediate point of
    every run ([pipeline_at]: the run stopped there, what is in flight
    delivered): the client holds the replay of what the target has delivered so
    far -- between a reset and the next sync, nothing the new session has not
    sent.  [C01_relay_skip_reset_refuted] shows the statements separate a
    collector that skips the reset.

    What the session statements do not say: the meta leaves the reset keeps
    (meta/sync, meta/connected, ...) are outside them (the subscription paths
    are below non-meta origins, as before); and the time at which the manager
    calls Reset relative to the stream error is not modelled (it is the next
    thing the manager does for that target; C04 owns that sequence). *)
From Gnmi Require Import Base.Prelude CTree.CTreeModel Pipeline.PipelineModel Pipeline.PipelineCheck
  Pipeline.PipelineProofs.

(** relay_faithful: for every configuration (any number of targets), every
    stream of every other target, EVERY schedule, every subscription request
    with ANY NUMBER OF ENTRIES (each a glob-free subtree of a configured target;
    the origin in the prefix or in the path of any entry -- [cq_paths cq], each
    completing to one element of [Qrs]), and every conforming stream of that
    target
    (any timestamps; updates the cache rejects as stale mixed with accepted ones
    and with deletes in one notification included):
    at quiescence the client holds exactly the target's final state under the
    configured name -- no missing, extra or stale leaf *)
Theorem C01_relay_faithful :
  forall (name : string) (Vals : tv -> Prop) (Qrs : list path)
         (cq : cquery) (s : list item) (cfg : config) (ss : streams) (sched : list action),
    (forall v : tv, Vals v -> to_scalar v <> None) ->
    (forall a b : tv, Vals a -> Vals b -> tv_equal a b = true -> to_scalar a = to_scalar b) ->
    (forall a b : tv, Vals a -> Vals b -> tv_eqb a b = true -> a = b) ->
    (forall Qr, In Qr Qrs -> glob_free Qr = true) ->
    g_target (cq_prefix cq) = name ->
    map (complete_path (cq_prefix cq)) (cq_paths cq) = map Some Qrs ->
    stream_ok name Vals Qrs s ->
    validate cfg = true -> NoDup (keys (cf_targets cfg)) ->
    (forall n, In n (keys (cf_targets cfg)) -> is_glob n = false) ->
    In name (keys (cf_targets cfg)) ->
    NoDup (keys ss) -> assoc name ss = Some s ->
    (forall n' l, In (n', l) ss -> Forall (item_nometa n') l) ->
    exists l, pipeline cfg ss cq sched = VLeaves l /\
              Permutation l (selects_any (sub_queries cq) (stamp_paths name (replay s))).
Proof. exact relay_faithful_all. Qed.
Print Assumptions C01_relay_faithful.

(** its hypotheses are satisfiable: two targets, keyed path, origin in a prefix,
    decimal value, a suppressed update, a subtree delete, TWO SESSIONS of the
    subscribed target (the first fails while the client is subscribed; the
    second re-sends with smaller timestamps), an interleaved schedule; the
    resulting view has two leaves *)
Theorem C01_relay_faithful_example :
  exists l, pipeline RelayExample.cfg RelayExample.ss RelayExample.q2 RelayExample.sched = VLeaves l /\
            Permutation l (selects_any [["dev1"; "foo"]; ["dev1"; "openconfig"; "a"]]
                             (stamp_paths "dev1" (replay RelayExample.s1))) /\
            List.length l = 2%nat.
Proof. exact RelayExample.example. Qed.
Print Assumptions C01_relay_faithful_example.

(** query flags, inline -proto and -proto_file build the same SubscribeRequest *)
Theorem C01_cli_invocations_equivalent :
  forall (parse : string -> option cli_req) (files : string -> option string)
         (tgt : string) (qs : list string) (qt : string) (m : qmode) (txt fname : string) (r : cli_req),
    query_type qt = Some m -> qs <> [] -> existsb has_bracket qs = false ->
    r = {| cr_mode := m; cr_target := tgt;
           cr_paths := map (fun s => query_to_path (parse_query s)) qs |} ->
    txt <> "" -> fname <> "" -> parse txt = Some r -> files fname = Some txt ->
    cli_request parse files
      {| a_target := tgt; a_queries := qs; a_qtype := qt; a_proto := ""; a_proto_file := "" |} = CliReq r
    /\ cli_request parse files
      {| a_target := ""; a_queries := []; a_qtype := qt; a_proto := txt; a_proto_file := "" |} = CliReq r
    /\ cli_request parse files
      {| a_target := ""; a_queries := []; a_qtype := qt; a_proto := ""; a_proto_file := fname |} = CliReq r.
Proof. exact cli_equivalent. Qed.
Print Assumptions C01_cli_invocations_equivalent.

(** ... and however the request is SPELLED when it is handed over as a proto
    (-proto, -proto_file, a library client's Query.SubReq): requests that differ
    only in encoding - path and/or prefix in the deprecated [element] strings,
    the first name as [prefix.origin], an [elem] prefix with an [element] path
    - are registered under the same index path [tgt :: ql], walk the same
    snapshot path and give the same ONCE view as the [elem] request the flag
    style builds, for every configuration and every set of target streams *)
Theorem C01_cli_request_encodings_equivalent :
  forall (e : req_enc) (tgt : string) (ql : path),
    tgt <> "" -> Forall (fun s => s <> "") ql ->
    let r := encode_request e tgt ql in
    sub_queries r = [tgt :: ql]
    /\ complete_path (cq_prefix r) (cq_path r) = Some ql
    /\ forall cfg ss, pipeline_once cfg ss r = pipeline_once cfg ss (encode_request EncElem tgt ql).
Proof. exact cli_request_encodings_equivalent. Qed.
Print Assumptions C01_cli_request_encodings_equivalent.

(** every configured target is registered with the target manager (with its
    own request, carrying its name) and with the cache *)
Theorem C01_collector_registers_every_target :
  forall c,
    match collector_start c with
    | Some (managed, cached) =>
        validate c = true /\
        keys managed = keys (cf_targets c) /\ cached = keys (cf_targets c) /\
        forall name t, In (name, t) (cf_targets c) ->
          exists r, assoc (t_request t) (cf_requests c) = Some r /\ In (name, customize name r) managed
    | None => validate c = false
    end.
Proof. exact collector_start_spec. Qed.
Print Assumptions C01_collector_registers_every_target.

(** every notification leaves the collector's Update closure carrying the
    configured target name and a non-empty origin *)
Theorem C01_stamp_prefix :
  forall name n, exists pre,
    n_prefix (stamp name n) = Some pre /\ g_target pre = name /\ g_origin pre <> "".
Proof. exact stamp_prefix. Qed.
Print Assumptions C01_stamp_prefix.

(** the executable checker applied to the implementation's observations is sound *)
Theorem C01_kp_client_sound :
  forall i c q l,
    let name := g_target (cq_prefix q) in
    configured c name = true -> hyp_stream (stream_of c name) = true ->
    hyp_queries name q (stream_of c name) = true ->
    kp_client i c q (OView (VLeaves l)) = [] ->
    Permutation (drop_meta l) (spec_view c name (sub_queries q)).
Proof. exact kp_client_sound. Qed.
Print Assumptions C01_kp_client_sound.

(** false of the faithful model outside the hypotheses (open findings, witnesses in corpus/C01) *)
Theorem C01_relay_path_origin_refuted :
  exists l, pipeline Refuted.cfg1 [("dev1", Refuted.s_origin)] RelayExample.q [] = VLeaves l /\
            ~ Permutation l (selects ["dev1"] (stamp_paths "dev1" (replay Refuted.s_origin))).
Proof. exact Refuted.path_origin_refuted. Qed.
Print Assumptions C01_relay_path_origin_refuted.

Theorem C01_relay_negative_zero_refuted :
  exists l, pipeline Refuted.cfg1 [("dev1", Refuted.s_zero)] RelayExample.q
              [AIngest "dev1"; ASubscribe; ASend; ASend] = VLeaves l /\
            ~ Permutation l (selects ["dev1"] (stamp_paths "dev1" (replay Refuted.s_zero))).
Proof. exact Refuted.negative_zero_refuted. Qed.
Print Assumptions C01_relay_negative_zero_refuted.

(** regression witness of the repaired defect C01_3: the delete notification of
    a leaf with mixed path encodings named only the prefix subtree before
    6b65ac8 ([to_delete_gen true]); the model of the current code names the leaf *)
Theorem C01_mixed_encoding_regression :
  full_path Refuted.r_mixed = ["dev1"; "openconfig"; "a"; "b"] /\
  del_full (to_delete_gen true Refuted.r_mixed 300) = ["dev1"; "openconfig"; "a"] /\
  del_full (to_delete Refuted.r_mixed 300) = full_path Refuted.r_mixed.
Proof. exact Refuted.mixed_encoding_regression. Qed.
Print Assumptions C01_mixed_encoding_regression.

(** the seeded defect seed_rb as an instance: a notification repeating an
    unchanged leaf at its unchanged timestamp (rejected as stale) and deleting
    another leaf -- the delete takes effect, in the model and in the replay *)
Theorem C01_rejected_update_keeps_deletes :
  pipeline Refuted.cfg1 [("dev1", Refuted.s_rejected)] RelayExample.q
      [AIngest "dev1"; AIngest "dev1"; ASubscribe; ASend; ASend; ASend]
    = VLeaves [(["dev1"; "openconfig"; "a"; "y"], SInt 2)] /\
  selects ["dev1"] (stamp_paths "dev1" (replay Refuted.s_rejected))
    = [(["dev1"; "openconfig"; "a"; "y"], SInt 2)].
Proof. exact Refuted.rejected_update_keeps_deletes. Qed.
Print Assumptions C01_rejected_update_keeps_deletes.

(** one request, two entries, origin in the path of the first entry (none in the
    prefix): the entries are registered independently; what is streamed after
    the sync under the second entry arrives (the class of seed_va) *)
Theorem C01_relay_entries_example :
  sub_queries RelayExample.q2 = [["dev1"; "foo"]; ["dev1"; "openconfig"; "a"]] /\
  pipeline Refuted.cfg1 [("dev1", Refuted.s_entries)] RelayExample.q2
      [AIngest "dev1"; AIngest "dev1"; ASubscribe; ASend; ASend; ASend; AIngest "dev1"; ASend; AIngest "dev1"]
    = VLeaves [(["dev1"; "openconfig"; "a"; "x"], SInt 3)] /\
  selects_any (sub_queries RelayExample.q2) (stamp_paths "dev1" (replay Refuted.s_entries))
    = [(["dev1"; "openconfig"; "a"; "x"], SInt 3)].
Proof. exact Refuted.entries_example. Qed.
Print Assumptions C01_relay_entries_example.

(** a stream failure while the client is subscribed: the second session re-sends
    only one leaf, edited, with a smaller timestamp; model and replay agree on
    the new session's state *)
Theorem C01_relay_reconnect_example :
  pipeline Refuted.cfg1 [("dev1", Refuted.s_sessions)] RelayExample.q
      [AIngest "dev1"; AIngest "dev1"; ASubscribe; ASend; ASend; ASend; AIngest "dev1"; ASend; AIngest "dev1"]
    = VLeaves [(["dev1"; "openconfig"; "a"; "y"], SInt 7)] /\
  selects ["dev1"] (stamp_paths "dev1" (replay Refuted.s_sessions))
    = [(["dev1"; "openconfig"; "a"; "y"], SInt 7)].
Proof. exact Refuted.reconnect_example. Qed.
Print Assumptions C01_relay_reconnect_example.

(** several sessions, spelled out: the subscribed target's history is any
    number of sessions, each cut at any point and followed by the manager's
    Reset, then a last one; at quiescence the client's view equals what the
    LAST session holds (any number of targets, any schedule) *)
Theorem C01_relay_sessions :
  forall (name : string) (Vals : tv -> Prop) (Qrs : list path)
         (cq : cquery) (earlier : list (list item)) (last : list item)
         (cfg : config) (ss : streams) (sched : list action),
    (forall v : tv, Vals v -> to_scalar v <> None) ->
    (forall a b : tv, Vals a -> Vals b -> tv_equal a b = true -> to_scalar a = to_scalar b) ->
    (forall a b : tv, Vals a -> Vals b -> tv_eqb a b = true -> a = b) ->
    (forall Qr, In Qr Qrs -> glob_free Qr = true) ->
    g_target (cq_prefix cq) = name ->
    map (complete_path (cq_prefix cq)) (cq_paths cq) = map Some Qrs ->
    stream_ok name Vals Qrs (join_sessions earlier last) ->
    validate cfg = true -> NoDup (keys (cf_targets cfg)) ->
    (forall n, In n (keys (cf_targets cfg)) -> is_glob n = false) ->
    In name (keys (cf_targets cfg)) ->
    NoDup (keys ss) -> assoc name ss = Some (join_sessions earlier last) ->
    (forall n' l, In (n', l) ss -> Forall (item_nometa n') l) ->
    exists l, pipeline cfg ss cq sched = VLeaves l /\
              Permutation l (selects_any (sub_queries cq) (stamp_paths name (replay last))).
Proof. exact relay_sessions_all. Qed.
Print Assumptions C01_relay_sessions.

(** no stale leaf, at every point of every run: stop the run after ANY schedule
    ([run_to]); the subscribed target's stream splits into what it has
    delivered, [c], and the rest; if nothing more arrives ([pipeline_at]) the
    client holds exactly the replay of [c].  With [c = join_sessions earlier
    sent] (second form): after a reset the client holds nothing the new session
    has not sent *)
Theorem C01_relay_no_stale_leaf :
  forall (name : string) (Vals : tv -> Prop) (Qrs : list path)
         (cq : cquery) (s : list item) (cfg : config) (ss : streams) (sched : list action),
    (forall v : tv, Vals v -> to_scalar v <> None) ->
    (forall a b : tv, Vals a -> Vals b -> tv_equal a b = true -> to_scalar a = to_scalar b) ->
    (forall a b : tv, Vals a -> Vals b -> tv_eqb a b = true -> a = b) ->
    (forall Qr, In Qr Qrs -> glob_free Qr = true) ->
    g_target (cq_prefix cq) = name ->
    map (complete_path (cq_prefix cq)) (cq_paths cq) = map Some Qrs ->
    stream_ok name Vals Qrs s ->
    validate cfg = true -> NoDup (keys (cf_targets cfg)) ->
    (forall n, In n (keys (cf_targets cfg)) -> is_glob n = false) ->
    In name (keys (cf_targets cfg)) ->
    NoDup (keys ss) -> assoc name ss = Some s ->
    (forall n' l, In (n', l) ss -> Forall (item_nometa n') l) ->
    (exists rs c rem l,
       run_to cfg ss cq sched = Some rs /\ s = c ++ rem /\ assoc name (rn_streams rs) = Some rem /\
       pipeline_at cfg ss cq sched = VLeaves l /\
       Permutation l (selects_any (sub_queries cq) (stamp_paths name (replay c)))) /\
    (forall rs rem earlier sent,
       run_to cfg ss cq sched = Some rs -> assoc name (rn_streams rs) = Some rem ->
       s = join_sessions earlier sent ++ rem ->
       exists l, pipeline_at cfg ss cq sched = VLeaves l /\
                 Permutation l (selects_any (sub_queries cq) (stamp_paths name (replay sent)))).
Proof. exact relay_no_stale. Qed.
Print Assumptions C01_relay_no_stale_leaf.

(** an instance: the reconnect run stopped right after the reset -- the client
    holds nothing; the same with the reset skipped -- both leaves of the dead
    session are still there *)
Theorem C01_relay_no_stale_example :
  pipeline_at Refuted.cfg1 [("dev1", Refuted.s_sessions)] RelayExample.q
      [AIngest "dev1"; AIngest "dev1"; ASubscribe; ASend; ASend; ASend; AIngest "dev1"] = VLeaves [] /\
  pipeline_at Refuted.cfg1
      [("dev1", filter (fun it => match it with IReset => false | _ => true end) Refuted.s_sessions)] RelayExample.q
      [AIngest "dev1"; AIngest "dev1"; ASubscribe; ASend; ASend; ASend]
    = VLeaves [(["dev1"; "openconfig"; "a"; "x"], SInt 1); (["dev1"; "openconfig"; "a"; "y"], SInt 2)].
Proof. exact Refuted.no_stale_example. Qed.
Print Assumptions C01_relay_no_stale_example.

(** the session statement discriminates: a collector that skips Reset when a
    session ends (on a clean EOF, say) is the pipeline fed the same messages
    without the failure marker; on the reconnect stream its client keeps x of
    the dead session and never takes the new session's y (older timestamp) --
    not what the target's last session holds *)
Theorem C01_relay_skip_reset_refuted :
  exists l, pipeline Refuted.cfg1 [("dev1", Refuted.s_sessions_skip)] RelayExample.q
              [AIngest "dev1"; AIngest "dev1"; ASubscribe; ASend; ASend; ASend; AIngest "dev1"; ASend] = VLeaves l /\
            ~ Permutation l (selects ["dev1"] (stamp_paths "dev1" (replay Refuted.s_sessions))).
Proof. exact Refuted.skip_reset_refuted. Qed.
Print Assumptions C01_relay_skip_reset_refuted.

(** outside prefix-freeness: a notification that deletes a leaf and writes below
    it is applied updates-first by the cache (gNMI: deletes first) and the
    subscriber ends with nothing; [prefix_free_from] rejects the stream *)
Theorem C01_relay_leaf_to_subtree_refuted :
  prefix_free_from [] Refuted.s_replace = false /\
  exists l, pipeline Refuted.cfg1 [("dev1", Refuted.s_replace)] RelayExample.q [ASubscribe] = VLeaves l /\
            ~ Permutation l (selects ["dev1"] (stamp_paths "dev1" (replay Refuted.s_replace))).
Proof. exact Refuted.leaf_to_subtree_refuted. Qed.
Print Assumptions C01_relay_leaf_to_subtree_refuted.

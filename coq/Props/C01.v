(** C01 -- the collector relays each configured target's state to subscribers
    faithfully.  Only theorem statements closed by [exact]. *)
From Gnmi Require Import Base.Prelude CTree.CTreeModel Pipeline.PipelineModel Pipeline.PipelineProofs.

(** every notification leaves the collector's Update closure carrying the
    configured target name and a non-empty origin *)
Theorem C01_stamp_prefix :
  forall name n, exists pre,
    n_prefix (stamp name n) = Some pre /\ g_target pre = name /\ g_origin pre <> "".
Proof. exact stamp_prefix. Qed.
Print Assumptions C01_stamp_prefix.

(** C16 -- shared gRPC connections are reference-counted correctly.
    Only the property theorems, each closed by [exact] of a lemma proved in
    Conn/ConnProofs.v, with [Print Assumptions] beneath. *)
From Gnmi Require Import Conn.ConnLts Conn.ConnProofs.

Theorem C16_init_not_panicked : panicked init = false.
Proof. exact init_not_panicked. Qed.
Print Assumptions C16_init_not_panicked.

(** C16 -- shared gRPC connections are reference-counted correctly.

    Only the property theorems, each closed by [exact] of a lemma proved in
    Conn/ConnProofs.v, with [Print Assumptions] beneath.  They are stated over
    the labelled transition system of Conn/ConnLts.v (one label per critical
    section / channel operation of connection.go), for every reachable state,
    i.e. for every interleaving of requests, releases, cancellations and
    dialer steps over any number of threads and addresses and every choice of
    dial outcomes.  Non-vacuity: ConnProofs.ex_shared, ex_closed, ex_fresh,
    ex_failed, ex_two_dials, ex_failing_window, ex_concurrent_release. *)
From Coq Require Import List ZArith NArith Arith.
Import ListNotations.
From Gnmi Require Import Conn.ConnLts Conn.ConnCheck Conn.ConnProofs Conn.ConnLive Conn.ConnKSound.

(** one_dial_in_flight *)
Theorem C16_one_attempt_per_address :
  forall s c1 c2 a, reachable s -> pending s c1 a -> pending s c2 a -> c1 = c2.
Proof. exact one_attempt_per_address. Qed.
Print Assumptions C16_one_attempt_per_address.

Theorem C16_one_dial_in_flight :
  forall s c1 c2 o1 o2, reachable s -> objs s c1 = Some o1 -> objs s c2 = Some o2 ->
  c_ds o1 = DInDial -> c_ds o2 = DInDial -> c_addr o1 = c_addr o2 -> c1 = c2.
Proof. exact one_dial_in_flight. Qed.
Print Assumptions C16_one_dial_in_flight.

Theorem C16_request_joins_pending_attempt :
  forall s c a i k s', reachable s -> pending s c a -> cancelled s i = false ->
  step s (LReq i a k) = Some s' ->
  dial_log s' = dial_log s /\
  (forall c', objs s c' = None -> objs s' c' = None) /\
  exists t, thr s' i = Some t /\ t_obj t = Some c /\ t_pc t = PJoined.
Proof. exact request_joins_pending_attempt. Qed.
Print Assumptions C16_request_joins_pending_attempt.

(** share_outcome *)
Theorem C16_share_outcome :
  forall s i j ti tj c r r', reachable s -> thr s i = Some ti -> thr s j = Some tj ->
  t_obj ti = Some c -> t_obj tj = Some c -> t_pc ti = PRet r -> t_pc tj = PRet r' -> r = r'.
Proof. exact share_outcome. Qed.
Print Assumptions C16_share_outcome.

Theorem C16_returned_handle_is_the_attempts :
  forall s i t c h, reachable s -> thr s i = Some t -> t_obj t = Some c -> t_pc t = PRet (RConn h) ->
  h = Some c /\ exists o, objs s c = Some o /\ c_addr o = t_addr t /\ c_cc o = Some c.
Proof. exact returned_handle_is_the_attempts. Qed.
Print Assumptions C16_returned_handle_is_the_attempts.

(** no_use_after_close *)
Theorem C16_no_use_after_close :
  forall s i c, reachable s -> holds_at s c i = true -> ~ In c (close_log s).
Proof. exact no_use_after_close. Qed.
Print Assumptions C16_no_use_after_close.

Theorem C16_no_use_after_close_returned :
  forall s i t h, reachable s -> thr s i = Some t -> t_pc t = PRet (RConn (Some h)) ->
  t_once t = false -> ~ In h (close_log s).
Proof. exact no_use_after_close_returned. Qed.
Print Assumptions C16_no_use_after_close_returned.

(** closed_exactly_once *)
Theorem C16_closed_at_most_once :
  forall s h, reachable s -> (count_occ Nat.eq_dec (close_log s) h <= 1)%nat.
Proof. exact closed_at_most_once. Qed.
Print Assumptions C16_closed_at_most_once.

Theorem C16_closed_iff_no_holder :
  forall s c o, reachable s -> objs s c = Some o -> c_cc o = Some c ->
  (holders s c = 0%nat <-> count_occ Nat.eq_dec (close_log s) c = 1%nat) /\
  (holders s c = 0%nat <-> conns s (c_addr o) <> Some c).
Proof. exact closed_iff_no_holder. Qed.
Print Assumptions C16_closed_iff_no_holder.

Theorem C16_last_release_closes :
  forall s i t c h s', reachable s -> thr s i = Some t -> t_obj t = Some c ->
  t_pc t = PRet (RConn h) -> t_once t = false -> t_run t = true -> holders s c = 1%nat ->
  step s (LRelease i) = Some s' ->
  In c (close_log s') /\ conns s' (t_addr t) = None /\ panicked s' = false.
Proof. exact last_release_closes. Qed.
Print Assumptions C16_last_release_closes.

(** forgotten_then_fresh *)
Theorem C16_closed_is_forgotten :
  forall s h o, reachable s -> In h (close_log s) -> objs s h = Some o -> conns s (c_addr o) <> Some h.
Proof. exact closed_is_forgotten. Qed.
Print Assumptions C16_closed_is_forgotten.

Theorem C16_fresh_dial_when_no_entry :
  forall s i a s', reachable s -> conns s a = None -> cancelled s i = false ->
  step s (LReq i a true) = Some s' ->
  conns s' a = Some i /\
  exists s'', step s' (LSpawn i) = Some s'' /\ dial_log s'' = (i, a) :: dial_log s.
Proof. exact fresh_dial_when_no_entry. Qed.
Print Assumptions C16_fresh_dial_when_no_entry.

(** double_release_noop, release_after_failure_noop *)
Theorem C16_double_release_noop :
  forall s i t, reachable s -> thr s i = Some t -> t_once t = true -> step s (LRelease i) = Some s.
Proof. exact double_release_noop. Qed.
Print Assumptions C16_double_release_noop.

Theorem C16_release_after_failure_noop :
  forall s i t e, reachable s -> thr s i = Some t -> t_pc t = PRet (RErr e) -> step s (LRelease i) = Some s.
Proof. exact release_after_failure_noop. Qed.
Print Assumptions C16_release_after_failure_noop.

(** double_release_noop for CONCURRENT calls of one done function.  A call is
    [LRelBegin i] (check-and-set of the Once; any goroutine, any time), the
    function under the Once is [LRelease i].  A call that finds the Once
    entered -- by a caller that may still be waiting for m.mu -- or finished is
    the identity on the state, wherever it is scheduled; the function under
    the Once has exactly one effective run, after which both steps are
    identities. *)
Theorem C16_concurrent_release_noop :
  forall s i t, reachable s -> thr s i = Some t -> t_run t = true \/ t_once t = true ->
  step s (LRelBegin i) = Some s.
Proof. exact concurrent_release_noop. Qed.
Print Assumptions C16_concurrent_release_noop.

Theorem C16_release_runs_once :
  forall s i t h s', reachable s -> thr s i = Some t -> t_pc t = PRet (RConn h) -> t_once t = false ->
  step s (LRelease i) = Some s' ->
  t_run t = true /\ exists t', thr s' i = Some t' /\ t_once t' = true /\
  step s' (LRelease i) = Some s' /\ step s' (LRelBegin i) = Some s'.
Proof. exact release_runs_once. Qed.
Print Assumptions C16_release_runs_once.

(** remove_precondition *)
Theorem C16_never_panics : forall s, reachable s -> panicked s = false.
Proof. exact never_panics. Qed.
Print Assumptions C16_never_panics.

Theorem C16_remove_finds_own_entry_on_failure :
  forall s c o e, reachable s -> objs s c = Some o -> c_ds o = DFailing e -> conns s (c_addr o) = Some c.
Proof. exact remove_finds_own_entry_on_failure. Qed.
Print Assumptions C16_remove_finds_own_entry_on_failure.

Theorem C16_remove_finds_own_entry_on_release :
  forall s i t c h o, reachable s -> thr s i = Some t -> t_obj t = Some c -> t_pc t = PRet (RConn h) ->
  t_once t = false -> objs s c = Some o -> conns s (c_addr o) = Some c.
Proof. exact remove_finds_own_entry_on_release. Qed.
Print Assumptions C16_remove_finds_own_entry_on_release.

(** no waiter is stuck (deadlock freedom of the wait on [ready]) *)
Theorem C16_waiter_progress :
  forall s i t c, reachable s -> thr s i = Some t -> t_pc t = PWaiting -> t_obj t = Some c ->
  exists l s', step s l = Some s' /\
    (l = LWait i \/ l = LSpawn c \/ l = LDialRet c true \/ l = LFailLock c \/ l = LFailReady c).
Proof. exact waiter_progress. Qed.
Print Assumptions C16_waiter_progress.

(** the model replayed by the correspondence check is this transition system *)
Theorem C16_check_model_states_reachable :
  forall es, Forall reachable (mstates init es).
Proof. exact check_model_states_reachable. Qed.
Print Assumptions C16_check_model_states_reachable.

(** after every applied event the model is at rest: no dialer can start, no
    failed dial can signal ready, no waiter can return without a further event
    (this is the state the harness waits for before it records observations) *)
Theorem C16_mrun_quiescent :
  forall s e, reachable s -> o_ign (snd (mrun s e)) = false -> quiescent (fst (mrun s e)).
Proof. exact mrun_quiescent. Qed.
Print Assumptions C16_mrun_quiescent.

(** K_P: a case without tags 2..7 is one whose every observation equals the
    specification's prediction ... *)
Theorem C16_check_clean_kaccepts :
  forall c, (forall m t, In (m, t) (check_case c) -> t = 1%N) -> kaccepts c = true.
Proof. exact check_clean_kaccepts. Qed.
Print Assumptions C16_check_clean_kaccepts.

(** ... the specification machine keeps its invariant (closed handles have no
    unreleased holder, live/dialing/failing addresses point to the right dial
    record) under every event ... *)
Theorem C16_spec_invariant : forall ks e, kinv ks -> kinv (fst (kstep ks e)).
Proof. exact kinv_kstep. Qed.
Print Assumptions C16_spec_invariant.

(** ... and therefore the observations of an accepted case satisfy
    no-use-after-close by themselves: when a handle is observed closed, every
    thread observed to have received it has an applied release event. *)
Theorem C16_K_sound_no_use_after_close :
  forall c, kaccepts c = true ->
  forall pre e o post, c = pre ++ (e, o) :: post ->
  forall h, In h (o_closed (canon o)) ->
  forall i, returned_in (pre ++ [(e, o)]) i (OConn h) -> released_in (pre ++ [(e, o)]) i.
Proof. exact K_sound_no_use_after_close. Qed.
Print Assumptions C16_K_sound_no_use_after_close.

(** K_P soundness, second clause: in an accepted case a Dial call to an
    address is observed only after every earlier observed Dial call to that
    address was ended by an applied event (let return / context cancelled). *)
Theorem C16_K_sound_one_dial_in_flight :
  forall c, kaccepts c = true ->
  forall pre e o post, c = pre ++ (e, o) :: post ->
  forall d2 a, In (d2, a) (o_dials (canon o)) ->
  forall d1, dial_in pre d1 a -> ended_in pre d1.
Proof. exact K_sound_one_dial_in_flight. Qed.
Print Assumptions C16_K_sound_one_dial_in_flight.

(** * K_P soundness, remaining clauses (Conn/ConnKSound.v)

    Each is stated on a recorded run alone (script events with the
    observations made on the implementation) that K_P accepts.  The LTS
    theorem that establishes the same clause for every run of the model is
    named beside it.  Accepted / rejected example runs: ConnKSound.ex_*. *)

(** releasing twice, releasing after a failed request: the event is applied
    and shows nothing (LTS: C16_double_release_noop, C16_release_runs_once,
    C16_release_after_failure_noop) *)
Theorem C16_kp_noop_release_sound :
  forall c, kaccepts c = true ->
  forall pre i o post, c = pre ++ (ERelease i, o) :: post ->
  released_in pre i \/ (exists r, returned_in pre i r /\ forall h, r <> OConn h) ->
  canon o = Obs false [] [] [] [] (closed_after pre) 0%N.
Proof. exact K_sound_noop_release. Qed.
Print Assumptions C16_kp_noop_release_sound.

(** closed once (a handle shown closed stays closed) and only by an applied
    release of a thread without an earlier applied release; with
    C16_K_sound_no_use_after_close: at the last release, not before
    (LTS: C16_closed_at_most_once, C16_closed_iff_no_holder, C16_last_release_closes) *)
Theorem C16_kp_closed_by_release_sound :
  forall c, kaccepts c = true ->
  forall pre e o post, c = pre ++ (e, o) :: post ->
  (forall h, In h (closed_after pre) -> In h (o_closed (canon o))) /\
  (forall h, In h (o_closed (canon o)) -> ~ In h (closed_after pre) ->
     exists i, e = ERelease i /\ o_ign (canon o) = false /\ ~ released_in pre i).
Proof. exact K_sound_closed_by_release. Qed.
Print Assumptions C16_kp_closed_by_release_sound.

(** forgotten after the close: the next request for the address that reaches
    the join point has a Dial call of its own
    (LTS: C16_closed_is_forgotten, C16_fresh_dial_when_no_entry) *)
Theorem C16_kp_fresh_dial_after_close_sound :
  forall c, kaccepts c = true ->
  forall pre i o1 mid j o2 post h a,
  c = pre ++ (ERelease i, o1) :: mid ++ (EReq j a true, o2) :: post ->
  dial_in pre h a -> In h (o_closed (canon o1)) -> ~ In h (closed_after pre) ->
  no_req_for a mid -> In j (o_joined (canon o2)) ->
  In (j, a) (o_dials (canon o2)).
Proof. exact K_sound_fresh_dial_after_close. Qed.
Print Assumptions C16_kp_fresh_dial_after_close_sound.

(** manager family: after every cycle that the manager check accepts, every
    connection dialled so far is Shutdown and nothing panicked or hung: the
    target manager's acquires and releases balance
    (LTS: C16_closed_iff_no_holder -- closed exactly when no holder is left) *)
Theorem C16_kp_manager_balance_sound :
  forall c, mcheck_from 0 [] c = [] ->
  forall pre e r post, c = pre ++ (e, r) :: post ->
  o_bad (canon (x_o r)) = 0%N /\
  forall d, xdialed_in (pre ++ [(e, r)]) d -> In d (o_closed (canon (x_o r))).
Proof. exact K_sound_manager_balance. Qed.
Print Assumptions C16_kp_manager_balance_sound.

(** shared outcome: two requests that joined one Dial call -- they reached the
    join point while it was in flight (observed, not ended), or are the request
    it was made for -- and both returned, returned the same thing
    (LTS: C16_share_outcome, C16_request_joins_pending_attempt) *)
Theorem C16_kp_share_outcome_sound :
  forall c, kaccepts c = true ->
  forall i j d ri rj, joins c i d -> joins c j d ->
  returned_in c i ri -> returned_in c j rj -> ri = rj.
Proof. exact K_sound_share_outcome. Qed.
Print Assumptions C16_kp_share_outcome_sound.

(** closed AT the last release (no leak): a thread handed h releases it for the
    first time, and every other thread entitled to h -- it asked for the address
    h was dialled for and reached the join point, returned or not -- already has
    an applied release: then h is shown closed after that very release
    (LTS: C16_last_release_closes, C16_closed_iff_no_holder) *)
Theorem C16_kp_closed_at_last_release_sound :
  forall c, kaccepts c = true ->
  forall pre i o post h, c = pre ++ (ERelease i, o) :: post ->
  returned_in pre i (OConn h) -> ~ released_in pre i ->
  (forall j, entitled pre j h -> j = i \/ released_in pre j) ->
  In h (o_closed (canon o)).
Proof. exact K_sound_closed_at_last_release. Qed.
Print Assumptions C16_kp_closed_at_last_release_sound.
(** * Liveness under fairness (Conn/ConnLive.v)

    Runs are infinite sequences [rn : nat -> state] from [init] with an
    optional label per step; [wfair] is weak fairness of the thread owning a
    set of labels (requester i: LPass i, LWait i; dialer of object c: LSpawn c,
    LFailLock c, LFailReady c; a caller inside a done function: LRelease i).
    The return of a Dial call belongs to the environment: [dial_completes]. *)

(** every request that joined an attempt returns (handle, dial error or
    cancellation): no waiter is left parked *)
Theorem C16_request_returns : returns_statement step.
Proof. exact request_returns. Qed.
Print Assumptions C16_request_returns.

(** ... and what it returns is the outcome of that attempt *)
Theorem C16_request_returns_outcome :
  forall rn lab i c k p, is_run step rn lab -> rn 0 = init ->
  wfair step rn lab (req_label i) -> wfair step rn lab (dial_label c) -> dial_completes rn lab c ->
  at_pc i c p (rn k) ->
  exists j o, (k <= j)%nat /\ objs (rn j) c = Some o /\ at_pc i c (PRet (outcome o)) (rn j).
Proof. exact request_returns_outcome. Qed.
Print Assumptions C16_request_returns_outcome.

(** all requests that joined one pending dial return, with the shared outcome *)
Theorem C16_joiners_return_shared :
  forall rn lab i1 i2 c k p1 p2, is_run step rn lab -> rn 0 = init ->
  wfair step rn lab (req_label i1) -> wfair step rn lab (req_label i2) ->
  wfair step rn lab (dial_label c) -> dial_completes rn lab c ->
  at_pc i1 c p1 (rn k) -> at_pc i2 c p2 (rn k) ->
  exists j r, (k <= j)%nat /\ at_pc i1 c (PRet r) (rn j) /\ at_pc i2 c (PRet r) (rn j).
Proof. exact joiners_return_shared. Qed.
Print Assumptions C16_joiners_return_shared.

(** a done function that was entered runs to its end; the last holder's run
    closes the handle and deletes the entry *)
Theorem C16_release_completes :
  forall rn lab i c h a k, is_run step rn lab -> rn 0 = init ->
  wfair step rn lab (rel_label i) -> releasing i c h a (rn k) ->
  exists j, (k <= j)%nat /\ lab j = Some (LRelease i) /\ releasing i c h a (rn j) /\
            (exists t', thr (rn (S j)) i = Some t' /\ t_once t' = true) /\
            (holders (rn j) c = 1%nat -> In c (close_log (rn (S j))) /\ conns (rn (S j)) a = None).
Proof. exact release_completes. Qed.
Print Assumptions C16_release_completes.

(** a request that finds no entry (e.g. after the last release) gets a fresh Dial call *)
Theorem C16_fresh_request_dials :
  forall rn lab i a k, is_run step rn lab -> rn 0 = init ->
  lab k = Some (LReq i a true) -> conns (rn k) a = None -> cancelled (rn k) i = false ->
  wfair step rn lab (dial_label i) ->
  exists j, (k < j)%nat /\ In (i, a) (dial_log (rn j)).
Proof. exact fresh_request_dials. Qed.
Print Assumptions C16_fresh_request_dials.

(** the statement discriminates: it is false for the mechanism of seeded
    change C16/seed_va (unknown-dialer request leaves a dead entry behind) *)
Theorem C16_request_returns_refuted_dead_entry : ~ returns_statement vstep.
Proof. exact request_returns_refuted_dead_entry. Qed.
Print Assumptions C16_request_returns_refuted_dead_entry.

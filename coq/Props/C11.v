(** C11 -- coalescing queue: first-insertion order, exact duplicate counts, no
    loss at close, refusal after close, no lost wake-up.

    The statements are over the transition system of Coalesce/QueueLts.v
    (any number of producers, one consumer, Close, cancellation; atomic steps
    = the critical sections and channel operations of coalesce.go) and hold in
    every state reachable by any schedule ([lreach]).  [lin (l_hist s)] is the
    sequence of critical sections in the order they happened; [npend i h] is
    the number of insertions of [i] since its last delivery, [fpos i h] the
    position of the first of them.  Only statements here, each closed by
    [exact] of a lemma of Coalesce/QueueProofs.v. *)
From Coq Require Import Sorting.Sorted.
From Gnmi Require Import Base.Prelude Base.Lts Coalesce.QueueModel Coalesce.QueueLts
  Coalesce.QueueCheck Coalesce.QueueProofs Coalesce.QueueLive Coalesce.QueueKSound.
Open Scope N_scope.

(** Refinement to the abstract coalescing queue: the critical sections are a
    run of it (each insert reports "new" iff the item is not pending, each pop
    is its head with its count) and the state abstracts to its state. *)
Theorem C11_refinement :
  forall s, lreach s -> aq_replay (lin (l_hist s)) = Some (q_abs (l_q s)).
Proof. exact refinement. Qed.
Print Assumptions C11_refinement.

(** The queue holds exactly the items with an undelivered insertion, once
    each, in the order of their first undelivered insertion. *)
Theorem C11_fifo_first_insertion :
  forall s, lreach s ->
    let h := lin (l_hist s) in
    NoDup (q_queue (l_q s)) /\
    (forall i, In i (q_queue (l_q s)) <-> fpos i h <> None) /\
    StronglySorted lt (map (pos h) (q_queue (l_q s))).
Proof. exact fifo_first_insertion. Qed.
Print Assumptions C11_fifo_first_insertion.

(** Next delivers the pending item whose first undelivered insertion is the
    oldest, together with exactly the number of further insertions since. *)
Theorem C11_next_delivers_first :
  forall s i d q',
    lreach s -> l_cp s = CIdle \/ l_cp s = CTry ->
    locked_next (l_q s) = Some (i, d, q') ->
    let h := lin (l_hist s) in
    (exists s' pre, lstep s LC = Some s' /\ l_cp s' = CIdle /\ l_q s' = q' /\
                    l_hist s' = ERetNext (NItem i d) :: EPop i d :: pre /\
                    lin (l_hist s') = LPop i d :: h) /\
    fpos i h <> None /\
    (forall j, fpos j h <> None -> (pos h i <= pos h j)%nat) /\
    npend i h = 1 + d.
Proof. exact next_delivers_first. Qed.
Print Assumptions C11_next_delivers_first.

(** Duplicate counts are exact. *)
Theorem C11_dup_exact :
  forall s, lreach s ->
    let h := lin (l_hist s) in
    (forall i c, cget i (q_counts (l_q s)) = Some c -> npend i h = 1 + c) /\
    (forall i, ~ In i (q_queue (l_q s)) -> npend i h = 0).
Proof. exact dup_exact. Qed.
Print Assumptions C11_dup_exact.

(** Insert reports "new" exactly when the item is not pending. *)
Theorem C11_insert_reports_new :
  forall s n i, lreach s -> l_pp s n = PChecked i ->
    exists s', lstep s (LP n) = Some s' /\
               l_pp s' n = PInserted i (negb (aq_mem i (q_abs (l_q s)))) /\
               q_abs (l_q s') = fst (aq_insert i (q_abs (l_q s))) /\
               l_hist s' = EIns n i (negb (aq_mem i (q_abs (l_q s)))) :: l_hist s.
Proof. exact insert_reports_new. Qed.
Print Assumptions C11_insert_reports_new.

(** Conservation: sum of 1+dup over deliveries + sum of 1+dup over pending
    items = number of locked inserts, in every state of every schedule. *)
Theorem C11_conservation :
  forall s, lreach s ->
    weight (delivered (lin (l_hist s))) + weight (q_abs (l_q s)) = count_ins (lin (l_hist s)).
Proof. exact conservation. Qed.
Print Assumptions C11_conservation.

(** No lost wake-up (enabledness): a consumer at the select with an item
    pending can take the token case, or a producer stands between its insert
    and its token send and its next step -- always enabled -- makes it so. *)
Theorem C11_no_lost_wakeup :
  forall s, lreach s -> l_cp s = CWait -> q_queue (l_q s) <> [] ->
    enabled lstep s (LSel STok) \/
    exists n i s', l_pp s n = PInserted i true /\ lstep s (LP n) = Some s' /\
                   l_cp s' = CWait /\ enabled lstep s' (LSel STok).
Proof. exact no_lost_wakeup. Qed.
Print Assumptions C11_no_lost_wakeup.

(** A consumer that cannot move is entitled to wait. *)
Theorem C11_blocked_justified :
  forall s, lreach s -> l_cp s = CWait -> (forall b, lstep s (LSel b) = None) ->
    q_closed (l_q s) = false /\ l_cancelled s = false /\
    (q_queue (l_q s) = [] \/ exists n i, l_pp s n = PInserted i true).
Proof. exact blocked_justified. Qed.
Print Assumptions C11_blocked_justified.

(** Told "closed" only when drained: the step that reports "closed" finds the
    queue empty after Close, and every locked insert so far -- so every Insert
    that returned before Close -- has been delivered, duplicates included. *)
Theorem C11_drain_before_closed :
  forall s l s' pre,
    lreach s -> lstep s l = Some s' -> l_hist s' = ERetNext NClosed :: pre ->
    List.length (l_hist s') = S (List.length (l_hist s)) ->
    l = LC /\ l_cp s = CLen /\ In EClose (l_hist s) /\
    q_queue (l_q s') = [] /\
    (forall i, npend i (lin (l_hist s')) = 0) /\
    weight (delivered (lin (l_hist s'))) = count_ins (lin (l_hist s')).
Proof. exact drain_before_closed. Qed.
Print Assumptions C11_drain_before_closed.

(** Insertions after close are refused, for ever. *)
Theorem C11_insert_after_close_refused :
  forall s0 s n i s',
    q_closed (l_q s0) = true -> reachable_from lstep s0 s -> lstep s (LCall n i) = Some s' ->
    l_q s' = l_q s /\ l_hist s' = ERetIns n i IClosed :: ECallIns n i :: l_hist s.
Proof. exact insert_after_close_refused_later. Qed.
Print Assumptions C11_insert_after_close_refused.

(** ... and an open queue does not refuse. *)
Theorem C11_insert_open_accepted :
  forall s n i s', q_closed (l_q s) = false -> lstep s (LCall n i) = Some s' ->
    l_pp s' n = PChecked i /\ l_hist s' = ECallIns n i :: l_hist s.
Proof. exact insert_open_accepted. Qed.
Print Assumptions C11_insert_open_accepted.

(** Close and cancellation wake a waiting consumer (their select case is
    enabled) and stay in force whatever else happens. *)
Theorem C11_close_wakes :
  forall s, l_cp s = CWait -> q_closed (l_q s) = true ->
    exists s', lstep s (LSel SClosed) = Some s' /\ l_cp s' = CLen.
Proof. exact close_wakes. Qed.
Print Assumptions C11_close_wakes.

Theorem C11_cancel_wakes :
  forall s, l_cp s = CWait -> l_cancelled s = true ->
    exists s', lstep s (LSel SCtx) = Some s' /\ l_cp s' = CIdle /\
               l_hist s' = ERetNext NCtx :: l_hist s.
Proof. exact cancel_wakes. Qed.
Print Assumptions C11_cancel_wakes.

Theorem C11_closed_forever :
  forall s s', reachable_from lstep s s' -> q_closed (l_q s) = true -> q_closed (l_q s') = true.
Proof. exact closed_forever. Qed.
Print Assumptions C11_closed_forever.

Theorem C11_cancelled_forever :
  forall s s', reachable_from lstep s s' -> l_cancelled s = true -> l_cancelled s' = true.
Proof. exact cancelled_forever. Qed.
Print Assumptions C11_cancelled_forever.

(** The waiting consumer's state is changed by nobody else (so an enabled
    wake-up stays enabled until it is taken) . *)
Theorem C11_consumer_pc_stable :
  forall s l s', lstep s l = Some s' -> l <> LC -> (forall b, l <> LSel b) -> l_cp s' = l_cp s.
Proof. exact cp_other_step. Qed.
Print Assumptions C11_consumer_pc_stable.

(** An Insert overlapping Close can be accepted after the consumer was told
    "closed" (outside the property as worded; documented). *)
Theorem C11_insert_close_overlap_example :
  exists s, run lstep l_init sch_overlap = Some s /\
            (l_hist s = [ERetIns 0 7 (IOk true); EIns 0 7 true; ERetNext NClosed; EClose;
                         ECallNext; ECallIns 0 7] /\
             q_queue (l_q s) = [7] /\ l_cp s = CIdle).
Proof. exact insert_close_overlap_example. Qed.
Print Assumptions C11_insert_close_overlap_example.

(** Soundness of the executable specification used on the implementation's
    observations (mode E): an accepted case is a run of the abstract queue and
    satisfies the history-level property. *)
Theorem C11_K_seq_sound :
  forall l, check_case (CSeq l) = [] ->
    exists q, aq_replay (obs_lin l []) = Some q /\ hist_ok (obs_lin l []) q.
Proof. exact K_seq_check_sound. Qed.
Print Assumptions C11_K_seq_sound.

(** The abstract queue meets the history-level property (used by all of the
    above): pending = undelivered, counts exact, order = first insertion. *)
Theorem C11_abstract_queue_meets_history_spec :
  forall h q, aq_replay h = Some q -> hist_ok h q.
Proof. exact aq_replay_hist_ok. Qed.
Print Assumptions C11_abstract_queue_meets_history_spec.

(** The sequential model of Next used by the mode E correspondence is a
    special case of the transition system: each of its outcomes is produced by
    consumer steps alone ("hang" = parked with no enabled select case). *)
Theorem C11_next_seq_in_lts :
  forall fuel c s q' r,
    l_cp s = CIdle \/ l_cp s = CTry ->
    l_cancelled s = ctx_fires c ->
    In (q', r) (next_seq fuel c (l_q s)) ->
    exists sch s', run lstep s sch = Some s' /\ Forall cons_label sch /\ l_q s' = q' /\
                   next_outcome r s'.
Proof. exact next_seq_in_lts. Qed.
Print Assumptions C11_next_seq_in_lts.

(** Soundness of the executable specification used on recorded forced
    schedules (mode S): an accepted run's locked inserts and deliveries, in
    recorded order, are a run of the abstract queue and satisfy the
    history-level property. *)
Theorem C11_K_sched_sound :
  forall progs steps fb fl, check_case (CSched progs steps fb fl) = [] ->
    exists k' acc',
      ks_fold (mkKS [] false false (map (fun _ => KIdle) progs) progs false []) steps [] = Some (k', acc') /\
      aq_replay acc' = Some (ks_aq k') /\ hist_ok acc' (ks_aq k').
Proof. exact K_sched_check_sound. Qed.
Print Assumptions C11_K_sched_sound.

(** ** Liveness under fairness (Coalesce/QueueLive.v)

    A run is an infinite sequence of states with an optional label per step
    ([None]: nobody moves, so maximal finite traces are runs that stutter for
    ever); [is_run lstep run lab] says every labelled step is a step of the
    transition system.  [wfair lstep run lab P]: from every point on, the thread
    owning the labels [P] eventually takes a step or is disabled.  The consumer
    owns [LC] and [LSel _] ([LC] from [CIdle] is calling Next again: a fair
    consumer keeps calling Next); producer [n] owns [LP n].
    [delivers run lab j x]: step [j] is the locked next() popping [x] (which
    returns [x] with its exact duplicate count: [C11_next_delivers_first]). *)

(** (1) Every pending item -- every locked insert, completed or not -- is
    eventually delivered when the consumer and the producers are weakly fair. *)
Theorem C11_fair_delivery :
  forall (run : nat -> lstate) (lab : nat -> option label),
    run 0%nat = l_init -> is_run lstep run lab ->
    wfair lstep run lab cons_label ->
    (forall n, wfair lstep run lab (fun l => l = LP n)) ->
    forall k x, In x (q_queue (l_q (run k))) ->
    exists j, (k <= j)%nat /\ delivers run lab j x.
Proof. exact fair_delivery. Qed.
Print Assumptions C11_fair_delivery.

Theorem C11_fair_delivery_insert :
  forall (run : nat -> lstate) (lab : nat -> option label),
    run 0%nat = l_init -> is_run lstep run lab ->
    wfair lstep run lab cons_label ->
    (forall n, wfair lstep run lab (fun l => l = LP n)) ->
    forall k n i, lab k = Some (LP n) -> l_pp (run k) n = PChecked i ->
    exists j, (k < j)%nat /\ delivers run lab j i.
Proof. exact fair_delivery_insert. Qed.
Print Assumptions C11_fair_delivery_insert.

(** With a weakly fair consumer alone: every Insert that returned "new"
    (locked section at [k0], return at [k1]) is delivered after its locked
    section. *)
Theorem C11_fair_delivery_completed :
  forall (run : nat -> lstate) (lab : nat -> option label),
    run 0%nat = l_init -> is_run lstep run lab ->
    wfair lstep run lab cons_label ->
    forall k0 k1 n i,
      lab k0 = Some (LP n) -> l_pp (run k0) n = PChecked i ->
      (k0 < k1)%nat -> lab k1 = Some (LP n) -> l_pp (run k1) n = PInserted i true ->
      exists j, (k0 < j)%nat /\ delivers run lab j i.
Proof. exact fair_delivery_completed. Qed.
Print Assumptions C11_fair_delivery_completed.

(** ... and the producers' fairness cannot be dropped for coalesced inserts:
    a consumer-fair run in which a completed coalesced Insert(5) is never
    delivered, because the producer that inserted 5 first never sends its
    token. *)
Theorem C11_fair_delivery_consumer_only_refuted :
  exists run lab,
    run 0%nat = l_init /\ is_run lstep run lab /\ wfair lstep run lab cons_label /\
    lab 4%nat = Some (LP 1) /\ l_pp (run 4%nat) 1%nat = PChecked 5 /\
    lab 5%nat = Some (LP 1) /\ l_pp (run 5%nat) 1%nat = PInserted 5 false /\
    (forall j, (3 <= j)%nat -> q_queue (l_q (run j)) = [5]) /\
    (forall j, ~ delivers run lab j 5) /\
    (forall j, (3 <= j)%nat -> l_pp (run j) 0%nat = PInserted 5 true).
Proof. exact fair_delivery_consumer_only_refuted. Qed.
Print Assumptions C11_fair_delivery_consumer_only_refuted.

(** (2) A consumer inside Next returns once the queue is closed or its context
    is cancelled ([awake]); [returns run lab j]: step [j] is a consumer step
    from inside a call to between calls. *)
Theorem C11_wake_returns :
  forall (run : nat -> lstate) (lab : nat -> option label),
    run 0%nat = l_init -> is_run lstep run lab -> wfair lstep run lab cons_label ->
    forall k, l_cp (run k) <> CIdle ->
              q_closed (l_q (run k)) = true \/ l_cancelled (run k) = true ->
    exists j, (k <= j)%nat /\ returns run lab j.
Proof. exact wake_returns. Qed.
Print Assumptions C11_wake_returns.

Theorem C11_cancel_returns :
  forall (run : nat -> lstate) (lab : nat -> option label),
    run 0%nat = l_init -> is_run lstep run lab -> wfair lstep run lab cons_label ->
    forall k, l_cp (run k) <> CIdle -> l_cancelled (run k) = true ->
    exists j, (k <= j)%nat /\ returns run lab j.
Proof. exact cancel_returns. Qed.
Print Assumptions C11_cancel_returns.

(** After Close, with no Insert between its closed check and its locked
    section ([quiet]) and no cancellation, the consumer delivers everything
    that was pending and is then told "closed". *)
Theorem C11_close_drains :
  forall (run : nat -> lstate) (lab : nat -> option label),
    run 0%nat = l_init -> is_run lstep run lab -> wfair lstep run lab cons_label ->
    (forall j, l_cancelled (run j) = false) ->
    forall k, q_closed (l_q (run k)) = true /\ (forall n i, l_pp (run k) n <> PChecked i) ->
    exists j, (k <= j)%nat /\ lab j = Some LC /\ l_cp (run j) = CLen /\
              l_hist (run (S j)) = ERetNext NClosed :: l_hist (run j) /\
              forall x, In x (q_queue (l_q (run k))) ->
                        exists j', (k <= j' < j)%nat /\ delivers run lab j' x.
Proof. exact close_drains_all_delivered. Qed.
Print Assumptions C11_close_drains.

(** (3) The statement discriminates: over the variant whose wake-up channel is
    unbuffered ([ustep]) there is a run, fair for the consumer and for every
    producer, in which Insert(5) returns "new" and 5 is never delivered. *)
Theorem C11_unbuffered_delivery_refuted :
  exists run lab,
    run 0%nat = u_init /\ is_run ustep run lab /\
    wfair ustep run lab cons_label /\
    (forall n, wfair ustep run lab (fun l => l = LP n)) /\
    lab 2%nat = Some (LP 0) /\ l_pp (u_s (run 2%nat)) 0%nat = PChecked 5 /\
    lab 3%nat = Some (LP 0) /\ l_pp (u_s (run 3%nat)) 0%nat = PInserted 5 true /\
    (forall j, (3 <= j)%nat -> q_queue (l_q (u_s (run j))) = [5]) /\
    (forall j, ~ udelivers run lab j 5).
Proof. exact unbuffered_delivery_refuted. Qed.
Print Assumptions C11_unbuffered_delivery_refuted.

Theorem C11_unbuffered_fair_delivery_false :
  ~ (forall run lab,
       run 0%nat = u_init -> is_run ustep run lab -> wfair ustep run lab cons_label ->
       (forall n, wfair ustep run lab (fun l => l = LP n)) ->
       forall k x, In x (q_queue (l_q (u_s (run k)))) ->
       exists j, (k <= j)%nat /\ udelivers run lab j x).
Proof. exact unbuffered_fair_delivery_false. Qed.
Print Assumptions C11_unbuffered_fair_delivery_false.

(** The statement also discriminates against "wake only on the empty ->
    non-empty transition, sampled in a separate critical section" ([tstep]:
    the producer's extra step [wake := q.Len() == 0] between closed check and
    locked insert, token sent only if [ok && wake]): a run, fair for the
    consumer and every producer, in which Insert(2) completes and 2 is never
    delivered (the consumer drained the queue and parked between the sample
    and the insert). *)
Theorem C11_transition_wake_delivery_refuted :
  exists run lab,
    run 0%nat = t_init /\ is_run tstep run lab /\
    wfair tstep run lab cons_label /\
    (forall n, wfair tstep run lab (fun l => l = LP n)) /\
    lab 10%nat = Some (LP 0) /\ l_pp (t_s (run 10%nat)) 0%nat = PChecked 2 /\
    lab 11%nat = Some (LP 0) /\ (exists b, l_pp (t_s (run 11%nat)) 0%nat = PInserted 2 b) /\
    (forall j, (11 <= j)%nat -> q_queue (l_q (t_s (run j))) = [2]) /\
    (forall j, ~ tdelivers run lab j 2).
Proof. exact transition_wake_delivery_refuted. Qed.
Print Assumptions C11_transition_wake_delivery_refuted.

(** ** Soundness of the wake-up / refusal / drain clauses of the mode S K_P
    (Coalesce/QueueKSound.v)

    [view progs pre] is the descriptive reading of a prefix of a recorded run
    (a total fold that rejects nothing): linearisation of the locked sections
    [d_lin], Close / cancel seen, where each producer stands, consumer's last
    event = "parked", and [d_completed] = the Insert calls that returned before
    Close, each with the linearisation up to and including its locked section.
    [refusal_decl], [wake_decl], [drain_decl] quantify over every split point
    of the run.  The point predicates [refusal_ok], [entitled_at],
    [delivered_after] are the same on both sides: K_P accepting a run of the
    implementation gives them at every point of the recorded run
    ([C11_kp_*_sound]); the theorems over the transition system give them in
    every reachable state ([C11_kp_*_lts]). *)

(** refusal clause: in an accepted run no call passes the closed check after
    Close has run, and no call is refused before *)
Theorem C11_kp_refusal_sound :
  forall progs steps fb fl, check_case (CSched progs steps fb fl) = [] ->
    forall pre n e post, steps = pre ++ (TP n, e) :: post ->
      refusal_ok (In (TK, SRet) pre) (e = SAt PtChecked) (e = SRetIns IClosed).
Proof. exact kp_refusal_sound. Qed.
Print Assumptions C11_kp_refusal_sound.

(** wake-up clause: the run ends parked iff recorded so, and wherever the
    consumer is parked it is entitled to be (open, live, and nothing pending or
    a producer between the locked insert that made its item pending and its
    return) or the very next event is the consumer's and is not "parked" *)
Theorem C11_kp_wake_sound :
  forall progs steps fb fl, check_case (CSched progs steps fb fl) = [] ->
    fb = d_parked (view progs steps) /\
    forall pre post, steps = pre ++ post -> d_parked (view progs pre) = true ->
      entitled_at (d_closed (view progs pre)) (d_cancelled (view progs pre)) (d_lin (view progs pre))
                  (exists n i hb, nth_dpp (d_pp (view progs pre)) n = DInserted i true hb)
      \/ exists e post', post = (TC, e) :: post' /\ e <> SBlocked.
Proof. exact kp_wake_sound. Qed.
Print Assumptions C11_kp_wake_sound.

(** drain clause: the consumer is told "closed" only after Close and after
    every insertion that returned before Close was delivered (a pop of its
    item after its own locked section) *)
Theorem C11_kp_drain_sound :
  forall progs steps fb fl, check_case (CSched progs steps fb fl) = [] ->
    forall pre post, steps = pre ++ (TC, SRetNext NClosed) :: post ->
      In (TK, SRet) pre /\
      forall i hb, In (i, hb) (d_completed (view progs pre)) ->
        delivered_after i hb (d_lin (view progs pre)).
Proof. exact kp_drain_sound. Qed.
Print Assumptions C11_kp_drain_sound.

(** K_P's [may_wait] decides exactly "entitled to wait" (both directions), for
    every K_P state related to the reading of the prefix by the invariant *)
Theorem C11_kp_may_wait_iff :
  forall k d, kinv k d -> (may_wait k = true <-> d_entitled d).
Proof. exact kp_may_wait_iff. Qed.
Print Assumptions C11_kp_may_wait_iff.

(** the reading's closed / cancelled / parked are facts of the recorded history *)
Theorem C11_kp_view_history :
  forall progs pre,
    (d_closed (view progs pre) = true <-> In (TK, SRet) pre) /\
    (d_cancelled (view progs pre) = true <-> In (TX, SRet) pre) /\
    (forall pre0 e mid, pre = pre0 ++ (TC, e) :: mid -> Forall (fun te => fst te <> TC) mid ->
       (d_parked (view progs pre) = true <-> e = SBlocked)).
Proof. exact kp_view_history. Qed.
Print Assumptions C11_kp_view_history.

(** The same predicates in every reachable state of the transition system. *)
Theorem C11_kp_refusal_lts :
  forall s n i s', lreach s -> lstep s (LCall n i) = Some s' ->
    refusal_ok (In EClose (l_hist s)) (l_pp s' n = PChecked i)
               (l_hist s' = ERetIns n i IClosed :: ECallIns n i :: l_hist s).
Proof. exact lts_refusal_ok. Qed.
Print Assumptions C11_kp_refusal_lts.

Theorem C11_kp_wake_lts :
  forall s, lreach s -> l_cp s = CWait ->
    ((forall b, lstep s (LSel b) = None) ->
     entitled_at (q_closed (l_q s)) (l_cancelled s) (lin (l_hist s))
                 (exists n i, l_pp s n = PInserted i true)) /\
    (~ entitled_at (q_closed (l_q s)) (l_cancelled s) (lin (l_hist s))
                   (exists n i, l_pp s n = PInserted i true) ->
     exists b s', lstep s (LSel b) = Some s').
Proof. exact kp_wake_lts. Qed.
Print Assumptions C11_kp_wake_lts.

Theorem C11_kp_drain_lts :
  forall s l s' pre,
    lreach s -> lstep s l = Some s' -> l_hist s' = ERetNext NClosed :: pre ->
    List.length (l_hist s') = S (List.length (l_hist s)) ->
    In EClose (l_hist s) /\
    forall i f r a, lin (l_hist s') = a ++ LIns i f :: r ->
      delivered_after i (LIns i f :: r) (lin (l_hist s')).
Proof. exact lts_closed_drained. Qed.
Print Assumptions C11_kp_drain_lts.

(** Non-vacuity: an accepted recorded run on which all three statements hold,
    and for each clause a run K_P rejects (tag 2 / 5 / 5 / 3) on which the
    statement is false. *)
Theorem C11_kp_examples :
  (check_case (CSched [[5; 6]] run_good false 0) = [] /\
   refusal_decl run_good /\ wake_decl [[5; 6]] run_good false /\ drain_decl [[5; 6]] run_good /\
   d_completed (view [[5; 6]] run_good) = [(5, [LIns 5 true])]) /\
  (ks_run 0 (ks_init [[5]]) run_bad_refusal false 0 = [(1%nat, 2)] /\ ~ refusal_decl run_bad_refusal) /\
  (ks_run 0 (ks_init [[5]]) run_bad_wake true 0 = [(3%nat, 5)] /\ ~ wake_decl [[5]] run_bad_wake true) /\
  (ks_run 0 (ks_init [[5]]) run_bad_wake_item true 1 = [(5%nat, 5)] /\
   ~ wake_decl [[5]] run_bad_wake_item true) /\
  (ks_run 0 (ks_init [[5]]) run_bad_drain false 1 = [(4%nat, 3)] /\ ~ drain_decl [[5]] run_bad_drain).
Proof. exact kp_examples. Qed.
Print Assumptions C11_kp_examples.

(** ** Trace abstraction: whole runs of the model (Coalesce/QueueKSound.v)

    [validate_run np 0 [l_init] progs false steps fb fl = []] says the recorded
    run [steps] can be produced by the transition system under the recorded
    thread choices (it is the model side of [check_case (CSched ..)]).  Along an
    accepted run every state of the tracked set is reachable and is closed iff
    [(TK, SRet)] has been recorded ([vinv], [validate_split]). *)

(** Every run the model can produce satisfies the refusal statement (the same
    [refusal_decl] K_P's refusal clause is sound for: [C11_kp_refusal_sound]). *)
Theorem C11_model_run_refusal :
  forall progs steps fb fl,
    validate_run (List.length progs) 0 [l_init] progs false steps fb fl = [] ->
    forall pre n e post, steps = pre ++ (TP n, e) :: post ->
      refusal_ok (In (TK, SRet) pre) (e = SAt PtChecked) (e = SRetIns IClosed).
Proof. exact model_check_refusal. Qed.
Print Assumptions C11_model_run_refusal.

(* Full statement, not proved (needs the simulation  lin (l_hist s) = d_lin (view progs pre),
   l_pp s n ~ nth_dpp (d_pp (view progs pre)) n, progs = d_progs (view progs pre)  for every
   state s of the tracked set; with it the second half follows from C11_kp_drain_lts and
   pending_or_popped, the stamps in d_completed being suffixes of d_lin headed by LIns i):

   Theorem C11_model_run_drain :
     forall progs steps fb fl,
       validate_run (List.length progs) 0 [l_init] progs false steps fb fl = [] ->
       forall pre post, steps = pre ++ (TC, SRetNext NClosed) :: post ->
         In (TK, SRet) pre /\
         forall i hb, In (i, hb) (d_completed (view progs pre)) ->
           delivered_after i hb (d_lin (view progs pre)).                                  *)
(** proved part: in every run the model can produce, "closed" is reported only
    after Close has run (first conjunct of [drain_decl]) *)
Theorem C11_model_run_drain_partial :
  forall progs steps fb fl,
    validate_run (List.length progs) 0 [l_init] progs false steps fb fl = [] ->
    forall pre post, steps = pre ++ (TC, SRetNext NClosed) :: post -> In (TK, SRet) pre.
Proof. exact model_run_closed_after_close. Qed.
Print Assumptions C11_model_run_drain_partial.

(* Full statement, not proved (same simulation needed, plus "recorded parked = l_cp s = CWait
   with no enabled case" at every split point, which vstep enforces by its filter):

   Theorem C11_model_run_wake :
     forall progs steps fb fl,
       validate_run (List.length progs) 0 [l_init] progs false steps fb fl = [] ->
       wake_decl progs steps fb.                                                            *)
(** proved part: the end-of-run case.  A run the model can produce that ends
    with the consumer parked ends in a reachable state with the consumer at the
    select, no case enabled, the recorded length -- so entitled to wait
    ([entitled_at], the predicate of [C11_kp_wake_sound]) and never after Close *)
Theorem C11_model_run_wake_partial :
  forall progs steps fl,
    validate_run (List.length progs) 0 [l_init] progs false steps true fl = [] ->
    exists s, lreach s /\ l_cp s = CWait /\ (forall b, lstep s (LSel b) = None) /\
              q_len (l_q s) = fl /\ ~ In (TK, SRet) steps /\
              entitled_at (q_closed (l_q s)) (l_cancelled s) (lin (l_hist s))
                          (exists n i, l_pp s n = PInserted i true).
Proof. exact model_run_final_parked. Qed.
Print Assumptions C11_model_run_wake_partial.

(** Non-vacuity: [run_good] is a model run; a call passing the closed check
    after Close, "closed" without Close, and Close with the consumer left parked
    are not. *)
Theorem C11_model_run_examples :
  (validate_run 1 0 [l_init] [[5; 6]] false run_good false 0 = [] /\
   validate_run 1 0 [l_init] [[5]] false run_bad_refusal false 0 <> [] /\
   validate_run 1 0 [l_init] [[5]] false [(TC, SAt PtEmpty); (TC, SRetNext NClosed)] false 0 <> []) /\
  (validate_run 1 0 [l_init] [[5]] false [(TC, SAt PtEmpty); (TC, SBlocked)] true 0 = [] /\
   validate_run 1 0 [l_init] [[5]] false run_bad_wake true 0 <> []).
Proof. exact (conj ex_model_runs ex_model_final_parked). Qed.
Print Assumptions C11_model_run_examples.

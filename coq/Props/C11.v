(** C11 -- coalescing queue: first-insertion order, exact duplicate counts, no
    loss at close.  Only theorem statements, each closed by [exact] of a lemma
    proved in Coalesce/QueueProofs.v, with [Print Assumptions] beneath. *)
From Gnmi Require Import Base.Prelude Base.Lts Coalesce.QueueModel Coalesce.QueueLts Coalesce.QueueProofs.
Open Scope N_scope.

Theorem C11_insert_after_close_refused :
  forall s n i s',
    q_closed (l_q s) = true -> lstep s (LCall n i) = Some s' ->
    l_q s' = l_q s /\ l_pp s' n = PIdle /\
    l_hist s' = ERetIns n i IClosed :: ECallIns n i :: l_hist s.
Proof. exact insert_after_close_refused. Qed.
Print Assumptions C11_insert_after_close_refused.

(** C08 -- a stalled subscriber cannot stall the collector or other
    subscribers.

    Statements over the transition system of Stream/StreamLts.v (see C04): a
    stalled subscriber is one whose sender's [LSent] step (Send returns) is
    not taken by the environment; its send timer is the [LTimeout] step.  All
    statements hold for every schedule, i.e. every pattern of stalls (never,
    transient, for ever) over any number of subscribers, and for any setting of
    the hypotheses [h].  Only statements here, each closed by [exact] of a
    lemma of Stream/StallProofs.v. *)
From Gnmi Require Import Base.Prelude Stream.StreamLts Stream.StreamProofs Stream.StallProofs.
Open Scope Z_scope.

(** Accepting an update never waits on a subscriber: whether a writer's tree
    write is enabled is a function of the cache fields (leaf store, delete
    store, tree, pending announcements, write mutexes held by writers), the tree read locks held by walks and
    the static subscription paths -- not of any queue, in-flight response,
    sent stream, stall or timeout. *)
Theorem C08_writer_never_blocked :
  forall h st st' w o, writer_view st = writer_view st' ->
    (step h st (LWrite w o) = None <-> step h st' (LWrite w o) = None).
Proof. exact writer_never_blocked. Qed.
Print Assumptions C08_writer_never_blocked.

(** ... and what it does to the cache does not depend on them either. *)
Theorem C08_write_ignores_subscribers :
  forall h st st' w o, writer_view st = writer_view st' ->
  forall s1 s1', step h st (LWrite w o) = Some s1 -> step h st' (LWrite w o) = Some s1' ->
    st_leaves s1 = st_leaves s1' /\ st_dels s1 = st_dels s1' /\ st_tree s1 = st_tree s1' /\ st_feeds s1 = st_feeds s1'.
Proof. exact write_ignores_subscribers. Qed.
Print Assumptions C08_write_ignores_subscribers.

(** The feed callback (insertion into the subscribers' queues) is enabled
    whenever there is something to announce: it cannot block. *)
Theorem C08_feed_never_blocked :
  forall h st w, step h st (LFeed w) <> None <-> exists it rest, nth_error (st_feeds st) w = Some (it :: rest).
Proof. exact feed_never_blocked. Qed.
Print Assumptions C08_feed_never_blocked.

(** A step of subscriber [s] changes nothing but [s]'s own record. *)
Theorem C08_others_untouched :
  forall h st lb s st', sub_label lb = Some s -> step h st lb = Some st' ->
  (forall s', s' <> s -> nth_error (st_subs st') s' = nth_error (st_subs st) s') /\
  st_leaves st' = st_leaves st /\ st_dels st' = st_dels st /\ st_tree st' = st_tree st /\ st_feeds st' = st_feeds st.
Proof. exact others_untouched. Qed.
Print Assumptions C08_others_untouched.

(** Other subscribers keep receiving: whether a step of subscriber [s'] is
    enabled and what it does to [s'] depends on the cache and on [s']'s own
    record only -- two states that differ arbitrarily in the OTHER subscribers
    (stalled for ever, timed out, any backlog) agree on it. *)
Theorem C08_others_progress :
  forall h st st2 lb s', sub_label lb = Some s' ->
  st_leaves st = st_leaves st2 -> st_dels st = st_dels st2 -> st_tree st = st_tree st2 ->
  nth_error (st_subs st) s' = nth_error (st_subs st2) s' ->
  (step h st lb = None <-> step h st2 lb = None) /\
  (forall st' st2', step h st lb = Some st' -> step h st2 lb = Some st2' ->
      nth_error (st_subs st') s' = nth_error (st_subs st2') s').
Proof. exact others_progress. Qed.
Print Assumptions C08_others_progress.

(** The backlog: in every reachable state every queue holds pairwise distinct
    items -- leaf handles, delete notifications, at most one sync marker -- so
    its length is at most #distinct pending leaves + #pending deletes + 1,
    however many updates were coalesced into it. *)
Theorem C08_backlog_bound :
  forall h nw subs st, reachable h nw subs st ->
  forall sb, In sb (st_subs st) ->
    NoDup (qitems (s_queue sb)) /\
    (List.length (s_queue sb) <= n_leaf (qitems (s_queue sb)) + n_del (qitems (s_queue sb)) + 1)%nat.
Proof. exact backlog_bound. Qed.
Print Assumptions C08_backlog_bound.

(** Duplicate counts are exact, for every sequence of offers: each item is
    queued once and its count is the number of further offers coalesced. *)
Theorem C08_dup_exact :
  forall ins : list item,
  let q := fold_left (fun q it => q_insert it q) ins [] in
  NoDup (qitems q) /\
  (forall it d, In (it, d) q -> S d = count_occ item_eq_dec ins it) /\
  (forall it, ~ In it (qitems q) -> count_occ item_eq_dec ins it = 0%nat).
Proof. exact dup_exact. Qed.
Print Assumptions C08_dup_exact.

(** The count travels with the leaf into the response, which carries the
    leaf's value at the time of sending (the newest). *)
Theorem C08_dup_reported :
  forall h st s st' sb it d, nth_error (st_subs st) s = Some sb -> s_infl sb = Some (ILeaf it, d) ->
  step h st (LRead s) = Some st' ->
  exists sb' p v ts, nth_error (st_subs st') s = Some sb' /\ s_out sb' = Some (RUpd p v ts d) /\
                     leaf_path st it = Some p /\ leaf_cont st it = Some (v, ts).
Proof. exact dup_reported. Qed.
Print Assumptions C08_dup_reported.

(** The timer can fire exactly while a leaf / delete response is inside Send. *)
Theorem C08_timeout_only_while_sending :
  forall h st s, step h st (LTimeout s) <> None <->
  exists sb r, nth_error (st_subs st) s = Some sb /\ s_end sb = false /\ s_out sb = Some r /\ r <> RSync.
Proof. exact timeout_only_while_sending. Qed.
Print Assumptions C08_timeout_only_while_sending.

(** When it fires, that subscription ends with an error: none of its sender's
    steps is enabled any more; the cache, the writers and every other
    subscriber are unchanged. *)
Theorem C08_timeout_terminates :
  forall h st s st', step h st (LTimeout s) = Some st' ->
  (exists sb', nth_error (st_subs st') s = Some sb' /\ s_end sb' = true) /\
  step h st' (LDeq s) = None /\ step h st' (LRead s) = None /\
  step h st' (LSent s) = None /\ step h st' (LTimeout s) = None /\
  (forall s', s' <> s -> nth_error (st_subs st') s' = nth_error (st_subs st) s') /\
  st_leaves st' = st_leaves st /\ st_dels st' = st_dels st /\ st_tree st' = st_tree st /\ st_feeds st' = st_feeds st.
Proof. exact timeout_terminates. Qed.
Print Assumptions C08_timeout_terminates.

(** ... and stays ended, with its stream frozen, whatever happens next. *)
Theorem C08_ended_is_final :
  forall h st lb st' s sb, step h st lb = Some st' -> nth_error (st_subs st) s = Some sb -> s_end sb = true ->
  exists sb', nth_error (st_subs st') s = Some sb' /\ s_end sb' = true /\ s_sent sb' = s_sent sb.
Proof. exact ended_is_final. Qed.
Print Assumptions C08_ended_is_final.

(** Non-vacuity: one subscriber stalled for ever while four updates of two
    leaves are written: the writer and the other subscriber go on, the stalled
    backlog is one entry per leaf (counts 2 and 0), the timer ends it. *)
Theorem C08_stall_example :
  reachable (mkHyps true false) 1 stall_subs stall_state /\
  exists sb0 sb1, nth_error (st_subs stall_state) 0 = Some sb0 /\ nth_error (st_subs stall_state) 1 = Some sb1 /\
    s_end sb0 = true /\ s_sent sb0 = [RSync] /\
    s_queue sb0 = [(ILeaf 0, 2%nat); (ILeaf 1, 0%nat)] /\
    s_end sb1 = false /\ s_sent sb1 = [RSync; RUpd kf_path 1 1 0; RUpd kf_path 4 5 2; RUpd st_path2 1 3 0].
Proof. exact stall_example. Qed.
Print Assumptions C08_stall_example.

(** A subscription that ends (client gone, send timed out) and is removed from
    the match trie path by path leaves every OTHER subscriber's registrations,
    and what every later announcement delivers to them, exactly as they were
    -- sibling, deeper or shallower paths alike. *)
Theorem C08_others_registered_unaffected :
  forall h st lb s st', sub_label lb = Some s -> step h st lb = Some st' ->
  forall s' sb', s' <> s -> nth_error (st_subs st') s' = Some sb' ->
    nth_error (st_subs st) s' = Some sb' /\
    (forall pat, mult sb' pat = match nth_error (st_subs st) s' with Some sb0 => mult sb0 pat | None => O end) /\
    (forall it, deliver st' it sb' = deliver st it sb').
Proof. exact others_registered_unaffected. Qed.
Print Assumptions C08_others_registered_unaffected.

(** The paths of an ended subscription leave the trie one at a time. *)
Theorem C08_unreg_shrinks :
  forall h st s st' sb, nth_error (st_subs st) s = Some sb -> step h st (LUnreg s) = Some st' ->
  exists sb', nth_error (st_subs st') s = Some sb' /\ s_end sb' = true /\
              (forall q, In q (regq sb') -> In q (regq sb)).
Proof. exact unreg_shrinks. Qed.
Print Assumptions C08_unreg_shrinks.

(** C12, entry point 1: the cache ingest path, at guard level.

    Mirrors cache/cache.go: Cache.GnmiUpdate -> Target.GnmiUpdate (dispatch
    atomic / multi / single update / single delete / empty) -> gnmiUpdate /
    gnmiRemove, and the read-back of the metadata leaves by
    generateMetaUpdates (Cache.UpdateMetadata).  Every place where the Go code
    indexes a slice, dereferences a pointer or asserts a type without the
    comma-ok form is an explicit [Panic]; everything else that can influence
    whether such a place is reached (the index path computation, the stored
    tree, the timestamp discipline of the existing-leaf switch, value.Equal) is
    modelled through PathModel / CTreeModel / ValueModel.

    Why not Cache/CacheModel.v: that model (property C02) restricts typed
    values to the scalar kinds and models value.Equal as a total function; the
    crash of value.Equal needs the double / nil arms of ValueModel.

    Not modelled (not needed to decide panic / error / tree content): the
    metadata counters, latency, the change feed, the future-timestamp
    threshold (cache created without WithFutureThreshold: the third case of the
    existing-leaf switch is dead), event-driven suppression (value.Equal is
    evaluated BEFORE [t.eventDriven] is read, so its panic does not depend on
    the option, and a suppressed update is stored all the same),
    [Update.duplicates] (always 0 in the generated messages).

    State kept per target: the tree of stored notifications and whether
    [meta.connectError] is set (GetStr fails on an unset entry, which makes
    generateMetaUpdates skip it). *)
From Gnmi Require Export Base.Prelude CTree.CTreeModel Path.PathModel Value.ValueModel.
Local Open Scope Z_scope.

(** * Defect switches

    [true]: the model follows the code as it is now.  One line per defect; the
    coordinator asks for the switch to [false] once the patch is committed. *)

(* DEFECT C12_1: gnmiUpdate / gnmiRemove index [path[0]] / [path[1]] of an index
   path that may be empty or ["meta"].  Becomes [false] with
   fixes/C12_1_index_path_guard.diff: the update is rejected with an error, the
   delete skips the metadata reset and deletes under the (short) path. *)
Definition defect_C12_1 : bool := false.

(* DEFECT C12_2: [u.Val.Value] on a nil [u.Val] for meta/sync, meta/connected,
   meta/connectedAddress, meta/connectError.  Becomes [false] with
   fixes/C12_2_meta_nil_value.diff: nil-safe getters, the missing value is the
   "wrong type" error. *)
Definition defect_C12_2 : bool := false.

(* DEFECT C12_3: the int64 metadata leaves (meta/targetLeaves ...) accept any
   value; generateMetaUpdates reads them back with unchecked type assertions.
   Becomes [false] with fixes/C12_3_meta_int_type.diff: a non-int value at
   [meta; <int name>] is rejected at ingest. *)
Definition defect_C12_3 : bool := false.

(* DEFECT C12_5: generateMetaUpdates reads every registered metadata leaf back
   with unchecked type assertions; a target can store any value at
   meta/serverName (registered by cache.WithServerName) and at
   meta/latency/window/<w>/<stat> (registered by cache.WithLatencyWindows), for
   which gnmiUpdate has no type guard.  Becomes [false] with
   fixes/C12_5_meta_refresh_checked.diff: comma-ok assertions, a leaf of another
   kind is overwritten. *)
Definition defect_C12_5 : bool := false.

(** defect switches and the cache options the panic sites depend on *)
Record flags := Flags {
  f_idx : bool;         (* C12_1 *)
  f_nilval : bool;      (* C12_2 *)
  f_intmeta : bool;     (* C12_3 *)
  f_equal : bool;       (* C19_1, owned by Value/ValueModel.v *)
  f_refresh : bool;     (* C12_5 *)
  f_server_name : bool; (* option cache.WithServerName: "serverName" is a registered string metadata *)
  f_latency : bool;     (* option cache.WithLatencyWindows with one window: three int metadata at
                           meta/latency/window/<w>/{avg,max,min}, unset until the window is covered *)
  f_event : bool        (* event-driven emulation on (default) *)
}.

(* value.Equal is the one of Value/ValueModel.v ([equal_gen] under its switch
   [defect_C19_1], final now: off, patch committed as b28d6aa). *)
Definition cur_flags_with (server_name latency event : bool) : flags :=
  Flags defect_C12_1 defect_C12_2 defect_C12_3 defect_C19_1 defect_C12_5 server_name latency event.
Definition cur_flags : flags := cur_flags_with false false true.
Definition fixed_flags : flags := Flags false false false false false false false true.
Definition all_defects : flags := Flags true true true true true false false true.
Definition all_defects_opts : flags := Flags true true true true true true true true.

(** * Messages *)

Record upd := UpdD {
  u_path : option gpath;      (* nil *Path allowed on the wire *)
  u_val  : tv;                (* [TVnil]: no TypedValue *)
  u_dep  : option (N * string)
      (* the deprecated Update.value (Encoding, bytes), next to or instead of [u_val].  The
         ingest path never reads it: the metadata guards, value.Equal for the event-driven
         suppression and the stored leaf's kind all look at [Val] only; it only takes part
         in proto.Equal (same-timestamp staleness). *)
}.

(** an update in the current encoding only *)
Definition Upd (p : option gpath) (v : tv) : upd := UpdD p v None.

Record notif := Notif {
  n_ts     : Z;
  n_prefix : option gpath;
  n_upd    : list upd;
  n_del    : list gpath;
  n_atomic : bool
}.

(** what protobuf decoding cannot produce: a nil inner message of a oneof arm,
    a nil element of a repeated field.  (Nil entries of [Notification.Update] /
    [Delete] / [Path.Elem] are excluded by the types above.) *)
Definition wire_tv (v : tv) : bool :=
  match v with
  | TVnil => true
  | _ => negb (has_nil v)
  end.

Definition wire_upd (u : upd) : bool := wire_tv (u_val u).
Definition wire_notif (n : notif) : bool := forallb wire_upd (n_upd n).

(** ** proto.Equal on the modelled messages *)

Fixpoint list_eqb {A} (e : A -> A -> bool) (a b : list A) : bool :=
  match a, b with
  | [], [] => true
  | x :: a', y :: b' => e x y && list_eqb e a' b'
  | _, _ => false
  end.

Definition keymap_eqb (a b : list (string * string)) : bool :=
  Nat.eqb (List.length a) (List.length b) &&
  forallb (fun kv => match assoc (fst kv) b with
                     | Some v => String.eqb v (snd kv)
                     | None => false
                     end) a.

Definition pelem_eqb (a b : pelem) : bool :=
  String.eqb (fst a) (fst b) && keymap_eqb (snd a) (snd b).

Definition gpath_eqb (a b : gpath) : bool :=
  String.eqb (gp_target a) (gp_target b) &&
  String.eqb (gp_origin a) (gp_origin b) &&
  list_eqb pelem_eqb (gp_elems a) (gp_elems b) &&
  list_eqb String.eqb (gp_element a) (gp_element b).

Definition ogpath_eqb (a b : option gpath) : bool :=
  match a, b with
  | Some x, Some y => gpath_eqb x y
  | None, None => true
  | _, _ => false
  end.

Definition tvs_eqb (e : tv -> tv -> bool) : list tv -> list tv -> bool :=
  fix go a b :=
    match a, b with
    | [], [] => true
    | x :: a', y :: b' => e x y && go a' b'
    | _, _ => false
    end.

(** structural equality (bit equality on floats): used to compare dumps *)
Fixpoint tv_eqb (a b : tv) {struct a} : bool :=
  match a, b with
  | TVnil, TVnil | TVunset, TVunset | TVAny, TVAny
  | TVDecimalNil, TVDecimalNil | TVLeaflistNil, TVLeaflistNil => true
  | TVString x, TVString y | TVBytes x, TVBytes y | TVJson x, TVJson y
  | TVJsonIetf x, TVJsonIetf y | TVAscii x, TVAscii y | TVProtoBytes x, TVProtoBytes y =>
      String.eqb x y
  | TVInt x, TVInt y => Z.eqb x y
  | TVUint x, TVUint y | TVFloat x, TVFloat y | TVDouble x, TVDouble y => N.eqb x y
  | TVBool x, TVBool y => Bool.eqb x y
  | TVDecimal g p, TVDecimal g' p' => Z.eqb g g' && N.eqb p p'
  | TVLeaflist l, TVLeaflist l' => tvs_eqb tv_eqb l l'
  | _, _ => false
  end.

(** proto.Equal on TypedValue: as [tv_eqb], but floating-point fields compare
    with Go's [==] (so +0 equals -0) and two NaNs are equal *)
Fixpoint tv_peqb (a b : tv) {struct a} : bool :=
  match a, b with
  | TVFloat x, TVFloat y => f32_eq x y || (f32_is_nan x && f32_is_nan y)
  | TVDouble x, TVDouble y => f64_eq x y || (f64_is_nan x && f64_is_nan y)
  | TVLeaflist l, TVLeaflist l' => tvs_eqb tv_peqb l l'
  | _, _ => tv_eqb a b
  end.

Definition dep_eqb (a b : option (N * string)) : bool :=
  match a, b with
  | Some (e, x), Some (e', y) => N.eqb e e' && String.eqb x y
  | None, None => true
  | _, _ => false
  end.

Definition upd_eqb (a b : upd) : bool :=
  ogpath_eqb (u_path a) (u_path b) && tv_peqb (u_val a) (u_val b) && dep_eqb (u_dep a) (u_dep b).

Definition notif_eqb (a b : notif) : bool :=
  Z.eqb (n_ts a) (n_ts b) &&
  ogpath_eqb (n_prefix a) (n_prefix b) &&
  list_eqb upd_eqb (n_upd a) (n_upd b) &&
  list_eqb gpath_eqb (n_del a) (n_del b) &&
  Bool.eqb (n_atomic a) (n_atomic b).

(** * Metadata names (metadata/metadata.go) *)

Definition md_root := "meta".
Definition md_sync := "sync".
Definition md_connected := "connected".
Definition md_connected_addr := "connectedAddress".
Definition md_connect_error := "connectError".
Definition md_server_name := "serverName".
Definition md_latency := "latency".
Definition md_window := "window".
Definition md_window_name := "10ns".       (* the one window the harness configures *)
Definition md_stats := ["avg"; "max"; "min"].
Definition md_bool_names := [md_sync; md_connected].
Definition md_int_names :=
  ["targetLeavesAdded"; "targetLeavesDeleted"; "targetLeavesEmpty"; "targetLeaves";
   "targetLeavesUpdated"; "targetLeavesStale"; "targetLeavesFuture";
   "targetLeavesSuppressed"; "targetSize"; "latestTimestamp"].
Definition name_in (k : string) (l : list string) : bool := existsb (String.eqb k) l.

(** * State *)

Record tstate := TState {
  ts_tree : tree notif;
  ts_cerr : bool;             (* meta.connectError is set *)
  ts_sync : bool;             (* Target.sync *)
  ts_lat  : bool              (* lat.Compute was called since the cache was created *)
}.

Definition cstate := list (string * tstate).

Definition new_tstate : tstate := TState None false false false.

(** * Outcome classes *)

Definition err_stale : N := 1.
Definition err_collision : N := 3.
Definition err_add : N := 4.
Definition err_meta_type : N := 5.
Definition err_atomic_delete : N := 6.
Definition err_no_prefix : N := 7.
Definition err_no_target : N := 8.
Definition err_bad_path : N := 9.       (* after C12_1: "invalid path" *)

Definition panic_join : N := 1.         (* joinPrefixAndPath: p[1:] of an empty slice *)
Definition panic_path0 : N := 2.        (* path[0] of an empty index path *)
Definition panic_path1 : N := 3.        (* path[1] of the path [meta] *)
Definition panic_no_update : N := 4.    (* n.Update[0] / n.Delete[0] of an empty list *)
Definition panic_nil_val : N := 5.      (* u.Val.Value with u.Val == nil *)
Definition panic_meta_assert : N := 6.  (* generateMetaUpdates: nil dereference / unchecked assertion *)
Definition panic_old_update : N := 7.   (* old.Update[0] of a stored notification without updates *)
Definition panic_equal : N := 8.        (* value.Equal dereferences nil *)

Section Ingest.
Variable fl : flags.

Definition join_path (pr ph : option gpath) : outcome path :=
  match join_prefix_and_path (gp_of_opt pr) (gp_of_opt ph) with
  | Ok p => Ok p
  | Err e => Err e
  | Panic _ => Panic panic_join
  end.

(** ** gnmiUpdate *)

(** the switch on [path[1]] under [path[0] == "meta"] *)
Definition meta_check (t : tstate) (p : path) (k : string) (v : tv) : tstate * outcome unit :=
  if String.eqb k md_sync || String.eqb k md_connected then
    match v with
    | TVnil =>
        (* DEFECT C12_2: [u.Val.Value] on nil; with the patch this is [Err err_meta_type] *)
        if f_nilval fl then (t, Panic panic_nil_val) else (t, Err err_meta_type)
    | TVBool b =>
        (if String.eqb k md_sync then TState (ts_tree t) (ts_cerr t) b (ts_lat t) else t, Ok tt)
    | _ => (t, Err err_meta_type)
    end
  else if String.eqb k md_connected_addr || String.eqb k md_connect_error then
    match v with
    | TVnil =>
        (* DEFECT C12_2 *)
        if f_nilval fl then (t, Panic panic_nil_val) else (t, Err err_meta_type)
    | TVString _ =>
        (if String.eqb k md_connect_error then TState (ts_tree t) true (ts_sync t) (ts_lat t) else t, Ok tt)
    | _ => (t, Err err_meta_type)
    end
  else
    (* DEFECT C12_3: no check now; with the patch a non-int value at
       [meta; <int name>] is [Err err_meta_type] *)
    if negb (f_intmeta fl) && Nat.eqb (List.length p) 2 && name_in k md_int_names
    then match v with
         | TVInt _ => (t, Ok tt)
         | _ => (t, Err err_meta_type)
         end
    else (t, Ok tt).

(** [path[0]], [path[1]] and the metadata switch *)
Definition update_pre (t : tstate) (p : path) (v : tv) : tstate * outcome unit :=
  match p with
  | [] =>
      (* DEFECT C12_1: [path[0]]; with the patch [Err err_bad_path] *)
      if f_idx fl then (t, Panic panic_path0) else (t, Err err_bad_path)
  | p0 :: prest =>
      if negb (String.eqb p0 md_root) then (t, Ok tt)
      else match prest with
           | [] =>
               (* DEFECT C12_1: [path[1]]; with the patch [Err err_bad_path] *)
               if f_idx fl then (t, Panic panic_path1) else (t, Err err_bad_path)
           | k :: _ => meta_check t p k v
           end
  end.

Definition tree_set (tr : tree notif) (p : path) (n : notif) : tree notif :=
  match CTreeModel.add tr p n with Some tr' => tr' | None => tr end.

(** [t.lat.Compute]: only for real (non-meta) data of a synced target *)
Definition is_real (p : path) : bool :=
  match p with p0 :: _ => negb (String.eqb p0 md_root) | [] => true end.

Definition lat_mark (t : tstate) (real : bool) : tstate :=
  if ts_sync t && real then TState (ts_tree t) (ts_cerr t) (ts_sync t) true else t.

(** the existing-leaf switch and the add of a new leaf *)
Definition update_leaf (t : tstate) (p : path) (v : tv) (n : notif) : tstate * outcome unit :=
  let real := is_real p in
  match CTreeModel.get (ts_tree t) p with
  | Some (Branch _) => (t, Err err_collision)
  | Some (Leaf old) =>
      if Z.ltb (n_ts n) (n_ts old) then (t, Err err_stale)
      else if Z.eqb (n_ts n) (n_ts old) && notif_eqb old n then (t, Err err_stale)
      else
        let t2 := TState (tree_set (ts_tree t) p n) (ts_cerr t) (ts_sync t) (ts_lat t) in   (* oldval.Update(n) *)
        if n_atomic n then (lat_mark t2 real, Ok tt)
        else match n_upd old with
             | [] => (t2, Panic panic_old_update)
             | uo :: _ =>
                 match equal_gen (f_equal fl) (u_val uo) v with
                 | Panic _ => (t2, Panic panic_equal)
                 | Ok true =>
                     (* suppressed when event-driven emulation is on: no latency sample *)
                     if f_event fl then (t2, Ok tt) else (lat_mark t2 real, Ok tt)
                 | _ => (lat_mark t2 real, Ok tt)
                 end
             end
  | None =>
      match CTreeModel.add (ts_tree t) p n with
      | None => (t, Err err_add)
      | Some tr' => (lat_mark (TState tr' (ts_cerr t) (ts_sync t) (ts_lat t)) real, Ok tt)
      end
  end.

(** gnmiUpdate(n): [n] is stored as one unit under prefix + first update's
    path (the prefix alone when atomic) *)
Definition gnmi_update1 (t : tstate) (n : notif) : tstate * outcome unit :=
  match n_upd n with
  | [] => (t, Panic panic_no_update)
  | u :: _ =>
      match join_path (n_prefix n) (if n_atomic n then None else u_path u) with
      | Panic w => (t, Panic w)
      | Err e => (t, Err e)
      | Ok p =>
          match update_pre t p (u_val u) with
          | (t1, Panic w) => (t1, Panic w)
          | (t1, Err e) => (t1, Err e)
          | (t1, Ok _) => update_leaf t1 p (u_val u) n
          end
      end
  end.

(** ** gnmiRemove *)
Definition gnmi_remove (t : tstate) (n : notif) : tstate * outcome unit :=
  match n_del n with
  | [] => (t, Panic panic_no_update)
  | d :: _ =>
      match join_path (n_prefix n) (Some d) with
      | Panic w => (t, Panic w)
      | Err e => (t, Err e)
      | Ok p =>
          let pre : tstate * outcome unit :=
            match p with
            | [] =>
                (* DEFECT C12_1: [path[0]]; with the patch no metadata reset *)
                if f_idx fl then (t, Panic panic_path0) else (t, Ok tt)
            | p0 :: prest =>
                if String.eqb p0 md_root then
                  match prest with
                  | [] =>
                      (* DEFECT C12_1: [path[1]]; with the patch no metadata reset *)
                      if f_idx fl then (t, Panic panic_path1) else (t, Ok tt)
                  | k :: _ =>
                      (* ResetEntry(path[1]): connectError is deleted *)
                      (if String.eqb k md_connect_error then TState (ts_tree t) false (ts_sync t) (ts_lat t) else t, Ok tt)
                  end
                else (t, Ok tt)
            end in
          match pre with
          | (t1, Panic w) => (t1, Panic w)
          | (t1, Err e) => (t1, Err e)
          | (t1, Ok _) =>
              let r := CTreeModel.delete_cond (ts_tree t1) p (fun v => Z.ltb (n_ts v) (n_ts n)) in
              (TState (fst r) (ts_cerr t1) (ts_sync t1) (ts_lat t1), Ok tt)
          end
      end
  end.

(** ** Target.GnmiUpdate *)

Inductive gres :=
| GOk
| GErr (cls : N)
| GErrs (cls : list N)     (* errlist of a multi notification (non-empty) *)
| GPanic (why : N).

Definition clone_with_update (n : notif) (u : upd) : notif :=
  Notif (n_ts n) (n_prefix n) [u] [] (n_atomic n).
Definition clone_with_delete (n : notif) (d : gpath) : notif :=
  Notif (n_ts n) (n_prefix n) [] [d] (n_atomic n).

Record acc := Acc {
  a_t : tstate;
  a_errs : list N;
  a_panic : option N
}.

Definition multi_update_step (n : notif) (a : acc) (u : upd) : acc :=
  match a_panic a with
  | Some _ => a
  | None =>
      match gnmi_update1 (a_t a) (clone_with_update n u) with
      | (t', Panic w) => Acc t' (a_errs a) (Some w)
      | (t', Err e) => Acc t' (a_errs a ++ [e]) None
      | (t', Ok _) => Acc t' (a_errs a) None
      end
  end.

Definition multi_delete_step (n : notif) (a : acc) (d : gpath) : acc :=
  match a_panic a with
  | Some _ => a
  | None =>
      match gnmi_remove (a_t a) (clone_with_delete n d) with
      | (t', Panic w) => Acc t' (a_errs a) (Some w)
      | (t', Err e) => Acc t' (a_errs a ++ [e]) None
      | (t', Ok _) => Acc t' (a_errs a) None
      end
  end.

Definition lift1 (r : tstate * outcome unit) : tstate * gres :=
  match r with
  | (t', Panic w) => (t', GPanic w)
  | (t', Err e) => (t', GErr e)
  | (t', Ok _) => (t', GOk)
  end.

Definition target_gnmi_update (t : tstate) (n : notif) : tstate * gres :=
  if n_atomic n then
    match n_del n with
    | _ :: _ => (t, GErr err_atomic_delete)
    | [] =>
        match n_upd n with
        | [] => (t, GOk)
        | _ :: _ => lift1 (gnmi_update1 t n)
        end
    end
  else
    match n_upd n, n_del n with
    | [], [] => (t, GOk)
    | [_], [] => lift1 (gnmi_update1 t n)
    | [], [_] => lift1 (gnmi_remove t n)
    | us, ds =>
        let a1 := fold_left (multi_update_step n) us (Acc t [] None) in
        let a2 := fold_left (multi_delete_step n) ds a1 in
        (a_t a2,
         match a_panic a2 with
         | Some w => GPanic w
         | None => match a_errs a2 with [] => GOk | es => GErrs es end
         end)
    end.

(** ** Cache.GnmiUpdate *)
Definition ingest (c : cstate) (n : notif) : cstate * gres :=
  match n_prefix n with
  | None => (c, GErr err_no_prefix)
  | Some pr =>
      match assoc (gp_target pr) c with
      | None => (c, GErr err_no_target)
      | Some t =>
          let r := target_gnmi_update t n in
          (aset (gp_target pr) (fst r) c, snd r)
      end
  end.

(** ** Cache.UpdateMetadata: does generateMetaUpdates survive the leaves a
    remote peer left under meta/ ?

    [prev.(Notification).Update[0].Val.Value.(TypedValue_XVal).XVal] (pointer types):
    a stored leaf at metadata.Path(k) whose first value is not of kind X is a
    nil dereference (no value) or a failed assertion.  Only the leaf of [k]
    itself decides, and the loop body of [k] writes only that leaf, so the
    verdict does not depend on Go's map order. *)
Definition leaf_first_val (tr : tree notif) (p : path) : option (outcome tv) :=
  match CTreeModel.lookup tr p with
  | None => None                         (* absent or a branch: prev == nil *)
  | Some prev =>
      match n_upd prev with
      | [] => Some (Panic panic_old_update)
      | u :: _ => Some (Ok (u_val u))
      end
  end.

Definition refresh_at (tr : tree notif) (p : path) (right_kind : tv -> bool) : bool :=
  match leaf_first_val tr p with
  | None => false
  | Some (Ok v) => negb (right_kind v)
  | Some _ => true
  end.

Definition refresh_one (tr : tree notif) (k : string) (right_kind : tv -> bool) : bool :=
  refresh_at tr [md_root; k] right_kind.

Definition is_bool (v : tv) := match v with TVBool _ => true | _ => false end.
Definition is_int (v : tv) := match v with TVInt _ => true | _ => false end.
Definition is_str (v : tv) := match v with TVString _ => true | _ => false end.

Definition latency_path (stat : string) : path :=
  [md_root; md_latency; md_window; md_window_name; stat].

(** the metadata registered by default, then the option-dependent ones: the
    server name is set when the target is created; the latency statistics are
    set by lat.UpdateReset once the window is covered, which in the harness'
    clock (every call 10 ns after the previous one, one 10 ns window, positive
    latencies) is the case as soon as one sample was taken in an earlier call *)
Definition refresh_panics (t : tstate) : bool :=
  existsb (fun k => refresh_one (ts_tree t) k is_bool) md_bool_names ||
  existsb (fun k => refresh_one (ts_tree t) k is_int) md_int_names ||
  refresh_one (ts_tree t) md_connected_addr is_str ||
  (ts_cerr t && refresh_one (ts_tree t) md_connect_error is_str) ||
  (f_server_name fl && refresh_one (ts_tree t) md_server_name is_str) ||
  (f_latency fl && ts_lat t &&
   existsb (fun st => refresh_at (ts_tree t) (latency_path st) is_int) md_stats).

Definition refresh (c : cstate) : outcome unit :=
  (* DEFECT C12_5: with the patch [Ok tt] (checked assertions) *)
  if f_refresh fl && existsb (fun kt => refresh_panics (snd kt)) c
  then Panic panic_meta_assert else Ok tt.

End Ingest.

(** * Query dump: every stored leaf of every target *)
Definition dump_target (t : tstate) : list (path * notif) := CTreeModel.walk_sorted (ts_tree t).
Definition dump (c : cstate) : list (string * list (path * notif)) :=
  map (fun kt => (fst kt, dump_target (snd kt))) c.

Definition new_cstate (names : list string) : cstate :=
  fold_left (fun m k => aset k new_tstate m) names [].

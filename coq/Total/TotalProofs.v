(** Proofs for C12 (totality of the four entry points). *)
From Gnmi Require Import Base.Prelude Total.IngestModel Total.SubReqModel
  Total.ClientRecvModel Total.CliDisplayModel Total.StreamModel Total.C12Check.

Lemma complete_path_no_panic pf p w : complete_path pf p <> Panic w.
Proof.
  unfold complete_path.
  destruct (negb (String.eqb (gp_origin pf) "") && negb (String.eqb (gp_origin p) "")); [discriminate|].
  destruct (negb (String.eqb (gp_origin pf) "")); [discriminate|].
  destruct (negb (String.eqb (gp_origin p) "")); [|discriminate].
  destruct (to_strings false pf); discriminate.
Qed.

Lemma process_subs_no_panic pf subs w : process_subs pf subs <> Panic w.
Proof.
  induction subs as [|s subs IH]; cbn; [discriminate|].
  pose proof (complete_path_no_panic pf (gp_of_opt s) w).
  destruct (complete_path pf (gp_of_opt s)); try discriminate; congruence.
Qed.

Lemma subscribe_no_panic_with_peer e f w :
  se_has_peer e = true -> subscribe e f <> Panic w.
Proof.
  intros Hp. unfold subscribe.
  destruct f as [| |r]; try discriminate.
  destruct (sr_kind r); try discriminate.
  destruct (sr_prefix r) as [pr|]; try discriminate.
  destruct (String.eqb (gp_target pr) ""); try discriminate.
  destruct (negb (has_target e (gp_target pr))); try discriminate.
  rewrite Hp; cbn.
  assert (Hp2 : process_subscription r <> Panic w).
  { unfold process_subscription. destruct (sr_updates_only r); [discriminate|apply process_subs_no_panic]. }
  destruct (N.eqb (sr_mode r) 1 || N.eqb (sr_mode r) 2).
  - destruct (process_subscription r); congruence.
  - destruct (N.eqb (sr_mode r) 0); [|discriminate].
    destruct (sr_updates_only r); [discriminate|].
    destruct (process_subscription r); congruence.
Qed.

(** * Entry point 1: ingest *)
From Gnmi Require Import CTree.CTreeProofs CTree.CTreeTheorems Value.ValueProofs.

(** what every stored notification satisfies: it carries at least one update
    (it went through gnmiUpdate) and wire-realisable values *)
Definition stored_ok (n : notif) : Prop := n_upd n <> [] /\ wire_notif n = true.

Definition tree_ok (tr : tree notif) : Prop :=
  wf_tree tr /\ forall p n, lookup tr p = Some n -> stored_ok n.

(** well-formed cache states: no target registered under the empty name,
    well-formed trees of stored notifications *)
Definition st_wf (c : cstate) : Prop :=
  forall k t, In (k, t) c -> k <> "" /\ tree_ok (ts_tree t).

Lemma tree_ok_empty : tree_ok None.
Proof. split; [exact I|]. intros p n H; discriminate. Qed.

Lemma st_wf_new names : ~ In "" names -> st_wf (new_cstate names).
Proof.
  unfold new_cstate. intros Hn.
  assert (H : forall l c, st_wf c -> ~ In "" l -> st_wf (fold_left (fun m k => aset k new_tstate m) l c)).
  { induction l as [|k l IH]; cbn; intros c Hc Hl; [assumption|].
    apply IH; [|tauto]. intros k' t' Hin. apply In_aset_weak in Hin as [E|Hin]; [|now apply Hc].
    inversion E; subst. split; [intros ->; apply Hl; now left|apply tree_ok_empty]. }
  apply H; [intros k t []|assumption].
Qed.

Lemma wire_tv_cases v : wire_tv v = true -> v = TVnil \/ has_nil v = false.
Proof. destruct v; cbn; intros H; auto; right; try reflexivity; now apply negb_true_iff in H. Qed.

(** value.Equal panics only on (double, nil) and only while DEFECT C19_1 is present *)
Lemma equal_gen_panic_inv d a b w :
  wire_tv a = true -> wire_tv b = true -> equal_gen d a b = Panic w ->
  d = true /\ (exists x, a = TVDouble x) /\ b = TVnil.
Proof.
  intros Ha Hb He.
  destruct (wire_tv_cases _ Hb) as [->|Hnb].
  - destruct a; cbn in He; try discriminate; destruct d; cbn in *; try discriminate; eauto.
  - destruct (wire_tv_cases _ Ha) as [->|Hna]; [cbn in He; discriminate|].
    destruct (equal_gen_total d a b) as [r Hr]; [right; auto|congruence].
Qed.

Section IngestProofs.
Variable fl : flags.

Definition unit_path (n : notif) : option gpath :=
  match n_upd n with u :: _ => if n_atomic n then None else u_path u | [] => None end.
Definition unit_val (n : notif) : tv :=
  match n_upd n with u :: _ => u_val u | [] => TVnil end.

(** why a unit (one stored notification) can panic: always one of the listed defects *)
Definition attrib1 (n : notif) (w : N) : Prop :=
  (f_idx fl = true /\ (w = panic_path0 \/ w = panic_path1) /\ short_idx (idx_of n (unit_path n)) = true) \/
  (f_nilval fl = true /\ w = panic_nil_val /\ unit_val n = TVnil /\
   typed_meta_idx (idx_of n (unit_path n)) = true) \/
  (f_equal fl = true /\ w = panic_equal /\ n_atomic n = false /\ unit_val n = TVnil).

Lemma join_path_ok pr ph :
  gp_target pr <> "" -> exists p, join_path (Some pr) ph = Ok p.
Proof.
  intros Ht. unfold join_path, join_prefix_and_path, to_strings at 1. cbn [gp_of_opt].
  unfold nonempty at 1. destruct (String.eqb_spec (gp_target pr) ""); [contradiction|].
  cbn. eauto.
Qed.

Lemma meta_check_panic t p k v t' w :
  meta_check fl t p k v = (t', Panic w) ->
  f_nilval fl = true /\ w = panic_nil_val /\ v = TVnil /\ name_in k typed_meta_names = true.
Proof.
  unfold meta_check, typed_meta_names, name_in. cbn [existsb].
  destruct (String.eqb k md_sync) eqn:E1; cbn [orb].
  - destruct v; try (intros H; discriminate H).
    destruct (f_nilval fl); intros H; inversion H; subst. auto.
  - destruct (String.eqb k md_connected) eqn:E2; cbn [orb].
    + destruct v; try (intros H; discriminate H).
      destruct (f_nilval fl); intros H; inversion H; subst. auto.
    + destruct (String.eqb k md_connected_addr) eqn:E3; cbn [orb].
      * destruct v; try (intros H; discriminate H).
        destruct (f_nilval fl); intros H; inversion H; subst. auto.
      * destruct (String.eqb k md_connect_error) eqn:E4; cbn [orb].
        -- destruct v; try (intros H; discriminate H).
           destruct (f_nilval fl); intros H; inversion H; subst. auto.
        -- destruct (negb (f_intmeta fl) && Nat.eqb (List.length p) 2 && existsb (String.eqb k) md_int_names);
             [destruct v|]; intros H; discriminate H.
Qed.

Lemma meta_check_tree t p k v : ts_tree (fst (meta_check fl t p k v)) = ts_tree t.
Proof.
  unfold meta_check.
  repeat match goal with
         | |- context [if ?b then _ else _] => destruct b
         | |- context [match v with _ => _ end] => destruct v
         end; reflexivity.
Qed.

Lemma update_pre_tree t p v : ts_tree (fst (update_pre fl t p v)) = ts_tree t.
Proof.
  unfold update_pre. destruct p as [|p0 [|k r]]; cbn.
  - destruct (f_idx fl); reflexivity.
  - destruct (negb (String.eqb p0 md_root)); [reflexivity|destruct (f_idx fl); reflexivity].
  - destruct (negb (String.eqb p0 md_root)); [reflexivity|apply meta_check_tree].
Qed.

Lemma update_pre_panic t p v t' w :
  update_pre fl t p v = (t', Panic w) ->
  (f_idx fl = true /\ (w = panic_path0 \/ w = panic_path1) /\ short_idx (Some p) = true) \/
  (f_nilval fl = true /\ w = panic_nil_val /\ v = TVnil /\ typed_meta_idx (Some p) = true).
Proof.
  unfold update_pre. destruct p as [|p0 [|k r]].
  - destruct (f_idx fl); intros H; inversion H; subst. left. cbn. auto.
  - destruct (String.eqb p0 md_root) eqn:E; cbn [negb]; [|intros H; discriminate H].
    destruct (f_idx fl); intros H; inversion H; subst. left. cbn. rewrite E. auto.
  - destruct (String.eqb p0 md_root) eqn:E; cbn [negb]; [|intros H; discriminate H].
    intros H. apply meta_check_panic in H as (H1 & H2 & H3 & H4). right.
    unfold typed_meta_idx. rewrite E, H4. auto.
Qed.

Lemma update_leaf_panic t p v n t' w :
  tree_ok (ts_tree t) -> wire_tv v = true ->
  update_leaf fl t p v n = (t', Panic w) ->
  f_equal fl = true /\ w = panic_equal /\ n_atomic n = false /\ v = TVnil.
Proof.
  intros [Hwf Hok] Hv. unfold update_leaf.
  destruct (CTreeModel.get (ts_tree t) p) as [[old|cs]|] eqn:Eg; [| intros H; discriminate H |].
  - apply get_leaf_exact in Eg. destruct (Hok _ _ Eg) as [Hne Hw].
    destruct (Z.ltb (n_ts n) (n_ts old)); [intros H; discriminate H|].
    destruct (Z.eqb (n_ts n) (n_ts old) && notif_eqb old n); [intros H; discriminate H|].
    destruct (n_atomic n); [intros H; discriminate H|].
    destruct (n_upd old) as [|uo rest] eqn:Eo; [congruence|].
    destruct (equal_gen (f_equal fl) (u_val uo) v) as [[|]|e|w1] eqn:Ee;
      try (intros H; discriminate H); [destruct (f_event fl); intros H; discriminate H|].
    intros H; inversion H; subst.
    unfold wire_notif in Hw. rewrite Eo in Hw. cbn in Hw. apply andb_true_iff in Hw as [Hw _].
    destruct (equal_gen_panic_inv _ _ _ _ Hw Hv Ee) as (H1 & _ & H3). auto.
  - destruct (CTreeModel.add (ts_tree t) p n); intros H; discriminate H.
Qed.

Lemma gnmi_update1_panic t n t' w k :
  tree_ok (ts_tree t) -> wire_notif n = true ->
  (exists pr, n_prefix n = Some pr /\ gp_target pr = k) -> k <> "" ->
  gnmi_update1 fl t n = (t', Panic w) ->
  n_upd n <> [] -> attrib1 n w.
Proof.
  intros Hok Hw (pr & Hpr & Hk) Hne. unfold gnmi_update1, attrib1, unit_path, unit_val, idx_of.
  destruct (n_upd n) as [|u us] eqn:Eu; [congruence|]. intros H _.
  rewrite Hpr in *. subst k.
  destruct (join_path_ok pr (if n_atomic n then None else u_path u) Hne) as [p Hp].
  rewrite Hp in *.
  destruct (update_pre fl t p (u_val u)) as [t1 [x|e|w1]] eqn:Ep.
  - assert (Ht1 : tree_ok (ts_tree t1)).
    { replace t1 with (fst (update_pre fl t p (u_val u))) by now rewrite Ep.
      now rewrite update_pre_tree. }
    unfold wire_notif in Hw. rewrite Eu in Hw. cbn in Hw. apply andb_true_iff in Hw as [Hw _].
    apply update_leaf_panic in H as (H1 & H2 & H3 & H4); auto.
    right; right. auto.
  - discriminate H.
  - inversion H; subst. apply update_pre_panic in Ep as [(H1 & H2 & H3)|(H1 & H2 & H3 & H4)].
    + left. auto.
    + right; left. auto.
Qed.

Lemma gnmi_remove_panic t n t' w k :
  (exists pr, n_prefix n = Some pr /\ gp_target pr = k) -> k <> "" ->
  gnmi_remove fl t n = (t', Panic w) -> n_del n <> [] ->
  f_idx fl = true /\ (w = panic_path0 \/ w = panic_path1) /\
  exists d rest, n_del n = d :: rest /\ short_idx (idx_of n (Some d)) = true.
Proof.
  intros (pr & Hpr & Hk) Hne. unfold gnmi_remove, idx_of.
  destruct (n_del n) as [|d ds] eqn:Ed; [congruence|]. intros H _.
  rewrite Hpr in *. subst k.
  destruct (join_path_ok pr (Some d) Hne) as [p Hp]. rewrite Hp in *.
  destruct p as [|p0 [|k r]].
  - destruct (f_idx fl); [|discriminate H]. inversion H; subst.
    split; [reflexivity|]. split; [auto|]. exists d, ds. split; [reflexivity|]. rewrite ?Hp. reflexivity.
  - destruct (String.eqb p0 md_root) eqn:E; [|discriminate H].
    destruct (f_idx fl); [|discriminate H]. inversion H; subst.
    split; [reflexivity|]. split; [auto|]. exists d, ds. split; [reflexivity|]. rewrite ?Hp. cbn. now rewrite E.
  - destruct (String.eqb p0 md_root); discriminate H.
Qed.

(** ** the state invariant is preserved *)

Lemma tree_ok_add tr p n tr' :
  tree_ok tr -> stored_ok n -> add tr p n = Some tr' -> tree_ok tr'.
Proof.
  intros [Hwf Hok] Hn Ha. destruct (add_spec tr tr' p n Hwf Ha) as [Hwf' Hl].
  split; [assumption|]. intros q m Hq. rewrite Hl in Hq.
  destruct (path_eqb q p); [inversion Hq; subst; assumption|eauto].
Qed.

Lemma tree_ok_tree_set tr p n : tree_ok tr -> stored_ok n -> tree_ok (tree_set tr p n).
Proof.
  intros Hok Hn. unfold tree_set. destruct (CTreeModel.add tr p n) eqn:E; [eapply tree_ok_add; eauto|assumption].
Qed.

Lemma tree_ok_delete tr q c : tree_ok tr -> tree_ok (fst (delete_cond tr q c)).
Proof.
  intros [Hwf Hok]. destruct (delete_spec tr q c Hwf) as (Hwf' & Hl & _).
  split; [assumption|]. intros s m Hs. rewrite Hl in Hs. unfold sel in Hs.
  destruct (lookup tr s) as [v|] eqn:E; [|discriminate].
  destruct (qmatch q s && c v); [discriminate|]. inversion Hs; subst. eauto.
Qed.

Lemma lat_mark_tree t r : ts_tree (lat_mark t r) = ts_tree t.
Proof. unfold lat_mark. destruct (ts_sync t && r); reflexivity. Qed.

(** the tree after the existing-leaf switch / add: unchanged, the leaf
    overwritten, or the new leaf added *)
Lemma update_leaf_tree t p v n :
  let tr' := ts_tree (fst (update_leaf fl t p v n)) in
  tr' = ts_tree t \/ tr' = tree_set (ts_tree t) p n \/ CTreeModel.add (ts_tree t) p n = Some tr'.
Proof.
  unfold update_leaf.
  destruct (CTreeModel.get (ts_tree t) p) as [[old|cs]|]; cbn [fst]; [|now left|].
  - destruct (Z.ltb _ _); cbn [fst]; [now left|].
    destruct (_ && _); cbn [fst]; [now left|]. right; left.
    destruct (n_atomic n); cbn [fst]; [now rewrite lat_mark_tree|].
    destruct (n_upd old); cbn [fst ts_tree]; [reflexivity|].
    destruct (equal_gen _ _ _) as [[|]|e|w]; cbn [fst ts_tree]; rewrite ?lat_mark_tree; try reflexivity.
    destruct (f_event fl); cbn [fst ts_tree]; rewrite ?lat_mark_tree; reflexivity.
  - destruct (CTreeModel.add (ts_tree t) p n) eqn:Ea; cbn [fst ts_tree]; [|now left].
    right; right. now rewrite lat_mark_tree.
Qed.

Lemma gnmi_update1_ok t n :
  tree_ok (ts_tree t) -> stored_ok n -> tree_ok (ts_tree (fst (gnmi_update1 fl t n))).
Proof.
  intros Hok Hn. unfold gnmi_update1.
  destruct (n_upd n) as [|u us]; [assumption|].
  destruct (join_path _ _) as [p|e|w]; try assumption.
  destruct (update_pre fl t p (u_val u)) as [t1 o] eqn:Ep.
  assert (Ht1 : ts_tree t1 = ts_tree t).
  { replace t1 with (fst (update_pre fl t p (u_val u))) by now rewrite Ep. apply update_pre_tree. }
  destruct o as [x|e|w]; cbn [fst]; try (rewrite Ht1; assumption).
  destruct (update_leaf_tree t1 p (u_val u) n) as [E|[E|E]]; cbn zeta in E; rewrite Ht1 in E.
  - rewrite E. assumption.
  - rewrite E. now apply tree_ok_tree_set.
  - eapply tree_ok_add; eauto.
Qed.

Lemma gnmi_remove_ok t n :
  tree_ok (ts_tree t) -> tree_ok (ts_tree (fst (gnmi_remove fl t n))).
Proof.
  intros Hok. unfold gnmi_remove.
  destruct (n_del n) as [|d ds]; [assumption|].
  destruct (join_path _ _) as [p|e|w]; try assumption.
  destruct p as [|p0 [|k r]].
  - destruct (f_idx fl); cbn [fst ts_tree]; [assumption|now apply tree_ok_delete].
  - destruct (String.eqb p0 md_root); [destruct (f_idx fl)|]; cbn [fst ts_tree];
      try assumption; now apply tree_ok_delete.
  - destruct (String.eqb p0 md_root); cbn [fst ts_tree]; [destruct (String.eqb k md_connect_error)|];
      cbn [fst ts_tree]; now apply tree_ok_delete.
Qed.

End IngestProofs.

Section IngestTheorems.
Variable fl : flags.

(** why a message can make Cache.GnmiUpdate panic: always one of the listed
    defect classes (the class predicates are the ones K_P uses) *)
Definition attrib (n : notif) (w : N) : Prop :=
  (f_idx fl = true /\ (w = panic_path0 \/ w = panic_path1) /\ class_idx n = true) \/
  (f_nilval fl = true /\ w = panic_nil_val /\ class_nilval n = true) \/
  (f_equal fl = true /\ w = panic_equal /\ n_atomic n = false /\
   exists u, In u (n_upd n) /\ u_val u = TVnil).

Lemma wire_clone n u : wire_notif n = true -> In u (n_upd n) -> wire_notif (clone_with_update n u) = true.
Proof.
  unfold wire_notif. cbn. intros H Hin. rewrite forallb_forall in H. now rewrite (H u Hin).
Qed.

Lemma attrib1_clone n u w :
  n_atomic n = false -> In u (n_upd n) -> attrib1 fl (clone_with_update n u) w -> attrib n w.
Proof.
  intros Hat Hin. unfold attrib1, attrib, unit_path, unit_val, idx_of. cbn. rewrite Hat.
  intros [(H1 & H2 & H3)|[(H1 & H2 & H3 & H4)|(H1 & H2 & _ & H4)]].
  - left. repeat split; auto. unfold class_idx. rewrite Hat. apply orb_true_iff. left.
    apply existsb_exists. exists u. split; auto.
  - right; left. repeat split; auto. unfold class_nilval. rewrite Hat.
    apply existsb_exists. exists u. split; auto. unfold idx_of. rewrite H3, H4. reflexivity.
  - right; right. repeat split; auto. eauto.
Qed.

Definition acc_ok (a : acc) : Prop := tree_ok (ts_tree (a_t a)).

Lemma multi_updates_inv n k :
  wire_notif n = true -> n_atomic n = false ->
  (exists pr, n_prefix n = Some pr /\ gp_target pr = k) -> k <> "" ->
  forall us a, incl us (n_upd n) -> acc_ok a ->
    (forall w, a_panic a = Some w -> attrib n w) ->
    let a' := fold_left (multi_update_step fl n) us a in
    acc_ok a' /\ (forall w, a_panic a' = Some w -> attrib n w).
Proof.
  intros Hw Hat Hpr Hk. induction us as [|u us IH]; intros a Hincl Hok Hp; cbn [fold_left]; [auto|].
  apply IH; [intros x Hx; apply Hincl; now right| |].
  - unfold multi_update_step. destruct (a_panic a); [assumption|].
    pose proof (gnmi_update1_ok fl (a_t a) (clone_with_update n u) Hok) as H.
    assert (Hs : stored_ok (clone_with_update n u)).
    { split; [cbn; discriminate|apply wire_clone; auto; apply Hincl; now left]. }
    specialize (H Hs). unfold acc_ok.
    destruct (gnmi_update1 fl (a_t a) (clone_with_update n u)) as [t' [x|e|w]]; cbn in *; assumption.
  - unfold multi_update_step. destruct (a_panic a) eqn:Ea; [intros w E; apply Hp; congruence|].
    destruct (gnmi_update1 fl (a_t a) (clone_with_update n u)) as [t' [x|e|w1]] eqn:Eg; cbn;
      try (intros w E; discriminate E).
    intros w E; inversion E; subst.
    apply attrib1_clone with (u := u); auto; [apply Hincl; now left|].
    eapply gnmi_update1_panic with (k := k); eauto.
    + apply wire_clone; auto. apply Hincl; now left.
    + cbn. discriminate.
Qed.

Lemma multi_deletes_inv n k :
  (exists pr, n_prefix n = Some pr /\ gp_target pr = k) -> k <> "" ->
  forall ds a, incl ds (n_del n) -> acc_ok a ->
    (forall w, a_panic a = Some w -> attrib n w) ->
    let a' := fold_left (multi_delete_step fl n) ds a in
    acc_ok a' /\ (forall w, a_panic a' = Some w -> attrib n w).
Proof.
  intros Hpr Hk. induction ds as [|d ds IH]; intros a Hincl Hok Hp; cbn [fold_left]; [auto|].
  apply IH; [intros x Hx; apply Hincl; now right| |].
  - unfold multi_delete_step. destruct (a_panic a); [assumption|].
    pose proof (gnmi_remove_ok fl (a_t a) (clone_with_delete n d) Hok) as H. unfold acc_ok.
    destruct (gnmi_remove fl (a_t a) (clone_with_delete n d)) as [t' [x|e|w]]; cbn in *; assumption.
  - unfold multi_delete_step. destruct (a_panic a) eqn:Ea; [intros w E; apply Hp; congruence|].
    destruct (gnmi_remove fl (a_t a) (clone_with_delete n d)) as [t' [x|e|w1]] eqn:Eg; cbn;
      try (intros w E; discriminate E).
    intros w E; inversion E; subst.
    apply gnmi_remove_panic with (k := k) in Eg as (H1 & H2 & d' & rest & H3 & H4); auto;
      [|cbn; discriminate].
    cbn in H3. inversion H3; subst. left. repeat split; auto.
    unfold class_idx. apply orb_true_iff. right. apply existsb_exists. exists d'. split; [apply Hincl; now left|].
    exact H4.
Qed.

(** the multi-notification arm of Target.GnmiUpdate *)
Definition multi (t : tstate) (n : notif) : tstate * gres :=
  let a1 := fold_left (multi_update_step fl n) (n_upd n) (Acc t [] None) in
  let a2 := fold_left (multi_delete_step fl n) (n_del n) a1 in
  (a_t a2,
   match a_panic a2 with
   | Some w => GPanic w
   | None => match a_errs a2 with [] => GOk | es => GErrs es end
   end).

Lemma multi_inv t n k :
  tree_ok (ts_tree t) -> wire_notif n = true -> n_atomic n = false ->
  (exists pr, n_prefix n = Some pr /\ gp_target pr = k) -> k <> "" ->
  tree_ok (ts_tree (fst (multi t n))) /\ (forall w, snd (multi t n) = GPanic w -> attrib n w).
Proof.
  intros Hok Hw Hat Hpr Hk. unfold multi.
  destruct (multi_updates_inv n k Hw Hat Hpr Hk (n_upd n) (Acc t [] None)) as [H1 H2];
    [apply incl_refl|exact Hok|cbn; intros w E; discriminate E|].
  destruct (multi_deletes_inv n k Hpr Hk (n_del n) _ (incl_refl _) H1 H2) as [H3 H4].
  cbn [fst snd]. split; [exact H3|].
  set (a2 := fold_left (multi_delete_step fl n) (n_del n) _) in *.
  intros w. destruct (a_panic a2) eqn:E.
  - intros Hq; inversion Hq; subst. now apply H4.
  - destruct (a_errs a2); intros Hq; discriminate Hq.
Qed.

Lemma unit_update_inv t n k :
  tree_ok (ts_tree t) -> wire_notif n = true -> n_upd n <> [] ->
  (n_atomic n = true \/ exists u, n_upd n = [u]) ->
  (exists pr, n_prefix n = Some pr /\ gp_target pr = k) -> k <> "" ->
  tree_ok (ts_tree (fst (lift1 (gnmi_update1 fl t n)))) /\
  (forall w, snd (lift1 (gnmi_update1 fl t n)) = GPanic w -> attrib n w).
Proof.
  intros Hok Hw Hne Hshape Hpr Hk.
  pose proof (gnmi_update1_ok fl t n Hok (conj Hne Hw)) as H1.
  destruct (gnmi_update1 fl t n) as [t' [x|e|w1]] eqn:Eg; cbn in *; split; auto;
    try (intros w E; discriminate E).
  intros w E; inversion E; subst.
  pose proof (gnmi_update1_panic fl t n t' w k Hok Hw Hpr Hk Eg Hne) as Ha.
  unfold attrib1, attrib, unit_path, unit_val in *.
  destruct (n_upd n) as [|u us] eqn:Eu; [congruence|].
  destruct Hshape as [Hat|[u' Hu']].
  - rewrite Hat in *.
    destruct Ha as [(A1 & A2 & A3)|[(A1 & A2 & A3 & A4)|(A1 & A2 & A3 & A4)]]; [| |discriminate].
    + left. repeat split; auto. unfold class_idx. rewrite Hat, Eu. now rewrite A3.
    + right; left. repeat split; auto. unfold class_nilval. rewrite Hat, Eu, A3, A4. reflexivity.
  - inversion Hu'; subst.
    destruct (n_atomic n) eqn:Hat.
    + destruct Ha as [(A1 & A2 & A3)|[(A1 & A2 & A3 & A4)|(A1 & A2 & A3 & A4)]]; [| |discriminate].
      * left. repeat split; auto. unfold class_idx. rewrite Hat, Eu. now rewrite A3.
      * right; left. repeat split; auto. unfold class_nilval. rewrite Hat, Eu, A3, A4. reflexivity.
    + destruct Ha as [(A1 & A2 & A3)|[(A1 & A2 & A3 & A4)|(A1 & A2 & A3 & A4)]].
      * left. repeat split; auto. unfold class_idx. rewrite Hat, Eu. cbn. now rewrite A3.
      * right; left. repeat split; auto. unfold class_nilval. rewrite Hat, Eu. cbn. now rewrite A3, A4.
      * right; right. repeat split; auto. exists u'. split; [now left|assumption].
Qed.

Lemma unit_delete_inv t n k d :
  tree_ok (ts_tree t) -> n_del n = [d] ->
  (exists pr, n_prefix n = Some pr /\ gp_target pr = k) -> k <> "" ->
  tree_ok (ts_tree (fst (lift1 (gnmi_remove fl t n)))) /\
  (forall w, snd (lift1 (gnmi_remove fl t n)) = GPanic w -> attrib n w).
Proof.
  intros Hok Hd Hpr Hk.
  pose proof (gnmi_remove_ok fl t n Hok) as H1.
  destruct (gnmi_remove fl t n) as [t' [x|e|w1]] eqn:Eg; cbn in *; split; auto;
    try (intros w E; discriminate E).
  intros w E; inversion E; subst.
  apply gnmi_remove_panic with (k := k) in Eg as (A1 & A2 & d' & rest & A3 & A4); auto;
    [|rewrite Hd; discriminate].
  rewrite Hd in A3. inversion A3; subst. left. repeat split; auto.
  unfold class_idx. apply orb_true_iff. right. rewrite Hd. cbn. now rewrite A4.
Qed.

Lemma target_inv t n k :
  tree_ok (ts_tree t) -> wire_notif n = true ->
  (exists pr, n_prefix n = Some pr /\ gp_target pr = k) -> k <> "" ->
  tree_ok (ts_tree (fst (target_gnmi_update fl t n))) /\
  (forall w, snd (target_gnmi_update fl t n) = GPanic w -> attrib n w).
Proof.
  intros Hok Hw Hpr Hk. unfold target_gnmi_update.
  destruct (n_atomic n) eqn:Hat.
  - destruct (n_del n) as [|d ds]; [|cbn [fst snd]; split; [assumption|intros w E; discriminate E]].
    destruct (n_upd n) as [|u us] eqn:Eu; [cbn [fst snd]; split; [assumption|intros w E; discriminate E]|].
    apply unit_update_inv with (k := k); auto; rewrite ?Eu; try discriminate.
  - pose proof (multi_inv t n k Hok Hw Hat Hpr Hk) as Hm. unfold multi in Hm.
    destruct (n_upd n) as [|u [|u2 us]] eqn:Eu; destruct (n_del n) as [|d [|d2 ds]] eqn:Ed;
      try exact Hm.
    + apply unit_delete_inv with (k := k) (d := d); auto.
    + apply unit_update_inv with (k := k); auto; rewrite Eu; [discriminate|right; eauto].
Qed.

Theorem ingest_panic_attributed c n c' w :
  st_wf c -> wire_notif n = true -> ingest fl c n = (c', GPanic w) -> attrib n w.
Proof.
  intros Hc Hw. unfold ingest.
  destruct (n_prefix n) as [pr|] eqn:Epr; [|intros E; discriminate E].
  destruct (assoc (gp_target pr) c) as [t|] eqn:Ea; [|intros E; discriminate E].
  apply assoc_In in Ea. destruct (Hc _ _ Ea) as [Hk Hok].
  destruct (target_inv t n (gp_target pr) Hok Hw) as [_ H]; eauto.
  intros E; inversion E. now apply H.
Qed.

Theorem ingest_preserves_wf c n :
  st_wf c -> wire_notif n = true -> st_wf (fst (ingest fl c n)).
Proof.
  intros Hc Hw. unfold ingest.
  destruct (n_prefix n) as [pr|] eqn:Epr; [|exact Hc].
  destruct (assoc (gp_target pr) c) as [t|] eqn:Ea; [|exact Hc].
  apply assoc_In in Ea. destruct (Hc _ _ Ea) as [Hk Hok].
  destruct (target_inv t n (gp_target pr) Hok Hw) as [H _]; eauto.
  cbn [fst]. intros k' t' Hin. apply In_aset_weak in Hin as [E|Hin]; [|now apply Hc].
  inversion E; subst. auto.
Qed.

End IngestTheorems.

(** ** corollaries *)

Lemma ingest_total_gen fl c n w :
  f_idx fl = false -> f_nilval fl = false -> f_equal fl = false ->
  st_wf c -> wire_notif n = true -> snd (ingest fl c n) <> GPanic w.
Proof.
  intros F1 F2 F3 Hc Hw. destruct (ingest fl c n) as [c' r] eqn:E. cbn. intros ->.
  destruct (ingest_panic_attributed fl c n c' w Hc Hw E) as [(H & _)|[(H & _)|(H & _)]]; congruence.
Qed.

(** the code as it is now (every C12 switch and the C19_1 switch off) *)
Lemma ingest_total_cur c n w :
  st_wf c -> wire_notif n = true -> snd (ingest cur_flags c n) <> GPanic w.
Proof. apply ingest_total_gen; reflexivity. Qed.

Definition wit_t1 : option gpath := Some (GPath "t1" "" [] []).
Definition wit_ab : option gpath := Some (GPath "" "" [("a", []); ("b", [])] []).
Definition wit_double : notif := Notif 1 wit_t1 [Upd wit_ab (TVDouble 4607182418800017408)] [] false.
Definition wit_noval : notif := Notif 2 wit_t1 [Upd wit_ab TVnil] [] false.
Definition wit_nilpath : notif := Notif 1 wit_t1 [Upd None (TVInt 1)] [] false.
Definition wit_sync_noval : notif :=
  Notif 1 wit_t1 [Upd (Some (GPath "" "" [("meta", []); ("sync", [])] [])) TVnil] [] false.
Definition wit_c0 : cstate := new_cstate ["t1"].
Definition wit_c1 : cstate := fst (ingest all_defects wit_c0 wit_double).

Lemma wit_c0_wf : st_wf wit_c0.
Proof. apply st_wf_new. intros [H|[]]; discriminate H. Qed.

Lemma wit_c1_wf : st_wf wit_c1.
Proof. apply ingest_preserves_wf; [apply wit_c0_wf|reflexivity]. Qed.

(** on the code before the patches each defect class crashes the cache *)
Lemma ingest_total_refuted_idx :
  exists c n w, st_wf c /\ wire_notif n = true /\ snd (ingest all_defects c n) = GPanic w.
Proof. exists wit_c0, wit_nilpath, panic_path0. split; [apply wit_c0_wf|]. split; reflexivity. Qed.

Lemma ingest_total_refuted_nilval :
  exists c n w, st_wf c /\ wire_notif n = true /\ snd (ingest all_defects c n) = GPanic w.
Proof. exists wit_c0, wit_sync_noval, panic_nil_val. split; [apply wit_c0_wf|]. split; reflexivity. Qed.

Lemma ingest_total_refuted_equal :
  exists c n w, st_wf c /\ wire_notif n = true /\ snd (ingest all_defects c n) = GPanic w.
Proof. exists wit_c1, wit_noval, panic_equal. split; [apply wit_c1_wf|]. split; vm_compute; reflexivity. Qed.

(** the hypotheses are satisfiable by a non-trivial state and message, and the
    same inputs are handled by the current code *)
Example ingest_total_example :
  st_wf wit_c1 /\ wire_notif wit_noval = true /\ snd (ingest cur_flags wit_c1 wit_noval) = GOk.
Proof. split; [apply wit_c1_wf|]. split; vm_compute; reflexivity. Qed.

(** ** a rejected notification leaves the stored data unchanged *)

Lemma join_path_no_err pr ph e : join_path pr ph <> Err e.
Proof.
  unfold join_path, join_prefix_and_path.
  destruct (to_strings true (gp_of_opt pr) ++ to_strings false (gp_of_opt ph)); discriminate.
Qed.

Lemma gnmi_update1_err fl t n t' e :
  gnmi_update1 fl t n = (t', Err e) -> ts_tree t' = ts_tree t.
Proof.
  unfold gnmi_update1. destruct (n_upd n) as [|u us]; [intros H; discriminate H|].
  destruct (join_path _ _) as [p|e1|w]; try (intros H; inversion H; subst; reflexivity).
  destruct (update_pre fl t p (u_val u)) as [t1 o] eqn:Ep.
  assert (Ht1 : ts_tree t1 = ts_tree t).
  { replace t1 with (fst (update_pre fl t p (u_val u))) by now rewrite Ep. apply update_pre_tree. }
  destruct o as [x|e1|w]; try (intros H; inversion H; subst; assumption).
  unfold update_leaf.
  destruct (CTreeModel.get (ts_tree t1) p) as [[old|cs]|].
  - destruct (Z.ltb _ _); [intros H; inversion H; subst; assumption|].
    destruct (_ && _); [intros H; inversion H; subst; assumption|].
    destruct (n_atomic n); [intros H; discriminate H|].
    destruct (n_upd old); [intros H; discriminate H|].
    destruct (equal_gen _ _ _) as [[|]|e2|w2]; try (intros H; discriminate H).
    destruct (f_event fl); intros H; discriminate H.
  - intros H; inversion H; subst; assumption.
  - destruct (CTreeModel.add (ts_tree t1) p n); intros H; inversion H; subst; assumption.
Qed.

Lemma gnmi_remove_no_err fl t n t' e : gnmi_remove fl t n <> (t', Err e).
Proof.
  unfold gnmi_remove. destruct (n_del n) as [|d ds]; [discriminate|].
  pose proof (join_path_no_err (n_prefix n) (Some d)) as Hj.
  destruct (join_path (n_prefix n) (Some d)) as [p|e1|w]; [|exfalso; eapply Hj; eauto|discriminate].
  destruct p as [|p0 [|k r]].
  - destruct (f_idx fl); discriminate.
  - destruct (String.eqb p0 md_root); [destruct (f_idx fl)|]; discriminate.
  - destruct (String.eqb p0 md_root); discriminate.
Qed.

Lemma target_err fl t n t' e :
  target_gnmi_update fl t n = (t', GErr e) -> ts_tree t' = ts_tree t.
Proof.
  assert (L1 : forall r, lift1 r = (t', GErr e) -> r = (t', Err e)).
  { intros [t0 [x|e0|w]]; cbn; intros H; inversion H; subst; reflexivity. }
  unfold target_gnmi_update. destruct (n_atomic n).
  - destruct (n_del n); [|intros H; inversion H; subst; reflexivity].
    destruct (n_upd n) eqn:Eu; [intros H; discriminate H|].
    intros H. apply L1 in H. eapply gnmi_update1_err; eauto.
  - assert (Hm : forall a, (a_t a,
                  match a_panic a with
                  | Some w => GPanic w
                  | None => match a_errs a with [] => GOk | es => GErrs es end
                  end) <> (t', GErr e)).
    { intros a. destruct (a_panic a); [discriminate|]. destruct (a_errs a); discriminate. }
    destruct (n_upd n) as [|u [|u2 us]] eqn:Eu; destruct (n_del n) as [|d [|d2 ds]] eqn:Ed;
      try (intros H; exfalso; eapply Hm; exact H).
    + intros H; discriminate H.
    + intros H. apply L1 in H. exfalso. eapply gnmi_remove_no_err; eauto.
    + intros H. apply L1 in H. eapply gnmi_update1_err; eauto.
Qed.

Lemma dump_aset k (t t' : tstate) c :
  assoc k c = Some t -> ts_tree t' = ts_tree t -> dump (aset k t' c) = dump c.
Proof.
  unfold dump, dump_target. induction c as [|[k0 t0] c IH]; cbn; [discriminate|].
  destruct (String.eqb_spec k k0) as [->|Hn]; cbn.
  - intros E Ht; inversion E; subst. now rewrite Ht.
  - intros E Ht. now rewrite IH.
Qed.

Theorem rejected_preserves_gen fl c n c' e :
  ingest fl c n = (c', GErr e) -> dump c' = dump c.
Proof.
  unfold ingest. destruct (n_prefix n) as [pr|]; [|intros H; inversion H; reflexivity].
  destruct (assoc (gp_target pr) c) as [t|] eqn:Ea; [|intros H; inversion H; reflexivity].
  destruct (target_gnmi_update fl t n) as [t' r] eqn:Et. cbn. intros H; inversion H; subst.
  apply dump_aset with (t := t); auto. eapply target_err; eauto.
Qed.

Example rejected_preserves_example :
  exists e, snd (ingest cur_flags wit_c1 wit_double) = GErr e /\
            dump (fst (ingest cur_flags wit_c1 wit_double)) = dump wit_c1 /\ dump wit_c1 <> dump wit_c0.
Proof. exists err_stale. split; [vm_compute; reflexivity|]. split; [vm_compute; reflexivity|]. vm_compute. discriminate. Qed.

(** * Entry point 3: client receive path *)

Lemma noti_no_panic jv prefix pp u w :
  (forall x, u = Some x -> wire_cupd x = true) -> noti jv prefix pp u <> Panic w.
Proof.
  intros Hw. unfold noti. destruct u as [x|]; [|discriminate].
  specialize (Hw x eq_refl). unfold wire_cupd in Hw.
  assert (Hs : forall v, has_nil v = false ->
            match to_scalar jv v with
            | Ok _ => Ok (EUpdate (prefix ++ to_strings false pp))
            | Err _ => Err err_decode
            | Panic w0 => Panic w0
            end <> Panic w).
  { intros v Hv. pose proof (to_scalar_total_partial defect_C19_2 jv v) as Ht. unfold to_scalar.
    destruct (to_scalar_gen defect_C19_2 jv v) eqn:E; try discriminate.
    exfalso. eapply Ht; eauto. }
  destruct (cu_val x) eqn:Ev;
    try (apply Hs; apply negb_true_iff in Hw; exact Hw);
    try (apply Hs; reflexivity).
  destruct (cu_dep x) as [[enc b]|]; [|discriminate].
  destruct (N.eqb enc 1); [discriminate|]. destruct (N.eqb enc 0 || N.eqb enc 4); [|discriminate].
  destruct (jv b); discriminate.
Qed.

Lemma recv_updates_no_panic jv prefix us w :
  forallb wire_cupd us = true -> snd (recv_updates jv prefix us) <> Panic w.
Proof.
  induction us as [|u us IH]; cbn [recv_updates forallb]; [discriminate|]. intros H. apply andb_true_iff in H as [H1 H2].
  destruct (cu_path u) as [pp|]; [|discriminate].
  pose proof (noti_no_panic jv prefix pp (Some u) w) as Hn.
  destruct (noti jv prefix pp (Some u)) eqn:E; cbn [fst snd]; try discriminate.
  - now apply IH.
  - intros Hq. apply Hn; [intros x Hx; inversion Hx; subst; assumption|]. inversion Hq; reflexivity.
Qed.

Lemma recv_deletes_no_panic jv prefix ds w : snd (recv_deletes jv prefix ds) <> Panic w.
Proof.
  induction ds as [|d ds IH]; cbn [recv_deletes]; [discriminate|].
  pose proof (noti_no_panic jv prefix d None w) as Hn.
  destruct (noti jv prefix d None) eqn:E; cbn [fst snd]; try discriminate; auto.
Qed.

Lemma default_recv_no_panic jv qt r w :
  wire_resp r = true -> snd (default_recv jv qt r) <> Panic w.
Proof.
  destruct r as [n| | | |]; cbn [default_recv wire_resp snd]; try discriminate. intros Hw.
  pose proof (recv_updates_no_panic jv (to_strings true (gp_of_opt (cn_prefix n))) (cn_upd n) w Hw) as H1.
  pose proof (recv_deletes_no_panic jv (to_strings true (gp_of_opt (cn_prefix n))) (cn_del n) w) as H2.
  destruct (recv_updates _ _ _) as [evs [x|e|w1]]; cbn in *; try discriminate; [|congruence].
  destruct (recv_deletes _ _ _) as [evs' [x'|e'|w2]]; cbn in *; try discriminate. congruence.
Qed.

Theorem client_recv_total_lemma jv qt rs : forall connected w,
  forallb wire_resp rs = true -> snd (ClientRecvModel.run jv qt connected rs) <> Panic w.
Proof.
  induction rs as [|r rs IH]; intros connected w; [cbn; discriminate|].
  cbn [forallb]. intros H. apply andb_true_iff in H as [H1 H2].
  pose proof (default_recv_no_panic jv qt r w H1) as Hd.
  destruct r as [n| | | |]; cbn [ClientRecvModel.run]; try discriminate;
    (destruct (default_recv jv qt _) as [evs [[|]|e|w1]]; cbn in *; try discriminate; [|congruence];
     specialize (IH true w H2); destruct (ClientRecvModel.run jv qt true rs) as [[evs' rest'] o]; cbn in *; exact IH).
Qed.

Definition wit_resp : resp :=
  RUpdate (CNotif None [CUpd (Some (GPath "" "" [("a", [])] [])) (TVLeaflist [TVInt 1; TVAny]) None;
                        CUpd None TVnil None] []).

Example client_recv_example :
  wire_resp wit_resp = true /\
  ClientRecvModel.run (fun _ => true) QStream false [wit_resp] = ([EConnected], [], Err err_decode).
Proof. split; vm_compute; reflexivity. Qed.

(** * Entry point 4: CLI display *)

(** positions of plain values in a display map *)
Fixpoint at_val (m : pathmap) (r : path) : bool :=
  match r with
  | [] => false
  | k :: r' =>
      match r' with
      | [] => match assoc k m with Some PVal => true | _ => false end
      | _ :: _ => match assoc k m with Some (PMap mm) => at_val mm r' | _ => false end
      end
  end.

Lemma at_val_nil r : at_val [] r = false.
Proof. destruct r as [|k [|k2 r]]; reflexivity. Qed.

Lemma strict_prefix_cons k r q : strict_prefix (k :: r) (k :: q) = strict_prefix r q.
Proof. unfold strict_prefix. cbn. now rewrite String.eqb_refl. Qed.

Lemma strict_prefix_single k k2 q : strict_prefix [k] (k :: k2 :: q) = true.
Proof. unfold strict_prefix. cbn. now rewrite String.eqb_refl. Qed.

Lemma pm_add_cons2 d m k k2 rest v :
  pm_add d m (k :: k2 :: rest) v =
  match assoc k m with
  | None =>
      match pm_add d [] (k2 :: rest) v with
      | Ok mm => Ok (aset k (PMap mm) m)
      | Err c => Err c
      | Panic w => Panic w
      end
  | Some (PMap mm) =>
      match pm_add d mm (k2 :: rest) v with
      | Ok mm' => Ok (aset k (PMap mm') m)
      | Err c => Err c
      | Panic w => Panic w
      end
  | Some PVal => Panic panic_add_assert
  end.
Proof. reflexivity. Qed.

(** pathmap.add (patched: an empty path is skipped) succeeds whenever no plain
    value sits strictly above the new position *)
Lemma pm_add_ok q : forall m v,
  (forall r, at_val m r = true -> strict_prefix r q = false) ->
  exists m', pm_add false m q v = Ok m'.
Proof.
  induction q as [|k rest IH]; intros m v H; [cbn; eauto|].
  destruct rest as [|k2 rest2]; [cbn; eauto|].
  rewrite pm_add_cons2. destruct (assoc k m) as [[|mm]|] eqn:Ea.
  - exfalso. assert (Hv : at_val m [k] = true) by (cbn; now rewrite Ea).
    apply H in Hv. rewrite strict_prefix_single in Hv. discriminate.
  - destruct (IH mm v) as [m' Hm'].
    + intros r Hr. destruct r as [|k1 r1]; [discriminate|].
      assert (Hv : at_val m (k :: k1 :: r1) = true) by (cbn [at_val]; now rewrite Ea).
      apply H in Hv. now rewrite strict_prefix_cons in Hv.
    + rewrite Hm'. eauto.
  - destruct (IH [] v) as [m' Hm'].
    + intros r Hr. now rewrite at_val_nil in Hr.
    + rewrite Hm'. eauto.
Qed.

Definition val_at (v : pnode) (r : path) : Prop :=
  match v with PVal => r = [] | PMap mm => at_val mm r = true end.

Lemma pm_add_vals q : forall m v m' r,
  pm_add false m q v = Ok m' -> at_val m' r = true ->
  at_val m r = true \/ exists r', r = q ++ r' /\ val_at v r'.
Proof.
  induction q as [|k rest IH]; intros m v m' r Ha Hr.
  - cbn in Ha. inversion Ha; subst. now left.
  - destruct rest as [|k2 rest2].
    + cbn in Ha. inversion Ha; subst. clear Ha.
      destruct r as [|k1 [|k3 r3]]; [discriminate| |].
      * cbn in Hr. rewrite assoc_aset in Hr. destruct (String.eqb_spec k1 k) as [Ek|Hn]; [subst k1|].
        -- destruct v; [|discriminate]. right. exists []. split; reflexivity.
        -- left. cbn. exact Hr.
      * cbn [at_val] in Hr. rewrite assoc_aset in Hr. destruct (String.eqb_spec k1 k) as [Ek|Hn]; [subst k1|].
        -- destruct v as [|mm]; [discriminate|]. right. exists (k3 :: r3). split; [reflexivity|exact Hr].
        -- left. cbn [at_val]. exact Hr.
    + rewrite pm_add_cons2 in Ha.
      assert (Hgen : forall mm mm', pm_add false mm (k2 :: rest2) v = Ok mm' ->
                (forall x, at_val mm x = true -> at_val m (k :: x) = true \/ x = []) ->
                m' = aset k (PMap mm') m ->
                at_val m r = true \/ exists r', r = (k :: k2 :: rest2) ++ r' /\ val_at v r').
      { intros mm mm' Hadd Hsub ->.
        destruct r as [|k1 [|k3 r3]]; [discriminate| |].
        - cbn in Hr. rewrite assoc_aset in Hr. destruct (String.eqb_spec k1 k) as [Ek|Hn]; [discriminate|].
          left. cbn. exact Hr.
        - cbn [at_val] in Hr. rewrite assoc_aset in Hr. destruct (String.eqb_spec k1 k) as [Ek|Hn]; [subst k1|].
          + destruct (IH mm v mm' (k3 :: r3) Hadd Hr) as [Hl|(r' & E & Hv)].
            * destruct (Hsub _ Hl) as [Hm|E]; [now left|discriminate E].
            * right. exists r'. split; [rewrite E; reflexivity|exact Hv].
          + left. cbn [at_val]. exact Hr. }
      destruct (assoc k m) as [[|mm]|] eqn:Ea; [discriminate Ha| |].
      * destruct (pm_add false mm (k2 :: rest2) v) as [mm'| |] eqn:Hadd; try discriminate Ha.
        inversion Ha; subst. eapply Hgen; eauto.
        intros x Hx. destruct x as [|x1 xr]; [now right|]. left. cbn [at_val]. now rewrite Ea.
      * destruct (pm_add false [] (k2 :: rest2) v) as [mm'| |] eqn:Hadd; try discriminate Ha.
        inversion Ha; subst. eapply Hgen; eauto.
        intros x Hx. now rewrite at_val_nil in Hx.
Qed.

(** every plain value of the map lies at or below one of the paths in [S] *)
Definition covered (m : pathmap) (S : list path) : Prop :=
  forall r, at_val m r = true -> exists p, In p S /\ is_prefix p r = true.

Lemma prefix_strict_trans p r q :
  is_prefix p r = true -> strict_prefix r q = true -> strict_prefix p q = true.
Proof.
  rewrite is_prefix_spec, !strict_prefix_spec. intros [s ->] (k & s' & ->).
  destruct s as [|k0 s0].
  - exists k, s'. now rewrite app_nil_r.
  - exists k0, (s0 ++ k :: s'). now rewrite <- app_assoc.
Qed.

Lemma is_prefix_app p r : is_prefix p (p ++ r) = true.
Proof. apply is_prefix_spec. eauto. Qed.

Lemma pm_add_covered m S q v :
  covered m S -> (forall p, In p S -> strict_prefix p q = false) ->
  exists m', pm_add false m q v = Ok m' /\ covered m' (q :: S).
Proof.
  intros Hc Hpf. destruct (pm_add_ok q m v) as [m' Hm'].
  - intros r Hr. destruct (Hc r Hr) as (p & Hp & Hpr).
    destruct (strict_prefix r q) eqn:E; [|reflexivity].
    rewrite <- (Hpf p Hp). symmetry. eapply prefix_strict_trans; eauto.
  - exists m'. split; [assumption|]. intros r Hr.
    destruct (pm_add_vals q m v m' r Hm' Hr) as [Hl|(r' & -> & _)].
    + destruct (Hc r Hl) as (p & Hp & Hpr). exists p. split; [now right|assumption].
    + exists q. split; [now left|apply is_prefix_app].
Qed.

Definition prefix_free (L : list path) : Prop :=
  forall p q, In p L -> In q L -> strict_prefix p q = false.

Lemma add_all_ok with_ts L : forall m S,
  covered m S -> prefix_free (S ++ L) ->
  exists m', add_all false with_ts m L = Ok m'.
Proof.
  induction L as [|q L IH]; intros m S Hc Hpf; cbn [add_all]; [eauto|].
  destruct (pm_add_covered m S q (stamped with_ts) Hc) as (m' & Hm' & Hc').
  - intros p Hp. apply Hpf; apply in_or_app; [now left|right; now left].
  - rewrite Hm'. apply (IH m' (q :: S) Hc').
    intros a b Ha Hb. apply Hpf; apply in_or_app.
    + cbn in Ha. destruct Ha as [<-|Ha]; [right; now left|].
      apply in_app_or in Ha as [Ha|Ha]; [now left|right; now right].
    + cbn in Hb. destruct Hb as [<-|Hb]; [right; now left|].
      apply in_app_or in Hb as [Hb|Hb]; [now left|right; now right].
Qed.

(** the leaves of a well-formed client tree are prefix-free (C09) *)
Lemma client_leaves_prefix_free (t : tree unit) : wf_tree t -> prefix_free (client_leaves t).
Proof.
  intros Hwf p q Hp Hq. unfold client_leaves in *.
  apply in_map_iff in Hp as ([p' []] & <- & Hp). apply in_map_iff in Hq as ([q' []] & <- & Hq).
  destruct (walk_sorted_exact t Hwf) as [Hperm _].
  apply (Permutation_in _ Hperm) in Hp. apply (Permutation_in _ Hperm) in Hq.
  apply walk_exact in Hp; [|assumption]. apply walk_exact in Hq; [|assumption]. cbn [fst].
  destruct (strict_prefix p' q') eqn:E; [|reflexivity].
  apply strict_prefix_spec in E as (k & s & ->).
  pose proof (lookup_tree_prefix_free t p' (k :: s) tt tt Hp Hq). discriminate.
Qed.

Lemma display_walk_ok with_ts (t : tree unit) :
  wf_tree t -> exists r, display_walk false with_ts t = Ok r.
Proof.
  intros Hwf. unfold display_walk.
  destruct (add_all_ok with_ts (client_leaves t) [] []) as [m Hm].
  - intros r Hr. now rewrite at_val_nil in Hr.
  - cbn. now apply client_leaves_prefix_free.
  - rewrite Hm. eauto.
Qed.

Lemma display_one_ok with_ts p : exists r, display_one false with_ts p = Ok r.
Proof.
  unfold display_one. destruct with_ts.
  - destruct (pm_add_covered [] [] (p ++ ["timestamp"]) PVal) as (m1 & H1 & C1).
    + intros r Hr. now rewrite at_val_nil in Hr.
    + intros q [].
    + rewrite H1. destruct (pm_add_covered m1 [p ++ ["timestamp"]] (p ++ ["value"]) PVal C1) as (m2 & H2 & _).
      * intros q [<-|[]]. destruct (strict_prefix (p ++ ["timestamp"]) (p ++ ["value"])) eqn:E; [|reflexivity].
        apply strict_prefix_spec in E as (k & s & E).
        assert (Hl : List.length (p ++ ["value"]) = List.length ((p ++ ["timestamp"]) ++ k :: s)) by congruence.
        rewrite !app_length in Hl. cbn in Hl. lia.
      * rewrite H2. eauto.
  - destruct (pm_add_covered [] [] p PVal) as (m1 & H1 & _).
    + intros r Hr. now rewrite at_val_nil in Hr.
    + intros q [].
    + rewrite H1. eauto.
Qed.

Lemma ctree_apply_wf t e : wf_tree t -> wf_tree (ctree_apply t e).
Proof.
  intros Hwf. destruct e; cbn [ctree_apply]; try assumption.
  - exact (mut_step_wf t (MAdd p tt) Hwf).
  - exact (mut_step_wf t (MDel p (fun _ => true)) Hwf).
Qed.

Lemma apply_all_wf evs : forall t, wf_tree t -> wf_tree (apply_all t evs).
Proof.
  unfold apply_all. induction evs as [|e evs IH]; cbn [fold_left]; intros t Hwf; [assumption|].
  apply IH. now apply ctree_apply_wf.
Qed.

Lemma stream_events_no_panic with_ts evs : forall t complete,
  wf_tree t -> snd (stream_events false with_ts t complete evs) = None.
Proof.
  induction evs as [|e evs IH]; intros t complete Hwf; cbn [stream_events]; [reflexivity|].
  pose proof (ctree_apply_wf t e Hwf) as Hwf1.
  assert (Hstep : forall (o : outcome (list drec * bool)),
            (exists x, o = Ok x) ->
            snd (match o with
                 | Ok (rs, c') =>
                     let '(t2, c2, rs', pn) := stream_events false with_ts (ctree_apply t e) c' evs in
                     (t2, c2, rs ++ rs', pn)
                 | Err _ => (ctree_apply t e, complete, [], None)
                 | Panic w => (ctree_apply t e, complete, [], Some w)
                 end) = None).
  { intros o [[rs c'] ->]. specialize (IH (ctree_apply t e) c' Hwf1).
    destruct (stream_events false with_ts (ctree_apply t e) c' evs) as [[[t2 c2] rs'] pn]. exact IH. }
  apply Hstep. destruct e; eauto.
  - destruct complete; [|eauto]. destruct (display_one_ok with_ts p) as [r ->]. eauto.
  - destruct complete; [|eauto]. destruct (display_one_ok with_ts p) as [r ->]. eauto.
  - destruct (display_walk_ok with_ts (ctree_apply t ESync) Hwf1) as [r ->]. eauto.
Qed.

Lemma run_rest_wire jv qt rs : forall c,
  forallb wire_resp rs = true -> forallb wire_resp (snd (fst (ClientRecvModel.run jv qt c rs))) = true.
Proof.
  induction rs as [|r rs IH]; intros c Hw; [reflexivity|].
  cbn [forallb] in Hw. apply andb_true_iff in Hw as [Ha Hb].
  destruct r as [n| | | |]; cbn [ClientRecvModel.run]; try exact Hb;
    (destruct (default_recv jv qt _) as [evs0 [[|]|e0|w0]]; cbn [fst snd]; try exact Hb;
     specialize (IH true Hb); destruct (ClientRecvModel.run jv qt true rs) as [[evs' rest'] o']; exact IH).
Qed.

Lemma proto_run_no_panic rs w : snd (proto_run rs) <> Panic w.
Proof.
  induction rs as [|r rs IH]; cbn; [discriminate|]. destruct r; cbn; try exact IH. discriminate.
Qed.

Theorem cli_display_total_lemma jv dt qt with_ts rs w :
  forallb wire_resp rs = true -> snd (query_display false jv dt qt with_ts rs) <> Panic w.
Proof.
  intros Hw. unfold query_display.
  assert (Hrun : forall c rs', forallb wire_resp rs' = true ->
            forall w', snd (ClientRecvModel.run jv qt c rs') <> Panic w')
    by (intros; now apply client_recv_total_lemma).
  destruct dt; try discriminate; [| |apply proto_run_no_panic].
  - destruct qt.
    + pose proof (Hrun false rs Hw w) as H.
      destruct (ClientRecvModel.run jv QOnce false rs) as [[evs rest] [x|e|w1]]; cbn in *; try discriminate; [|congruence].
      destruct (display_walk_ok with_ts (apply_all None evs)) as [r ->]; [apply apply_all_wf; exact I|]. discriminate.
    + pose proof (Hrun false rs Hw w) as H.
      destruct (ClientRecvModel.run jv QPoll false rs) as [[evs rest] [x|e|w1]] eqn:E1; cbn in *; try discriminate; [|congruence].
      assert (Hrest : forallb wire_resp rest = true).
      { pose proof (run_rest_wire jv QPoll rs false Hw) as Hr. now rewrite E1 in Hr. }
      pose proof (Hrun true rest Hrest w) as H2.
      destruct (ClientRecvModel.run jv QPoll true rest) as [[evs2 rest2] [x2|e2|w2]]; cbn in *; try discriminate; [|congruence].
      destruct (display_walk_ok with_ts (apply_all None (evs ++ evs2))) as [r ->]; [apply apply_all_wf; exact I|]. discriminate.
    + pose proof (Hrun false rs Hw w) as H.
      destruct (ClientRecvModel.run jv QStream false rs) as [[evs rest] o]; cbn in *.
      pose proof (stream_events_no_panic with_ts (filter forwarded evs) None false I) as Hs.
      destruct (stream_events false with_ts None false (filter forwarded evs)) as [[[t2 c2] recs] pn].
      cbn in Hs. subst pn. cbn. exact H.
  - pose proof (Hrun false rs Hw w) as H.
    destruct (ClientRecvModel.run jv qt false rs) as [[evs rest] o]; cbn in *. exact H.
Qed.

Example cli_display_example :
  query_display false (fun _ => true) DGroup QStream true
    [RSync; RUpdate (CNotif None [CUpd (Some (GPath "" "" [] [])) (TVInt 1) None] [])] =
  ([DRGroup []; DRGroup [["timestamp"]; ["value"]]], Ok tt) /\
  exists w, snd (query_display true (fun _ => true) DGroup QStream false
    [RSync; RUpdate (CNotif None [CUpd (Some (GPath "" "" [] [])) (TVInt 1) None] [])]) = Panic w.
Proof. split; [vm_compute; reflexivity|]. exists panic_add_empty. vm_compute. reflexivity. Qed.

(** * The metadata refresh after a poisoned counter leaf (DEFECT C12_3) *)
Definition wit_poison : notif :=
  Notif 1 wit_t1 [Upd (Some (GPath "" "" [("meta", []); ("targetLeaves", [])] [])) (TVString "x")] [] false.

Lemma meta_refresh_refuted_lemma :
  exists c n, st_wf c /\ wire_notif n = true /\
    snd (ingest all_defects c n) = GOk /\ exists w, refresh all_defects (fst (ingest all_defects c n)) = Panic w.
Proof.
  exists wit_c0, wit_poison. split; [apply wit_c0_wf|]. split; [reflexivity|].
  split; [vm_compute; reflexivity|]. exists panic_meta_assert. vm_compute. reflexivity.
Qed.

Example meta_refresh_patched_example :
  snd (ingest cur_flags wit_c0 wit_poison) = GErr err_meta_type /\
  refresh cur_flags (fst (ingest cur_flags wit_c0 wit_poison)) = Ok tt.
Proof. split; vm_compute; reflexivity. Qed.

Lemma subscribe_needs_peer :
  exists e f w, se_has_peer e = false /\ subscribe e f = Panic w.
Proof.
  exists (SEnv ["t1"] false),
         (RecvMsg (SubReq KSubscribe (Some (GPath "t1" "" [] [])) 1 false [])), panic_no_peer.
  split; reflexivity.
Qed.

Example subscribe_example :
  subscribe (SEnv ["t1"] true)
    (RecvMsg (SubReq KSubscribe (Some (GPath "t1" "o" [] [])) 1 false
                [None; Some (GPath "" "o2" [("a", [])] [])])) = Err err_complete_path.
Proof. reflexivity. Qed.

Lemma cli_display_refuted_lemma :
  exists jv dt qt with_ts rs w,
    forallb wire_resp rs = true /\ snd (query_display true jv dt qt with_ts rs) = Panic w.
Proof.
  destruct cli_display_example as [_ [w H]].
  eexists _, _, _, _, _, w. split; [|exact H]. reflexivity.
Qed.

Lemma client_recv_total_args jv qt rs connected w :
  forallb wire_resp rs = true -> snd (ClientRecvModel.run jv qt connected rs) <> Panic w.
Proof. apply client_recv_total_lemma. Qed.

(** * The metadata refresh after patched ingest never panics

    Invariant [meta_typed]: a leaf stored at [meta; k] for a registered name [k]
    holds, as its first value, the kind generateMetaUpdates asserts. *)

Definition kind_ok (k : string) (v : tv) : bool :=
  if String.eqb k md_sync || String.eqb k md_connected then is_bool v
  else if String.eqb k md_connected_addr || String.eqb k md_connect_error then is_str v
  else if name_in k md_int_names then is_int v
  else true.

Definition meta_typed (tr : tree notif) : Prop :=
  forall k n, lookup tr [md_root; k] = Some n -> kind_ok k (first_val n) = true.

Definition tstate_ok (t : tstate) : Prop := tree_ok (ts_tree t) /\ meta_typed (ts_tree t).

Lemma meta_check_kind fl t k v t' :
  f_nilval fl = false -> f_intmeta fl = false ->
  meta_check fl t [md_root; k] k v = (t', Ok tt) -> kind_ok k v = true.
Proof.
  intros F1 F2. unfold meta_check, kind_ok. rewrite F1, F2. cbn [negb andb List.length Nat.eqb].
  destruct (String.eqb k md_sync || String.eqb k md_connected).
  - destruct v; intros H; try discriminate H; reflexivity.
  - destruct (String.eqb k md_connected_addr || String.eqb k md_connect_error).
    + destruct v; intros H; try discriminate H; reflexivity.
    + destruct (name_in k md_int_names); [|reflexivity].
      destruct v; intros H; try discriminate H; reflexivity.
Qed.

Lemma update_pre_kind fl t k v t' :
  f_nilval fl = false -> f_intmeta fl = false ->
  update_pre fl t [md_root; k] v = (t', Ok tt) -> kind_ok k v = true.
Proof.
  intros F1 F2. unfold update_pre. change (String.eqb md_root md_root) with true. cbn [negb].
  apply meta_check_kind; assumption.
Qed.

Lemma first_val_unit n u us : n_upd n = u :: us -> first_val n = u_val u.
Proof. unfold first_val. now intros ->. Qed.

Lemma meta_typed_store tr tr' p n u us :
  wf_tree tr -> meta_typed tr -> n_upd n = u :: us ->
  (forall k, p = [md_root; k] -> kind_ok k (u_val u) = true) ->
  CTreeModel.add tr p n = Some tr' -> meta_typed tr'.
Proof.
  intros Hwf Hm Hu Hk Ha k m Hl.
  destruct (add_spec tr tr' p n Hwf Ha) as [_ Hs]. rewrite Hs in Hl.
  destruct (path_eqb_spec [md_root; k] p) as [E|E].
  - inversion Hl; subst m. rewrite (first_val_unit _ _ _ Hu). apply Hk. now symmetry.
  - now apply Hm.
Qed.

Lemma gnmi_update1_tstate_ok fl t n :
  f_nilval fl = false -> f_intmeta fl = false ->
  tstate_ok t -> n_upd n <> [] -> wire_notif n = true ->
  tstate_ok (fst (gnmi_update1 fl t n)).
Proof.
  intros F1 F2 [Hok Hm] Hne Hw.
  split; [apply gnmi_update1_ok; [assumption|split; assumption]|].
  unfold gnmi_update1. destruct (n_upd n) as [|u us] eqn:Eu; [congruence|].
  destruct (join_path _ _) as [p|e|w]; try assumption.
  destruct (update_pre fl t p (u_val u)) as [t1 o] eqn:Ep.
  assert (Ht1 : ts_tree t1 = ts_tree t).
  { replace t1 with (fst (update_pre fl t p (u_val u))) by now rewrite Ep. apply update_pre_tree. }
  destruct o as [[]|e|w]; cbn [fst]; try (rewrite Ht1; assumption).
  assert (Hk : forall k, p = [md_root; k] -> kind_ok k (u_val u) = true).
  { intros k ->. eapply update_pre_kind; eauto. }
  destruct Hok as [Hwf Hst].
  destruct (update_leaf_tree fl t1 p (u_val u) n) as [E|[E|E]]; cbn zeta in E; rewrite Ht1 in E.
  - rewrite E. assumption.
  - rewrite E. unfold tree_set.
    destruct (CTreeModel.add (ts_tree t) p n) as [tr'|] eqn:Ea; [|assumption].
    eapply meta_typed_store; eauto.
  - eapply meta_typed_store; eauto.
Qed.

Lemma meta_typed_delete tr q c : wf_tree tr -> meta_typed tr -> meta_typed (fst (delete_cond tr q c)).
Proof.
  intros Hwf Hm k m Hl. destruct (delete_spec tr q c Hwf) as (_ & Hs & _).
  rewrite Hs in Hl. unfold sel in Hl.
  destruct (lookup tr [md_root; k]) as [v|] eqn:E; [|discriminate].
  destruct (qmatch q [md_root; k] && c v); [discriminate|]. inversion Hl; subst. now apply Hm.
Qed.

Lemma gnmi_remove_tstate_ok fl t n : tstate_ok t -> tstate_ok (fst (gnmi_remove fl t n)).
Proof.
  intros [Hok Hm]. split; [now apply gnmi_remove_ok|].
  destruct Hok as [Hwf _]. unfold gnmi_remove.
  destruct (n_del n) as [|d ds]; [assumption|].
  destruct (join_path _ _) as [p|e|w]; try assumption.
  destruct p as [|p0 [|k r]].
  - destruct (f_idx fl); cbn [fst ts_tree]; [assumption|now apply meta_typed_delete].
  - destruct (String.eqb p0 md_root); [destruct (f_idx fl)|]; cbn [fst ts_tree];
      try assumption; now apply meta_typed_delete.
  - destruct (String.eqb p0 md_root); cbn [fst ts_tree]; [destruct (String.eqb k md_connect_error)|];
      cbn [fst ts_tree]; now apply meta_typed_delete.
Qed.

(** any per-target invariant kept by gnmiUpdate and gnmiRemove is kept by Target.GnmiUpdate *)
Lemma target_preserves fl (P : tstate -> Prop) :
  (forall t n, P t -> n_upd n <> [] -> wire_notif n = true -> P (fst (gnmi_update1 fl t n))) ->
  (forall t n, P t -> P (fst (gnmi_remove fl t n))) ->
  forall t n, P t -> wire_notif n = true -> P (fst (target_gnmi_update fl t n)).
Proof.
  intros HU HR t n Ht Hw.
  assert (L1 : forall r, fst (lift1 r) = fst r) by (intros [t0 [x|e|w]]; reflexivity).
  assert (FU : forall us a, incl us (n_upd n) -> P (a_t a) ->
            P (a_t (fold_left (multi_update_step fl n) us a))).
  { induction us as [|u us IH]; intros a Hi Ha; cbn [fold_left]; [assumption|].
    apply IH; [intros x Hx; apply Hi; now right|].
    unfold multi_update_step. destruct (a_panic a); [assumption|].
    pose proof (HU (a_t a) (clone_with_update n u) Ha) as H.
    assert (H' : P (fst (gnmi_update1 fl (a_t a) (clone_with_update n u)))).
    { apply H; [cbn; discriminate|apply wire_clone; auto; apply Hi; now left]. }
    destruct (gnmi_update1 fl (a_t a) (clone_with_update n u)) as [t' [x|e|w]]; exact H'. }
  assert (FD : forall ds a, P (a_t a) -> P (a_t (fold_left (multi_delete_step fl n) ds a))).
  { induction ds as [|d ds IH]; intros a Ha; cbn [fold_left]; [assumption|].
    apply IH. unfold multi_delete_step. destruct (a_panic a); [assumption|].
    pose proof (HR (a_t a) (clone_with_delete n d) Ha) as H'.
    destruct (gnmi_remove fl (a_t a) (clone_with_delete n d)) as [t' [x|e|w]]; exact H'. }
  assert (Hm : P (a_t (fold_left (multi_delete_step fl n) (n_del n)
                         (fold_left (multi_update_step fl n) (n_upd n) (Acc t [] None))))).
  { apply FD. apply FU; [apply incl_refl|exact Ht]. }
  unfold target_gnmi_update. destruct (n_atomic n).
  - destruct (n_del n); [|exact Ht]. destruct (n_upd n) eqn:Eu; [exact Ht|].
    rewrite L1. apply HU; auto. rewrite Eu; discriminate.
  - destruct (n_upd n) as [|u [|u2 us]] eqn:Eu; destruct (n_del n) as [|d [|d2 ds]] eqn:Ed;
      cbn [fst]; try exact Hm.
    + rewrite L1. apply HR; exact Ht.
    + rewrite L1. apply HU; auto. rewrite Eu; discriminate.
Qed.

Definition st_wf2 (c : cstate) : Prop :=
  forall k t, In (k, t) c -> k <> "" /\ tstate_ok t.

Lemma st_wf2_wf c : st_wf2 c -> st_wf c.
Proof. intros H k t Hin. destruct (H k t Hin) as [Hk [Hok _]]. auto. Qed.

Lemma st_wf2_new names : ~ In "" names -> st_wf2 (new_cstate names).
Proof.
  unfold new_cstate. intros Hn.
  assert (H : forall l c, st_wf2 c -> ~ In "" l -> st_wf2 (fold_left (fun m k => aset k new_tstate m) l c)).
  { induction l as [|k l IH]; cbn; intros c Hc Hl; [assumption|].
    apply IH; [|tauto]. intros k' t' Hin. apply In_aset_weak in Hin as [E|Hin]; [|now apply Hc].
    inversion E; subst. split; [intros ->; apply Hl; now left|].
    split; [apply tree_ok_empty|]. intros k0 n0 H0; discriminate H0. }
  apply H; [intros k t []|assumption].
Qed.

Theorem ingest_preserves_wf2 fl c n :
  f_nilval fl = false -> f_intmeta fl = false ->
  st_wf2 c -> wire_notif n = true -> st_wf2 (fst (ingest fl c n)).
Proof.
  intros F1 F2 Hc Hw. unfold ingest.
  destruct (n_prefix n) as [pr|]; [|exact Hc].
  destruct (assoc (gp_target pr) c) as [t|] eqn:Ea; [|exact Hc].
  apply assoc_In in Ea. destruct (Hc _ _ Ea) as [Hk Hok].
  cbn [fst]. intros k' t' Hin. apply In_aset_weak in Hin as [E|Hin]; [|now apply Hc].
  inversion E; subst. split; [assumption|].
  apply (target_preserves fl tstate_ok); auto.
  - intros t0 n0 H0 Hne0 Hw0. now apply gnmi_update1_tstate_ok.
  - intros t0 n0 H0. now apply gnmi_remove_tstate_ok.
Qed.

Lemma refresh_one_ok tr k f :
  tree_ok tr -> (forall n, lookup tr [md_root; k] = Some n -> f (first_val n) = true) ->
  refresh_one tr k f = false.
Proof.
  intros [_ Hst] Hf. unfold refresh_one, refresh_at, leaf_first_val.
  destruct (lookup tr [md_root; k]) as [prev|] eqn:E; [|reflexivity].
  destruct (Hst _ _ E) as [Hne _]. specialize (Hf prev eq_refl). unfold first_val in Hf.
  destruct (n_upd prev); [congruence|]. now rewrite Hf.
Qed.

Lemma kind_ok_bool k v : In k md_bool_names -> kind_ok k v = is_bool v.
Proof. intros [<-|[<-|[]]]; reflexivity. Qed.

Lemma kind_ok_int k v : In k md_int_names -> kind_ok k v = is_int v.
Proof.
  cbn. intros H. repeat (destruct H as [<-|H]; [reflexivity|]). destruct H.
Qed.

Lemma existsb_false {A} (f : A -> bool) l : (forall x, In x l -> f x = false) -> existsb f l = false.
Proof.
  induction l as [|x l IH]; cbn; intros H; [reflexivity|].
  rewrite H by now left. apply IH. intros; apply H; now right.
Qed.

(** without the server-name and latency options the guards at ingest suffice,
    even while the assertions of the refresh are unchecked *)
Theorem refresh_total_lemma fl c :
  f_server_name fl = false -> f_latency fl = false -> st_wf2 c -> refresh fl c = Ok tt.
Proof.
  intros O1 O2 Hc. unfold refresh. rewrite existsb_false; [now rewrite andb_false_r|].
  intros [k t] Hin. destruct (Hc k t Hin) as [_ [Hok Hm]]. cbn [snd]. unfold refresh_panics.
  rewrite O1, O2. cbn [andb]. rewrite !orb_false_r.
  rewrite (existsb_false _ md_bool_names), (existsb_false _ md_int_names).
  - rewrite (refresh_one_ok _ md_connected_addr is_str Hok), (refresh_one_ok _ md_connect_error is_str Hok).
    + now rewrite andb_false_r.
    + intros n Hn. exact (Hm _ _ Hn).
    + intros n Hn. exact (Hm _ _ Hn).
  - intros x Hx. apply refresh_one_ok; [assumption|]. intros n Hn. rewrite <- (kind_ok_int x _ Hx). exact (Hm _ _ Hn).
  - intros x Hx. apply refresh_one_ok; [assumption|]. intros n Hn. rewrite <- (kind_ok_bool x _ Hx). exact (Hm _ _ Hn).
Qed.

(** with the patch (checked assertions) the refresh cannot panic, whatever is stored *)
Lemma refresh_total_patched fl c : f_refresh fl = false -> refresh fl c = Ok tt.
Proof. intros F. unfold refresh. now rewrite F. Qed.

(** HEAD before C12_5: every other patch in, options on *)
Definition head_flags_opts : flags := Flags false false false false true true true true.

Definition wit_sync : notif :=
  Notif 1 wit_t1 [Upd (Some (GPath "" "" [("meta", []); ("sync", [])] [])) (TVBool true)] [] false.
Definition wit_real : notif := Notif 2 wit_t1 [Upd wit_ab (TVInt 1)] [] false.
Definition wit_server_name : notif :=
  Notif 1 wit_t1 [Upd (Some (GPath "" "" [("meta", []); ("serverName", [])] [])) (TVInt 1)] [] false.
Definition wit_latency : notif :=
  Notif 3 wit_t1 [Upd (Some (GPath "" "" [("meta", []); ("latency", []); ("window", []); ("10ns", []); ("avg", [])] []))
                      (TVString "x")] [] false.

Lemma meta_refresh_refuted_server_name :
  exists c n, st_wf c /\ wire_notif n = true /\
    snd (ingest head_flags_opts c n) = GOk /\
    exists w, refresh head_flags_opts (fst (ingest head_flags_opts c n)) = Panic w.
Proof.
  exists wit_c0, wit_server_name. split; [apply wit_c0_wf|]. split; [reflexivity|].
  split; [vm_compute; reflexivity|]. exists panic_meta_assert. vm_compute. reflexivity.
Qed.

Definition wit_c2 : cstate :=
  fst (ingest head_flags_opts (fst (ingest head_flags_opts wit_c0 wit_sync)) wit_real).

Lemma meta_refresh_refuted_latency :
  exists c n, st_wf c /\ wire_notif n = true /\
    snd (ingest head_flags_opts c n) = GOk /\
    exists w, refresh head_flags_opts (fst (ingest head_flags_opts c n)) = Panic w.
Proof.
  exists wit_c2, wit_latency. split.
  - apply ingest_preserves_wf; [apply ingest_preserves_wf; [apply wit_c0_wf|reflexivity]|reflexivity].
  - split; [reflexivity|]. split; [vm_compute; reflexivity|]. exists panic_meta_assert. vm_compute. reflexivity.
Qed.

(** without a latency sample the poisoned latency leaf is not read *)
Example meta_refresh_latency_unset_example :
  snd (ingest head_flags_opts wit_c0 wit_latency) = GOk /\
  refresh head_flags_opts (fst (ingest head_flags_opts wit_c0 wit_latency)) = Ok tt.
Proof. split; vm_compute; reflexivity. Qed.

(** * A multi notification whose every update was rejected leaves the data unchanged *)

Lemma multi_updates_errs fl n : forall us a,
  let a' := fold_left (multi_update_step fl n) us a in
  (List.length (a_errs a') <= List.length (a_errs a) + List.length us)%nat /\
  (List.length (a_errs a') = (List.length (a_errs a) + List.length us)%nat ->
   ts_tree (a_t a') = ts_tree (a_t a)).
Proof.
  induction us as [|u us IH]; intros a; cbn [fold_left List.length].
  - split; [lia|reflexivity].
  - destruct (IH (multi_update_step fl n a u)) as [H1 H2].
    unfold multi_update_step in *. destruct (a_panic a) eqn:Ea.
    + split; [lia|intros; lia].
    + destruct (gnmi_update1 fl (a_t a) (clone_with_update n u)) as [t' [x|e|w]] eqn:Eg; cbn [a_errs a_t] in *.
      * split; [lia|intros; lia].
      * rewrite app_length in *. cbn [List.length] in *. split; [lia|].
        intros E. rewrite H2 by lia. eapply gnmi_update1_err; eauto.
      * split; [lia|intros; lia].
Qed.

Lemma target_errs_all fl t n t' es :
  target_gnmi_update fl t n = (t', GErrs es) ->
  List.length es = List.length (n_upd n) -> n_del n = [] -> ts_tree t' = ts_tree t.
Proof.
  assert (L1 : forall r, lift1 r <> (t', GErrs es)).
  { intros [t0 [x|e0|w]]; cbn; discriminate. }
  unfold target_gnmi_update. intros H Hl Hd. rewrite Hd in H.
  destruct (n_atomic n).
  - destruct (n_upd n); [discriminate H|]. exfalso. eapply L1; eauto.
  - destruct (n_upd n) as [|u [|u2 us]] eqn:Eu.
    + discriminate H.
    + exfalso. eapply L1; eauto.
    + cbn [fold_left] in H.
      set (a1 := fold_left (multi_update_step fl n) us _) in H.
      pose proof (multi_updates_errs fl n (u :: u2 :: us) (Acc t [] None)) as [_ H2].
      cbn [fold_left] in H2. fold a1 in H2. cbn [a_errs a_t List.length] in H2.
      destruct (a_panic a1); [discriminate H|].
      destruct (a_errs a1) eqn:Ee; [discriminate H|]. inversion H; subst.
      apply H2. cbn [List.length] in Hl. cbn [List.length]. lia.
Qed.

Theorem rejected_all_preserves_gen fl c n c' es :
  ingest fl c n = (c', GErrs es) ->
  List.length es = List.length (n_upd n) -> n_del n = [] -> dump c' = dump c.
Proof.
  unfold ingest. destruct (n_prefix n) as [pr|]; [|intros H; discriminate H].
  destruct (assoc (gp_target pr) c) as [t|] eqn:Ea; [|intros H; discriminate H].
  destruct (target_gnmi_update fl t n) as [t' r] eqn:Et. cbn. intros H Hl Hd; inversion H; subst.
  apply dump_aset with (t := t); auto. eapply target_errs_all; eauto.
Qed.

(** * K_P is sound: an empty verdict means the property holds of the observations *)

(** the property, on what the implementation was seen to do along an ingest case *)
Fixpoint ingest_obs_ok (before : tdump) (steps : list (iop * iobs)) : Prop :=
  match steps with
  | [] => True
  | (IMsg n, OIngest r od) :: rest =>
      let d := match od with Some x => x | None => before end in
      r <> RPanic /\ (all_rejected n r = true -> tdump_eqb d before = true) /\ ingest_obs_ok d rest
  | (IRefresh, ORefresh p) :: rest => p = false /\ ingest_obs_ok before rest
  | _ :: _ => False
  end.

Lemma app_nil_inv {A} (a b : list A) : a ++ b = [] -> a = [] /\ b = [].
Proof. destruct a; cbn; [auto|discriminate]. Qed.

Lemma check_ingest_sound fl steps : forall i c before,
  check_ingest fl i c before steps = [] -> ingest_obs_ok before steps.
Proof.
  induction steps as [|[o b] steps IH]; intros i c before; cbn [check_ingest ingest_obs_ok]; [auto|].
  destruct o as [n|]; destruct b as [r od|p]; try discriminate.
  - destruct (ingest fl c n) as [c' g].
    intros H. apply app_nil_inv in H as [_ H]. apply app_nil_inv in H as [H2 H3].
    split; [|split].
    + intros ->. cbn in H2. destruct (ingest_known before n); discriminate H2.
    + intros Hall. destruct r; try (cbn in Hall; discriminate Hall);
        rewrite Hall in H2; cbn [andb] in H2;
        (destruct (tdump_eqb _ before); [reflexivity|discriminate H2]).
    + eapply IH; eauto.
  - intros H. apply app_nil_inv in H as [_ H]. apply app_nil_inv in H as [H2 H3].
    split; [|eapply IH; eauto].
    destruct p; [|reflexivity]. cbn in H2. destruct (class_refresh before); [discriminate H2|].
    destruct (class_refresh5 before); discriminate H2.
Qed.

(** the property on the observations of the other three kinds of case: no panic
    (for Subscribe: unless the environment assumption is violated) *)
Definition case_obs_ok (c : case) : Prop :=
  match c with
  | CIngest _ targets steps =>
      if existsb (String.eqb "") targets then True    (* outside the property *)
      else ingest_obs_ok (model_dump (new_cstate targets)) steps
  | CSub e _ o _ _ => se_has_peer e = true -> o <> OPanic
  | CRecv _ _ _ o _ _ => o <> OPanic
  | CCli _ _ _ _ _ o _ => o <> OPanic
  | CStream items => Forall (fun it => fst (snd it) <> OPanic) items
  | CMgr _ rs => Forall (fun ro => fst (snd ro) <> OPanic) rs
  end.

Theorem check_case_sound c : check_case c = [] -> case_obs_ok c.
Proof.
  destruct c as [opts targets steps|e f o code synced|jvalid qt rs o evs leaves|jvalid dt qt with_ts rs o recs|items|cb mrs];
    cbn [check_case case_obs_ok].
  - destruct (existsb (String.eqb "") targets) eqn:Et; [|apply check_ingest_sound].
    exact (fun _ => I).
  - intros H Hp ->. apply app_nil_inv in H as [_ H]. rewrite Hp in H. discriminate H.
  - destruct (ClientRecvModel.run (jv_of jvalid) qt false rs) as [[mevs rest] mo].
    intros H ->. apply app_nil_inv in H as [_ H]. discriminate H.
  - destruct (query_display defect_C12_4 (jv_of jvalid) dt qt with_ts rs) as [mrecs mo].
    intros H ->. apply app_nil_inv in H as [_ H]. cbn in H. destruct (class_cli dt rs); discriminate H.
  - generalize 0%nat. induction items as [|[[n dup] [o gone]] items IH]; intros i; cbn [check_stream]; [constructor|].
    intros H. apply app_nil_inv in H as [_ H]. apply app_nil_inv in H as [H2 H3].
    constructor; [|eapply IH; eauto]. cbn. intros ->. discriminate H2.
  - generalize 0%nat. induction mrs as [|[r [o code]] mrs IH]; intros i; cbn [check_mgr]; [constructor|].
    intros H. apply app_nil_inv in H as [_ H]. apply app_nil_inv in H as [H2 H3].
    constructor; [|eapply IH; eauto]. cbn. intros ->. discriminate H2.
Qed.

Lemma manager_handle_total r w : manager_handle r <> Panic w.
Proof. destruct r; discriminate. Qed.

(** the hypothesis "no target under the empty name" of [st_wf] is needed:
    joinPrefixAndPath slices [p[1:]] of an empty slice *)
Lemma ingest_needs_named_targets :
  exists n w, wire_notif n = true /\ snd (ingest fixed_flags (new_cstate [""]) n) = GPanic w.
Proof.
  exists (Notif 1 (Some (GPath "" "" [] [])) [Upd None (TVInt 1)] [] false), panic_join.
  split; reflexivity.
Qed.

(** * Entry point 2b: the sender's post-processing of a queued notification *)
Lemma stream_post_total_lemma dup n w : stream_post dup n <> Panic w.
Proof. discriminate. Qed.

(** what "the target is gone" means: one delete, no origin, index path "*" *)
Lemma is_target_delete_spec n :
  is_target_delete n = true <->
  exists d, n_del n = [d] /\ gp_origin (gp_of_opt (n_prefix n)) = "" /\
            to_strings false (gp_of_opt (n_prefix n)) ++ to_strings false d = ["*"].
Proof.
  unfold is_target_delete. destruct (n_del n) as [|d [|d2 ds]].
  - split; [discriminate|intros (d & H & _); discriminate].
  - rewrite andb_true_iff, String.eqb_eq. split.
    + intros [Ho Hp]. exists d. split; [reflexivity|]. split; [assumption|].
      destruct (to_strings false (gp_of_opt (n_prefix n)) ++ to_strings false d) as [|x [|y l]]; try discriminate.
      apply String.eqb_eq in Hp. now subst.
    + intros (d' & Hd & Ho & Hp). inversion Hd; subst d'. split; [assumption|]. now rewrite Hp.
  - split; [discriminate|intros (d' & H & _); discriminate].
Qed.

(** deletes as the cache builds them for leaves of either path encoding, and
    for an atomic leaf under an element-less prefix, are handled *)
Example stream_post_example :
  stream_post 0 (Notif 2 (Some (GPath "t1" "" [] [])) [] [GPath "" "" [] ["a"; "b"]] false) = Ok false /\
  stream_post 1 (Notif 2 (Some (GPath "t1" "o" [] [])) [] [GPath "" "" [] []] false) = Ok false /\
  stream_post 0 (Notif 2 (Some (GPath "t1" "" [] [])) [] [GPath "" "" [("*", [])] []] false) = Ok true.
Proof. repeat split. Qed.

(** * The event-driven suppression step is total over every pair of value encodings

    [gnmiUpdate] compares the stored first update with the new one through
    value.Equal on their [Val] fields only; whether either side (or both, or
    neither) also carries the deprecated [Update.value] is not looked at.  So
    for every stored / new update -- typed value, deprecated value only,
    neither, both -- the step returns a verdict. *)
Lemma suppression_step_total_lemma (old new : upd) w :
  wire_upd old = true -> wire_upd new = true ->
  equal_gen false (u_val old) (u_val new) <> Panic w.
Proof.
  intros Ho Hn He. destruct (equal_gen_panic_inv false _ _ _ Ho Hn He) as [H _]. discriminate H.
Qed.

(** the four encodings of one leaf, in every order, on the current code *)
Definition enc_typed : upd := UpdD wit_ab (TVInt 1) None.
Definition enc_deprecated : upd := UpdD wit_ab TVnil (Some (0%N, "{}")).
Definition enc_neither : upd := UpdD wit_ab TVnil None.
Definition enc_both : upd := UpdD wit_ab (TVInt 1) (Some (1%N, "ab")).
Definition enc_all := [enc_typed; enc_deprecated; enc_neither; enc_both].

Example suppression_pairs_example :
  forallb (fun a => forallb (fun b =>
    match snd (ingest cur_flags
                 (fst (ingest cur_flags wit_c0 (Notif 1 wit_t1 [a] [] false)))
                 (Notif 2 wit_t1 [b] [] false)) with
    | GOk => true | _ => false end) enc_all) enc_all = true.
Proof. vm_compute. reflexivity. Qed.

(** Proofs for C12 (totality of the four entry points). *)
From Gnmi Require Import Base.Prelude Total.IngestModel Total.SubReqModel
  Total.ClientRecvModel Total.CliDisplayModel Total.C12Check.

Lemma complete_path_no_panic pf p w : complete_path pf p <> Panic w.
Proof.
  unfold complete_path.
  destruct (negb (String.eqb (gp_origin pf) "") && negb (String.eqb (gp_origin p) "")); [discriminate|].
  destruct (negb (String.eqb (gp_origin pf) "")); [discriminate|].
  destruct (negb (String.eqb (gp_origin p) "")); [|discriminate].
  destruct (to_strings false pf); discriminate.
Qed.

Lemma process_subs_no_panic pf subs w : process_subs pf subs <> Panic w.
Proof.
  induction subs as [|s subs IH]; cbn; [discriminate|].
  pose proof (complete_path_no_panic pf (gp_of_opt s) w).
  destruct (complete_path pf (gp_of_opt s)); try discriminate; congruence.
Qed.

Lemma subscribe_no_panic_with_peer e f w :
  se_has_peer e = true -> subscribe e f <> Panic w.
Proof.
  intros Hp. unfold subscribe.
  destruct f as [| |r]; try discriminate.
  destruct (sr_kind r); try discriminate.
  destruct (sr_prefix r) as [pr|]; try discriminate.
  destruct (String.eqb (gp_target pr) ""); try discriminate.
  destruct (negb (has_target e (gp_target pr))); try discriminate.
  rewrite Hp; cbn.
  assert (Hp2 : process_subscription r <> Panic w).
  { unfold process_subscription. destruct (sr_updates_only r); [discriminate|apply process_subs_no_panic]. }
  destruct (N.eqb (sr_mode r) 1 || N.eqb (sr_mode r) 2).
  - destruct (process_subscription r); congruence.
  - destruct (N.eqb (sr_mode r) 0); [|discriminate].
    destruct (sr_updates_only r); [discriminate|].
    destruct (process_subscription r); congruence.
Qed.

(** * Entry point 1: ingest *)
From Gnmi Require Import CTree.CTreeProofs CTree.CTreeTheorems Value.ValueProofs.

(** what every stored notification satisfies: it carries at least one update
    (it went through gnmiUpdate) and wire-realisable values *)
Definition stored_ok (n : notif) : Prop := n_upd n <> [] /\ wire_notif n = true.

Definition tree_ok (tr : tree notif) : Prop :=
  wf_tree tr /\ forall p n, lookup tr p = Some n -> stored_ok n.

(** well-formed cache states: no target registered under the empty name,
    well-formed trees of stored notifications *)
Definition st_wf (c : cstate) : Prop :=
  forall k t, In (k, t) c -> k <> "" /\ tree_ok (ts_tree t).

Lemma tree_ok_empty : tree_ok None.
Proof. split; [exact I|]. intros p n H; discriminate. Qed.

Lemma st_wf_new names : ~ In "" names -> st_wf (new_cstate names).
Proof.
  unfold new_cstate. intros Hn.
  assert (H : forall l c, st_wf c -> ~ In "" l -> st_wf (fold_left (fun m k => aset k new_tstate m) l c)).
  { induction l as [|k l IH]; cbn; intros c Hc Hl; [assumption|].
    apply IH; [|tauto]. intros k' t' Hin. apply In_aset_weak in Hin as [E|Hin]; [|now apply Hc].
    inversion E; subst. split; [intros ->; apply Hl; now left|apply tree_ok_empty]. }
  apply H; [intros k t []|assumption].
Qed.

Lemma wire_tv_cases v : wire_tv v = true -> v = TVnil \/ has_nil v = false.
Proof. destruct v; cbn; intros H; auto; right; try reflexivity; now apply negb_true_iff in H. Qed.

(** value.Equal panics only on (double, nil) and only while DEFECT C19_1 is present *)
Lemma equal_gen_panic_inv d a b w :
  wire_tv a = true -> wire_tv b = true -> equal_gen d a b = Panic w ->
  d = true /\ (exists x, a = TVDouble x) /\ b = TVnil.
Proof.
  intros Ha Hb He.
  destruct (wire_tv_cases _ Hb) as [->|Hnb].
  - destruct a; cbn in He; try discriminate; destruct d; cbn in *; try discriminate; eauto.
  - destruct (wire_tv_cases _ Ha) as [->|Hna]; [cbn in He; discriminate|].
    destruct (equal_gen_total d a b) as [r Hr]; [right; auto|congruence].
Qed.

Section IngestProofs.
Variable fl : flags.

Definition unit_path (n : notif) : option gpath :=
  match n_upd n with u :: _ => if n_atomic n then None else u_path u | [] => None end.
Definition unit_val (n : notif) : tv :=
  match n_upd n with u :: _ => u_val u | [] => TVnil end.

(** why a unit (one stored notification) can panic: always one of the listed defects *)
Definition attrib1 (n : notif) (w : N) : Prop :=
  (f_idx fl = true /\ (w = panic_path0 \/ w = panic_path1) /\ short_idx (idx_of n (unit_path n)) = true) \/
  (f_nilval fl = true /\ w = panic_nil_val /\ unit_val n = TVnil /\
   typed_meta_idx (idx_of n (unit_path n)) = true) \/
  (f_equal fl = true /\ w = panic_equal /\ n_atomic n = false /\ unit_val n = TVnil).

Lemma join_path_ok pr ph :
  gp_target pr <> "" -> exists p, join_path (Some pr) ph = Ok p.
Proof.
  intros Ht. unfold join_path, join_prefix_and_path, to_strings at 1. cbn [gp_of_opt].
  unfold nonempty at 1. destruct (String.eqb_spec (gp_target pr) ""); [contradiction|].
  cbn. eauto.
Qed.

Lemma meta_check_panic t p k v t' w :
  meta_check fl t p k v = (t', Panic w) ->
  f_nilval fl = true /\ w = panic_nil_val /\ v = TVnil /\ name_in k typed_meta_names = true.
Proof.
  unfold meta_check, typed_meta_names, name_in. cbn [existsb].
  destruct (String.eqb k md_sync) eqn:E1; cbn [orb].
  - destruct v; try (intros H; discriminate H).
    destruct (f_nilval fl); intros H; inversion H; subst. auto.
  - destruct (String.eqb k md_connected) eqn:E2; cbn [orb].
    + destruct v; try (intros H; discriminate H).
      destruct (f_nilval fl); intros H; inversion H; subst. auto.
    + destruct (String.eqb k md_connected_addr) eqn:E3; cbn [orb].
      * destruct v; try (intros H; discriminate H).
        destruct (f_nilval fl); intros H; inversion H; subst. auto.
      * destruct (String.eqb k md_connect_error) eqn:E4; cbn [orb].
        -- destruct v; try (intros H; discriminate H).
           destruct (f_nilval fl); intros H; inversion H; subst. auto.
        -- destruct (negb (f_intmeta fl) && Nat.eqb (List.length p) 2 && existsb (String.eqb k) md_int_names);
             [destruct v|]; intros H; discriminate H.
Qed.

Lemma meta_check_tree t p k v : ts_tree (fst (meta_check fl t p k v)) = ts_tree t.
Proof.
  unfold meta_check.
  repeat match goal with
         | |- context [if ?b then _ else _] => destruct b
         | |- context [match v with _ => _ end] => destruct v
         end; reflexivity.
Qed.

Lemma update_pre_tree t p v : ts_tree (fst (update_pre fl t p v)) = ts_tree t.
Proof.
  unfold update_pre. destruct p as [|p0 [|k r]]; cbn.
  - destruct (f_idx fl); reflexivity.
  - destruct (negb (String.eqb p0 md_root)); [reflexivity|destruct (f_idx fl); reflexivity].
  - destruct (negb (String.eqb p0 md_root)); [reflexivity|apply meta_check_tree].
Qed.

Lemma update_pre_panic t p v t' w :
  update_pre fl t p v = (t', Panic w) ->
  (f_idx fl = true /\ (w = panic_path0 \/ w = panic_path1) /\ short_idx (Some p) = true) \/
  (f_nilval fl = true /\ w = panic_nil_val /\ v = TVnil /\ typed_meta_idx (Some p) = true).
Proof.
  unfold update_pre. destruct p as [|p0 [|k r]].
  - destruct (f_idx fl); intros H; inversion H; subst. left. cbn. auto.
  - destruct (String.eqb p0 md_root) eqn:E; cbn [negb]; [|intros H; discriminate H].
    destruct (f_idx fl); intros H; inversion H; subst. left. cbn. rewrite E. auto.
  - destruct (String.eqb p0 md_root) eqn:E; cbn [negb]; [|intros H; discriminate H].
    intros H. apply meta_check_panic in H as (H1 & H2 & H3 & H4). right.
    unfold typed_meta_idx. rewrite E, H4. auto.
Qed.

Lemma update_leaf_panic t p v n t' w :
  tree_ok (ts_tree t) -> wire_tv v = true ->
  update_leaf fl t p v n = (t', Panic w) ->
  f_equal fl = true /\ w = panic_equal /\ n_atomic n = false /\ v = TVnil.
Proof.
  intros [Hwf Hok] Hv. unfold update_leaf.
  destruct (get (ts_tree t) p) as [[old|cs]|] eqn:Eg; [| intros H; discriminate H |].
  - apply get_leaf_exact in Eg. destruct (Hok _ _ Eg) as [Hne Hw].
    destruct (Z.ltb (n_ts n) (n_ts old)); [intros H; discriminate H|].
    destruct (Z.eqb (n_ts n) (n_ts old) && notif_eqb old n); [intros H; discriminate H|].
    destruct (n_atomic n); [intros H; discriminate H|].
    destruct (n_upd old) as [|uo rest] eqn:Eo; [congruence|].
    destruct (equal_gen (f_equal fl) (u_val uo) v) eqn:Ee; try (intros H; discriminate H).
    intros H; inversion H; subst.
    unfold wire_notif in Hw. rewrite Eo in Hw. cbn in Hw. apply andb_true_iff in Hw as [Hw _].
    destruct (equal_gen_panic_inv _ _ _ _ Hw Hv Ee) as (H1 & _ & H3). auto.
  - destruct (add (ts_tree t) p n); intros H; discriminate H.
Qed.

Lemma gnmi_update1_panic t n t' w k :
  tree_ok (ts_tree t) -> wire_notif n = true ->
  (exists pr, n_prefix n = Some pr /\ gp_target pr = k) -> k <> "" ->
  gnmi_update1 fl t n = (t', Panic w) ->
  n_upd n <> [] -> attrib1 n w.
Proof.
  intros Hok Hw (pr & Hpr & Hk) Hne. unfold gnmi_update1, attrib1, unit_path, unit_val, idx_of.
  destruct (n_upd n) as [|u us] eqn:Eu; [congruence|]. intros H _.
  rewrite Hpr in *. subst k.
  destruct (join_path_ok pr (if n_atomic n then None else u_path u) Hne) as [p Hp].
  rewrite Hp in *.
  destruct (update_pre fl t p (u_val u)) as [t1 [x|e|w1]] eqn:Ep.
  - assert (Ht1 : tree_ok (ts_tree t1)).
    { replace t1 with (fst (update_pre fl t p (u_val u))) by now rewrite Ep.
      now rewrite update_pre_tree. }
    unfold wire_notif in Hw. rewrite Eu in Hw. cbn in Hw. apply andb_true_iff in Hw as [Hw _].
    apply update_leaf_panic in H as (H1 & H2 & H3 & H4); auto.
    right; right. auto.
  - discriminate H.
  - inversion H; subst. apply update_pre_panic in Ep as [(H1 & H2 & H3)|(H1 & H2 & H3 & H4)].
    + left. auto.
    + right; left. auto.
Qed.

Lemma gnmi_remove_panic t n t' w k :
  (exists pr, n_prefix n = Some pr /\ gp_target pr = k) -> k <> "" ->
  gnmi_remove fl t n = (t', Panic w) -> n_del n <> [] ->
  f_idx fl = true /\ (w = panic_path0 \/ w = panic_path1) /\
  exists d rest, n_del n = d :: rest /\ short_idx (idx_of n (Some d)) = true.
Proof.
  intros (pr & Hpr & Hk) Hne. unfold gnmi_remove, idx_of.
  destruct (n_del n) as [|d ds] eqn:Ed; [congruence|]. intros H _.
  rewrite Hpr in *. subst k.
  destruct (join_path_ok pr (Some d) Hne) as [p Hp]. rewrite Hp in *.
  destruct p as [|p0 [|k r]].
  - destruct (f_idx fl); [|discriminate H]. inversion H; subst.
    split; [reflexivity|]. split; [auto|]. exists d, ds. auto.
  - destruct (String.eqb p0 md_root) eqn:E; [|discriminate H].
    destruct (f_idx fl); [|discriminate H]. inversion H; subst.
    split; [reflexivity|]. split; [auto|]. exists d, ds. cbn. rewrite E. auto.
  - destruct (String.eqb p0 md_root); discriminate H.
Qed.

(** ** the state invariant is preserved *)

Lemma tree_ok_add tr p n tr' :
  tree_ok tr -> stored_ok n -> add tr p n = Some tr' -> tree_ok tr'.
Proof.
  intros [Hwf Hok] Hn Ha. destruct (add_spec tr tr' p n Hwf Ha) as [Hwf' Hl].
  split; [assumption|]. intros q m Hq. rewrite Hl in Hq.
  destruct (path_eqb q p); [inversion Hq; subst; assumption|eauto].
Qed.

Lemma tree_ok_tree_set tr p n : tree_ok tr -> stored_ok n -> tree_ok (tree_set tr p n).
Proof.
  intros Hok Hn. unfold tree_set. destruct (add tr p n) eqn:E; [eapply tree_ok_add; eauto|assumption].
Qed.

Lemma tree_ok_delete tr q c : tree_ok tr -> tree_ok (fst (delete_cond tr q c)).
Proof.
  intros [Hwf Hok]. destruct (delete_spec tr q c Hwf) as (Hwf' & Hl & _).
  split; [assumption|]. intros s m Hs. rewrite Hl in Hs. unfold sel in Hs.
  destruct (lookup tr s) as [v|] eqn:E; [|discriminate].
  destruct (qmatch q s && c v); [discriminate|]. inversion Hs; subst. eauto.
Qed.

Lemma gnmi_update1_ok t n :
  tree_ok (ts_tree t) -> stored_ok n -> tree_ok (ts_tree (fst (gnmi_update1 fl t n))).
Proof.
  intros Hok Hn. unfold gnmi_update1.
  destruct (n_upd n) as [|u us]; [assumption|].
  destruct (join_path _ _) as [p|e|w]; try assumption.
  destruct (update_pre fl t p (u_val u)) as [t1 o] eqn:Ep.
  assert (Ht1 : ts_tree t1 = ts_tree t).
  { replace t1 with (fst (update_pre fl t p (u_val u))) by now rewrite Ep. apply update_pre_tree. }
  destruct o as [x|e|w]; cbn [fst]; try (rewrite Ht1; assumption).
  unfold update_leaf. rewrite Ht1.
  destruct (get (ts_tree t) p) as [[old|cs]|]; cbn [fst]; try (rewrite Ht1; assumption).
  - destruct (Z.ltb _ _); cbn [fst]; [rewrite Ht1; assumption|].
    destruct (_ && _); cbn [fst]; [rewrite Ht1; assumption|].
    assert (tree_ok (tree_set (ts_tree t) p n)) by now apply tree_ok_tree_set.
    destruct (n_atomic n); cbn [fst ts_tree]; [assumption|].
    destruct (n_upd old); cbn [fst ts_tree]; [assumption|].
    destruct (equal_gen _ _ _); cbn [fst ts_tree]; assumption.
  - destruct (add (ts_tree t) p n) eqn:Ea; cbn [fst ts_tree]; [|rewrite Ht1; assumption].
    eapply tree_ok_add; eauto.
Qed.

Lemma gnmi_remove_ok t n :
  tree_ok (ts_tree t) -> tree_ok (ts_tree (fst (gnmi_remove fl t n))).
Proof.
  intros Hok. unfold gnmi_remove.
  destruct (n_del n) as [|d ds]; [assumption|].
  destruct (join_path _ _) as [p|e|w]; try assumption.
  destruct p as [|p0 [|k r]].
  - destruct (f_idx fl); cbn [fst ts_tree]; [assumption|now apply tree_ok_delete].
  - destruct (String.eqb p0 md_root); [destruct (f_idx fl)|]; cbn [fst ts_tree];
      try assumption; now apply tree_ok_delete.
  - destruct (String.eqb p0 md_root); cbn [fst ts_tree]; [destruct (String.eqb k md_connect_error)|];
      cbn [fst ts_tree]; now apply tree_ok_delete.
Qed.

End IngestProofs.

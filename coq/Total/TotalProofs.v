(** Proofs for C12 (totality of the four entry points). *)
From Gnmi Require Import Base.Prelude Total.IngestModel Total.SubReqModel
  Total.ClientRecvModel Total.CliDisplayModel Total.C12Check.

Lemma complete_path_no_panic pf p w : complete_path pf p <> Panic w.
Proof.
  unfold complete_path.
  destruct (negb (String.eqb (gp_origin pf) "") && negb (String.eqb (gp_origin p) "")); [discriminate|].
  destruct (negb (String.eqb (gp_origin pf) "")); [discriminate|].
  destruct (negb (String.eqb (gp_origin p) "")); [|discriminate].
  destruct (to_strings false pf); discriminate.
Qed.

Lemma process_subs_no_panic pf subs w : process_subs pf subs <> Panic w.
Proof.
  induction subs as [|s subs IH]; cbn; [discriminate|].
  pose proof (complete_path_no_panic pf (gp_of_opt s) w).
  destruct (complete_path pf (gp_of_opt s)); try discriminate; congruence.
Qed.

Lemma subscribe_no_panic_with_peer e f w :
  se_has_peer e = true -> subscribe e f <> Panic w.
Proof.
  intros Hp. unfold subscribe.
  destruct f as [| |r]; try discriminate.
  destruct (sr_kind r); try discriminate.
  destruct (sr_prefix r) as [pr|]; try discriminate.
  destruct (String.eqb (gp_target pr) ""); try discriminate.
  destruct (negb (has_target e (gp_target pr))); try discriminate.
  rewrite Hp; cbn.
  assert (Hp2 : process_subscription r <> Panic w).
  { unfold process_subscription. destruct (sr_updates_only r); [discriminate|apply process_subs_no_panic]. }
  destruct (N.eqb (sr_mode r) 1 || N.eqb (sr_mode r) 2).
  - destruct (process_subscription r); congruence.
  - destruct (N.eqb (sr_mode r) 0); [|discriminate].
    destruct (sr_updates_only r); [discriminate|].
    destruct (process_subscription r); congruence.
Qed.

(** C12, entry point 2: request validation of subscribe.Server.Subscribe
    (subscribe/subscribe.go, head of Subscribe, addSubscription,
    processSubscription) at guard level.

    What decides the outcome of a first request: the result of the first
    [stream.Recv], the oneof of the request (the getters are nil-safe, so a
    poll / empty request reads as "no subscription list"), the prefix, its
    target, [Cache.HasTarget], the gRPC peer of the stream context (read
    through [peer.Addr] WITHOUT a nil check: the only place of this function
    that can panic, and one a remote peer cannot reach -- real gRPC always
    attaches a peer; environment assumption of the theorem), the mode, and
    for every subscription entry [path.CompletePath(prefix, entry path)].

    Not modelled: the ACL (stub: allows everything; property C07), what is
    streamed after the request was accepted (C04/C05/C06), statistics.  The
    responses themselves are not compared (the sender goroutine races with the
    walk on error paths); the outcome class is. *)
From Gnmi Require Export Base.Prelude Path.PathModel.

Inductive req_kind := KSubscribe | KPoll | KNone.   (* SubscribeRequest.request oneof *)

Record subreq := SubReq {
  sr_kind : req_kind;
  sr_prefix : option gpath;
  sr_mode : N;                          (* 0 STREAM, 1 ONCE, 2 POLL, anything else on the wire *)
  sr_updates_only : bool;
  sr_subs : list (option gpath)         (* Subscription entries; the path may be absent *)
}.

Inductive first_recv := RecvEOF | RecvErr | RecvMsg (r : subreq).

Record senv := SEnv {
  se_targets : list string;             (* targets present in the cache *)
  se_has_peer : bool                    (* stream.Context() carries a gRPC peer *)
}.

Definition err_recv : N := 1.
Definition err_no_subscription : N := 2.
Definition err_no_prefix : N := 3.
Definition err_missing_target : N := 4.
Definition err_not_found : N := 5.
Definition err_mode : N := 6.
Definition err_complete_path : N := 7.

Definition panic_no_peer : N := 1.

Definition has_target (e : senv) (t : string) : bool :=
  if String.eqb t "" then false
  else if String.eqb t "*" then true
  else existsb (String.eqb t) (se_targets e).

(** addSubscription: the queries registered for a STREAM request.  An entry
    without a path reads, through the nil-safe getters, as the empty path
    (since commit 601ff89; it used to be skipped); nothing here can fail. *)
Definition stream_queries (r : subreq) : list path :=
  let prefix := to_strings true (gp_of_opt (sr_prefix r)) in
  map (fun sub =>
    let p := gp_of_opt sub in
    (if String.eqb (gp_origin (gp_of_opt (sr_prefix r))) "" && negb (String.eqb (gp_origin p) "")
     then prefix ++ [gp_origin p] else prefix) ++ to_strings false p) (sr_subs r).

(** processSubscription: CompletePath for every entry, in order; the first
    failure ends the RPC *)
Fixpoint process_subs (prefix : gpath) (subs : list (option gpath)) : outcome unit :=
  match subs with
  | [] => Ok tt
  | s :: rest =>
      match complete_path prefix (gp_of_opt s) with
      | Ok _ => process_subs prefix rest
      | Err _ => Err err_complete_path
      | Panic w => Panic w
      end
  end.

Definition process_subscription (r : subreq) : outcome unit :=
  if sr_updates_only r then Ok tt
  else process_subs (gp_of_opt (sr_prefix r)) (sr_subs r).

(** Subscribe up to the first sync (or the error that ends the RPC).
    [Ok true]: a sync response is produced; [Ok false]: the RPC ends without
    one (end of stream before any request). *)
Definition subscribe (e : senv) (f : first_recv) : outcome bool :=
  match f with
  | RecvEOF => Ok false
  | RecvErr => Err err_recv
  | RecvMsg r =>
      match sr_kind r with
      | KPoll | KNone => Err err_no_subscription
      | KSubscribe =>
          match sr_prefix r with
          | None => Err err_no_prefix
          | Some pr =>
              if String.eqb (gp_target pr) "" then Err err_missing_target
              else if negb (has_target e (gp_target pr)) then Err err_not_found
              else if negb (se_has_peer e) then Panic panic_no_peer      (* peer.Addr on a nil peer *)
              else if N.eqb (sr_mode r) 1 || N.eqb (sr_mode r) 2 then     (* ONCE, POLL *)
                match process_subscription r with
                | Ok _ => Ok true
                | Err c => Err c
                | Panic w => Panic w
                end
              else if N.eqb (sr_mode r) 0 then                            (* STREAM *)
                if sr_updates_only r then Ok true
                else match process_subscription r with
                     | Ok _ => Ok true
                     | Err c => Err c
                     | Panic w => Panic w
                     end
              else Err err_mode
          end
      end
  end.

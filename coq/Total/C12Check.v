(** Correspondence evaluator and executable property checker (K_P) for C12.

    A case is one of four kinds, one per entry point; it carries the inputs
    the harness fed to the real code (every message after a protobuf
    marshal / unmarshal round trip) and what the implementation did,
    projected.  [check_case]
    (a) runs the model of the entry point on the inputs and compares --
        correspondence, tag 1 --, and
    (b) applies the property itself to the implementation's own observations,
        independently of the model -- K_P: no panic (tag 2; tag 10+k inside
        known-finding class k) and, for the ingest path, the Query dump
        unchanged across a rejected message (tag 3). *)
From Gnmi Require Import Base.Prelude Total.IngestModel Total.StreamModel Total.SubReqModel
  Total.ClientRecvModel Total.CliDisplayModel.
Local Open Scope Z_scope.

(** * Observations *)

Inductive oclass := OOk | OErr | OPanic.

Definition oclass_eqb (a b : oclass) : bool :=
  match a, b with OOk, OOk | OErr, OErr | OPanic, OPanic => true | _, _ => false end.

Definition oclass_of {A} (o : outcome A) : oclass :=
  match o with Ok _ => OOk | Err _ => OErr | Panic _ => OPanic end.

(** result of Cache.GnmiUpdate: nil, ErrStale, another single error, an
    errlist of [k] errors, panic *)
Inductive rclass := ROk | RStale | ROther | RErrs (k : nat) | RPanic.

Definition rclass_eqb (a b : rclass) : bool :=
  match a, b with
  | ROk, ROk | RStale, RStale | ROther, ROther | RPanic, RPanic => true
  | RErrs x, RErrs y => Nat.eqb x y
  | _, _ => false
  end.

Definition rclass_of (g : gres) : rclass :=
  match g with
  | GOk => ROk
  | GErr c => if N.eqb c err_stale then RStale else ROther
  | GErrs cs => RErrs (List.length cs)
  | GPanic _ => RPanic
  end.

(** one stored leaf: index path, timestamp, first value *)
Definition dleaf := (path * Z * tv)%type.
Definition tdump := list (string * list dleaf).

Definition dleaf_eqb (a b : dleaf) : bool :=
  path_eqb (fst (fst a)) (fst (fst b)) && Z.eqb (snd (fst a)) (snd (fst b)) && tv_eqb (snd a) (snd b).

Definition dleaf_leb (a b : dleaf) : bool := path_leb (fst (fst a)) (fst (fst b)).
Definition tentry_leb (a b : string * list dleaf) : bool := String.leb (fst a) (fst b).

Definition canon_dump (d : tdump) : tdump :=
  isort tentry_leb (map (fun kt => (fst kt, isort dleaf_leb (snd kt))) d).

Definition tdump_eqb (a b : tdump) : bool :=
  list_eqb (fun x y => String.eqb (fst x) (fst y) && list_eqb dleaf_eqb (snd x) (snd y))
           (canon_dump a) (canon_dump b).

Definition first_val (n : notif) : tv :=
  match n_upd n with u :: _ => u_val u | [] => TVnil end.

(** a target registered under the empty name cannot be queried
    (Cache.Query rejects ""), so it is not part of the dump *)
Definition model_dump (c : cstate) : tdump :=
  map (fun kt => (fst kt, map (fun pn => (fst pn, n_ts (snd pn), first_val (snd pn)))
                              (dump_target (snd kt))))
      (filter (fun kt => negb (String.eqb (fst kt) "")) c).

Inductive iop :=
| IMsg (n : notif)
| IRefresh.                      (* Cache.UpdateMetadata; last step of a case only *)

Inductive iobs :=
| OIngest (r : rclass) (d : option tdump)   (* result and Query dump afterwards; [None]: the dump
                                              is the one of the previous step (kept short) *)
| ORefresh (panicked : bool).

(** * Known-finding classes (narrow predicates over the input and the
      implementation's own previous dump) *)

Definition idx_of (n : notif) (ph : option gpath) : option path :=
  match join_path (n_prefix n) ph with Ok p => Some p | _ => None end.

Definition short_idx (o : option path) : bool :=
  match o with
  | Some [] => true
  | Some [k] => String.eqb k md_root
  | _ => false
  end.

(** class 1 (C12_1): some unit of the message has an index path that is empty
    or [meta] alone *)
Definition class_idx (n : notif) : bool :=
  (if n_atomic n
   then match n_upd n with [] => false | _ :: _ => short_idx (idx_of n None) end
   else existsb (fun u => short_idx (idx_of n (u_path u))) (n_upd n)) ||
  existsb (fun d => short_idx (idx_of n (Some d))) (n_del n).

Definition typed_meta_names := [md_sync; md_connected; md_connected_addr; md_connect_error].

Definition typed_meta_idx (o : option path) : bool :=
  match o with
  | Some (p0 :: k :: _) => String.eqb p0 md_root && name_in k typed_meta_names
  | _ => false
  end.

Definition is_nil (v : tv) : bool := match v with TVnil => true | _ => false end.
Definition is_double (v : tv) : bool := match v with TVDouble _ => true | _ => false end.

(** class 2 (C12_2): a value-less update addressed to one of the typed
    metadata leaves *)
Definition class_nilval (n : notif) : bool :=
  if n_atomic n
  then match n_upd n with
       | u :: _ => is_nil (u_val u) && typed_meta_idx (idx_of n None)
       | [] => false
       end
  else existsb (fun u => is_nil (u_val u) && typed_meta_idx (idx_of n (u_path u))) (n_upd n).

Definition dump_val (d : tdump) (target : string) (p : path) : option tv :=
  match assoc target d with
  | None => None
  | Some ls =>
      match find (fun l => path_eqb (fst (fst l)) p) ls with
      | Some l => Some (snd l)
      | None => None
      end
  end.

(** class 3 (C19_1): a value-less non-atomic update of a leaf that holds a
    double (stored before the message, or by an earlier update of the same
    message) *)
Definition class_equal (before : tdump) (n : notif) : bool :=
  negb (n_atomic n) &&
  existsb (fun u =>
    is_nil (u_val u) &&
    match idx_of n (u_path u) with
    | None => false
    | Some p =>
        match dump_val before (gp_target (gp_of_opt (n_prefix n))) p with
        | Some v => is_double v
        | None => false
        end ||
        existsb (fun u' => is_double (u_val u') &&
                           match idx_of n (u_path u') with
                           | Some p' => path_eqb p p'
                           | None => false
                           end) (n_upd n)
    end) (n_upd n).

(** class 4 (C12_3): a leaf at [meta; <int counter>] whose first value is not
    an int, read back by the metadata refresh *)
Definition class_refresh (before : tdump) : bool :=
  existsb (fun kt =>
    existsb (fun l =>
      match fst (fst l) with
      | [p0; k] => String.eqb p0 md_root && name_in k md_int_names && negb (is_int (snd l))
      | _ => false
      end) (snd kt)) before.

(** class 6 (C12_5): a leaf at meta/serverName that is not a string, or at
    meta/latency/window/<w>/<stat> that is not an int, read back by the
    metadata refresh of a cache created with the corresponding option *)
Definition class_refresh5 (before : tdump) : bool :=
  existsb (fun kt =>
    existsb (fun l =>
      match fst (fst l) with
      | [p0; k] => String.eqb p0 md_root && String.eqb k md_server_name && negb (is_str (snd l))
      | [p0; k1; k2; _; _] =>
          String.eqb p0 md_root && String.eqb k1 md_latency && String.eqb k2 md_window &&
          negb (is_int (snd l))
      | _ => false
      end) (snd kt)) before.

(** class 5 (C12_4): a group display of an update / delete whose full path is
    empty *)
Definition full_path_empty (n : cnotif) : bool :=
  let pre := to_strings true (gp_of_opt (cn_prefix n)) in
  match pre with
  | _ :: _ => false
  | [] =>
      existsb (fun u => match to_strings false (gp_of_opt (cu_path u)) with [] => true | _ => false end)
              (cn_upd n) ||
      existsb (fun d => match to_strings false d with [] => true | _ => false end) (cn_del n)
  end.

Definition class_cli (dt : dtype) (rs : list resp) : bool :=
  match dt with
  | DGroup => existsb (fun r => match r with RUpdate n => full_path_empty n | _ => false end) rs
  | _ => false
  end.

Definition panic_tag (k : N) : list N :=
  match k with 0%N => [2%N] | _ => [(10 + k)%N] end.

(** * The ingest case *)

Definition all_rejected (n : notif) (r : rclass) : bool :=
  match r with
  | RStale | ROther => true
  | RErrs k => Nat.eqb k (List.length (n_upd n)) && match n_del n with [] => true | _ => false end
  | _ => false
  end.

Definition ingest_known (before : tdump) (n : notif) : N :=
  if class_idx n then 1%N
  else if class_nilval n then 2%N
  else if class_equal before n then 3%N
  else 0%N.

Fixpoint check_ingest (fl : flags) (i : nat) (c : cstate) (before : tdump) (steps : list (iop * iobs))
  : list (nat * N) :=
  match steps with
  | [] => []
  | (IMsg n, OIngest r od) :: rest =>
      let d := match od with Some x => x | None => before end in
      let '(c', g) := ingest fl c n in
      let v1 := if rclass_eqb r (rclass_of g) && tdump_eqb d (model_dump c') then [] else [(i, 1%N)] in
      let v2 := match r with
                | RPanic => map (fun t => (i, t)) (panic_tag (ingest_known before n))
                | _ => if all_rejected n r && negb (tdump_eqb d before) then [(i, 3%N)] else []
                end in
      v1 ++ v2 ++ check_ingest fl (S i) c' d rest
  | (IRefresh, ORefresh p) :: rest =>
      let v1 := if Bool.eqb p (match refresh fl c with Panic _ => true | _ => false end)
                then [] else [(i, 1%N)] in
      let v2 := if p then map (fun t => (i, t)) (panic_tag (if class_refresh before then 4%N
                                                       else if class_refresh5 before then 6%N else 0%N))
                else [] in
      v1 ++ v2 ++ check_ingest fl (S i) c before rest
  | _ :: rest => (i, 1%N) :: check_ingest fl (S i) c before rest      (* ill-formed step *)
  end.

(** * Cases *)

Inductive case :=
| CIngest (opts : bool * bool * bool)     (* cache options: server name, latency window, event-driven *)
          (targets : list string) (steps : list (iop * iobs))
| CSub (e : senv) (f : first_recv) (o : oclass) (code : N) (synced : bool)
| CRecv (jvalid : list string) (qt : qtype) (rs : list resp)
        (o : oclass) (evs : list event) (leaves : list path)
| CCli (jvalid : list string) (dt : dtype) (qt : qtype) (with_ts : bool) (rs : list resp)
       (o : oclass) (recs : list drec)
| CStream (items : list (notif * N * (oclass * bool)))   (* fed notification, duplicate count; outcome, target gone *)
| CMgr (callbacks : bool) (rs : list (resp * (oclass * N))).   (* callbacks configured or nil *)   (* per response: outcome, callback (0 none, 1 update, 2 sync) *)

Definition jv_of (l : list string) (s : string) : bool := existsb (String.eqb s) l.

(** gRPC status code of a Subscribe error class: InvalidArgument 3, NotFound 5,
    anything that is not a status error reads as Unknown 2 *)
Definition sub_code (o : outcome bool) : N :=
  match o with
  | Err c =>
      if N.eqb c err_not_found then 5%N
      else if N.eqb c SubReqModel.err_recv || N.eqb c err_complete_path then 2%N
      else 3%N
  | _ => 0%N
  end.

Definition event_eqb (a b : event) : bool :=
  match a, b with
  | EConnected, EConnected | ESync, ESync | ENil, ENil => true
  | EUpdate p, EUpdate q | EDelete p, EDelete q => path_eqb p q
  | _, _ => false
  end.

Definition sort_paths (l : list path) : list path := isort path_leb l.

Definition drec_eqb (a b : drec) : bool :=
  match a, b with
  | DRGroup x, DRGroup y => list_eqb path_eqb (sort_paths x) (sort_paths y)
  | DRLine p, DRLine q => path_eqb p q
  | DRProto, DRProto => true
  | _, _ => false
  end.

Definition mgr_code (o : outcome mgr_event) : N :=
  match o with Ok MUpdate => 1%N | Ok MSync => 2%N | _ => 0%N end.

Fixpoint check_mgr (cb : bool) (i : nat) (rs : list (resp * (oclass * N))) : list (nat * N) :=
  match rs with
  | [] => []
  | (r, (o, code)) :: rest =>
      let m := manager_handle r in
      (if oclass_eqb o (oclass_of m) && N.eqb code (if cb then mgr_code m else 0%N) then [] else [(i, 1%N)]) ++
      (match o with OPanic => [(i, 2%N)] | _ => [] end) ++
      check_mgr cb (S i) rest
  end.

Fixpoint check_stream (i : nat) (items : list (notif * N * (oclass * bool))) : list (nat * N) :=
  match items with
  | [] => []
  | (n, dup, (o, gone)) :: rest =>
      let m := stream_post dup n in
      (if oclass_eqb o (oclass_of m) && Bool.eqb gone (match m with Ok b => b | _ => false end)
       then [] else [(i, 1%N)]) ++
      (match o with OPanic => [(i, 2%N)] | _ => [] end) ++
      check_stream (S i) rest
  end.

Definition check_case (c : case) : list (nat * N) :=
  match c with
  | CIngest opts targets steps =>
      let c0 := new_cstate targets in
      let fl := cur_flags_with (fst (fst opts)) (snd (fst opts)) (snd opts) in
      let res := check_ingest fl 0 c0 (model_dump c0) steps in
      (* a target registered under the empty name (an operator's doing) is
         outside the property: only the correspondence is checked *)
      if existsb (String.eqb "") targets then filter (fun r => N.eqb (snd r) 1) res else res
  | CSub e f o code synced =>
      let m := subscribe e f in
      (if oclass_eqb o (oclass_of m) && N.eqb code (sub_code m) &&
          Bool.eqb synced (match m with Ok b => b | _ => false end)
       then [] else [(0%nat, 1%N)]) ++
      (match o with
       | OPanic => if se_has_peer e then [(0%nat, 2%N)] else []    (* no peer: outside the property *)
       | _ => []
       end)
  | CRecv jvalid qt rs o evs leaves =>
      let '(mevs, _, mo) := run (jv_of jvalid) qt false rs in
      (if oclass_eqb o (oclass_of mo) &&
          list_eqb event_eqb evs (filter forwarded mevs) &&
          list_eqb path_eqb leaves (client_leaves (apply_all None mevs))
       then [] else [(0%nat, 1%N)]) ++
      (match o with OPanic => [(0%nat, 2%N)] | _ => [] end)
  | CCli jvalid dt qt with_ts rs o recs =>
      let '(mrecs, mo) := query_display defect_C12_4 (jv_of jvalid) dt qt with_ts rs in
      (if oclass_eqb o (oclass_of mo) && list_eqb drec_eqb recs mrecs
       then [] else [(0%nat, 1%N)]) ++
      (match o with
       | OPanic => map (fun t => (0%nat, t)) (panic_tag (if class_cli dt rs then 5%N else 0%N))
       | _ => []
       end)
  | CStream items => check_stream 0 items
  | CMgr cb rs => check_mgr cb 0 rs
  end.

Fixpoint check_all_from (i : nat) (cs : list case) : list (nat * nat * N) :=
  match cs with
  | [] => []
  | c :: cs' => map (fun sn => (i, fst sn, snd sn)) (check_case c) ++ check_all_from (S i) cs'
  end.

Definition check_all (cs : list case) : list (nat * nat * N) := check_all_from 0 cs.

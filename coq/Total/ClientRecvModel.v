(** C12, entry point 3: the client receive path at guard level.

    Mirrors client/gnmi/client.go (Recv -> defaultRecv -> noti),
    client/client.go (BaseClient.run) and client/cache.go
    (CacheClient.defaultHandler).  A response is decoded into leaf
    notifications handed, one by one, to the handler; the caching client
    applies them to its tree (ctree.Add / ctree.Delete, errors ignored) and
    forwards them to the user's handler.

    Places that could panic: value.ToScalar (ValueModel.to_scalar, incl. its
    nil dereferences -- unreachable here because [u.Val != nil] is tested first
    and protobuf decoding does not produce nil inner messages), and nothing
    else: every field access goes through a nil test or a nil-safe getter.
    The model keeps those tests explicit so that removing one is a visible
    difference.

    [jv] is encoding/json's verdict on a byte string (oracle, supplied per
    case by the harness from json.Valid).

    Not modelled: the converted Go value itself (only whether conversion
    succeeds), timestamps, [Update.duplicates]. *)
From Gnmi Require Export Base.Prelude CTree.CTreeModel Path.PathModel Value.ValueModel.

Record cupd := CUpd {
  cu_path : option gpath;
  cu_val : tv;                          (* [TVnil]: no TypedValue *)
  cu_dep : option (N * string)          (* deprecated Update.value: (Encoding, bytes) *)
}.

Record cnotif := CNotif {
  cn_prefix : option gpath;
  cn_upd : list cupd;
  cn_del : list gpath
}.

Inductive resp :=
| RUpdate (n : cnotif)
| RSync
| RError
| RUnset                                (* response oneof not set *)
| RFail.                                (* not a response: the stream's Recv returns an error (not io.EOF) here *)

Inductive qtype := QOnce | QPoll | QStream.

(** what the handler is called with *)
Inductive event :=
| EConnected
| EUpdate (p : path)
| EDelete (p : path)
| ESync
| ENil.                                 (* a nil client.Notification: update without any value *)

Definition wire_cupd (u : cupd) : bool :=
  match cu_val u with TVnil => true | v => negb (has_nil v) end.
Definition wire_resp (r : resp) : bool :=
  match r with RUpdate n => forallb wire_cupd (cn_upd n) | _ => true end.

Definition err_nil_path : N := 1.
Definition err_decode : N := 2.         (* value.ToScalar failed *)
Definition err_json : N := 3.           (* deprecated JSON value does not parse *)
Definition err_unsupported : N := 4.    (* deprecated value of another encoding *)
Definition err_response : N := 5.       (* error response *)
Definition err_unknown : N := 6.        (* unknown response type *)
Definition err_stream : N := 7.         (* the stream failed *)

Section Recv.
Variable jv : string -> bool.

(** noti(prefix, pp, ts, u); [None] result: (nil, nil) *)
Definition noti (prefix : path) (pp : gpath) (u : option cupd) : outcome event :=
  let p := prefix ++ to_strings false pp in
  match u with
  | None => Ok (EDelete p)
  | Some u =>
      match cu_val u with
      | TVnil =>
          match cu_dep u with
          | None => Ok ENil
          | Some (enc, b) =>
              if N.eqb enc 1 then Ok (EUpdate p)                           (* BYTES *)
              else if N.eqb enc 0 || N.eqb enc 4 then                       (* JSON, JSON_IETF *)
                if jv b then Ok (EUpdate p) else Err err_json
              else Err err_unsupported
          end
      | v =>
          match to_scalar jv v with
          | Ok _ => Ok (EUpdate p)
          | Err _ => Err err_decode
          | Panic w => Panic w
          end
      end
  end.

(** the loop over [n.Update]: events delivered so far, then how it ended *)
Fixpoint recv_updates (prefix : path) (us : list cupd) : list event * outcome unit :=
  match us with
  | [] => ([], Ok tt)
  | u :: rest =>
      match cu_path u with
      | None => ([], Err err_nil_path)
      | Some pp =>
          match noti prefix pp (Some u) with
          | Ok ev => let r := recv_updates prefix rest in (ev :: fst r, snd r)
          | Err c => ([], Err c)
          | Panic w => ([], Panic w)
          end
      end
  end.

Fixpoint recv_deletes (prefix : path) (ds : list gpath) : list event * outcome unit :=
  match ds with
  | [] => ([], Ok tt)
  | d :: rest =>
      match noti prefix d None with
      | Ok ev => let r := recv_deletes prefix rest in (ev :: fst r, snd r)
      | Err c => ([], Err c)
      | Panic w => ([], Panic w)
      end
  end.

(** defaultRecv without the Connected bookkeeping.  [Ok true]: stop reading
    (client.ErrStopReading); [Ok false]: continue. *)
Definition default_recv (qt : qtype) (r : resp) : list event * outcome bool :=
  match r with
  | RFail => ([], Err err_stream)       (* not reached: [run] ends before the handler *)
  | RUnset => ([], Err err_unknown)
  | RError => ([], Err err_response)
  | RSync =>
      ([ESync], Ok (match qt with QOnce | QPoll => true | QStream => false end))
  | RUpdate n =>
      let prefix := to_strings true (gp_of_opt (cn_prefix n)) in
      match recv_updates prefix (cn_upd n) with
      | (evs, Ok _) =>
          match recv_deletes prefix (cn_del n) with
          | (evs', Ok _) => (evs ++ evs', Ok false)
          | (evs', Err c) => (evs ++ evs', Err c)
          | (evs', Panic w) => (evs ++ evs', Panic w)
          end
      | (evs, Err c) => (evs, Err c)
      | (evs, Panic w) => (evs, Panic w)
      end
  end.

(** BaseClient.run over a finite script of responses followed by io.EOF:
    events, the responses not consumed, how it ended ([Ok tt]: nil error).
    [connected]: the Connected event was already delivered. *)
Fixpoint run (qt : qtype) (connected : bool) (rs : list resp)
  : list event * list resp * outcome unit :=
  match rs with
  | [] => ([], [], Ok tt)                               (* io.EOF *)
  | RFail :: rest => ([], rest, Err err_stream)        (* Client.Recv returns the error as it is *)
  | r :: rest =>
      let pre := if connected then [] else [EConnected] in
      match default_recv qt r with
      | (evs, Ok true) => (pre ++ evs, rest, Ok tt)
      | (evs, Ok false) =>
          let '(evs', rest', o) := run qt true rest in (pre ++ evs ++ evs', rest', o)
      | (evs, Err c) => (pre ++ evs, rest, Err c)
      | (evs, Panic w) => (pre ++ evs, rest, Panic w)
      end
  end.

End Recv.

(** CacheClient.defaultHandler: the effect of one event on the client tree
    (errors of Add are dropped by the caller) and whether the user's handler
    sees it (a nil notification is answered with an error before that). *)
Definition ctree_apply (t : tree unit) (e : event) : tree unit :=
  match e with
  | EUpdate p => match CTreeModel.add t p tt with Some t' => t' | None => t end
  | EDelete p => fst (CTreeModel.delete t p)
  | _ => t
  end.

Definition forwarded (e : event) : bool := match e with ENil => false | _ => true end.

Definition client_leaves (t : tree unit) : list path := map fst (CTreeModel.walk_sorted t).

(** * manager.handleGNMIUpdate (manager/manager.go): what the target manager does
    with one response received from a target: an update is handed to the
    Update callback, a sync to the Sync callback, an error response and an
    unset oneof are answered with an error (logged by the caller).  Nothing is
    dereferenced. *)
Inductive mgr_event := MUpdate | MSync.

Definition err_mgr_nil : N := 1.
Definition err_mgr_error : N := 2.

Definition manager_handle (r : resp) : outcome mgr_event :=
  match r with
  | RFail => Err err_mgr_nil            (* never handed to the handler *)
  | RUnset => Err err_mgr_nil
  | RError => Err err_mgr_error
  | RSync => Ok MSync
  | RUpdate _ => Ok MUpdate
  end.

(** C12, entry point 2b: what the per-RPC sender goroutine of
    subscribe.Server does with every item it takes off a subscriber's queue
    (subscribe/subscribe.go: sendStreamingResults -> sendSubscribeResponse ->
    MakeSubscribeResponse, then isTargetDelete).

    The item is a notification the *cache* built from what a remote target
    sent: a stored update notification (handed on as it is), a per-leaf delete
    notification built by cache.toDeleteNotification (prefix with target and
    origin only; [Delete[0]] holds the indexed path of the removed leaf, as
    Elem or, for leaves stored with the deprecated encoding on both sides, as
    Element; empty for an atomic leaf stored under an element-less prefix), or
    the announcement of a removed / reset target ([Delete[0]] = "*").  The
    harness takes these items from the real cache and runs the real
    post-processing on each; the model below is the post-processing alone.

    isTargetDelete: exactly one delete, no origin in the prefix, and the index
    strings of prefix (without target / origin) and delete path are the single
    name "*".  Every access goes through path.ToStrings or a nil test: nothing
    can panic, whatever the encoding of the delete path. *)
From Gnmi Require Export Base.Prelude Path.PathModel Total.IngestModel.

Definition is_target_delete (n : notif) : bool :=
  match n_del n with
  | [d] =>
      let pr := gp_of_opt (n_prefix n) in
      String.eqb (gp_origin pr) "" &&
      match to_strings false pr ++ to_strings false d with
      | [x] => String.eqb x "*"
      | _ => false
      end
  | _ => false
  end.

(** MakeSubscribeResponse on a notification always succeeds (with a duplicate
    count the notification is cloned and the count written into the first
    update, if there is one); then isTargetDelete.  [Ok b]: a response is sent,
    [b] = the stream ends afterwards because the subscribed target is gone. *)
Definition stream_post (dup : N) (n : notif) : outcome bool := Ok (is_target_delete n).

(** C12, entry point 4: what gnmi_cli shows (cli/cli.go: sendQueryAndDisplay,
    displaySingleResults, displayProtoResults, displayOnceResults,
    displayPollingResults, displayStreamingResults, displayWalk, pathmap.add).

    The nested display map is [pnode]: a displayed value ([PVal], its text is
    not modelled) or a [pathmap].  [pm_add] mirrors pathmap.add, recursion on
    the path, with its two panic sites: [path[0]] of an empty path and the
    unchecked assertion [mm.(pathmap)] on an entry that is a plain value.

    A display call is recorded as the leaf positions of the printed map (group
    displays), as the path of the line (single display), or as "a proto was
    printed".  The harness recovers the same from the text handed to
    [Config.Display]. *)
From Gnmi Require Export Total.ClientRecvModel.

(* DEFECT C12_4: pathmap.add indexes [path[0]] of an empty path.  Becomes
   [false] with fixes/C12_4_cli_empty_path.diff: the value is not displayed. *)
Definition defect_C12_4 : bool := false.

Inductive pnode :=
| PVal
| PMap (cs : list (string * pnode)).

Definition pathmap := list (string * pnode).

Definition panic_add_empty : N := 1.    (* path[0] of an empty path *)
Definition panic_add_assert : N := 2.   (* mm.(pathmap) on a plain value *)

Section Cli.
Variable d4 : bool.                      (* DEFECT C12_4 present *)

Fixpoint pm_add (m : pathmap) (p : path) (v : pnode) : outcome pathmap :=
  match p with
  | [] =>
      (* DEFECT C12_4: with the patch [Ok m] *)
      if d4 then Panic panic_add_empty else Ok m
  | [k] => Ok (aset k v m)
  | k :: rest =>
      match assoc k m with
      | None =>
          match pm_add [] rest v with
          | Ok mm => Ok (aset k (PMap mm) m)
          | Err c => Err c
          | Panic w => Panic w
          end
      | Some (PMap mm) =>
          match pm_add mm rest v with
          | Ok mm' => Ok (aset k (PMap mm') m)
          | Err c => Err c
          | Panic w => Panic w
          end
      | Some PVal => Panic panic_add_assert
      end
  end.

(** leaf positions of a display map *)
Fixpoint pn_leaves (pre : path) (n : pnode) : list path :=
  match n with
  | PVal => [pre]
  | PMap cs => flat_map (fun kc => pn_leaves (pre ++ [fst kc]) (snd kc)) cs
  end.

Definition pm_leaves (m : pathmap) : list path := pn_leaves [] (PMap m).

Inductive dtype := DGroup | DSingle | DProto | DUnknown.

Inductive drec :=
| DRGroup (leaves : list path)
| DRLine (p : path)
| DRProto.

Definition stamped (with_ts : bool) : pnode :=
  if with_ts then PMap [("timestamp", PVal); ("value", PVal)] else PVal.

(** displayWalk: every leaf of the client tree, in sorted order, into a fresh map *)
Fixpoint add_all (with_ts : bool) (m : pathmap) (ps : list path) : outcome pathmap :=
  match ps with
  | [] => Ok m
  | p :: rest =>
      match pm_add m p (stamped with_ts) with
      | Ok m' => add_all with_ts m' rest
      | Err c => Err c
      | Panic w => Panic w
      end
  end.

Definition display_walk (with_ts : bool) (t : tree unit) : outcome drec :=
  match add_all with_ts [] (client_leaves t) with
  | Ok m => Ok (DRGroup (pm_leaves m))
  | Err c => Err c
  | Panic w => Panic w
  end.

(** the [display] closure of displayStreamingResults for one update / delete *)
Definition display_one (with_ts : bool) (p : path) : outcome drec :=
  let r := if with_ts
           then match pm_add [] (p ++ ["timestamp"]) PVal with
                | Ok m => pm_add m (p ++ ["value"]) PVal
                | o => o
                end
           else pm_add [] p PVal in
  match r with
  | Ok m => Ok (DRGroup (pm_leaves m))
  | Err c => Err c
  | Panic w => Panic w
  end.

(** ** the handlers, folded over the events a run delivers *)

(** caching client + the streaming display handler.  State: client tree,
    [complete]. *)
Fixpoint stream_events (with_ts : bool) (t : tree unit) (complete : bool) (evs : list event)
  : tree unit * bool * list drec * option N :=
  match evs with
  | [] => (t, complete, [], None)
  | e :: rest =>
      let t1 := ctree_apply t e in
      let step : outcome (list drec * bool) :=
        match e with
        | EUpdate p | EDelete p =>
            if complete
            then match display_one with_ts p with
                 | Ok r => Ok ([r], complete)
                 | Err c => Err c
                 | Panic w => Panic w
                 end
            else Ok ([], complete)
        | ESync =>
            match display_walk with_ts t1 with
            | Ok r => Ok ([r], true)
            | Err c => Err c
            | Panic w => Panic w
            end
        | _ => Ok ([], complete)
        end in
      match step with
      | Ok (rs, c') =>
          let '(t2, c2, rs', pn) := stream_events with_ts t1 c' rest in (t2, c2, rs ++ rs', pn)
      | Err _ => (t1, complete, [], None)        (* no error is produced here *)
      | Panic w => (t1, complete, [], Some w)
      end
  end.

Definition apply_all (t : tree unit) (evs : list event) : tree unit :=
  fold_left ctree_apply evs t.

Definition single_lines (evs : list event) : list drec :=
  flat_map (fun e => match e with EUpdate p | EDelete p => [DRLine p] | _ => [] end) evs.

Definition err_unknown_display : N := 20.

(** the proto handler prints every message until the stream ends or fails *)
Fixpoint proto_run (rs : list resp) : list drec * outcome unit :=
  match rs with
  | [] => ([], Ok tt)
  | RFail :: _ => ([], Err err_stream)
  | _ :: rest => let r := proto_run rest in (DRProto :: fst r, snd r)
  end.

(** cli.QueryDisplay on a scripted response stream.  Poll: [Count = 1]. *)
Definition query_display (jv : string -> bool) (dt : dtype) (qt : qtype) (with_ts : bool)
  (rs : list resp) : list drec * outcome unit :=
  match dt with
  | DUnknown => ([], Err err_unknown_display)
  | DProto => proto_run rs
  | DSingle =>
      let '(evs, _, o) := run jv qt false rs in (single_lines evs, o)
  | DGroup =>
      match qt with
      | QOnce =>
          let '(evs, _, o) := run jv qt false rs in
          match o with
          | Ok _ =>
              match display_walk with_ts (apply_all None evs) with
              | Ok r => ([r], Ok tt)
              | Err c => ([], Err c)
              | Panic w => ([], Panic w)
              end
          | _ => ([], o)
          end
      | QPoll =>
          let '(evs, rest, o) := run jv qt false rs in
          match o with
          | Ok _ =>
              let '(evs2, _, o2) := run jv qt true rest in
              match o2 with
              | Ok _ =>
                  match display_walk with_ts (apply_all None (evs ++ evs2)) with
                  | Ok r => ([r], Ok tt)
                  | Err c => ([], Err c)
                  | Panic w => ([], Panic w)
                  end
              | _ => ([], o2)
              end
          | _ => ([], o)
          end
      | QStream =>
          let '(evs, _, o) := run jv qt false rs in
          let '(_, _, recs, pn) := stream_events with_ts None false (filter forwarded evs) in
          match pn with
          | Some w => (recs, Panic w)
          | None => (recs, o)
          end
      end
  end.

End Cli.

// Harness for C09: drives the real ctree.Tree with operation sequences and
// writes, per case, the operations and the projected results as Gallina terms
// for CTreeCheck.check_all.
package main

import (
	"encoding/json"
	"fmt"
	"os"
	"sort"
	"strings"
	"time"

	"github.com/openconfig/gnmi/ctree"
	"github.com/openconfig/gnmi/zz_verif/vh"
)

// Op is one API call.  K: add get getleaf getleafvalue query walk walksorted
// delete walkdeleted children isbranch.  C: condition kind (all, lt, ge) with
// bound CK, for delete / walkdeleted.
type Op struct {
	K  string   `json:"k"`
	P  []string `json:"p"`
	V  int64    `json:"v,omitempty"`
	C  string   `json:"c,omitempty"`
	CK int64    `json:"ck,omitempty"`
	S  int      `json:"s,omitempty"`   // handle slot, for hold / hupdate / hvalue
	Via string  `json:"via,omitempty"` // hold: "query" takes the handle the Query visitor is given
}

// nslots handle slots are kept next to the tree (CTreeHandle.v).
const nslots = 4

// Obs is the projected result of one call.
type Obs struct {
	Kind   string     `json:"kind"` // add kind leaves paths vals names bool panic
	OK     bool       `json:"ok,omitempty"`
	NK     string     `json:"nk,omitempty"` // absent leaf branch
	V      int64      `json:"v,omitempty"`
	Leaves []LeafObs  `json:"leaves,omitempty"`
	Paths  [][]string `json:"paths,omitempty"`
	Vals   []int64    `json:"vals,omitempty"`
	Names  []string   `json:"names,omitempty"`
	HasNm  bool       `json:"has_names,omitempty"`
	B      bool       `json:"b,omitempty"`
	Msg    string     `json:"msg,omitempty"`
}

// LeafObs is one (path, value) reported by a visit.
type LeafObs struct {
	P []string `json:"p"`
	V int64    `json:"v"`
}

// Case is what is written to cases_k.json and read back for replay.
type Case struct {
	Family string `json:"family"`
	Ops    []Op   `json:"ops"`
	Obs    []Obs  `json:"obs,omitempty"`
}

func cond(o Op) func(interface{}) bool {
	return func(v interface{}) bool {
		x, ok := unval(v)
		if !ok {
			// the condition is handed something that is not a stored value
			panic(fmt.Sprintf("condition called on %T", v))
		}
		switch o.C {
		case "lt":
			return x < o.CK
		case "ge":
			return x >= o.CK
		}
		return true
	}
}

func cp(p []string) []string { return append([]string{}, p...) }

// box is an uncomparable value type (it has a slice field): in every second case the
// stored values are boxes, so that code comparing stored values with == (instead of
// treating them as opaque) panics, as the tree's contract allows any interface{} value.
type box struct {
	n   int64
	pad []byte
}

var boxed bool

func mkval(x int64) interface{} {
	if boxed {
		return box{n: x, pad: []byte{1}}
	}
	return x
}

func unval(v interface{}) (int64, bool) {
	switch x := v.(type) {
	case int64:
		return x, !boxed
	case box:
		return x.n, boxed
	}
	return 0, false
}

func apply(t *ctree.Tree, slots *[nslots]*ctree.Leaf, o Op) (res Obs) {
	defer func() {
		if r := recover(); r != nil {
			res = Obs{Kind: "panic", Msg: fmt.Sprint(r)}
		}
	}()
	visit := func(dst *[]LeafObs) ctree.VisitFunc {
		return func(path []string, _ *ctree.Leaf, val interface{}) error {
			x, ok := unval(val)
			if !ok {
				panic(fmt.Sprintf("visited a non-value %T", val))
			}
			*dst = append(*dst, LeafObs{P: cp(path), V: x})
			return nil
		}
	}
	kind := func(v interface{}, isNil bool) Obs {
		if isNil {
			return Obs{Kind: "kind", NK: "absent"}
		}
		switch x := v.(type) {
		case nil:
			return Obs{Kind: "kind", NK: "absent"}
		case int64:
			return Obs{Kind: "kind", NK: "leaf", V: x}
		case box:
			return Obs{Kind: "kind", NK: "leaf", V: x.n}
		default:
			return Obs{Kind: "kind", NK: "branch"}
		}
	}
	switch o.K {
	case "add":
		p := cp(o.P)
		err := t.Add(p, mkval(o.V))
		for i := range p { // the tree must not depend on the caller's slice afterwards
			p[i] = "scribbled"
		}
		return Obs{Kind: "add", OK: err == nil}
	case "get":
		n := t.Get(o.P)
		if n == nil {
			return Obs{Kind: "kind", NK: "absent"}
		}
		if n.IsBranch() {
			return Obs{Kind: "kind", NK: "branch"}
		}
		return kind(n.Value(), false)
	case "getleaf":
		l := t.GetLeaf(o.P)
		if l == nil {
			return Obs{Kind: "kind", NK: "absent"}
		}
		return kind(l.Value(), false)
	case "getleafvalue":
		return kind(t.GetLeafValue(o.P), false)
	case "query":
		var ls []LeafObs
		if err := t.Query(o.P, visit(&ls)); err != nil {
			panic(err)
		}
		return Obs{Kind: "leaves", Leaves: ls}
	case "walk":
		var ls []LeafObs
		if err := t.Walk(visit(&ls)); err != nil {
			panic(err)
		}
		return Obs{Kind: "leaves", Leaves: ls}
	case "walksorted":
		var ls []LeafObs
		if err := t.WalkSorted(visit(&ls)); err != nil {
			panic(err)
		}
		return Obs{Kind: "leaves", Leaves: ls}
	case "delete":
		var ps [][]string
		if o.C == "" || o.C == "all" {
			ps = t.Delete(o.P)
		} else {
			ps = t.DeleteConditional(o.P, cond(o))
		}
		out := make([][]string, len(ps))
		for i, p := range ps {
			out[i] = cp(p)
		}
		for _, p := range ps {
			for i := range p {
				p[i] = "scribbled"
			}
		}
		return Obs{Kind: "paths", Paths: out}
	case "walkdeleted":
		var vs []int64
		t.WalkDeleted(o.P, cond(o), func(v interface{}) {
			x, ok := unval(v)
			if !ok {
				panic(fmt.Sprintf("delete callback called on %T", v))
			}
			vs = append(vs, x)
		})
		return Obs{Kind: "vals", Vals: vs}
	case "children":
		m := t.Get(o.P).Children()
		if m == nil {
			return Obs{Kind: "names"}
		}
		var ns []string
		for k := range m {
			ns = append(ns, k)
		}
		sort.Strings(ns)
		for k := range m { // the returned map must be a copy: scribbling it must not change the tree
			delete(m, k)
		}
		m["scribbled"] = nil
		return Obs{Kind: "names", HasNm: true, Names: ns}
	case "isbranch":
		return Obs{Kind: "bool", B: t.Get(o.P).IsBranch()}
	case "hold":
		// keep the handle of the leaf stored at the (non-empty) path, if there is one;
		// the root node is never replaced and a handle on a branch position is KF-C09-1
		slots[o.S] = nil
		if len(o.P) == 0 {
			return Obs{Kind: "bool", B: false}
		}
		n := t.Get(o.P)
		if n == nil || n.IsBranch() || n.Value() == nil {
			return Obs{Kind: "bool", B: false}
		}
		glob := false
		for _, e := range o.P {
			if e == "*" {
				glob = true
			}
		}
		if o.Via == "query" && !glob {
			// the handle the visitor is given for exactly this leaf
			if err := t.Query(o.P, func(path []string, l *ctree.Leaf, _ interface{}) error {
				if len(path) == len(o.P) {
					slots[o.S] = l
				}
				return nil
			}); err != nil {
				panic(err)
			}
		} else {
			slots[o.S] = t.GetLeaf(o.P)
		}
		return Obs{Kind: "bool", B: slots[o.S] != nil}
	case "hupdate":
		if slots[o.S] == nil {
			return Obs{Kind: "bool", B: false}
		}
		slots[o.S].Update(mkval(o.V))
		return Obs{Kind: "bool", B: true}
	case "hvalue":
		if slots[o.S] == nil {
			return Obs{Kind: "kind", NK: "absent"}
		}
		return kind(slots[o.S].Value(), false)
	case "queryerr":
		// the visitor fails at its first call: Query must hand the error back
		// (and, C10, must not keep a lock: the operations that follow still run)
		calls := 0
		err := t.Query(o.P, func([]string, *ctree.Leaf, interface{}) error {
			calls++
			return fmt.Errorf("visitor refused")
		})
		if calls > 1 {
			panic("visitor called again after it returned an error")
		}
		return Obs{Kind: "bool", B: err != nil}
	}
	panic("unknown op " + o.K)
}

func run(ops []Op) []Obs {
	t := &ctree.Tree{}
	boxed = len(ops)%2 == 0
	var slots [nslots]*ctree.Leaf
	out := make([]Obs, len(ops))
	for i := range out {
		out[i] = Obs{Kind: "panic", Msg: "hang: the operation sequence did not return within the watchdog"}
	}
	done := make(chan struct{})
	go func() {
		defer close(done)
		for i, o := range ops {
			out2 := apply(t, &slots, o)
			out[i] = out2
		}
	}()
	select {
	case <-done:
		return out
	case <-time.After(5 * time.Second):
		// a single goroutine can only hang on a lock the tree failed to release
		snap := make([]Obs, len(out))
		copy(snap, out)
		return snap
	}
}

// ---------------------------------------------------------------------------
// Gallina

func cndTerm(o Op) string {
	switch o.C {
	case "lt":
		return "(CLt " + vh.Z(o.CK) + ")"
	case "ge":
		return "(CGe " + vh.Z(o.CK) + ")"
	}
	return "CAll"
}

func opTerm(n *vh.Names, o Op) string {
	switch o.K {
	case "hold":
		return fmt.Sprintf("HHold %d %s", o.S, n.Path(o.P))
	case "hupdate":
		return fmt.Sprintf("HUpdate %d %s", o.S, vh.Z(o.V))
	case "hvalue":
		return fmt.Sprintf("HValue %d", o.S)
	}
	return "HOp (" + treeOpTerm(n, o) + ")"
}

func treeOpTerm(n *vh.Names, o Op) string {
	switch o.K {
	case "add":
		return fmt.Sprintf("OAdd %s %s", n.Path(o.P), vh.Z(o.V))
	case "get":
		return "OGet " + n.Path(o.P)
	case "getleaf":
		return "OGetLeaf " + n.Path(o.P)
	case "getleafvalue":
		return "OGetLeafValue " + n.Path(o.P)
	case "query":
		return "OQuery " + n.Path(o.P)
	case "walk":
		return "OWalk"
	case "walksorted":
		return "OWalkSorted"
	case "delete":
		return fmt.Sprintf("ODelete %s %s", n.Path(o.P), cndTerm(o))
	case "walkdeleted":
		return fmt.Sprintf("OWalkDeleted %s %s", n.Path(o.P), cndTerm(o))
	case "children":
		return "OChildren " + n.Path(o.P)
	case "isbranch":
		return "OIsBranch " + n.Path(o.P)
	case "queryerr":
		return "OQueryErr " + n.Path(o.P)
	}
	panic("opTerm")
}

func obsTerm(n *vh.Names, r Obs) string {
	switch r.Kind {
	case "add":
		return "RAdd " + vh.Bool(r.OK)
	case "kind":
		switch r.NK {
		case "absent":
			return "RKind KAbsent"
		case "branch":
			return "RKind KBranch"
		}
		return "RKind (KLeaf " + vh.Z(r.V) + ")"
	case "leaves":
		el := make([]string, len(r.Leaves))
		for i, l := range r.Leaves {
			el[i] = fmt.Sprintf("(%s, %s)", n.Path(l.P), vh.Z(l.V))
		}
		return "RLeaves " + vh.List(el)
	case "paths":
		el := make([]string, len(r.Paths))
		for i, p := range r.Paths {
			el[i] = n.Path(p)
		}
		return "RPaths " + vh.List(el)
	case "vals":
		el := make([]string, len(r.Vals))
		for i, v := range r.Vals {
			el[i] = vh.Z(v)
		}
		return "RVals " + vh.List(el)
	case "names":
		if !r.HasNm {
			return "RNames None"
		}
		el := make([]string, len(r.Names))
		for i, s := range r.Names {
			el[i] = n.Ref(s)
		}
		return "RNames (Some " + vh.List(el) + ")"
	case "bool":
		return "RBool " + vh.Bool(r.B)
	case "panic":
		return "RPanic"
	}
	panic("obsTerm")
}

func caseTerm(n *vh.Names, c Case) string {
	el := make([]string, len(c.Ops))
	for i := range c.Ops {
		el[i] = fmt.Sprintf("(%s, %s)", opTerm(n, c.Ops[i]), obsTerm(n, c.Obs[i]))
	}
	return vh.List(el)
}

// ---------------------------------------------------------------------------
// Generators

var concrete = [][]string{{}, {"a"}, {"b"}, {"a", "b"}, {"a", "c"}, {"a", "b", "c"}, {"b", "a"}, {"*"}, {"a", "*"}}
var queries = [][]string{{}, {"*"}, {"a"}, {"a", "*"}, {"*", "b"}, {"a", "*", "c"}, {"*", "*", "*"}, {"a", "b", "c", "d"}, {"a", "b"}, {"*", "*"}, {"b", "*", "x"}}

// small alphabet for the exhaustive family
func exhaustiveAlphabet() []Op {
	var ops []Op
	adds := [][]string{{}, {"a"}, {"a", "b"}, {"a", "b", "c"}, {"b"}, {"a", "*"}}
	for i, p := range adds {
		ops = append(ops, Op{K: "add", P: p, V: int64(i + 1)})
	}
	ops = append(ops, Op{K: "add", P: []string{"a"}, V: 9})
	qs := [][]string{{}, {"*"}, {"a"}, {"a", "*"}, {"*", "b"}, {"a", "*", "c"}, {"*", "*", "*"}, {"a", "b", "c", "d"}}
	for _, q := range qs {
		ops = append(ops, Op{K: "delete", P: q})
	}
	ops = append(ops, Op{K: "delete", P: []string{"*"}, C: "lt", CK: 3})
	ops = append(ops, Op{K: "walkdeleted", P: []string{"a"}, C: "ge", CK: 2})
	for _, q := range qs {
		ops = append(ops, Op{K: "query", P: q})
	}
	return ops
}

var alphabet = []string{"a", "b", "c", "*", "long-élément/with slash"}

func randPath(r *vh.Rand, maxLen int, globW int) []string {
	n := r.Intn(maxLen + 1)
	p := make([]string, n)
	for i := range p {
		switch r.Pick(5, 4, 2, globW, 1) {
		case 0:
			p[i] = "a"
		case 1:
			p[i] = "b"
		case 2:
			p[i] = "c"
		case 3:
			p[i] = "*"
		default:
			p[i] = alphabet[4]
		}
	}
	return p
}

// orderNames: a name that is a proper prefix of another whose next byte sorts
// below '/', upper/lower case, digits of different lengths, a space, a
// multi-byte name, a literal glob as a stored name.
var orderNames = []string{"a", "a-", "a.", "a b", "a*", "aa", "A", "B", "b", "10", "9", "é", "z", "~", "a/b"}

func orderPath(r *vh.Rand, maxLen int) []string {
	n := 1 + r.Intn(maxLen)
	p := make([]string, n)
	for i := range p {
		if r.Chance(1, 2) {
			p[i] = orderNames[r.Intn(5)] // the prefix cluster a, a-, a., "a b", a*
		} else {
			p[i] = orderNames[r.Intn(len(orderNames))]
		}
	}
	return p
}

// orderCase: many siblings under few parents, then sorted walks around deletes.
func orderCase(r *vh.Rand) []Op {
	var ops []Op
	var stored [][]string
	n := 4 + r.Intn(10)
	for i := 0; i < n; i++ {
		var p []string
		if len(stored) > 0 && r.Chance(1, 2) {
			q := stored[r.Intn(len(stored))]
			p = append(cp(q[:r.Intn(len(q))]), orderPath(r, 2)...)
		} else {
			p = orderPath(r, 3)
		}
		ops = append(ops, Op{K: "add", P: p, V: int64(r.Intn(6))})
		stored = append(stored, p)
	}
	ops = append(ops, Op{K: "walksorted"})
	for i := 0; i < 1+r.Intn(3); i++ {
		q := cp(stored[r.Intn(len(stored))])
		if r.Chance(1, 2) && len(q) > 1 {
			q = q[:1+r.Intn(len(q)-1)]
		}
		o := Op{K: "delete", P: q}
		randCond(r, &o)
		ops = append(ops, o, Op{K: "walksorted"})
	}
	ops = append(ops, Op{K: "children", P: nil}, Op{K: "walk"})
	return ops
}

var deepNames = []string{"a", "b", "", "*"}

func deepPath(r *vh.Rand, n int, glob bool) []string {
	p := make([]string, n)
	for i := range p {
		k := r.Pick(6, 4, 1, 1)
		if k == 3 && !glob {
			k = 0
		}
		p[i] = deepNames[k]
	}
	return p
}

func deepCase(r *vh.Rand) []Op {
	var ops []Op
	var stored [][]string
	depth := 5 + r.Intn(20)
	base := deepPath(r, depth-1, false)
	n := 3 + r.Intn(6)
	for i := 0; i < n; i++ {
		var p []string
		switch r.Pick(3, 2, 1) {
		case 0: // sibling leaf under the same deep parent
			p = append(cp(base), deepNames[r.Intn(3)]+fmt.Sprint(i%3))
		case 1: // branch off somewhere above
			cut := 1 + r.Intn(len(base))
			p = append(cp(base[:cut]), deepPath(r, 1+r.Intn(4), false)...)
		default:
			p = deepPath(r, 1+r.Intn(depth), false)
		}
		ops = append(ops, Op{K: "add", P: p, V: int64(r.Intn(6))})
		stored = append(stored, p)
	}
	ops = append(ops, Op{K: "walksorted"})
	for i := 0; i < 2+r.Intn(3); i++ {
		q := cp(stored[r.Intn(len(stored))])
		switch r.Pick(2, 2, 2, 1) {
		case 0:
			q = q[:r.Intn(len(q)+1)]
		case 1:
			q[r.Intn(len(q))] = "*"
		case 2:
			q = append(q[:r.Intn(len(q)+1)], "*")
		}
		switch r.Pick(3, 3, 1, 1, 1) {
		case 0:
			ops = append(ops, Op{K: "query", P: q})
		case 1:
			o := Op{K: "delete", P: q}
			randCond(r, &o)
			ops = append(ops, o)
		case 2:
			ops = append(ops, Op{K: "queryerr", P: q})
		case 3:
			ops = append(ops, Op{K: "children", P: q[:r.Intn(len(q)+1)]})
		default:
			ops = append(ops, Op{K: "getleafvalue", P: q})
		}
	}
	ops = append(ops, Op{K: "walksorted"}, Op{K: "walk"})
	return ops
}

func randCond(r *vh.Rand, o *Op) {
	switch r.Pick(3, 1, 1) {
	case 1:
		o.C, o.CK = "lt", int64(r.Intn(6))
	case 2:
		o.C, o.CK = "ge", int64(r.Intn(6))
	}
}

func randCase(r *vh.Rand, maxOps int) []Op {
	n := 3 + r.Intn(maxOps-2)
	ops := make([]Op, 0, n+1)
	// known stored paths so that queries/deletes hit existing structure often
	var stored [][]string
	pick := func() []string {
		if len(stored) > 0 && r.Chance(2, 3) {
			p := cp(stored[r.Intn(len(stored))])
			// mutate: truncate, extend, or glob one element
			switch r.Pick(3, 2, 2, 3) {
			case 1:
				if len(p) > 0 {
					p = p[:r.Intn(len(p))]
				}
			case 2:
				p = append(p, randPath(r, 2, 3)...)
			case 3:
				if len(p) > 0 {
					p[r.Intn(len(p))] = "*"
				}
			}
			return p
		}
		return randPath(r, 4, 3)
	}
	for i := 0; i < n; i++ {
		switch r.Pick(30, 4, 4, 4, 12, 3, 3, 14, 6, 4, 4, 3) {
		case 0:
			var p []string
			if r.Chance(1, 4) {
				p = pick()
			} else {
				p = randPath(r, 4, 1)
			}
			ops = append(ops, Op{K: "add", P: p, V: int64(r.Intn(6))})
			stored = append(stored, p)
		case 1:
			ops = append(ops, Op{K: "get", P: pick()})
		case 2:
			ops = append(ops, Op{K: "getleaf", P: pick()})
		case 3:
			ops = append(ops, Op{K: "getleafvalue", P: pick()})
		case 4:
			ops = append(ops, Op{K: "query", P: pick()})
		case 5:
			ops = append(ops, Op{K: "walk"})
		case 6:
			ops = append(ops, Op{K: "walksorted"})
		case 7:
			o := Op{K: "delete", P: pick()}
			randCond(r, &o)
			ops = append(ops, o)
		case 8:
			o := Op{K: "walkdeleted", P: pick()}
			randCond(r, &o)
			if o.C == "" {
				o.C = "all"
			}
			ops = append(ops, o)
		case 9:
			ops = append(ops, Op{K: "children", P: pick()})
		case 10:
			ops = append(ops, Op{K: "isbranch", P: pick()})
		case 11:
			ops = append(ops, Op{K: "queryerr", P: pick()})
		}
	}
	ops = append(ops, Op{K: "walksorted"})
	return ops
}

// handleCase: leaves are added, their handles kept (through GetLeaf or through the
// Query visitor), then deletes (exact, by glob, conditional), re-adds at the same and at
// other paths -- each creating new nodes -- and updates and reads through the kept
// handles, live and detached, interleaved with lookups and sorted walks.
func handleCase(r *vh.Rand) []Op {
	names := []string{"a", "b", "c", "d"}
	path := func() []string {
		n := 1 + r.Intn(3)
		p := make([]string, n)
		for i := range p {
			p[i] = names[r.Intn(len(names))]
		}
		return p
	}
	var ops []Op
	var stored [][]string
	val := int64(1)
	nv := func() int64 { val++; return val }
	for i, n := 0, 2+r.Intn(4); i < n; i++ {
		p := path()
		ops = append(ops, Op{K: "add", P: p, V: nv()})
		stored = append(stored, p)
	}
	some := func() []string {
		if r.Chance(5, 6) {
			return cp(stored[r.Intn(len(stored))])
		}
		return path()
	}
	for i, n := 0, 6+r.Intn(24); i < n; i++ {
		switch r.Pick(5, 6, 4, 5, 5, 2, 2, 1) {
		case 0:
			o := Op{K: "hold", S: r.Intn(nslots), P: some()}
			if r.Chance(1, 3) {
				o.Via = "query"
			}
			ops = append(ops, o)
		case 1:
			ops = append(ops, Op{K: "hupdate", S: r.Intn(nslots), V: nv()})
		case 2:
			ops = append(ops, Op{K: "hvalue", S: r.Intn(nslots)})
		case 3:
			p := some()
			switch r.Pick(3, 2, 1) {
			case 1:
				if len(p) > 0 {
					p[r.Intn(len(p))] = "*"
				}
			case 2:
				p = p[:r.Intn(len(p)+1)]
			}
			o := Op{K: "delete", P: p}
			if r.Chance(1, 4) {
				randCond(r, &o)
			}
			if r.Chance(1, 4) {
				o.K = "walkdeleted"
				if o.C == "" {
					o.C = "all"
				}
			}
			ops = append(ops, o)
		case 4:
			p := some()
			ops = append(ops, Op{K: "add", P: p, V: nv()})
			stored = append(stored, p)
		case 5:
			ops = append(ops, Op{K: "getleafvalue", P: some()})
		case 6:
			ops = append(ops, Op{K: "walksorted"})
		case 7:
			ops = append(ops, Op{K: "isbranch", P: some()})
		}
	}
	for s := 0; s < nslots; s++ {
		ops = append(ops, Op{K: "hvalue", S: s})
	}
	ops = append(ops, Op{K: "walksorted"})
	return ops
}

func nontrivial(c Case) bool {
	added, hit := false, false
	for i, o := range c.Ops {
		r := c.Obs[i]
		if o.K == "add" && r.OK {
			added = true
		}
		if (o.K == "query" && len(r.Leaves) > 0) || (o.K == "delete" && len(r.Paths) > 0) || (o.K == "walkdeleted" && len(r.Vals) > 0) {
			hit = true
		}
	}
	return added && hit
}

func canonical(c Case) string {
	b, _ := json.Marshal(c.Ops)
	return string(b)
}

type emitter struct {
	dir   string
	shard int
	cf    *vh.CaseFile
	meta  *vh.Meta
	limit int
}

// hangs counts operation sequences that hit the watchdog; after a few of them the
// verdict is settled and the remaining generated cases are skipped (corpus and
// replay cases always run).
var hangs int

func (e *emitter) add(family string, ops []Op) {
	if hangs >= 3 && family != "corpus" && family != "replay" {
		e.meta.Hist("skipped-after-hangs")
		return
	}
	c := Case{Family: family, Ops: ops, Obs: run(ops)}
	if n := len(c.Obs); n > 0 && c.Obs[n-1].Kind == "panic" && strings.HasPrefix(c.Obs[n-1].Msg, "hang:") {
		hangs++
	}
	e.cf.Add(caseTerm(e.cf.Names, c), c)
	for i, o := range c.Ops {
		e.meta.Hist("op:" + o.K)
		if c.Obs[i].Kind == "add" && !c.Obs[i].OK {
			e.meta.Hist("add-rejected")
		}
		if c.Obs[i].Kind == "panic" {
			e.meta.Hist("panic")
		}
	}
	e.meta.Hist(fmt.Sprintf("len:%02d", (len(ops)/5)*5))
	e.meta.Count(family, canonical(c), nontrivial(c), map[string]interface{}{"family": family, "ops": describe(c)})
	if e.cf.Len() >= e.limit {
		e.flush()
	}
}

func describe(c Case) []string {
	out := make([]string, len(c.Ops))
	for i, o := range c.Ops {
		b, _ := json.Marshal(c.Obs[i])
		if o.K == "hold" || o.K == "hupdate" || o.K == "hvalue" {
			out[i] = fmt.Sprintf("%s[slot %d](%s %d %s) -> %s", o.K, o.S, strings.Join(o.P, "/"), o.V, o.Via, b)
			continue
		}
		out[i] = fmt.Sprintf("%s(%s) -> %s", o.K, strings.Join(o.P, "/"), b)
	}
	return out
}

func (e *emitter) flush() {
	if e.cf.Len() == 0 {
		return
	}
	if err := e.cf.Write(e.dir, e.shard, "CTree.CTreeCheck CTree.CTreeHandle", "list (hop * obs)", "hcheck_all"); err != nil {
		vh.Die("write: %v", err)
	}
	e.shard++
	e.cf = vh.NewCaseFile()
}

func main() {
	o := vh.ParseFlags()
	meta := vh.NewMeta("corpus cases; every sequence of 3 (thorough: 4) operations over a fixed alphabet of adds/deletes/queries on paths over {a,b,c,*}, each followed by WalkSorted; seeded random sequences of 3..40 operations over {a,b,c,*,long UTF-8 name} with paths of length 0..4 biased towards stored paths; an 'order' family of sibling-rich trees over names on which bytewise, joined-string, case-insensitive, numeric and length orders disagree, with sorted walks around deletes; a 'deep' family (paths of 5..24 elements over few names incl. the empty name); a 'handle' family (leaf handles taken through GetLeaf or the Query visitor, kept across exact/glob/conditional deletes and re-adds, updated and read while live and after their leaf was deleted). distinct = distinct operation sequence; non-trivial = at least one successful Add and at least one Query/Delete/WalkDeleted that selected a leaf")
	e := &emitter{dir: o.Out, cf: vh.NewCaseFile(), meta: meta, limit: 1500}

	if o.Replay != "" {
		b, err := os.ReadFile(o.Replay)
		if err != nil {
			vh.Die("replay: %v", err)
		}
		var cs []Case
		if err := json.Unmarshal(b, &cs); err != nil {
			var one Case
			if err2 := json.Unmarshal(b, &one); err2 != nil {
				vh.Die("replay: %v", err)
			}
			cs = []Case{one}
		}
		for _, c := range cs {
			e.add("replay", c.Ops)
		}
		e.flush()
		meta.Write(o.Out)
		return
	}

	// corpus first
	if dir := os.Getenv("VERIF_CORPUS"); dir != "" {
		ents, _ := os.ReadDir(dir)
		for _, en := range ents {
			if !strings.HasSuffix(en.Name(), ".json") {
				continue
			}
			b, err := os.ReadFile(dir + "/" + en.Name())
			if err != nil {
				continue
			}
			var cs []Case
			if json.Unmarshal(b, &cs) != nil {
				var one Case
				if json.Unmarshal(b, &one) != nil {
					vh.Die("corpus file %s unreadable", en.Name())
				}
				cs = []Case{one}
			}
			for _, c := range cs {
				e.add("corpus", c.Ops)
			}
		}
	}

	// exhaustive short sequences
	al := exhaustiveAlphabet()
	depth := 3
	if o.Thorough() {
		depth = 4
	}
	idx := make([]int, depth)
	var rec func(d int)
	rec = func(d int) {
		if d == depth {
			ops := make([]Op, 0, depth+1)
			for _, i := range idx {
				ops = append(ops, al[i])
			}
			ops = append(ops, Op{K: "walksorted"})
			e.add(fmt.Sprintf("exhaustive-%d", depth), ops)
			return
		}
		for i := range al {
			idx[d] = i
			rec(d + 1)
		}
	}
	rec(0)
	meta.Extra["exhaustive_alphabet_size"] = len(al)
	meta.Extra["exhaustive_depth"] = depth

	// random
	r := vh.NewRand(o.Seed)
	nrand := 2500
	if o.Thorough() {
		nrand = 40000
	}
	for i := 0; i < nrand; i++ {
		e.add("random", randCase(r.Fork(), 40))
	}
	// names chosen so that different notions of order (bytewise per element,
	// joined string, case-insensitive, numeric, by length) disagree
	nord := 500
	if o.Thorough() {
		nord = 6000
	}
	for i := 0; i < nord; i++ {
		e.add("order", orderCase(r.Fork()))
	}
	// deep trees: paths of 5..24 elements over very few names (siblings at every depth,
	// lengths around the capacities append grows through), the empty string as a name
	ndeep := 300
	if o.Thorough() {
		ndeep = 4000
	}
	for i := 0; i < ndeep; i++ {
		e.add("deep", deepCase(r.Fork()))
	}
	// leaf handles kept across deletes and re-adds
	nh := 1500
	if o.Thorough() {
		nh = 20000
	}
	for i := 0; i < nh; i++ {
		e.add("handle", handleCase(r.Fork()))
	}
	e.flush()
	meta.Exhaustive = false
	if err := meta.Write(o.Out); err != nil {
		vh.Die("meta: %v", err)
	}
}

//go:build verif

package client

import (
	gpb "github.com/openconfig/gnmi/proto/gnmi"
)

// VerifNewC12 builds a Client on top of a scripted gpb.GNMIClient (no gRPC
// connection) for the C12 verification harness (overlay file, build tag
// verif; never part of a normal build).  Close must not be called on it.
func VerifNewC12(cl gpb.GNMIClient) *Client {
	return &Client{client: cl}
}

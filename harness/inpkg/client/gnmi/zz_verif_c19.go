//go:build verif

package client

import (
	"github.com/openconfig/gnmi/client"
	gpb "github.com/openconfig/gnmi/proto/gnmi"
)

// VerifSubscribeRequest exposes the unexported query -> SubscribeRequest
// construction to the C19 verification harness (overlay file, build tag
// verif; never part of a normal build).
func VerifSubscribeRequest(q client.Query) (*gpb.SubscribeRequest, error) {
	return subscribe(q)
}

// VerifPathToString exposes pathToString.
func VerifPathToString(p client.Path) string { return pathToString(p) }

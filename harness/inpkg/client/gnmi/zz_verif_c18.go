//go:build verif

package client

import (
	gpb "github.com/openconfig/gnmi/proto/gnmi"
)

// VerifNewC18 builds a gNMI transport around a caller-supplied GNMIClient stub
// (no grpc connection; Close must not be called on it).  Overlay file for the
// C18 verification harness, build tag verif; never part of a normal build.
func VerifNewC18(cl gpb.GNMIClient) *Client { return &Client{client: cl} }

//go:build verif

package cache

import (
	pb "github.com/openconfig/gnmi/proto/gnmi"
)

// VerifJoinPrefixAndPath exposes the unexported joinPrefixAndPath to the C19
// verification harness (overlay file, build tag verif; never part of a normal
// build).
func VerifJoinPrefixAndPath(pr, ph *pb.Path) []string { return joinPrefixAndPath(pr, ph) }

//go:build verif

package ctree

import "sort"

// Verification-only helpers for the C10 harness (overlaid into the package at
// build time; nothing here is part of the repository).  All of them may only
// be called while every other goroutine using the tree is inert (parked at a
// hook, blocked in a mutex, or finished).

// VerifLock is the observed state of one node's RWMutex: Class 0 = free,
// 1 = held by readers only, 2 = held by a writer or a writer is waiting.
type VerifLock struct {
	Path  []string
	Class int
}

func (t *Tree) verifClass() int {
	if t.mu.TryLock() {
		t.mu.Unlock()
		return 0
	}
	if t.mu.TryRLock() {
		t.mu.RUnlock()
		return 1
	}
	return 2
}

// VerifLockSnapshot probes the mutex of every node reachable from t (without
// taking any lock for the traversal itself).
func (t *Tree) VerifLockSnapshot() []VerifLock {
	var out []VerifLock
	var rec func(n *Tree, pre []string)
	rec = func(n *Tree, pre []string) {
		out = append(out, VerifLock{Path: append([]string{}, pre...), Class: n.verifClass()})
		if b, ok := n.leafBranch.(branch); ok {
			names := make([]string, 0, len(b))
			for k := range b {
				names = append(names, k)
			}
			sort.Strings(names)
			for _, k := range names {
				rec(b[k], append(append([]string{}, pre...), k))
			}
		}
	}
	rec(t, nil)
	return out
}

// VerifResolve returns the node path points to without locking anything.
func (t *Tree) VerifResolve(path []string) *Leaf {
	n := t
	for _, k := range path {
		b, ok := n.leafBranch.(branch)
		if !ok {
			return nil
		}
		n = b[k]
		if n == nil {
			return nil
		}
	}
	return (*Leaf)(n)
}

// VerifUpdatePaused is Leaf.Update with a pause inside its critical section.
func (l *Leaf) VerifUpdatePaused(val interface{}, pause func()) {
	defer l.mu.Unlock()
	l.mu.Lock()
	pause()
	l.leafBranch = val
}

// VerifIsLeaf reports (without locking) whether the node holds a value.
func (l *Leaf) VerifIsLeaf() bool {
	if l.leafBranch == nil {
		return false
	}
	_, isBranch := l.leafBranch.(branch)
	return !isBranch
}

//go:build verif

package subscribe

import (
	"github.com/openconfig/gnmi/coalesce"
	"github.com/openconfig/gnmi/match"

	pb "github.com/openconfig/gnmi/proto/gnmi"
)

// VerifC06Client is a real matchClient (what Subscribe registers for a STREAM
// RPC) on a real coalescing queue.
type VerifC06Client struct {
	mc *matchClient
	Q  *coalesce.Queue
}

// VerifC06NewClient builds one the way Subscribe does.
func VerifC06NewClient() *VerifC06Client {
	q := coalesce.NewQueue()
	return &VerifC06Client{mc: &matchClient{acl: &aclStub{}, q: q}, Q: q}
}

// MatchClient is the value registered in the trie.
func (c *VerifC06Client) MatchClient() match.Client { return c.mc }

// VerifC06Match returns the server's trie.
func VerifC06Match(s *Server) *match.Match { return s.m }

// VerifC06AddSubscription calls the real addSubscription on the server's trie.
func VerifC06AddSubscription(s *Server, sl *pb.SubscriptionList, c *VerifC06Client) func() {
	return addSubscription(s.m, sl, c.mc)
}

//go:build verif

package subscribe

import "github.com/openconfig/gnmi/ctree"

// VerifC12IsTargetDelete exposes isTargetDelete (run by the per-RPC sender
// goroutine after every streamed response) to the C12 verification harness
// (overlay file, build tag verif; never part of a normal build).
func VerifC12IsTargetDelete(l *ctree.Leaf) bool { return isTargetDelete(l) }

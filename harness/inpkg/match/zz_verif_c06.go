//go:build verif

package match

// VerifC06Nodes counts the trie nodes below the root.
func VerifC06Nodes(m *Match) int {
	defer m.mu.RUnlock()
	m.mu.RLock()
	return verifC06Count(m.tree)
}

func verifC06Count(b *branch) int {
	n := 0
	for _, c := range b.children {
		n += 1 + verifC06Count(c)
	}
	return n
}

//go:build verif

package manager

import (
	gpb "github.com/openconfig/gnmi/proto/gnmi"
)

// VerifC12Handle exposes handleGNMIUpdate (what the manager does with one
// response received from a target) to the C12 verification harness (overlay
// file, build tag verif; never part of a normal build).
func VerifC12Handle(m *Manager, name string, resp *gpb.SubscribeResponse) error {
	return m.handleGNMIUpdate(name, resp)
}

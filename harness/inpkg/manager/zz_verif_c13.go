//go:build verif

package manager

import (
	"context"

	"google.golang.org/grpc"

	gpb "github.com/openconfig/gnmi/proto/gnmi"
)

// VerifSetSubscribeClient replaces the unexported stream-opening hook (the
// one manager_test.go stubs) and returns the previous value.  Verification
// harness only (build tag verif, overlay file, never part of /repo).
func VerifSetSubscribeClient(f func(ctx context.Context, conn *grpc.ClientConn) (gpb.GNMI_SubscribeClient, error)) func(ctx context.Context, conn *grpc.ClientConn) (gpb.GNMI_SubscribeClient, error) {
	old := subscribeClient
	subscribeClient = f
	return old
}

// Harness for C20: drives the real synthetic-target generator
// (testing/fake/queue UpdateQueue and testing/fake/gnmi Client.Run) with
// configurations of every value kind and writes, per case, the configuration,
// the raw Int63 tapes of rand.NewSource(seed) for the global and per-value
// seeds, and what two separately built generators emitted, as Gallina terms for
// FakeQCheck.check_all.
package main

import (
	"encoding/json"
	"flag"
	"fmt"
	"io"
	"math"
	"math/rand"
	"os"
	"sort"
	"strconv"
	"strings"
	"sync"
	"time"

	"context"

	"google.golang.org/grpc/metadata"
	"google.golang.org/protobuf/proto"

	gpb "github.com/openconfig/gnmi/proto/gnmi"
	fgnmi "github.com/openconfig/gnmi/testing/fake/gnmi"
	fpb "github.com/openconfig/gnmi/testing/fake/proto"
	"github.com/openconfig/gnmi/testing/fake/queue"
	"github.com/openconfig/gnmi/zz_verif/vh"
)

// F is a float64 that survives JSON (NaN, infinities, exact bits).
type F float64

func (f F) MarshalJSON() ([]byte, error) { return json.Marshal(fstr(float64(f))) }
func (f *F) UnmarshalJSON(b []byte) error {
	var s string
	if err := json.Unmarshal(b, &s); err != nil {
		var x float64
		if err2 := json.Unmarshal(b, &x); err2 != nil {
			return err
		}
		*f = F(x)
		return nil
	}
	x, err := strconv.ParseFloat(s, 64)
	if err != nil {
		return err
	}
	*f = F(x)
	return nil
}

func fstr(x float64) string {
	switch {
	case math.IsNaN(x):
		return "NaN"
	case math.IsInf(x, 1):
		return "+Inf"
	case math.IsInf(x, -1):
		return "-Inf"
	}
	return strconv.FormatFloat(x, 'x', -1, 64)
}

func fcoq(x float64) string {
	switch {
	case math.IsNaN(x):
		return "nan"
	case math.IsInf(x, 1):
		return "infinity"
	case math.IsInf(x, -1):
		return "neg_infinity"
	}
	return "(" + strconv.FormatFloat(x, 'x', -1, 64) + ")%float"
}

// Val is one configured fake.Value.  K: int uint double string strlist bool
// sync delete unset.  D: none range list.
type Val struct {
	K      string   `json:"k"`
	NoTS   bool     `json:"no_ts,omitempty"` // Timestamp message absent
	T      int64    `json:"t"`
	TMin   int64    `json:"tmin"`
	TMax   int64    `json:"tmax"`
	Repeat int32    `json:"repeat"`
	Seed   int64    `json:"seed,omitempty"`
	D      string   `json:"d,omitempty"`
	I      int64    `json:"i,omitempty"`
	U      uint64   `json:"u,omitempty"`
	Fl     F        `json:"f"`
	S      string   `json:"s,omitempty"`
	SL     []string `json:"sl,omitempty"`
	B      bool     `json:"b,omitempty"`
	Sync   uint64   `json:"sync,omitempty"`
	IMin   int64    `json:"imin,omitempty"`
	IMax   int64    `json:"imax,omitempty"`
	UMin   uint64   `json:"umin,omitempty"`
	UMax   uint64   `json:"umax,omitempty"`
	IDMin  int64    `json:"idmin,omitempty"`
	IDMax  int64    `json:"idmax,omitempty"`
	FMin   F        `json:"fmin"`
	FMax   F        `json:"fmax"`
	FDMin  F        `json:"fdmin"`
	FDMax  F        `json:"fdmax"`
	IOpts  []int64  `json:"iopts,omitempty"`
	UOpts  []uint64 `json:"uopts,omitempty"`
	FOpts  []F      `json:"fopts,omitempty"`
	SOpts  []string `json:"sopts,omitempty"`
	BOpts  []bool   `json:"bopts,omitempty"`
	Random bool     `json:"random,omitempty"`
}

// Obs is one projected observation.  Kind: emit upd del sync end.
type Obs struct {
	Kind string   `json:"kind"`
	ID   int      `json:"id,omitempty"`
	TS   int64    `json:"ts,omitempty"`
	Rep  int32    `json:"rep,omitempty"`
	VK   string   `json:"vk,omitempty"` // int uint double string strlist bool sync delete unset
	I    int64    `json:"i,omitempty"`
	U    uint64   `json:"u,omitempty"`
	Fl   F        `json:"f"`
	S    string   `json:"s,omitempty"`
	SL   []string `json:"sl,omitempty"`
	B    bool     `json:"b,omitempty"`
	End  string   `json:"end,omitempty"` // done err panic hang
	Msg  string   `json:"msg,omitempty"`
}

// Case is what is written to cases_k.json and read back for replay.  Ops are
// the configured values (the generic shrinker deletes elements of "ops").
type Case struct {
	Family string `json:"family"`
	Client bool   `json:"client"`
	Seed   int64  `json:"seed"`
	NoSync bool   `json:"nosync"`
	Steps  int    `json:"steps"`
	Ops    []Val  `json:"ops"`
	Obs    []Obs  `json:"obs,omitempty"`
	Obs2   []Obs  `json:"obs2,omitempty"`
	Draws  []Draw `json:"draws,omitempty"`
	Late   *Val   `json:"late,omitempty"` // queue family: UpdateQueue.Add(Late) after LateAt Next calls
	LateAt int    `json:"late_at,omitempty"`
	Delay  bool   `json:"delay,omitempty"` // delay / enable_delay on (timestamps are nanoseconds apart)
	Conc   bool   `json:"conc,omitempty"`  // queue family: also drained by four goroutines at once
	Tgt    bool   `json:"tgt,omitempty"`   // fixed family: every other generator subscribes with a prefix target
	Poll   bool   `json:"poll,omitempty"`  // client family in POLL mode: two passes from one Client/config
	Fixed  []Obs  `json:"fixed,omitempty"` // family fixed: backing array of configured responses
	Ks     []int  `json:"ks,omitempty"`    // family fixed: prefix length of each generator, in order
}

// Draw is one direct call on a real rand.Rand (family "draws").  F: int63n intn float64.
type Draw struct {
	F string `json:"f"`
	N int64  `json:"n,omitempty"`
	R int64  `json:"r"`
}

func runDraws(c *Case) {
	r := rand.New(rand.NewSource(c.Seed))
	for i := range c.Draws {
		d := &c.Draws[i]
		switch d.F {
		case "int63n":
			d.R = r.Int63n(d.N)
		case "intn":
			d.R = int64(r.Intn(int(d.N)))
		case "float64":
			d.R = int64(r.Float64() * (1 << 63))
		}
	}
}

func drawsTerm(ds []Draw) string {
	el := make([]string, len(ds))
	for i, d := range ds {
		switch d.F {
		case "int63n":
			el[i] = fmt.Sprintf("DInt63n %d %d", d.N, d.R)
		case "intn":
			el[i] = fmt.Sprintf("DIntn %d %d", d.N, d.R)
		default:
			el[i] = fmt.Sprintf("DFloat %d", d.R)
		}
	}
	return vh.List(el)
}

func randDraws(r *vh.Rand) Case {
	c := Case{Family: "draws", NoSync: true, Seed: int64(r.U64()>>1) | 1}
	for k := 6 + r.Intn(10); k > 0; k-- {
		switch r.Pick(4, 3, 3, 2, 2) {
		case 0: // Int63n with about one rejection in two
			c.Draws = append(c.Draws, Draw{F: "int63n", N: (int64(1) << 62) + 1 + int64(r.U64()%(1<<uint(1+r.Intn(60))))})
		case 1: // Intn below 2^31 (Int31n), about one rejection in two
			c.Draws = append(c.Draws, Draw{F: "intn", N: (int64(1) << 30) + 1 + int64(r.U64()%(1<<uint(1+r.Intn(29))))})
		case 2: // powers of two and small moduli
			n := int64(1) << uint(r.Intn(62))
			if r.Chance(1, 2) {
				n = int64(1 + r.Intn(1000))
			}
			f := "int63n"
			if n < (1<<31) && r.Chance(1, 2) {
				f = "intn"
			}
			c.Draws = append(c.Draws, Draw{F: f, N: n})
		case 3: // Intn above 2^31 goes through Int63n
			c.Draws = append(c.Draws, Draw{F: "intn", N: (int64(1) << 31) + int64(r.U64()%(1<<40))})
		case 4:
			c.Draws = append(c.Draws, Draw{F: "float64"})
		}
	}
	return c
}

// ---------------------------------------------------------------------------
// building the real configuration

func pathOf(i int) []string { return []string{"v" + strconv.Itoa(i)} }

func idOf(p []string, n int) int {
	if len(p) == 1 && strings.HasPrefix(p[0], "v") {
		if i, err := strconv.Atoi(p[0][1:]); err == nil {
			return i
		}
	}
	return n
}

func f64s(fs []F) []float64 {
	out := make([]float64, len(fs))
	for i, f := range fs {
		out[i] = float64(f)
	}
	return out
}

func build(i int, v Val) *fpb.Value {
	pv := &fpb.Value{Path: pathOf(i), Repeat: v.Repeat, Seed: v.Seed}
	if !v.NoTS {
		pv.Timestamp = &fpb.Timestamp{Timestamp: v.T, DeltaMin: v.TMin, DeltaMax: v.TMax}
	}
	cp := func(s []string) []string { return append([]string{}, s...) }
	switch v.K {
	case "int":
		iv := &fpb.IntValue{Value: v.I}
		switch v.D {
		case "range":
			iv.Distribution = &fpb.IntValue_Range{Range: &fpb.IntRange{Minimum: v.IMin, Maximum: v.IMax, DeltaMin: v.IDMin, DeltaMax: v.IDMax}}
		case "list":
			iv.Distribution = &fpb.IntValue_List{List: &fpb.IntList{Options: append([]int64{}, v.IOpts...), Random: v.Random}}
		}
		pv.Value = &fpb.Value_IntValue{IntValue: iv}
	case "uint":
		uv := &fpb.UintValue{Value: v.U}
		switch v.D {
		case "range":
			uv.Distribution = &fpb.UintValue_Range{Range: &fpb.UintRange{Minimum: v.UMin, Maximum: v.UMax, DeltaMin: v.IDMin, DeltaMax: v.IDMax}}
		case "list":
			uv.Distribution = &fpb.UintValue_List{List: &fpb.UintList{Options: append([]uint64{}, v.UOpts...), Random: v.Random}}
		}
		pv.Value = &fpb.Value_UintValue{UintValue: uv}
	case "double":
		dv := &fpb.DoubleValue{Value: float64(v.Fl)}
		switch v.D {
		case "range":
			dv.Distribution = &fpb.DoubleValue_Range{Range: &fpb.DoubleRange{Minimum: float64(v.FMin), Maximum: float64(v.FMax), DeltaMin: float64(v.FDMin), DeltaMax: float64(v.FDMax)}}
		case "list":
			dv.Distribution = &fpb.DoubleValue_List{List: &fpb.DoubleList{Options: f64s(v.FOpts), Random: v.Random}}
		}
		pv.Value = &fpb.Value_DoubleValue{DoubleValue: dv}
	case "string":
		sv := &fpb.StringValue{Value: v.S}
		if v.D == "list" {
			sv.Distribution = &fpb.StringValue_List{List: &fpb.StringList{Options: cp(v.SOpts), Random: v.Random}}
		}
		pv.Value = &fpb.Value_StringValue{StringValue: sv}
	case "strlist":
		sv := &fpb.StringListValue{Value: cp(v.SL)}
		if v.D == "list" {
			sv.Distribution = &fpb.StringListValue_List{List: &fpb.StringList{Options: cp(v.SOpts), Random: v.Random}}
		}
		pv.Value = &fpb.Value_StringListValue{StringListValue: sv}
	case "bool":
		bv := &fpb.BoolValue{Value: v.B}
		if v.D == "list" {
			bv.Distribution = &fpb.BoolValue_List{List: &fpb.BoolList{Options: append([]bool{}, v.BOpts...), Random: v.Random}}
		}
		pv.Value = &fpb.Value_BoolValue{BoolValue: bv}
	case "sync":
		pv.Value = &fpb.Value_Sync{Sync: v.Sync}
	case "delete":
		pv.Value = &fpb.Value_Delete{Delete: &fpb.DeleteValue{}}
	case "unset":
	default:
		panic("unknown kind " + v.K)
	}
	return pv
}

func buildAll(vs []Val) []*fpb.Value {
	out := make([]*fpb.Value, len(vs))
	for i, v := range vs {
		out[i] = build(i, v)
	}
	return out
}

// ---------------------------------------------------------------------------
// projection

func projVal(o *Obs, v *fpb.Value) {
	switch x := v.GetValue().(type) {
	case *fpb.Value_IntValue:
		o.VK, o.I = "int", x.IntValue.GetValue()
	case *fpb.Value_UintValue:
		o.VK, o.U = "uint", x.UintValue.GetValue()
	case *fpb.Value_DoubleValue:
		o.VK, o.Fl = "double", F(x.DoubleValue.GetValue())
	case *fpb.Value_StringValue:
		o.VK, o.S = "string", x.StringValue.GetValue()
	case *fpb.Value_StringListValue:
		o.VK, o.SL = "strlist", append([]string{}, x.StringListValue.GetValue()...)
	case *fpb.Value_BoolValue:
		o.VK, o.B = "bool", x.BoolValue.GetValue()
	case *fpb.Value_Sync:
		o.VK, o.U = "sync", x.Sync
	case *fpb.Value_Delete:
		o.VK = "delete"
	default:
		o.VK = "unset"
	}
}

func emitObs(v *fpb.Value, n int) Obs {
	o := Obs{Kind: "emit", ID: idOf(v.Path, n), Rep: v.Repeat}
	if v.Timestamp != nil {
		o.TS = v.Timestamp.Timestamp
	}
	projVal(&o, v)
	return o
}

func newQueue(c Case, vals []*fpb.Value) *queue.UpdateQueue {
	q := queue.New(c.Delay, c.Seed, vals)
	if !c.NoSync {
		q.Add(&fpb.Value{
			Timestamp: &fpb.Timestamp{Timestamp: q.Latest()},
			Repeat:    1,
			Value:     &fpb.Value_Sync{Sync: uint64(1)},
		})
	}
	return q
}

// runQueue does what fake/gnmi/client.go reset does, with the queue API, and
// calls Next up to steps times (with one Add in between if the case has a late
// value); then Latest(); after an exhausted queue two more Next calls must
// still say "exhausted".
func runQueue(c Case, vals []*fpb.Value) (out []Obs) {
	var q *queue.UpdateQueue
	end := Obs{}
	defer func() {
		if r := recover(); r != nil {
			end = Obs{Kind: "end", End: "panic", Msg: fmt.Sprint(r)}
		}
		if q != nil {
			out = append(out, Obs{Kind: "latest", TS: q.Latest()})
		}
		if end.Kind != "" {
			out = append(out, end)
		}
	}()
	n := len(c.Ops)
	q = newQueue(c, vals)
	for i := 0; i < c.Steps; i++ {
		if c.Late != nil && i == c.LateAt {
			q.Add(build(n+1, *c.Late))
		}
		x, err := q.Next()
		if err != nil {
			end = Obs{Kind: "end", End: "err", Msg: "error"}
			return out
		}
		if x == nil {
			end = Obs{Kind: "end", End: "done"}
			for k := 0; k < 2; k++ {
				if y, err2 := q.Next(); y != nil || err2 != nil {
					end = Obs{Kind: "end", End: "panic", Msg: "Next returned something after the queue was exhausted"}
				}
			}
			return out
		}
		v, ok := x.(*fpb.Value)
		if !ok || v == nil {
			end = Obs{Kind: "end", End: "panic", Msg: fmt.Sprintf("Next returned %T", x)}
			return out
		}
		out = append(out, emitObs(v, n))
	}
	return out
}

// drainConcurrently: four goroutines call Next on one queue until it is
// exhausted; returns the emitted values in a canonical order.
func drainConcurrently(c Case, vals []*fpb.Value) []Obs {
	q := newQueue(c, vals)
	n := len(c.Ops)
	var mu sync.Mutex
	var got []Obs
	var wg sync.WaitGroup
	for g := 0; g < 4; g++ {
		wg.Add(1)
		go func() {
			defer wg.Done()
			defer func() {
				if r := recover(); r != nil {
					mu.Lock()
					got = append(got, Obs{Kind: "end", End: "panic", Msg: fmt.Sprint(r)})
					mu.Unlock()
				}
			}()
			for k := 0; k < 200; k++ {
				x, err := q.Next()
				if err != nil || x == nil {
					return
				}
				o := emitObs(x.(*fpb.Value), n)
				mu.Lock()
				got = append(got, o)
				mu.Unlock()
			}
		}()
	}
	wg.Wait()
	return canon(got)
}

func canon(os []Obs) []Obs {
	out := []Obs{}
	for _, o := range os {
		if o.Kind == "emit" || (o.Kind == "end" && o.End == "panic") {
			out = append(out, o)
		}
	}
	key := func(o Obs) string { b, _ := json.Marshal(o); return fmt.Sprintf("%020d|%s", uint64(o.TS)+(1<<63), b) }
	sort.Slice(out, func(i, j int) bool { return key(out[i]) < key(out[j]) })
	return out
}

// stub stream for Client.Run: one SubscribeRequest, then EOF; Send accepts
// `limit` responses and then fails.
type stream struct {
	recvs int
	limit int
	n     int
	mu    sync.Mutex
	out   []Obs
	// POLL mode: pass is the number of responses of one pass; sent is signalled
	// after every Send; cl is closed before the last Poll so that Run returns.
	tgt  string // subscription prefix target ("" = none)
	bad  string // a response whose prefix target is not what the subscription asked for
	poll bool
	pass int
	sent chan struct{}
	cl   *fgnmi.Client
}

func (s *stream) count() int {
	s.mu.Lock()
	defer s.mu.Unlock()
	return len(s.out)
}

// waitFor returns when k responses have been sent, or when nothing has been
// sent for half a second (the sender is then parked; a clean tree sends the
// next pass within microseconds of the Poll).
func (s *stream) waitFor(k int) {
	deadline := time.After(10 * time.Second)
	last, idle := s.count(), time.Now()
	for last < k {
		select {
		case <-s.sent:
		case <-time.After(5 * time.Millisecond):
		case <-deadline:
			return
		}
		if n := s.count(); n != last {
			last, idle = n, time.Now()
		} else if time.Since(idle) > 500*time.Millisecond {
			return
		}
	}
}

func (s *stream) Recv() (*gpb.SubscribeRequest, error) {
	s.recvs++
	if s.recvs == 1 {
		sl := &gpb.SubscriptionList{}
		if s.tgt != "" {
			sl.Prefix = &gpb.Path{Target: s.tgt}
		}
		if s.poll {
			sl.Mode = gpb.SubscriptionList_POLL
		}
		return &gpb.SubscribeRequest{Request: &gpb.SubscribeRequest_Subscribe{Subscribe: sl}}, nil
	}
	if s.poll && s.recvs == 2 {
		s.waitFor(s.pass) // first pass delivered
		return &gpb.SubscribeRequest{Request: &gpb.SubscribeRequest_Poll{Poll: &gpb.Poll{}}}, nil
	}
	if s.poll && s.recvs == 3 {
		s.waitFor(2 * s.pass) // second pass delivered
		time.Sleep(2 * time.Millisecond)
		s.cl.Close() // the Poll below makes the sender look at the queue again and stop
		return &gpb.SubscribeRequest{Request: &gpb.SubscribeRequest_Poll{Poll: &gpb.Poll{}}}, nil
	}
	return nil, io.EOF
}

func (s *stream) Send(r *gpb.SubscribeResponse) error {
	s.mu.Lock()
	defer func() {
		s.mu.Unlock()
		if s.sent != nil {
			select {
			case s.sent <- struct{}{}:
			default:
			}
		}
	}()
	if len(s.out) >= s.limit {
		return fmt.Errorf("stub stream closed")
	}
	switch x := r.Response.(type) {
	case *gpb.SubscribeResponse_SyncResponse:
		s.out = append(s.out, Obs{Kind: "sync", B: x.SyncResponse})
	case *gpb.SubscribeResponse_Update:
		u := x.Update
		if got := u.GetPrefix().GetTarget(); got != s.tgt {
			s.bad = fmt.Sprintf("prefix target %q, subscription asked for %q", got, s.tgt)
		}
		switch {
		case len(u.Delete) == 1 && len(u.Update) == 0:
			s.out = append(s.out, Obs{Kind: "del", ID: idOf(u.Delete[0].GetElement(), s.n), TS: u.Timestamp})
		case len(u.Update) == 1 && len(u.Delete) == 0:
			o := Obs{Kind: "upd", ID: idOf(u.Update[0].GetPath().GetElement(), s.n), TS: u.Timestamp}
			switch tv := u.Update[0].GetVal().GetValue().(type) {
			case *gpb.TypedValue_IntVal:
				o.VK, o.I = "int", tv.IntVal
			case *gpb.TypedValue_UintVal:
				o.VK, o.U = "uint", tv.UintVal
			case *gpb.TypedValue_DoubleVal:
				o.VK, o.Fl = "double", F(tv.DoubleVal)
			case *gpb.TypedValue_StringVal:
				o.VK, o.S = "string", tv.StringVal
			case *gpb.TypedValue_BoolVal:
				o.VK, o.B = "bool", tv.BoolVal
			case *gpb.TypedValue_LeaflistVal:
				o.VK = "strlist"
				for _, e := range tv.LeaflistVal.GetElement() {
					o.SL = append(o.SL, e.GetStringVal())
				}
			default:
				o.VK = "unset"
			}
			s.out = append(s.out, o)
		default:
			s.out = append(s.out, Obs{Kind: "end", End: "panic", Msg: "malformed notification"})
		}
	default:
		s.out = append(s.out, Obs{Kind: "end", End: "panic", Msg: "unknown response"})
	}
	return nil
}
func (s *stream) SetHeader(metadata.MD) error  { return nil }
func (s *stream) SendHeader(metadata.MD) error { return nil }
func (s *stream) SetTrailer(metadata.MD)       {}
func (s *stream) Context() context.Context     { return context.Background() }
func (s *stream) SendMsg(interface{}) error    { return nil }
func (s *stream) RecvMsg(interface{}) error    { return nil }

// runClient runs the real fake-agent client on the stub stream; cfg is used
// as it is (the same object for every generator of a case).
func runClient(c Case, cfg *fpb.Config) (out []Obs) { return runClientT(c, cfg, "") }

func runClientT(c Case, cfg *fpb.Config, tgt string) (out []Obs) {
	st := &stream{limit: c.Steps, n: len(c.Ops), tgt: tgt}
	defer func() {
		if st.bad != "" {
			out = append(out, Obs{Kind: "end", End: "hang", Msg: st.bad})
		}
	}()
	defer func() {
		if r := recover(); r != nil {
			out = append(st.out, Obs{Kind: "end", End: "panic", Msg: fmt.Sprint(r)})
		}
	}()
	cl := fgnmi.NewClient(cfg)
	_ = cl.Run(st)
	if len(st.out) < c.Steps {
		return append(st.out, Obs{Kind: "end", End: "done"})
	}
	return st.out
}

// runPoll: one Client in POLL mode; pass responses, a Poll, pass responses
// again (client.go recv calls reset on the SAME configuration), then a last
// Poll after Close so that Run returns.  Returns the two passes.
func runPoll(c Case, cfg *fpb.Config, pass int) (p1, p2 []Obs) {
	st := &stream{limit: 2*pass + 4, n: len(c.Ops), poll: true, pass: pass, sent: make(chan struct{}, 1)}
	defer func() {
		if r := recover(); r != nil {
			p1 = append(st.out, Obs{Kind: "end", End: "panic", Msg: fmt.Sprint(r)})
		}
	}()
	cl := fgnmi.NewClient(cfg)
	st.cl = cl
	_ = cl.Run(st)
	out := st.out
	done := Obs{Kind: "end", End: "done"}
	if len(out) < 2*pass {
		return append(append([]Obs{}, out...), done), []Obs{{Kind: "end", End: "hang", Msg: "second pass incomplete"}}
	}
	p1 = append(append([]Obs{}, out[:pass]...), done)
	p2 = append(append([]Obs{}, out[pass:2*pass]...), done)
	if len(out) > 2*pass {
		p2 = append(p2, out[2*pass:]...) // a third pass must not start
	}
	return p1, p2
}

var pollHangs int

// guarded runs f under a watchdog.  After three hangs the tree evidently
// hangs often; later cases then get one second instead of twenty, so that the
// harness still finishes (a hang is an observation, not a harness failure).
var hangs int

func guarded(f func() []Obs) []Obs {
	ch := make(chan []Obs, 1)
	go func() { ch <- f() }()
	limit := 20 * time.Second
	if hangs >= 3 {
		limit = time.Second
	}
	select {
	case o := <-ch:
		return o
	case <-time.After(limit):
		hangs++
		return []Obs{{Kind: "end", End: "hang"}}
	}
}

func sameObs(a, b []Obs) bool {
	x, _ := json.Marshal(a)
	y, _ := json.Marshal(b)
	return string(x) == string(y)
}

// pick returns the first sequence that differs from seqs[0], else seqs[1].
func pick(seqs [][]Obs) []Obs {
	for _, s := range seqs[1:] {
		if !sameObs(seqs[0], s) {
			return s
		}
	}
	return seqs[1]
}

func normTS(v *fpb.Value) *fpb.Value {
	w := proto.Clone(v).(*fpb.Value)
	if w.Timestamp == nil {
		w.Timestamp = &fpb.Timestamp{} // addValue installs an empty Timestamp; same meaning
	}
	return w
}

// observe drives the real code for one case.  Every generator of a case is
// built from the SAME configuration object (never cloned in between): three in
// the queue and client families, a STREAM run and a two-pass POLL run in the
// poll family, the listed prefixes in the fixed family.
func observe(c *Case) (mutated bool) {
	switch {
	case c.Fixed != nil:
		observeFixed(c)
		return false
	}
	vals := buildAll(c.Ops)
	before := make([]*fpb.Value, len(vals))
	for i, v := range vals {
		before[i] = normTS(v)
	}
	cfg := &fpb.Config{Target: "t", Seed: c.Seed, Values: vals, DisableSync: c.NoSync, EnableDelay: c.Delay}
	var seqs [][]Obs
	switch {
	case c.Poll && pollHangs >= 3:
		// the second pass never arrives on this tree; three witnesses are enough
		c.Poll = false
		c.Family = "client"
		return observe(c)
	case c.Poll:
		qs := guarded(func() []Obs { return runQueue(*c, vals) })
		ok := len(qs) > 0 && qs[len(qs)-1].Kind == "end" && qs[len(qs)-1].End == "done"
		for _, o := range qs {
			if o.VK == "unset" {
				ok = false
			}
		}
		if !ok { // not a finite error-free configuration: ordinary client case
			c.Poll = false
			c.Family = "client"
			return observe(c)
		}
		pass := 0
		for _, o := range qs {
			if o.Kind == "emit" {
				pass++
			}
		}
		s0 := guarded(func() []Obs { return runClient(*c, cfg) })
		var p1, p2 []Obs
		r := guarded(func() []Obs { p1, p2 = runPoll(*c, cfg, pass); return nil })
		if r != nil {
			p1, p2 = r, r
		}
		if len(p2) > 0 && p2[len(p2)-1].End == "hang" {
			pollHangs++
		}
		seqs = [][]Obs{p1, p2, s0}
	case c.Client:
		for i := 0; i < 3; i++ {
			seqs = append(seqs, guarded(func() []Obs { return runClient(*c, cfg) }))
		}
	default:
		for i := 0; i < 3; i++ {
			seqs = append(seqs, guarded(func() []Obs { return runQueue(*c, vals) }))
		}
		if c.Conc {
			last := seqs[0][len(seqs[0])-1]
			if last.Kind == "end" && last.End == "done" { // finite and error-free
				par := guarded(func() []Obs { return drainConcurrently(*c, vals) })
				if !sameObs(par, canon(seqs[0])) {
					seqs = append(seqs, append(par, Obs{Kind: "end", End: "hang", Msg: "concurrent drain differs from the sequential one"}))
				}
			}
		}
	}
	c.Obs, c.Obs2 = seqs[0], pick(seqs)
	for i, v := range vals {
		if !proto.Equal(before[i], normTS(v)) {
			mutated = true
		}
	}
	if mutated { // a generator changed the caller's configuration
		c.Obs2 = append(append([]Obs{}, c.Obs2...), Obs{Kind: "end", End: "hang", Msg: "configuration mutated"})
	}
	return mutated
}

func respOf(o Obs, n int) *gpb.SubscribeResponse {
	switch o.Kind {
	case "sync":
		return &gpb.SubscribeResponse{Response: &gpb.SubscribeResponse_SyncResponse{SyncResponse: o.B}}
	case "del":
		return &gpb.SubscribeResponse{Response: &gpb.SubscribeResponse_Update{Update: &gpb.Notification{
			Timestamp: o.TS, Delete: []*gpb.Path{{Element: pathOf(o.ID)}}}}}
	}
	return &gpb.SubscribeResponse{Response: &gpb.SubscribeResponse_Update{Update: &gpb.Notification{
		Timestamp: o.TS, Update: []*gpb.Update{{Path: &gpb.Path{Element: pathOf(o.ID)},
			Val: &gpb.TypedValue{Value: &gpb.TypedValue_IntVal{IntVal: o.I}}}}}}}
}

// observeFixed: one backing array of responses; generator i is built from the
// configuration whose Responses slice is backing[:Ks[i]] (one *fpb.Config per
// distinct prefix length, reused).  Obs = first generator, Obs2 = last one.
func observeFixed(c *Case) {
	backing := make([]*gpb.SubscribeResponse, len(c.Fixed))
	for i, o := range c.Fixed {
		backing[i] = respOf(o, len(c.Fixed))
	}
	before := make([]*gpb.SubscribeResponse, len(backing))
	for i, r := range backing {
		before[i] = proto.Clone(r).(*gpb.SubscribeResponse)
	}
	cfgs := map[int]*fpb.Config{}
	var seqs [][]Obs
	for gi, k := range c.Ks {
		if k > len(backing) {
			k = len(backing)
		}
		cfg := cfgs[k]
		if cfg == nil {
			cfg = &fpb.Config{Target: "t", DisableSync: c.NoSync, EnableDelay: c.Delay,
				Generator: &fpb.Config_Fixed{Fixed: &fpb.FixedGenerator{Responses: backing[:k]}}}
			cfgs[k] = cfg
		}
		cc := *c
		cc.Ops = make([]Val, len(c.Fixed)) // ids of the responses
		tgt := ""
		if c.Tgt && gi%2 == 0 && gi != len(c.Ks)-1 {
			tgt = "tg" // the LAST generator never asks for a target: nothing may linger
		}
		seqs = append(seqs, guarded(func() []Obs { return runClientT(cc, cfg, tgt) }))
	}
	for i, r := range backing {
		if !proto.Equal(before[i], r) {
			last := len(seqs) - 1
			seqs[last] = append(seqs[last], Obs{Kind: "end", End: "hang", Msg: fmt.Sprintf("configured response %d was modified", i)})
			break
		}
	}
	c.Obs, c.Obs2 = seqs[0], seqs[len(seqs)-1]
}

// ---------------------------------------------------------------------------
// tapes

func wide(v Val) bool {
	const lim = int64(1) << 40
	w := func(a, b int64) bool { d := b - a; return d < 0 || d >= lim }
	if w(v.TMin, v.TMax) {
		return true
	}
	if v.D == "range" {
		switch v.K {
		case "int":
			return w(v.IMin, v.IMax) || w(v.IDMin, v.IDMax)
		case "uint":
			return w(int64(v.UMin), int64(v.UMax)) || w(v.IDMin, v.IDMax)
		}
	}
	return false
}

// draws per emission of v (without rejections)
func perStep(v Val) int {
	n := 1
	switch v.D {
	case "range":
		n++
	case "list":
		if v.Random {
			if v.K == "strlist" {
				n += len(v.SOpts) + 1
			} else {
				n++
			}
		}
	}
	return n
}

func countOf(obs []Obs, i int, isSync bool) int {
	k := 0
	for _, o := range obs {
		switch o.Kind {
		case "emit", "upd", "del":
			if o.ID == i {
				k++
			}
		case "sync":
			if isSync {
				k++
			}
		}
	}
	return k
}

func need(c Case, i int) int {
	v := c.Ops[i]
	k := countOf(c.Obs, i, v.K == "sync")
	if k2 := countOf(c.Obs2, i, v.K == "sync"); k2 > k {
		k = k2
	}
	n := (k + 1) * perStep(v)
	if wide(v) {
		return 3*n + 80
	}
	return n + 6
}

func tapeOf(seed int64, n int) []int64 {
	src := rand.NewSource(seed)
	out := make([]int64, n)
	for i := range out {
		out[i] = src.Int63()
	}
	return out
}

// ---------------------------------------------------------------------------
// Gallina

func zs(xs []int64) string {
	el := make([]string, len(xs))
	for i, x := range xs {
		el[i] = strconv.FormatInt(x, 10)
	}
	return "(tz [" + strings.Join(el, "; ") + "]%uint63)"
}

func zlit(x int64) string {
	if x < 0 {
		return "(" + strconv.FormatInt(x, 10) + ")"
	}
	return strconv.FormatInt(x, 10)
}
func ulit(x uint64) string { return strconv.FormatUint(x, 10) }

func kindTerm(n *vh.Names, v Val) string {
	lst := func(el []string) string { return "[" + strings.Join(el, "; ") + "]" }
	switch v.K {
	case "int", "uint":
		var d string
		switch v.D {
		case "range":
			if v.K == "int" {
				d = fmt.Sprintf("(NRange %s %s %s %s)", zlit(v.IMin), zlit(v.IMax), zlit(v.IDMin), zlit(v.IDMax))
			} else {
				d = fmt.Sprintf("(NRange %s %s %s %s)", ulit(v.UMin), ulit(v.UMax), zlit(v.IDMin), zlit(v.IDMax))
			}
		case "list":
			var el []string
			if v.K == "int" {
				for _, x := range v.IOpts {
					el = append(el, zlit(x))
				}
			} else {
				for _, x := range v.UOpts {
					el = append(el, ulit(x))
				}
			}
			d = fmt.Sprintf("(NList %s %s)", lst(el), vh.Bool(v.Random))
		default:
			d = "NNone"
		}
		if v.K == "int" {
			return fmt.Sprintf("(KInt %s %s)", zlit(v.I), d)
		}
		return fmt.Sprintf("(KUint %s %s)", ulit(v.U), d)
	case "double":
		var d string
		switch v.D {
		case "range":
			d = fmt.Sprintf("(DRange %s %s %s %s)", fcoq(float64(v.FMin)), fcoq(float64(v.FMax)), fcoq(float64(v.FDMin)), fcoq(float64(v.FDMax)))
		case "list":
			var el []string
			for _, x := range v.FOpts {
				el = append(el, fcoq(float64(x)))
			}
			d = fmt.Sprintf("(DList %s %s)", lst(el), vh.Bool(v.Random))
		default:
			d = "DNone"
		}
		return fmt.Sprintf("(KDouble %s %s)", fcoq(float64(v.Fl)), d)
	case "string", "strlist":
		d := "LNone"
		if v.D == "list" {
			d = fmt.Sprintf("(LList %s %s)", n.Path(v.SOpts), vh.Bool(v.Random))
		}
		if v.K == "string" {
			return fmt.Sprintf("(KString %s %s)", n.Ref(v.S), d)
		}
		return fmt.Sprintf("(KStrList %s %s)", n.Path(v.SL), d)
	case "bool":
		d := "LNone"
		if v.D == "list" {
			var el []string
			for _, b := range v.BOpts {
				el = append(el, vh.Bool(b))
			}
			d = fmt.Sprintf("(LList %s %s)", lst(el), vh.Bool(v.Random))
		}
		return fmt.Sprintf("(KBool %s %s)", vh.Bool(v.B), d)
	case "sync":
		return fmt.Sprintf("(KSync %s)", ulit(v.Sync))
	case "delete":
		return "KDelete"
	}
	return "KUnset"
}

func valTerm(n *vh.Names, c Case, i int) string {
	v := c.Ops[i]
	own := "None"
	if v.Seed != 0 {
		own = "(Some " + zs(tapeOf(v.Seed, need(c, i))) + ")"
	}
	t, mn, mx := v.T, v.TMin, v.TMax
	if v.NoTS {
		t, mn, mx = 0, 0, 0
	}
	return fmt.Sprintf("(mkValue %d%%nat %s %s %s %s %s %s)", i, zlit(t), zlit(mn), zlit(mx), zlit(int64(v.Repeat)), own, kindTerm(n, v))
}

func ovalTerm(n *vh.Names, o Obs) string {
	switch o.VK {
	case "int":
		return "(VInt " + zlit(o.I) + ")"
	case "uint":
		return "(VUint " + ulit(o.U) + ")"
	case "double":
		return "(VDouble " + fcoq(float64(o.Fl)) + ")"
	case "string":
		return "(VStr " + n.Ref(o.S) + ")"
	case "strlist":
		return "(VStrList " + n.Path(o.SL) + ")"
	case "bool":
		return "(VBool " + vh.Bool(o.B) + ")"
	case "sync":
		return "(VSync " + ulit(o.U) + ")"
	case "delete":
		return "VDelete"
	}
	return "VUnset"
}

func obsTerm(n *vh.Names, o Obs) string {
	switch o.Kind {
	case "emit":
		return fmt.Sprintf("OEmit %d%%nat %s %s %s", o.ID, zlit(o.TS), zlit(int64(o.Rep)), ovalTerm(n, o))
	case "upd":
		return fmt.Sprintf("OUpd %d%%nat %s %s", o.ID, zlit(o.TS), ovalTerm(n, o))
	case "del":
		return fmt.Sprintf("ODel %d%%nat %s", o.ID, zlit(o.TS))
	case "sync":
		return "OSync " + vh.Bool(o.B)
	case "latest":
		return "OLatest " + zlit(o.TS)
	case "end":
		switch o.End {
		case "done":
			return "OEnd EDone"
		case "err":
			return "OEnd EErr"
		case "panic":
			return "OEnd EPanic"
		}
		return "OEnd EOut" // hang: equal to nothing the model produces on a sufficient tape
	}
	panic("obsTerm")
}

func obsList(n *vh.Names, os []Obs) string {
	el := make([]string, len(os))
	for i, o := range os {
		el[i] = obsTerm(n, o)
	}
	return vh.List(el)
}

func caseTerm(n *vh.Names, c Case) string {
	vals := make([]string, len(c.Ops))
	g := 8
	for i, v := range c.Ops {
		vals[i] = valTerm(n, c, i)
		if v.Seed == 0 {
			g += need(c, i)
		}
	}
	g += 6 * len(c.Draws)
	if len(c.Draws) > 0 {
		g += 60
	}
	late := "None"
	if c.Late != nil {
		cc := c
		cc.Ops = append(append([]Val{}, c.Ops...), Val{}, *c.Late) // index n+1 = the late value
		late = fmt.Sprintf("(Some (%d%%nat, %s))", c.LateAt, valTerm(n, cc, len(c.Ops)+1))
		if c.Late.Seed == 0 {
			g += need(cc, len(c.Ops)+1)
		}
	}
	fixed := "None"
	if c.Fixed != nil {
		ks := make([]string, len(c.Ks))
		for i, k := range c.Ks {
			if k > len(c.Fixed) {
				k = len(c.Fixed)
			}
			ks[i] = vh.Nat(k)
		}
		fixed = fmt.Sprintf("(Some (%s, %s))", obsList(n, c.Fixed), vh.List(ks))
	}
	return fmt.Sprintf("mkCase %s %s %s %s %d%%nat %s %s %s %s %s", vh.Bool(c.Client), vh.List(vals),
		zs(tapeOf(c.Seed, g)), vh.Bool(c.NoSync), c.Steps, obsList(n, c.Obs), obsList(n, c.Obs2), drawsTerm(c.Draws), late, fixed)
}

// ---------------------------------------------------------------------------
// generators

var words = []string{"a", "b", "c", "dd", "e e", "é", "", "*", "a/b"}

func pickTS(r *vh.Rand, v *Val, base []int64) {
	// few distinct initial timestamps so that buckets are shared
	v.T = base[r.Intn(len(base))]
	switch r.Pick(4, 4, 3, 1) {
	case 0:
		v.TMin, v.TMax = 0, int64(r.Intn(4))
	case 1:
		v.TMin = int64(r.Intn(4))
		v.TMax = v.TMin + int64(r.Intn(4))
	case 2:
		v.TMin = int64(1 + r.Intn(3))
		v.TMax = v.TMin
	case 3:
		v.TMin = int64(r.Intn(1000))
		v.TMax = v.TMin + int64(r.U64()%(1<<uint(1+r.Intn(45))))
	}
	if r.Chance(1, 40) {
		v.NoTS = true
	}
}

func randDist(r *vh.Rand) string {
	switch r.Pick(5, 4, 1) {
	case 0:
		return "range"
	case 1:
		return "list"
	}
	return "none"
}

func randVal(r *vh.Rand, base []int64, seeds []int64) Val {
	var v Val
	pickTS(r, &v, base)
	v.Repeat = []int32{0, 1, 2, 3, 5, 0, 2, -1}[r.Intn(8)]
	if r.Chance(2, 5) {
		v.Seed = seeds[r.Intn(len(seeds))]
	}
	switch r.Pick(6, 5, 5, 3, 3, 3, 1, 2) {
	case 0:
		v.K, v.D = "int", randDist(r)
		switch v.D {
		case "range":
			v.IMin = int64(r.Intn(21)) - 10
			v.IMax = v.IMin + int64(r.Intn(12))
			v.I = v.IMin + int64(r.Intn(int(v.IMax-v.IMin)+1))
			if r.Chance(1, 2) {
				v.IDMin = int64(r.Intn(9)) - 5
				v.IDMax = v.IDMin + int64(r.Intn(7))
			}
			if r.Chance(1, 12) { // wide range
				v.IMin, v.IMax = -(int64(1) << uint(20+r.Intn(42))), int64(1)<<uint(20+r.Intn(42))
				v.I = int64(r.Intn(1000))
			}
		case "list":
			for k := r.Intn(5) + 1; k > 0; k-- {
				v.IOpts = append(v.IOpts, int64(r.Intn(9))-4)
			}
			v.Random = r.Chance(1, 2)
			v.I = int64(r.Intn(9)) - 4
		default:
			v.I = int64(r.Intn(9)) - 4
		}
	case 1:
		v.K, v.D = "uint", randDist(r)
		switch v.D {
		case "range":
			v.UMin = uint64(r.Intn(12))
			v.UMax = v.UMin + uint64(r.Intn(12))
			v.U = v.UMin + uint64(r.Intn(int(v.UMax-v.UMin)+1))
			if r.Chance(1, 2) {
				v.IDMin = int64(r.Intn(9)) - 5
				v.IDMax = v.IDMin + int64(r.Intn(7))
			}
			if r.Chance(1, 12) { // beyond int64
				v.UMin = (uint64(1) << 63) - 5 + uint64(r.Intn(10))
				v.UMax = v.UMin + uint64(r.Intn(20))
				v.U = v.UMin + uint64(r.Intn(int(v.UMax-v.UMin)+1))
			}
		case "list":
			for k := r.Intn(5) + 1; k > 0; k-- {
				v.UOpts = append(v.UOpts, uint64(r.Intn(9)))
			}
			v.Random = r.Chance(1, 2)
			v.U = uint64(r.Intn(9))
		default:
			v.U = uint64(r.Intn(9))
		}
	case 2:
		v.K, v.D = "double", randDist(r)
		fr := func() float64 { return float64(int64(r.Intn(41))-20) / 4 }
		switch v.D {
		case "range":
			a := fr()
			b := a + float64(r.Intn(20))/3
			v.FMin, v.FMax = F(a), F(b)
			v.Fl = F(a + (b-a)*float64(r.Intn(5))/4)
			if float64(v.Fl) > b {
				v.Fl = F(b)
			}
			if r.Chance(1, 2) {
				d := fr() / 2
				v.FDMin, v.FDMax = F(d), F(d+float64(r.Intn(8))/3)
			}
		case "list":
			for k := r.Intn(5) + 1; k > 0; k-- {
				v.FOpts = append(v.FOpts, F(fr()/3))
			}
			v.Random = r.Chance(1, 2)
			v.Fl = F(fr())
		default:
			v.Fl = F(fr() / 7)
		}
	case 3:
		v.K = "string"
		v.S = words[r.Intn(len(words))]
		if r.Chance(3, 4) {
			v.D = "list"
			for k := r.Intn(5) + 1; k > 0; k-- {
				v.SOpts = append(v.SOpts, words[r.Intn(len(words))])
			}
			v.Random = r.Chance(1, 2)
		}
	case 4:
		v.K = "strlist"
		for k := r.Intn(3); k > 0; k-- {
			v.SL = append(v.SL, words[r.Intn(len(words))])
		}
		if r.Chance(3, 4) {
			v.D = "list"
			for k := r.Intn(5) + 1; k > 0; k-- {
				v.SOpts = append(v.SOpts, words[r.Intn(len(words))])
			}
			v.Random = r.Chance(1, 2)
		}
	case 5:
		v.K = "bool"
		v.B = r.Chance(1, 2)
		if r.Chance(3, 4) {
			v.D = "list"
			for k := r.Intn(4) + 1; k > 0; k-- {
				v.BOpts = append(v.BOpts, r.Chance(1, 2))
			}
			v.Random = r.Chance(1, 2)
		}
	case 6:
		v.K = "sync" // explicit sync value (0: sent as sync=false), anywhere relative to the others
		v.Sync = uint64(r.Intn(3))
	case 7:
		v.K = "delete"
	}
	return v
}

// invalidate turns a valid value into one of the documented error / edge shapes.
func invalidate(r *vh.Rand, v *Val) string {
	switch r.Pick(2, 2, 2, 3, 2, 2, 2, 2, 2, 2) {
	case 0:
		v.T = -int64(1 + r.Intn(5))
		return "neg-ts"
	case 1:
		v.TMin, v.TMax = v.TMax+1, v.TMin
		return "delta-inverted"
	case 2:
		v.TMin = -1
		return "delta-negative"
	case 3:
		switch v.K {
		case "int":
			v.D, v.IMin, v.IMax, v.I = "range", 5, 3, 4
		case "uint":
			v.D, v.UMin, v.UMax, v.U = "range", 5, 3, 4
		case "double":
			v.D, v.FMin, v.FMax, v.Fl = "range", 5, 3, 4
		default:
			v.K = "unset"
		}
		return "min>max"
	case 4:
		switch v.K {
		case "int":
			v.D, v.IMin, v.IMax, v.I = "range", 1, 4, int64(5+r.Intn(2)*-5)
		case "uint":
			v.D, v.UMin, v.UMax, v.U = "range", 1, 4, uint64(5+r.Intn(2)*-5)
		case "double":
			v.D, v.FMin, v.FMax, v.Fl = "range", 1, 4, F(4.5-float64(r.Intn(2))*4)
		default:
			v.K = "unset"
		}
		return "value-outside"
	case 5:
		if v.D == "range" {
			v.IDMin, v.IDMax = 3, 2
			v.FDMin, v.FDMax = 3, 2
			return "vdelta-inverted"
		}
		v.K = "unset"
		return "unset"
	case 6:
		v.D = "list"
		v.IOpts, v.UOpts, v.FOpts, v.SOpts, v.BOpts = nil, nil, nil, nil, nil
		if v.K == "sync" || v.K == "delete" {
			v.K = "unset"
		}
		return "no-options"
	case 7: // width beyond int64
		switch r.Intn(4) {
		case 3: // the whole of int64: width 2^64 wraps to exactly 0
			v.K, v.D, v.IMin, v.IMax, v.I, v.IDMin, v.IDMax = "int", "range", math.MinInt64, math.MaxInt64, int64(r.Intn(3))-1, 0, 0
			if r.Chance(1, 2) { // or as the delta of a small range
				v.IMin, v.IMax, v.I, v.IDMin, v.IDMax = -5, 5, 0, math.MinInt64, math.MaxInt64
			}
		case 0:
			v.TMin, v.TMax = 0, math.MaxInt64
		case 1:
			v.K, v.D, v.IMin, v.IMax, v.I, v.IDMin, v.IDMax = "int", "range", -9000000000000000000, 9000000000000000000, 0, 0, 0
		default:
			v.K, v.D, v.UMin, v.UMax, v.U, v.IDMin, v.IDMax = "uint", "range", 0, math.MaxUint64-uint64(r.Intn(3)), 7, 0, 0
		}
		if v.Repeat == 1 {
			v.Repeat = 0
		}
		return "width-overflow"
	case 8: // timestamp close to the end of int64
		v.T = math.MaxInt64 - int64(r.Intn(6))
		v.TMin, v.TMax = int64(r.Intn(3)), int64(3+r.Intn(5))
		if v.Repeat == 1 {
			v.Repeat = 3
		}
		return "ts-overflow"
	case 9: // doubles outside the sane region
		v.K, v.D = "double", "range"
		switch r.Intn(5) {
		case 0:
			v.FMin, v.FMax, v.Fl = F(math.Inf(-1)), F(math.Inf(1)), 0
		case 1:
			v.FMin, v.FMax, v.Fl = F(-1e308), F(1e308), 1
		case 2:
			v.FMin, v.FMax, v.Fl, v.FDMin, v.FDMax = 0, 10, F(math.NaN()), -1, 1
		case 3:
			v.FMin, v.FMax, v.Fl = F(math.NaN()), 3, 1
		default:
			v.FMin, v.FMax, v.Fl, v.FDMin, v.FDMax = -1, 1, 0, F(math.NaN()), 1
		}
		return "double-nonfinite"
	}
	return ""
}

// boundary seeds: any non-zero int64 is a set seed (0 = "not set": time-based
// for the global seed, shared generator for a value).  rand.NewSource reduces
// the seed mod 2^31-1 (0 becomes 89482311), so 1 and 2^31, -1 and 2^31-2 ...
// give the same stream; the tape is recorded from rand.NewSource(seed) itself.
var edgeSeeds = []int64{-1, -7919, math.MinInt64, math.MaxInt64, 1, 2, -2, 1<<31 - 1, 1 << 31, -(1<<31 - 1), 1<<31 - 2, math.MinInt64 + 1, 1 << 62}

func pickSeed(r *vh.Rand) int64 {
	switch r.Pick(3, 3, 2, 2) {
	case 0:
		return edgeSeeds[r.Intn(len(edgeSeeds))]
	case 1:
		return int64(r.U64()>>1) | 1
	case 2:
		return -(int64(r.U64()>>1) | 1)
	}
	return int64(1 + r.Intn(5))
}

// boundary puts the sign/zero/one/extreme variant of one numeric field into an
// otherwise ordinary value; the model says what HEAD does with it (accepted,
// clamped, or the documented error).
func boundary(r *vh.Rand, v *Val) string {
	i64 := []int64{math.MinInt64, math.MinInt64 + 1, -2, -1, 0, 1, 2, math.MaxInt64 - 1, math.MaxInt64}
	u64 := []uint64{0, 1, 2, 1<<63 - 1, 1 << 63, 1<<63 + 1, math.MaxUint64 - 1, math.MaxUint64}
	f64 := []float64{0, math.Copysign(0, -1), 1, -1, math.MaxFloat64, -math.MaxFloat64, math.SmallestNonzeroFloat64, 0.5}
	pi := func() int64 { return i64[r.Intn(len(i64))] }
	pu := func() uint64 { return u64[r.Intn(len(u64))] }
	pf := func() F { return F(f64[r.Intn(len(f64))]) }
	switch r.Pick(3, 3, 3, 3, 4, 4, 3, 3) {
	case 0:
		v.NoTS = false
		v.T = pi()
		return "b:timestamp"
	case 1:
		v.NoTS = false
		v.TMin, v.TMax = pi(), pi()
		if r.Chance(1, 2) && v.TMin > v.TMax {
			v.TMin, v.TMax = v.TMax, v.TMin
		}
		return "b:ts-delta"
	case 2:
		v.Repeat = []int32{math.MinInt32, -2, -1, 0, 1, 2, math.MaxInt32}[r.Intn(7)]
		return "b:repeat"
	case 3:
		v.Seed = edgeSeeds[r.Intn(len(edgeSeeds))]
		return "b:seed"
	case 4:
		v.K, v.D = "int", "range"
		v.IMin, v.IMax, v.I = pi(), pi(), pi()
		if r.Chance(2, 3) {
			if v.IMin > v.IMax {
				v.IMin, v.IMax = v.IMax, v.IMin
			}
			if r.Chance(2, 3) {
				v.I = v.IMin
				if r.Chance(1, 2) {
					v.I = v.IMax
				}
			}
		}
		v.IDMin, v.IDMax = 0, 0
		if r.Chance(1, 2) {
			v.IDMin, v.IDMax = pi(), pi()
			if r.Chance(2, 3) && v.IDMin > v.IDMax {
				v.IDMin, v.IDMax = v.IDMax, v.IDMin
			}
		}
		return "b:int-range"
	case 5:
		v.K, v.D = "uint", "range"
		v.UMin, v.UMax, v.U = pu(), pu(), pu()
		if r.Chance(2, 3) {
			if v.UMin > v.UMax {
				v.UMin, v.UMax = v.UMax, v.UMin
			}
			if r.Chance(2, 3) {
				v.U = v.UMin
				if r.Chance(1, 2) {
					v.U = v.UMax
				}
			}
		}
		v.IDMin, v.IDMax = 0, 0
		if r.Chance(1, 2) {
			v.IDMin, v.IDMax = pi(), pi()
			if r.Chance(2, 3) && v.IDMin > v.IDMax {
				v.IDMin, v.IDMax = v.IDMax, v.IDMin
			}
		}
		return "b:uint-range"
	case 6:
		v.K, v.D = "double", "range"
		v.FMin, v.FMax, v.Fl = pf(), pf(), pf()
		if r.Chance(2, 3) {
			if float64(v.FMin) > float64(v.FMax) {
				v.FMin, v.FMax = v.FMax, v.FMin
			}
			if r.Chance(2, 3) {
				v.Fl = v.FMin
			}
		}
		v.FDMin, v.FDMax = 0, 0
		if r.Chance(1, 2) {
			v.FDMin, v.FDMax = pf(), pf()
		}
		return "b:double-range"
	default: // list lengths 0, 1, 2 with boundary members
		n := r.Intn(3)
		v.D, v.Random = "list", r.Chance(1, 2)
		switch r.Intn(4) {
		case 0:
			v.K, v.IOpts = "int", nil
			for i := 0; i < n; i++ {
				v.IOpts = append(v.IOpts, pi())
			}
		case 1:
			v.K, v.UOpts = "uint", nil
			for i := 0; i < n; i++ {
				v.UOpts = append(v.UOpts, pu())
			}
		case 2:
			v.K, v.FOpts = "double", nil
			for i := 0; i < n; i++ {
				v.FOpts = append(v.FOpts, pf())
			}
		default:
			v.K, v.SOpts = "strlist", nil
			for i := 0; i < n; i++ {
				v.SOpts = append(v.SOpts, words[r.Intn(len(words))])
			}
		}
		return "b:list-length"
	}
}

func randCase(r *vh.Rand, client bool, edge bool) (Case, string) {
	c := Case{Client: client, Family: "queue"}
	if client {
		c.Family = "client"
	}
	c.Seed = pickSeed(r)
	c.NoSync = r.Chance(1, 6)
	n := 1 + r.Intn(5)
	if r.Chance(1, 30) {
		n = 0
	}
	nb := 1 + r.Intn(3)
	base := make([]int64, nb)
	for i := range base {
		base[i] = int64(r.Intn(6)) * int64(1+r.Intn(3))
	}
	if r.Chance(1, 10) {
		base[0] = int64(r.U64() >> uint(2+r.Intn(40)))
	}
	seeds := []int64{int64(1 + r.Intn(3)), pickSeed(r), pickSeed(r), c.Seed}
	for i := 0; i < n; i++ {
		c.Ops = append(c.Ops, randVal(r, base, seeds))
	}
	c.Steps = 6 + r.Intn(30)
	small := true // timestamps nanoseconds apart: real delays are harmless
	for _, v := range c.Ops {
		if v.T < 0 || v.T > 1000 || v.TMax > 1000 || v.TMin < 0 {
			small = false
		}
	}
	if !edge && small && r.Chance(1, 6) {
		c.Delay = true
	}
	if !edge && !client && r.Chance(1, 5) { // UpdateQueue.Add between two Next calls
		lv := randVal(r, []int64{base[0] + int64(r.Intn(12)), 300 + int64(r.Intn(3))}, seeds)
		c.Late, c.LateAt = &lv, r.Intn(6)
		if c.Delay && lv.TMax > 1000 {
			c.Delay = false
		}
	}
	what := ""
	if edge && n > 0 {
		c.Family += "-edge"
		if r.Chance(1, 2) {
			what = invalidate(r, &c.Ops[r.Intn(n)])
		} else {
			bi := r.Intn(n)
			what = boundary(r, &c.Ops[bi])
			if what == "b:timestamp" && n >= 2 && r.Chance(1, 2) {
				// a second value at the opposite end of int64: comparisons must not subtract
				oi := (bi + 1 + r.Intn(n-1)) % n
				c.Ops[oi].NoTS = false
				if c.Ops[bi].T < 0 {
					c.Ops[oi].T = math.MaxInt64 - int64(r.Intn(3))
				} else {
					c.Ops[oi].T = math.MinInt64 + int64(r.Intn(3))
				}
				if r.Chance(2, 3) {
					c.Ops[oi].Repeat, c.Ops[bi].Repeat = 1, 1
				}
				what = "b:timestamp-pair"
			}
			c.Steps = 4 + r.Intn(8)
		}
	}
	return c, what
}

// randPoll: a finite, valid configuration run through one Client in POLL mode.
func randPoll(r *vh.Rand) Case {
	c, _ := randCase(r, true, false)
	c.Family, c.Poll = "poll", true
	for i := range c.Ops {
		c.Ops[i].Repeat = int32(1 + r.Intn(3))
	}
	c.Steps = 24
	return c
}

// randConc: a finite configuration, drained sequentially and by four goroutines.
func randConc(r *vh.Rand) Case {
	c, _ := randCase(r, false, false)
	c.Family, c.Conc, c.Late = "conc", true, nil
	for i := range c.Ops {
		c.Ops[i].Repeat = int32(1 + r.Intn(4))
	}
	c.Steps = 40
	return c
}

// randMany: 8..40 values (binary search over many buckets, long shared buckets).
func randMany(r *vh.Rand) Case {
	c, _ := randCase(r, r.Chance(1, 4), false)
	c.Family, c.Late, c.Ops = "many", nil, nil
	n := 8 + r.Intn(33) // up to 40 values: more than 16 buckets for the binary search
	if r.Chance(2, 3) {
		n = 24 + r.Intn(17)
	}
	spread := int64(1 + r.Intn(4))
	dense := r.Chance(1, 3)
	for i := 0; i < n; i++ {
		v := Val{K: "int", I: int64(i), Repeat: []int32{0, 1, 2, 3}[r.Intn(4)]}
		v.T = int64(r.Intn(3*n)) * spread // mostly distinct timestamps
		if dense {
			v.T = int64(r.Intn(n/2+1)) * spread
		}
		if r.Chance(1, 6) {
			v.T = int64(r.Intn(3))
		}
		v.TMin = int64(r.Intn(3))
		v.TMax = v.TMin + int64(r.Intn(4))
		if r.Chance(1, 3) {
			v.K, v.B = "bool", true
		}
		if r.Chance(1, 5) {
			v.Seed = pickSeed(r)
		}
		c.Ops = append(c.Ops, v)
	}
	c.Delay = false
	c.Steps = 30 + r.Intn(30)
	return c
}

// randFixed: FixedQueue through Client.Run; generators from prefixes of one
// backing array, the same configuration object for equal prefixes.
func randFixed(r *vh.Rand) Case {
	c := Case{Family: "fixed", Client: true, Seed: 1, NoSync: r.Chance(1, 5)}
	n := 1 + r.Intn(6)
	ts := int64(0)
	for i := 0; i < n; i++ {
		ts += int64(r.Intn(3))
		switch r.Pick(6, 2, 1) {
		case 0:
			c.Fixed = append(c.Fixed, Obs{Kind: "upd", ID: r.Intn(3), TS: ts, VK: "int", I: int64(r.Intn(9))})
		case 1:
			c.Fixed = append(c.Fixed, Obs{Kind: "del", ID: r.Intn(3), TS: ts})
		default:
			c.Fixed = append(c.Fixed, Obs{Kind: "sync", B: r.Chance(1, 2)})
		}
	}
	k := r.Intn(n + 1)
	switch r.Pick(3, 3, 2, 1) {
	case 0:
		c.Ks = []int{n, n, n}
	case 1:
		c.Ks = []int{n, k, n} // a shorter prefix of the same array in between
	case 2:
		c.Ks = []int{k, k, k} // spare capacity behind the configured responses
	default:
		c.Ks = []int{k, n, k}
	}
	c.Steps = 2 + r.Intn(9)
	c.Tgt = r.Chance(1, 2)
	c.Delay = r.Chance(1, 4)
	return c
}

// ---------------------------------------------------------------------------

func nontrivial(c Case) bool {
	if c.Fixed != nil {
		return len(c.Fixed) >= 2
	}
	ids := map[int]bool{}
	k := 0
	for _, o := range c.Obs {
		switch o.Kind {
		case "emit", "upd", "del":
			ids[o.ID] = true
			k++
		}
	}
	return (k >= 3 && len(c.Ops) >= 1) || len(c.Draws) >= 3
}

func canonical(c Case) string {
	c.Obs, c.Obs2 = nil, nil
	b, _ := json.Marshal(c)
	return string(b)
}

type emitter struct {
	dir   string
	shard int
	cf    *vh.CaseFile
	meta  *vh.Meta
	limit int
}

func (e *emitter) add(c Case, what string) {
	if hangs >= 3 && (c.Client || c.Fixed != nil) {
		// three streams already hung on this tree (each may have left a spinning
		// goroutine behind); the witnesses are recorded, stop feeding it
		e.meta.Hist("skipped-after-hangs")
		return
	}
	if observe(&c) {
		e.meta.Hist("config-mutated")
	}
	runDraws(&c)
	for _, d := range c.Draws {
		e.meta.Hist("draw:" + d.F)
	}
	e.cf.Add(caseTerm(e.cf.Names, c), c)
	for _, v := range c.Ops {
		e.meta.Hist("kind:" + v.K + "/" + v.D)
		e.meta.Hist(fmt.Sprintf("repeat:%d", v.Repeat))
		if v.Seed != 0 {
			e.meta.Hist("own-seed")
		}
	}
	if what != "" {
		e.meta.Hist("edge:" + what)
	}
	e.meta.Hist(fmt.Sprintf("values:%d", len(c.Ops)))
	end := "more"
	if len(c.Obs) > 0 && c.Obs[len(c.Obs)-1].Kind == "end" {
		end = c.Obs[len(c.Obs)-1].End
	}
	e.meta.Hist("end:" + end)
	e.meta.Count(c.Family, canonical(c), nontrivial(c), map[string]interface{}{"family": c.Family, "seed": c.Seed, "values": c.Ops, "steps": c.Steps, "emitted": len(c.Obs)})
	if e.cf.Len() >= e.limit {
		e.flush()
	}
}

func (e *emitter) flush() {
	if e.cf.Len() == 0 {
		return
	}
	if err := e.cf.Write(e.dir, e.shard, "FakeQ.GoRand FakeQ.FakeQModel FakeQ.FakeQCheck", "case", "check_all"); err != nil {
		vh.Die("write: %v", err)
	}
	e.shard++
	e.cf = vh.NewCaseFile()
}

func readCases(path string) []Case {
	b, err := os.ReadFile(path)
	if err != nil {
		vh.Die("read %s: %v", path, err)
	}
	var cs []Case
	if err := json.Unmarshal(b, &cs); err != nil {
		var one Case
		if err2 := json.Unmarshal(b, &one); err2 != nil {
			vh.Die("parse %s: %v", path, err)
		}
		cs = []Case{one}
	}
	return cs
}

func main() {
	flag.Set("logtostderr", "true")
	flag.Set("stderrthreshold", "FATAL")
	o := vh.ParseFlags()
	devnull, _ := os.OpenFile(os.DevNull, os.O_WRONLY, 0)
	if devnull != nil {
		os.Stderr = devnull // glog of fake/gnmi (log.Errorf on every stream end)
	}
	meta := vh.NewMeta("corpus cases; seeded random configurations of 0..5 values of every kind (int/uint/double/string/string-list/bool/sync/delete) with range, list (random or rotating) or no distribution, value deltas, repeat in {-1,0,1,2,3,5}, shared and distinct small initial timestamps, timestamp deltas 0..6 (occasionally up to 2^45), global and per-value seeds (shared, equal, distinct), with and without the injected sync; each run for 6..35 steps through queue.New/Add/Next and through fake/gnmi Client.Run; global and per-value seeds are drawn from boundary seeds (-1, -7919, MinInt64, MaxInt64, 1, 2^31-1, 2^31, ...), random negative, random positive and small ones; an 'edge' family adds one documented error shape or one sign/zero/one/extreme variant of a numeric field (timestamp, ts deltas, repeat, seed, int/uint/double range bounds, value, value deltas, list length 0/1/2) per case; a 'poll' family runs finite configurations through one Client in POLL mode (two passes from the same configuration object, compared with each other and with a STREAM run); every generator of a case is built from the SAME configuration object (three in a row in the queue/client families) and the configuration is compared before/after; a 'fixed' family drives FixedQueue through Client.Run with generators built from prefixes of one backing array ([n,n,n], [n,k,n], [k,k,k], [k,n,k]); explicit sync values 0..2 occur with DisableSync=false at any position; the queue family also reads Latest() after the run, calls Next twice more after exhaustion and, in a fifth of the cases, Adds one more value between two Next calls; a sixth of the small-timestamp cases run with delay/enable_delay on; a 'many' family has 8..40 values (up to ~35 buckets, long shared buckets); a 'conc' family drains a finite configuration with four goroutines and compares the multiset with the sequential run; fixed generators alternately subscribe with a prefix target and the configured responses are compared before/after; a 'draws' family calls Int63n/Intn/Float64 of a real rand.Rand directly with moduli that make the rejection loops run (validation of the math/rand port). distinct = distinct configuration+seed+steps; non-trivial = at least 3 values emitted")
	e := &emitter{dir: o.Out, cf: vh.NewCaseFile(), meta: meta, limit: 400}

	if o.Replay != "" {
		for _, c := range readCases(o.Replay) {
			if c.Family == "" {
				c.Family = "replay"
			}
			e.add(c, "")
		}
		e.flush()
		meta.Write(o.Out)
		return
	}

	if dir := os.Getenv("VERIF_CORPUS"); dir != "" {
		ents, _ := os.ReadDir(dir)
		var names []string
		for _, en := range ents {
			if strings.HasSuffix(en.Name(), ".json") {
				names = append(names, en.Name())
			}
		}
		sort.Strings(names)
		for _, nm := range names {
			for _, c := range readCases(dir + "/" + nm) {
				c.Family = "corpus"
				e.add(c, "")
			}
		}
	}

	r := vh.NewRand(o.Seed)
	nq, nc, ne, nd, np, nf := 1300, 700, 800, 120, 200, 250
	nm, nx := 300, 150
	if o.Thorough() {
		nq, nc, ne, nd, np, nf = 18000, 8000, 12000, 3000, 3000, 3000
		nm, nx = 2000, 2000
	}
	rq, rc, re, rd, rp, rf := r.Fork(), r.Fork(), r.Fork(), r.Fork(), r.Fork(), r.Fork()
	for i := 0; i < np; i++ {
		e.add(randPoll(rp), "")
	}
	for i := 0; i < nf; i++ {
		e.add(randFixed(rf), "")
	}
	rm, rx := r.Fork(), r.Fork()
	for i := 0; i < nm; i++ {
		e.add(randMany(rm), "")
	}
	for i := 0; i < nx; i++ {
		e.add(randConc(rx), "")
	}
	for i := 0; i < nd; i++ {
		e.add(randDraws(rd), "")
	}
	for i := 0; i < nq; i++ {
		c, w := randCase(rq, false, false)
		e.add(c, w)
	}
	for i := 0; i < nc; i++ {
		c, w := randCase(rc, true, false)
		e.add(c, w)
	}
	for i := 0; i < ne; i++ {
		c, w := randCase(re, i%3 == 0, true)
		e.add(c, w)
	}
	e.flush()
	if err := meta.Write(o.Out); err != nil {
		vh.Die("meta: %v", err)
	}
}

// Barrier scheduler for forced-schedule runs (DESIGN.md 3.2, mode S).
//
// Every harness thread is a goroutine registered with the scheduler.  A thread
// stops (a) at each `verif` hook point of the code under test (the package's
// VerifHook is pointed at Sched.Hook), (b) where its body calls Thread.Stop
// (start of its program, after each call returned), (c) when it is parked
// inside the Go runtime (select, channel, mutex ...) -- recognised from its
// goroutine state in a runtime.Stack snapshot, never from a time-out.
// Exactly one thread is released at a time (Sched.Step); Step returns when the
// system is quiescent again: every thread is parked at a stop, finished, or
// waiting inside the runtime.  A thread that was waiting in the runtime and is
// made runnable by the released thread's step (channel send, close, cancel)
// runs on by itself to its next stop; its events are returned after the
// released thread's own.
//
// Copied from harness/c11/sched.go; added: adoption of goroutines the code under
// test spawns itself (Sched.Adopt, asked at the goroutine's first hook), and a
// lock around the thread list (adoption appends from another goroutine).
package main

import (
	"bytes"
	"fmt"
	"runtime"
	"strconv"
	"sync"
	"sync/atomic"
	"time"
)

// Event is what a thread did until it stopped.
type Event struct {
	T     *Thread
	Kind  string      // start at ret blocked done panic hang
	Point string      // hook name for "at"
	Val   interface{} // result for "ret", panic value for "panic"
}

// Thread status as the controller knows it.
const (
	stRunning = iota
	stParked  // waiting for the controller at a stop
	stBlocked // waiting inside the Go runtime
	stDone
)

// Thread is one scheduled goroutine.
type Thread struct {
	ID        int
	Name      string
	s         *Sched
	goid      int64
	resume    chan struct{}
	freed     bool
	adopted   bool
	mutexSeen int
	status    int
	// LastStop is the kind/point of the stop the thread is parked at.
	LastKind, LastPoint string
	// Left is maintained by the body: calls still to make (0 = program over).
	Left int32
}

// Sched is one run's scheduler.
type Sched struct {
	mu      sync.Mutex
	byGoid  map[int64]*Thread
	Threads []*Thread
	events  chan Event
	aborted atomic.Bool
	wg      sync.WaitGroup
	// HangAfter is how long a non-quiescent system is waited for.
	HangAfter time.Duration
	// Adopt is asked when an unknown goroutine reaches a hook point: it returns
	// the identity the goroutine gets, or ok=false to leave it unscheduled.
	Adopt func(point string) (id int, name string, ok bool)
	// Pending reports that the controller still expects an adoption: no quiescence before.
	Pending func() bool
}

func (s *Sched) threads() []*Thread {
	s.mu.Lock()
	defer s.mu.Unlock()
	return append([]*Thread(nil), s.Threads...)
}

// NewSched makes a scheduler.
func NewSched() *Sched {
	return &Sched{byGoid: map[int64]*Thread{}, events: make(chan Event, 256), HangAfter: 10 * time.Second}
}

func curGoid() int64 {
	var buf [64]byte
	n := runtime.Stack(buf[:], false)
	// "goroutine 123 [running]:"
	b := buf[:n]
	b = b[len("goroutine "):]
	i := bytes.IndexByte(b, ' ')
	id, _ := strconv.ParseInt(string(b[:i]), 10, 64)
	return id
}

// goStates returns the state string of every goroutine ("running", "select",
// "chan receive", ...), taken in one stop-the-world snapshot.
func goStates() map[int64]string {
	buf := make([]byte, 1<<16)
	for {
		n := runtime.Stack(buf, true)
		if n < len(buf) {
			buf = buf[:n]
			break
		}
		buf = make([]byte, 2*len(buf))
	}
	out := map[int64]string{}
	for _, blk := range bytes.Split(buf, []byte("\n\n")) {
		if !bytes.HasPrefix(blk, []byte("goroutine ")) {
			continue
		}
		b := blk[len("goroutine "):]
		i := bytes.IndexByte(b, ' ')
		if i < 0 {
			continue
		}
		id, err := strconv.ParseInt(string(b[:i]), 10, 64)
		if err != nil {
			continue
		}
		b = b[i+1:]
		if len(b) == 0 || b[0] != '[' {
			continue
		}
		j := bytes.IndexByte(b, ']')
		if j < 0 {
			continue
		}
		st := string(b[1:j])
		// "select, 2 minutes" / "chan receive, locked to thread"
		if k := bytes.IndexByte([]byte(st), ','); k >= 0 {
			st = st[:k]
		}
		out[id] = st
	}
	return out
}

// waitState reports whether a goroutine in this state can only be made
// runnable by another goroutine (so a system in which every live thread is in
// such a state, or parked by the controller, is quiescent).
func waitState(st string) bool {
	// Mutex waits are NOT wait states here: the only mutexes a scheduled
	// goroutine can contend on in these runs (the scheduler's own, the
	// stream's, the match lock, ctree node locks outside a walk) are held for
	// moments; a goroutine seen there is about to run on.  A genuine deadlock
	// shows as a hang after HangAfter.
	switch st {
	case "select", "select (no cases)", "chan receive", "chan send", "chan receive (nil chan)", "chan send (nil chan)",
		"sync.Cond.Wait", "sync.WaitGroup.Wait":
		return true
	}
	return false
}

// A writer (thread name w*) waits on the target's write mutex (cache.Target.wmu) while
// another writer of the target is parked in the feed callback.  Any other mutex a writer
// can be seen on is held for moments, so a writer counts as blocked only after it has been
// seen in sync.Mutex.Lock in three snapshots at least a millisecond apart.
const mutexSeenNeeded = 3

// idleState reports a state in which a goroutine the run does not schedule certainly waits
// for somebody else (a channel, a timer, the poller, a GC phase that is not running).  ANY
// other state of such a goroutine -- runnable, running, preempted, copystack, GC assist,
// a mutex -- means it may be on its way to its first hook (a goroutine the code under test
// has just spawned): the system is then NOT quiescent.  (The first version listed the busy
// states instead; "preempted" and "GC assist wait" were missing from it, and on a heavily
// loaded machine a just-spawned walker / sender was overlooked: the run was declared over
// before the subscriber's walk had begun.)
func idleState(st string) bool {
	switch st {
	case "select", "select (no cases)", "chan receive", "chan send", "chan receive (nil chan)", "chan send (nil chan)",
		"sleep", "IO wait", "syscall", "finalizer wait", "force gc (idle)", "GC sweep wait", "GC scavenge wait",
		"GC worker (idle)", "sync.Cond.Wait", "sync.WaitGroup.Wait", "trace reader (blocked)", "debug call", "idle", "dead":
		return true
	}
	return false
}

// Spawn starts a thread; body runs with the thread registered.  The thread
// first stops with event "start".  Spawn returns after that stop is reached.
func (s *Sched) Spawn(id int, name string, left int, body func(t *Thread)) *Thread {
	t := &Thread{ID: id, Name: name, s: s, resume: make(chan struct{}), status: stRunning, Left: int32(left)}
	s.mu.Lock()
	s.Threads = append(s.Threads, t)
	s.mu.Unlock()
	s.wg.Add(1)
	reg := make(chan struct{})
	go func() {
		defer s.wg.Done()
		t.goid = curGoid()
		s.mu.Lock()
		s.byGoid[t.goid] = t
		s.mu.Unlock()
		close(reg)
		defer func() {
			if r := recover(); r != nil {
				s.events <- Event{T: t, Kind: "panic", Val: fmt.Sprint(r)}
				return
			}
			s.events <- Event{T: t, Kind: "done"}
		}()
		t.Stop("start", nil)
		body(t)
	}()
	<-reg
	ev := <-s.events // its "start"
	s.note(ev)
	return t
}

// Stop reports a stop of kind k (with a value) and parks until released.
func (t *Thread) Stop(kind string, val interface{}) {
	if t.s.aborted.Load() {
		return
	}
	t.s.events <- Event{T: t, Kind: kind, Val: val}
	<-t.resume
}

// Hook is to be installed as the package's VerifHook.
func (s *Sched) Hook(point string) {
	if s.aborted.Load() {
		return
	}
	g := curGoid()
	s.mu.Lock()
	t := s.byGoid[g]
	if t == nil && s.Adopt != nil {
		if id, name, ok := s.Adopt(point); ok {
			t = &Thread{ID: id, Name: name, s: s, goid: g, resume: make(chan struct{}), status: stRunning, adopted: true}
			s.byGoid[g] = t
			s.Threads = append(s.Threads, t)
		}
	}
	s.mu.Unlock()
	if t == nil {
		return // a goroutine the run does not schedule
	}
	s.events <- Event{T: t, Kind: "at", Point: point}
	<-t.resume
}

// Ended tells the scheduler that an adopted goroutine is about to return (it
// has no body of ours around it that could report "done").
func (s *Sched) Ended(t *Thread) {
	if s.aborted.Load() {
		return
	}
	s.events <- Event{T: t, Kind: "done"}
}

// Self returns the calling goroutine's thread, or nil.
func (s *Sched) Self() *Thread {
	g := curGoid()
	s.mu.Lock()
	defer s.mu.Unlock()
	return s.byGoid[g]
}

func (s *Sched) note(ev Event) {
	t := ev.T
	switch ev.Kind {
	case "done", "panic":
		t.status = stDone
	default:
		t.status = stParked
	}
	t.LastKind, t.LastPoint = ev.Kind, ev.Point
}

// Ready lists the threads the controller may release: parked, and either
// inside a call (at a hook) or with calls left to make.
func (s *Sched) Ready() []*Thread {
	var out []*Thread
	for _, t := range s.threads() {
		if t.status == stParked && (t.LastKind == "at" || atomic.LoadInt32(&t.Left) > 0) {
			out = append(out, t)
		}
	}
	return out
}

// Blocked lists the threads waiting inside the runtime.
func (s *Sched) Blocked() []*Thread {
	var out []*Thread
	for _, t := range s.threads() {
		if t.status == stBlocked {
			out = append(out, t)
		}
	}
	return out
}

// Step releases t and waits for quiescence.  The returned events are t's own
// stop first (or "blocked"), then those of threads its step woke up.
func (s *Sched) Step(t *Thread) []Event {
	self := curGoid()
	t.status = stRunning
	t.resume <- struct{}{}
	var own, others []Event
	take := func(ev Event) {
		s.note(ev)
		if ev.T == t && own == nil {
			own = append(own, ev)
		} else {
			others = append(others, ev)
		}
	}
	deadline := time.Now().Add(s.HangAfter)
	spins := 0
	for {
		// drain what has arrived
		drained := false
		for {
			select {
			case ev := <-s.events:
				take(ev)
				drained = true
				continue
			default:
			}
			break
		}
		_ = drained
		live := false
		for _, x := range s.threads() {
			if x.status == stRunning || x.status == stBlocked {
				live = true
			}
		}
		if !live {
			break
		}
		states := goStates()
		// an event sent before the snapshot is in the channel by now
		again := false
		for {
			select {
			case ev := <-s.events:
				take(ev)
				again = true
				continue
			default:
			}
			break
		}
		if again {
			continue
		}
		quiet := true
		for _, x := range s.threads() {
			if x.status == stRunning || x.status == stBlocked {
				if _, alive := states[x.goid]; !alive && x.adopted {
					// an adopted goroutine that returned
					x.status = stDone
					x.LastKind = "done"
					ev := Event{T: x, Kind: "done"}
					if x == t && own == nil {
						own = append(own, ev)
					} else {
						others = append(others, ev)
					}
					continue
				}
				if x.Name != "" && x.Name[0] == 'w' && (states[x.goid] == "sync.Mutex.Lock" ||
					states[x.goid] == "sync.RWMutex.Lock" || states[x.goid] == "sync.RWMutex.RLock") {
					x.mutexSeen++
					if x.mutexSeen < mutexSeenNeeded {
						quiet = false
						time.Sleep(time.Millisecond)
					}
				} else {
					x.mutexSeen = 0
					if !waitState(states[x.goid]) {
						quiet = false
					}
				}
			}
		}
		if quiet && s.Pending != nil && s.Pending() {
			// positive evidence is still missing: a goroutine the released thread must have
			// spawned has not reported at its first hook yet
			quiet = false
		}
		if quiet {
			// a goroutine the code under test has just spawned and that has not
			// reached its first hook yet is still runnable: not quiescent
			s.mu.Lock()
			for g, st := range states {
				if g == self {
					continue
				}
				if _, known := s.byGoid[g]; known {
					continue
				}
				if !idleState(st) {
					quiet = false
				}
			}
			s.mu.Unlock()
		}
		if quiet {
			for _, x := range s.threads() {
				if x.status == stRunning {
					x.status = stBlocked
					x.LastKind, x.LastPoint = "blocked", states[x.goid]
					ev := Event{T: x, Kind: "blocked", Point: states[x.goid]}
					if x == t && own == nil {
						own = append(own, ev)
					} else {
						others = append(others, ev)
					}
				}
			}
			break
		}
		// a thread woken from a runtime wait is running: it is not blocked any more
		for _, x := range s.threads() {
			if x.status == stBlocked && !waitState(states[x.goid]) && states[x.goid] != "sync.Mutex.Lock" &&
				states[x.goid] != "sync.RWMutex.Lock" && states[x.goid] != "sync.RWMutex.RLock" {
				x.status = stRunning
			}
		}
		if time.Now().After(deadline) {
			for _, x := range s.threads() {
				if x.status == stRunning {
					ev := Event{T: x, Kind: "hang", Point: states[x.goid]}
					if x == t && own == nil {
						own = append(own, ev)
					} else {
						others = append(others, ev)
					}
				}
			}
			break
		}
		spins++
		if spins < 50 {
			runtime.Gosched()
		} else {
			time.Sleep(50 * time.Microsecond)
		}
	}
	return append(own, others...)
}

// Abort ends the run: stops are no longer honoured, every parked thread is
// released.  cleanup (closing queues, cancelling contexts) must make threads
// waiting in the runtime return.  Abort reports whether all threads ended.
func (s *Sched) Abort(cleanup func()) bool {
	s.aborted.Store(true)
	free := func(t *Thread) {
		if !t.freed {
			t.freed = true
			close(t.resume)
		}
	}
	for _, t := range s.threads() {
		if t.status == stParked {
			free(t)
		}
	}
	if cleanup != nil {
		cleanup()
	}
	done := make(chan struct{})
	go func() { s.wg.Wait(); close(done) }()
	// keep the event channel from filling up
	for {
		select {
		case ev := <-s.events:
			if ev.Kind != "done" && ev.Kind != "panic" {
				free(ev.T) // it stopped just before the abort and waits to be released
			}
		case <-done:
			return true
		case <-time.After(5 * time.Second):
			return false
		}
	}
}

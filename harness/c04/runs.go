// Mode S (forced schedules under the barrier scheduler) and mode A
// (free-running goroutines with seeded delays) runs of one case.
package main

import (
	"fmt"
	"sync"
	"sync/atomic"
	"time"

	"github.com/openconfig/gnmi/ctree"
	pb "github.com/openconfig/gnmi/proto/gnmi"
	"github.com/openconfig/gnmi/subscribe"
	"github.com/openconfig/gnmi/zz_verif/vh"
)

// stepRec is one checker step (C04Check.cstep) with its observation.
type stepRec struct {
	kind  string // write feed regall walk sync deq read sent
	w, s  int
	op    Op
	sub   []string   // WDelSub pattern
	order [][]string // victims of a delete (feed order) / walk order hint
	res   string     // result class of a write
	resp  Resp       // response of a read
}

type writerState struct {
	ops []Op
	cur int      // index of the op being executed
	rec *stepRec // LWrite record of the current upd / del
	// pending: the writer was released into its next operation; the LWrite label is
	// emitted when the operation shows its first effect (announcement or return), which
	// is the same step unless the writer had to wait for another writer of the target
	pending bool
	locked  bool       // an LWrite of the current operation was emitted (the mutex is held)
	res     []string   // result class per operation, written by the writer goroutine
	recs    []*stepRec // LWrite record per operation (nil for reset)
}

// hookMu guards the package-level hook dispatch (one run at a time).
var curRun atomic.Pointer[runS]

type runS struct {
	cs      *Case
	e       *engine
	sc      *Sched
	steps   []*stepRec
	trace   []string
	ws      []*writerState
	curSub  int
	snaps   [][]string
	ended   []bool
	endedMu sync.Mutex
	bad     string
	sched   []string
	nready  []int // number of ready threads at each choice (for DFS)
	// walkLock: the walk goroutine also parks inside every queue insertion (between the
	// visit of a leaf and its insertion); see release
	walkLock bool
	expMu    sync.Mutex
	expect   map[string]bool // goroutines the code must have spawned, not yet seen at a hook
	passed   []bool          // the subscriber went past subscribe:registered
	walking  []bool
	syncDone []bool
}

func hookS(point string) {
	if r := curRun.Load(); r != nil {
		r.sc.Hook(point)
	}
}

func (r *runS) emit(s *stepRec) *stepRec {
	r.steps = append(r.steps, s)
	return s
}

// runSched executes one case under the barrier scheduler.  decide picks the
// index of the thread to release among ready (sorted by name); k is the step
// number.  Returns the observation.
func runSched(cs *Case, decide func(ready []string, k int) int) (*runS, *Obs) {
	r := &runS{cs: cs, curSub: -1}
	r.e = newEngine(cs, subscribe.WithTimeout(time.Minute))
	r.sc = NewSched()
	r.sc.HangAfter = 20 * time.Second
	r.snaps = make([][]string, len(cs.Subs))
	r.walking = make([]bool, len(cs.Subs))
	r.passed = make([]bool, len(cs.Subs))
	r.syncDone = make([]bool, len(cs.Subs))
	r.walkLock = cs.WalkLock
	r.ended = make([]bool, len(cs.Subs))
	curRun.Store(r)
	defer curRun.Store(nil)

	// pre-population: writer 0, each op and its announcements in sequence
	r.ws = make([]*writerState, cs.NW)
	for w := range r.ws {
		r.ws[w] = &writerState{}
	}
	for _, o := range cs.Ops {
		if o.W >= 0 && o.W < cs.NW {
			r.ws[o.W].ops = append(r.ws[o.W].ops, o)
		}
	}
	var preRec *stepRec
	r.e.feedHook = func(l *ctree.Leaf) {
		n, _ := l.Value().(*pb.Notification)
		p, _, reset := notiPath(n)
		if reset {
			r.emit(&stepRec{kind: "write", w: 0, op: Op{K: "reset"}, sub: p[:2], res: "ok"})
		} else if preRec != nil && preRec.op.K == "del" {
			preRec.order = append(preRec.order, p)
		}
		r.emit(&stepRec{kind: "feed", w: 0})
	}
	for _, o := range cs.Ops {
		if o.W != -1 {
			continue
		}
		before := len(r.steps)
		if o.K != "reset" {
			preRec = r.emit(&stepRec{kind: "write", w: 0, op: o})
			// the record must precede the feed records: fill the result afterwards
			preRec.res = r.e.apply(o)
		} else {
			preRec = nil
			r.e.apply(o)
		}
		if len(r.steps) > before {
			r.emit(&stepRec{kind: "unlock", w: 0})
		}
	}
	preRec = nil

	// feed callback of scheduled writers: park before every announcement
	r.e.feedHook = func(l *ctree.Leaf) {
		t := r.sc.Self()
		if t == nil {
			return
		}
		n, _ := l.Value().(*pb.Notification)
		p, _, reset := notiPath(n)
		t.Stop("feed", feedInfo{p: p, reset: reset})
	}
	r.e.afterFeed = func(*ctree.Leaf) {
		if t := r.sc.Self(); t != nil {
			t.Stop("fed", nil)
		}
	}
	for i, sc := range cs.Subs {
		st := newStream(i, sc)
		st.onSend = func(s *memStream, o Resp) error {
			if t := r.sc.Self(); t != nil {
				t.Stop("send", o)
			}
			return nil
		}
		r.e.streams = append(r.e.streams, st)
	}
	r.sc.Adopt = func(point string) (int, string, bool) {
		if r.curSub < 0 {
			return 0, "", false
		}
		switch point {
		case "process:before-walk":
			r.expMu.Lock()
			delete(r.expect, fmt.Sprintf("k%d", r.curSub))
			r.expMu.Unlock()
			return 200 + r.curSub, fmt.Sprintf("k%d", r.curSub), true
		case "send:before-next":
			r.expMu.Lock()
			delete(r.expect, fmt.Sprintf("x%d", r.curSub))
			r.expMu.Unlock()
			return 300 + r.curSub, fmt.Sprintf("x%d", r.curSub), true
		}
		return 0, "", false
	}
	r.expect = map[string]bool{}
	r.sc.Pending = func() bool {
		r.expMu.Lock()
		defer r.expMu.Unlock()
		return len(r.expect) > 0
	}

	for w := 0; w < cs.NW; w++ {
		w := w
		ws := r.ws[w]
		if len(ws.ops) == 0 {
			continue
		}
		ws.res = make([]string, len(ws.ops))
		ws.recs = make([]*stepRec, len(ws.ops))
		r.sc.Spawn(w, fmt.Sprintf("w%d", w), len(ws.ops), func(t *Thread) {
			for i, o := range ws.ops {
				if i > 0 {
					t.Stop("op", nil)
				}
				ws.res[i] = r.e.apply(o)
			}
		})
	}
	for i := range cs.Subs {
		i := i
		r.sc.Spawn(100+i, fmt.Sprintf("s%d", i), 1, func(t *Thread) {
			err := r.e.srv.Subscribe(r.e.streams[i])
			r.endedMu.Lock()
			r.ended[i] = err != nil && r.e.streams[i].ctx.Err() == nil
			r.endedMu.Unlock()
		})
	}

	maxSteps := cs.MaxSteps
	if maxSteps == 0 {
		maxSteps = 400
	}
	for k := 0; k < maxSteps; k++ {
		var ready []*Thread
		for _, t := range r.sc.threads() {
			if t.status == stParked {
				ready = append(ready, t)
			}
		}
		if r.walkLock {
			// while a walk is under way only writers and that walker move (there is no
			// finer label than the whole walk); a sender starts after its sync insertion
			mid := -1
			for i, w := range r.walking {
				if w {
					mid = i
				}
			}
			var rs []*Thread
			for _, t := range ready {
				i := t.ID % 100
				switch {
				case mid >= 0 && !((t.Name[0] == 'w' && (t.LastKind == "start" || t.LastKind == "op")) || (t.Name[0] == 'k' && i == mid)):
					// (a writer parked before an announcement stays parked: its insertion would
					// land in the middle of the walk's, which has one label only)
				case t.Name[0] == 'x' && !r.syncDone[i] && !cs.Subs[i].UO:
				default:
					rs = append(rs, t)
				}
			}
			ready = rs
		}
		if len(ready) == 0 {
			break
		}
		sortThreads(ready)
		names := make([]string, len(ready))
		for i, t := range ready {
			names[i] = t.Name
		}
		ci := decide(names, k)
		if ci < 0 || ci >= len(ready) {
			ci = 0
		}
		r.nready = append(r.nready, len(ready))
		t := ready[ci]
		r.sched = append(r.sched, t.Name)
		r.release(t)
		if r.bad != "" {
			break
		}
	}

	for _, ws := range r.ws {
		for i, rec := range ws.recs {
			if rec != nil {
				rec.res = ws.res[i]
			}
		}
	}
	// finished?  positive evidence: every writer returned, every subscriber that went past
	// its registration has its sender waiting inside Next and its walk goroutine gone
	if r.bad == "" {
		r.bad = r.incomplete()
	}
	for _, t := range r.sc.threads() {
		if t.status == stParked && r.bad == "" {
			r.bad = "step bound reached with threads still ready (or a walk that cannot end)"
		}
	}
	obs := &Obs{Dump: r.e.dump(), Snaps: r.snaps, Bad: r.bad, Steps: r.trace}
	for _, st := range r.e.streams {
		obs.Streams = append(obs.Streams, st.snapshot())
	}
	r.sc.Abort(func() {
		for _, st := range r.e.streams {
			st.cancel()
		}
	})
	r.endedMu.Lock()
	obs.Ended = append([]bool(nil), r.ended...)
	r.endedMu.Unlock()
	return r, obs
}

// incomplete names what is missing for the run to count as observed to its end.
func (r *runS) incomplete() string {
	byName := map[string]*Thread{}
	for _, t := range r.sc.threads() {
		byName[t.Name] = t
	}
	for w, ws := range r.ws {
		if len(ws.ops) == 0 {
			continue
		}
		if t := byName[fmt.Sprintf("w%d", w)]; t == nil || t.status != stDone {
			return fmt.Sprintf("incomplete: writer %d has not returned", w)
		}
	}
	for i, sc := range r.cs.Subs {
		if !r.passed[i] {
			return fmt.Sprintf("incomplete: subscriber %d has not registered", i)
		}
		x := byName[fmt.Sprintf("x%d", i)]
		if x == nil || x.status != stBlocked {
			return fmt.Sprintf("incomplete: the sender of subscriber %d is not waiting for data", i)
		}
		if !sc.UO {
			if k := byName[fmt.Sprintf("k%d", i)]; k == nil || k.status != stDone {
				return fmt.Sprintf("incomplete: the walk of subscriber %d is not over", i)
			}
		}
	}
	return ""
}

type feedInfo struct {
	p     []string
	reset bool
}

func sortThreads(ts []*Thread) {
	for i := 1; i < len(ts); i++ {
		for j := i; j > 0 && ts[j].ID < ts[j-1].ID; j-- {
			ts[j], ts[j-1] = ts[j-1], ts[j]
		}
	}
}

// release lets one thread take its step and records the labels.
func (r *runS) release(t *Thread) {
	kind := t.Name[0]
	idx := t.ID % 100
	r.curSub = -1
	switch kind {
	case 'w':
		ws := r.ws[idx]
		if t.LastKind == "feed" {
			r.emit(&stepRec{kind: "feed", w: idx})
			r.trace = append(r.trace, fmt.Sprintf("w%d feed", idx))
		} else if t.LastKind == "fed" {
			// the announcement returned; the writer goes on to its next tree write or returns
			r.trace = append(r.trace, fmt.Sprintf("w%d fed", idx))
		} else {
			// start of the next operation
			if t.LastKind == "op" {
				ws.cur++
			}
			o := ws.ops[ws.cur]
			ws.rec = nil
			ws.pending = true
			r.trace = append(r.trace, o.String())
		}
	case 's':
		r.curSub = idx
		if t.LastKind == "at" && t.LastPoint == "subscribe:registered" {
			// Subscribe now starts its sender and (unless updates_only) its walk goroutine:
			// the step is over only when both have reported at their first hook
			r.expMu.Lock()
			r.expect[fmt.Sprintf("x%d", idx)] = true
			if !r.cs.Subs[idx].UO {
				r.expect[fmt.Sprintf("k%d", idx)] = true
			}
			r.expMu.Unlock()
			r.passed[idx] = true
		}
		r.trace = append(r.trace, fmt.Sprintf("s%d %s", idx, t.LastKind+t.LastPoint))
	case 'k':
		switch {
		case r.walkLock && t.LastKind == "at" && t.LastPoint == "process:before-walk":
			// the walk label is emitted when the walk is over (arrival at before-sync): the
			// walker parks inside every insertion, i.e. inside the Query's critical section
			for _, l := range r.e.dump() {
				r.snaps[idx] = append(r.snaps[idx], pstr(l.P))
			}
			r.walking[idx] = true
			r.trace = append(r.trace, fmt.Sprintf("k%d walk begins", idx))
		case r.walkLock && t.LastKind == "insert" && r.walking[idx]:
			r.trace = append(r.trace, fmt.Sprintf("k%d inserts a visited leaf", idx))
		case r.walkLock && t.LastKind == "insert":
			r.emit(&stepRec{kind: "sync", s: idx})
			r.syncDone[idx] = true
			r.trace = append(r.trace, fmt.Sprintf("k%d sync", idx))
		case r.walkLock:
			r.trace = append(r.trace, fmt.Sprintf("k%d to the sync insertion", idx))
		case t.LastPoint == "process:before-walk":
			for _, l := range r.e.dump() {
				r.snaps[idx] = append(r.snaps[idx], pstr(l.P))
			}
			r.emit(&stepRec{kind: "walk", s: idx})
			r.trace = append(r.trace, fmt.Sprintf("k%d walk", idx))
		default:
			r.emit(&stepRec{kind: "sync", s: idx})
			r.trace = append(r.trace, fmt.Sprintf("k%d sync", idx))
		}
	case 'x':
		if t.LastKind == "send" {
			r.emit(&stepRec{kind: "sent", s: idx})
			r.trace = append(r.trace, fmt.Sprintf("x%d sent", idx))
		} else if t.LastKind == "empty" {
			r.trace = append(r.trace, fmt.Sprintf("x%d waits (queue was empty)", idx))
		} else {
			r.trace = append(r.trace, fmt.Sprintf("x%d next", idx))
		}
	}
	for _, ev := range r.sc.Step(t) {
		x := ev.T
		xi := x.ID % 100
		if x.Name[0] == 'w' && ev.Kind != "blocked" && ev.Kind != "hang" && r.ws[xi].pending {
			// first effect of the operation the writer was released into
			ws := r.ws[xi]
			ws.pending = false
			if o := ws.ops[ws.cur]; o.K != "reset" {
				ws.rec = r.emit(&stepRec{kind: "write", w: xi, op: o})
				ws.recs[ws.cur] = ws.rec
				ws.locked = true
			}
		}
		if x.Name[0] == 'w' && (ev.Kind == "op" || ev.Kind == "done") && r.ws[xi].locked {
			// the operation returned: the target's write mutex is released
			r.ws[xi].locked = false
			r.emit(&stepRec{kind: "unlock", w: xi})
		}
		if x.Name[0] == 'w' && ev.Kind == "blocked" {
			r.trace = append(r.trace, fmt.Sprintf("  %s blocked (%s): waits for the target write mutex / the tree lock held by a walk", x.Name, ev.Point))
		}
		switch {
		case ev.Kind == "hang" || ev.Kind == "panic":
			r.bad = fmt.Sprintf("%s %s %v", x.Name, ev.Kind, ev.Val)
		case x.Name[0] == 'w' && ev.Kind == "feed":
			fi := ev.Val.(feedInfo)
			ws := r.ws[xi]
			o := ws.ops[ws.cur]
			if t != x && x.LastKind != "feed" {
				// cannot happen: a writer only moves when released
				r.bad = "writer moved by itself"
			}
			if o.K == "reset" {
				if !fi.reset || len(fi.p) < 2 {
					r.bad = "reset announced something that is no root delete"
				} else {
					r.emit(&stepRec{kind: "write", w: xi, op: o, sub: fi.p[:2], res: "ok"})
					ws.locked = true
				}
			} else if o.K == "del" && ws.rec != nil {
				ws.rec.order = append(ws.rec.order, fi.p)
			}
		case r.walkLock && x.Name[0] == 'k' && ev.Kind == "at" && ev.Point == "process:before-sync":
			// the Query (or, with a changed walk, the insertions) are over
			r.walking[xi] = false
			r.emit(&stepRec{kind: "walk", s: xi})
			r.trace = append(r.trace, fmt.Sprintf("  k%d walk over", xi))
		case x.Name[0] == 's' && ev.Kind == "at" && ev.Point == "subscribe:registered":
			r.emit(&stepRec{kind: "regall", s: xi})
		case x.Name[0] == 'x' && ev.Kind == "send":
			o := ev.Val.(Resp)
			r.emit(&stepRec{kind: "deq", s: xi})
			r.emit(&stepRec{kind: "read", s: xi, resp: o})
			r.trace = append(r.trace, fmt.Sprintf("  x%d read %v", xi, o))
		}
	}
}

// ---------------------------------------------------------------------------
// mode A

var modeA atomic.Pointer[runA]

type runA struct {
	delay func() // seeded random pause
}

func hookA(point string) {
	if r := modeA.Load(); r != nil {
		r.delay()
	}
}

// runFree executes one case with free-running goroutines; every hook point,
// announcement and Send pauses for a seeded random time.
func runFree(cs *Case) *Obs {
	e := newEngine(cs, subscribe.WithTimeout(time.Minute))
	rnd := vh.NewRand(cs.Seed)
	var rmu sync.Mutex
	delay := func() {
		rmu.Lock()
		k := rnd.Intn(8)
		d := rnd.Intn(300)
		rmu.Unlock()
		switch {
		case k < 3:
		case k < 7:
			time.Sleep(time.Duration(d) * time.Microsecond)
		default:
			time.Sleep(time.Duration(d*5) * time.Microsecond)
		}
	}
	ra := &runA{delay: delay}
	obs := &Obs{Snaps: make([][]string, len(cs.Subs)), Ended: make([]bool, len(cs.Subs))}

	// pre-population and the snapshot clause: leaves written before anything
	// starts and that no operation of the run can delete
	for _, o := range cs.Ops {
		if o.W == -1 {
			e.apply(o)
		}
	}
	for _, l := range e.dump() {
		stable := true
		for _, o := range cs.Ops {
			if o.W >= 0 && ((o.K == "del" && covers(o.P, l.P)) || (o.K == "reset" && o.P[0] == l.P[0])) {
				stable = false
			}
		}
		if stable {
			for i := range cs.Subs {
				obs.Snaps[i] = append(obs.Snaps[i], pstr(l.P))
			}
		}
	}
	modeA.Store(ra)
	defer modeA.Store(nil)
	e.feedHook = func(*ctree.Leaf) { delay() }
	e.afterFeed = func(*ctree.Leaf) { delay() }

	var wg sync.WaitGroup
	var emu sync.Mutex
	subDone := make([]chan struct{}, len(cs.Subs))
	for i, sc := range cs.Subs {
		st := newStream(i, sc)
		st.onSend = func(*memStream, Resp) error { delay(); return nil }
		e.streams = append(e.streams, st)
		subDone[i] = make(chan struct{})
	}
	start := make(chan struct{})
	for w := 0; w < cs.NW; w++ {
		var ops []Op
		for _, o := range cs.Ops {
			if o.W == w {
				ops = append(ops, o)
			}
		}
		wg.Add(1)
		go func() {
			defer wg.Done()
			defer func() {
				if p := recover(); p != nil {
					emu.Lock()
					obs.Bad = fmt.Sprintf("writer panic: %v", p)
					emu.Unlock()
				}
			}()
			<-start
			for _, o := range ops {
				delay()
				e.apply(o)
			}
		}()
	}
	for i := range cs.Subs {
		i := i
		go func() {
			defer close(subDone[i])
			defer func() {
				if p := recover(); p != nil {
					emu.Lock()
					obs.Bad = fmt.Sprintf("subscriber panic: %v", p)
					emu.Unlock()
				}
			}()
			<-start
			delay()
			delay()
			err := e.srv.Subscribe(e.streams[i])
			emu.Lock()
			obs.Ended[i] = err != nil && e.streams[i].ctx.Err() == nil
			emu.Unlock()
		}()
	}
	close(start)

	wdone := make(chan struct{})
	go func() { wg.Wait(); close(wdone) }()
	select {
	case <-wdone:
	case <-time.After(20 * time.Second):
		obs.Bad = "writers did not return within 20 s"
	}
	// every live stream shows its sync, then every live sender is parked in Next's select
	gone := make([]bool, len(cs.Subs))
	waitQuiet := func() bool {
		dl := time.Now().Add(20 * time.Second)
		for obs.Bad == "" && time.Now().Before(dl) {
			all := true
			for i, st := range e.streams {
				if gone[i] {
					continue
				}
				has := false
				for _, r := range st.snapshot() {
					if r.K == "sync" {
						has = true
					}
				}
				if !has {
					all = false
				}
			}
			if all {
				states := goStates()
				idle := true
				for i, st := range e.streams {
					if gone[i] {
						continue
					}
					st.mu.Lock()
					n := 0
					for g := range st.goids {
						s, alive := states[g]
						if !alive {
							continue
						}
						n++
						if s != "select" && s != "chan receive" {
							idle = false
						}
					}
					st.mu.Unlock()
					if n < 2 {
						idle = false // Subscribe (chan receive on errC) and its sender (select)
					}
				}
				if idle {
					return true
				}
			}
			time.Sleep(200 * time.Microsecond)
		}
		return false
	}
	if !waitQuiet() && obs.Bad == "" {
		obs.Bad = "no quiescence within 20 s"
	}
	// clients that go away, then more writes: the survivors must go on receiving
	for _, i := range cs.Cancel {
		if i < 0 || i >= len(e.streams) || gone[i] || obs.Bad != "" {
			continue
		}
		gone[i] = true
		e.streams[i].cancel()
		select {
		case <-subDone[i]:
		case <-time.After(5 * time.Second):
			obs.Bad = "Subscribe did not return after its client went away"
		}
	}
	late := false
	for _, o := range cs.Ops {
		if o.W == -2 && obs.Bad == "" {
			late = true
			delay()
			e.apply(o)
		}
	}
	if late && !waitQuiet() && obs.Bad == "" {
		obs.Bad = "no quiescence within 20 s after the late writes"
	}
	modeA.Store(nil)
	obs.Dump = e.dump()
	for _, st := range e.streams {
		obs.Streams = append(obs.Streams, st.snapshot())
	}
	emu.Lock()
	ended := append([]bool(nil), obs.Ended...)
	emu.Unlock()
	for _, st := range e.streams {
		st.cancel()
	}
	for i := range subDone {
		select {
		case <-subDone[i]:
		case <-time.After(5 * time.Second):
			obs.Bad = "Subscribe did not return after cancel"
		}
	}
	for i := range ended {
		if gone[i] {
			ended[i] = true
		}
	}
	obs.Ended = ended
	return obs
}

// hookWalkLock: schedule points inside coalesce.Queue (family S-walk-lock, see walklock.go).
// hookEmpty: a sender parks between finding its queue empty and waiting for the wake-up
// (coalesce hook next:empty), so that an insertion can land exactly there.
func hookEmpty(point string) {
	if r := curRun.Load(); r != nil && point == "next:empty" {
		if t := r.sc.Self(); t != nil && t.Name[0] == 'x' {
			t.Stop("empty", nil)
		}
	}
}

func hookWalkLock(point string) {
	if r := curRun.Load(); r != nil && r.walkLock && point == "insert:checked" {
		if t := r.sc.Self(); t != nil && t.Name[0] == 'k' {
			t.Stop("insert", nil)
		}
	}
}

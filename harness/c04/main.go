// C04 harness: STREAM subscribers converge to the cache; sync marks the
// initial snapshot.  See coq/Stream/C04Check.v for the case format.
package main

import (
	"encoding/json"
	"flag"
	"fmt"
	"os"
	"runtime"
	"sort"
	"strings"

	"github.com/openconfig/gnmi/coalesce"
	"github.com/openconfig/gnmi/subscribe"
	"github.com/openconfig/gnmi/zz_verif/vh"
)

// ---------------------------------------------------------------------------
// Gallina terms

type emitter struct {
	dir   string
	cf    *vh.CaseFile
	shard int
	meta  *vh.Meta
	limit int
	bad   int // cases with a hang / panic so far: after three the run stops generating (each costs 5 s)
}

func (e *emitter) flush() {
	if e.cf.Len() == 0 && e.shard > 0 {
		return
	}
	if err := e.cf.Write(e.dir, e.shard, "Stream.StreamLts Stream.C04Check", "case", "check_all"); err != nil {
		vh.Die("write cases: %v", err)
	}
	e.shard++
	e.cf = vh.NewCaseFile()
}

func natT(i int) string { return fmt.Sprintf("%d%%nat", i) }

func (e *emitter) path(p []string) string { return e.cf.Names.Path(p) }

func (e *emitter) paths(ps [][]string) string {
	out := make([]string, len(ps))
	for i, p := range ps {
		out[i] = e.path(p)
	}
	return vh.List(out)
}

func (e *emitter) respT(r Resp) string {
	switch r.K {
	case "upd":
		return fmt.Sprintf("RUpd %s %s %s %s", e.path(r.P), vh.Z(r.V), vh.Z(r.TS), natT(r.Dup))
	case "del":
		return fmt.Sprintf("RDel %s %s", e.path(r.P), vh.Z(r.TS))
	}
	return "RSync"
}

func (e *emitter) wopT(o Op, sub []string, order [][]string) string {
	switch o.K {
	case "upd":
		return fmt.Sprintf("WUpd %s %s %s", e.path(o.P), vh.Z(o.V), vh.Z(o.TS))
	case "del":
		return fmt.Sprintf("WDel %s %s %s", e.path(o.P), vh.Z(o.TS), e.paths(order))
	}
	if sub == nil {
		sub = o.P
	}
	return fmt.Sprintf("WDelSub %s", e.path(sub))
}

func wresT(s string) string {
	switch s {
	case "ok":
		return "WOk"
	case "stale":
		return "WStale"
	}
	return "WErr"
}

// firstSeen lists the updated paths of a stream in order of first appearance,
// ignoring the first skip responses.
func firstSeen(rs []Resp, skip int) [][]string {
	seen := map[string]bool{}
	var out [][]string
	for i, r := range rs {
		if i < skip {
			continue
		}
		if r.K == "upd" && !seen[pstr(r.P)] {
			seen[pstr(r.P)] = true
			out = append(out, r.P)
		}
	}
	return out
}

func (e *emitter) caseTerm(cs *Case, steps []*stepRec, obs *Obs) string {
	var b strings.Builder
	b.WriteString("mkCase ")
	b.WriteString(vh.Bool(cs.ED) + " " + natT(cs.NW) + " ")
	subs := make([]string, len(cs.Subs))
	for i, s := range cs.Subs {
		subs[i] = fmt.Sprintf("(%s, %s)", e.paths(s.Qs), vh.Bool(s.UO))
	}
	b.WriteString(vh.List(subs) + " ")
	bad := obs.Bad != ""
	var st []string
	nread := make([]int, len(cs.Subs))
	for _, s := range steps {
		var t string
		switch s.kind {
		case "write":
			t = fmt.Sprintf("(CL (LWrite %s (%s)), OW %s)", natT(s.w), e.wopT(s.op, s.sub, s.order), wresT(s.res))
		case "feed":
			t = fmt.Sprintf("(CL (LFeed %s), ONone)", natT(s.w))
		case "unlock":
			t = fmt.Sprintf("(CL (LUnlock %s), ONone)", natT(s.w))
		case "regall":
			t = fmt.Sprintf("(CRegAll %s, ONone)", natT(s.s))
		case "walk":
			t = fmt.Sprintf("(CWalk %s %s, ONone)", natT(s.s), e.paths(firstSeen(obs.Streams[s.s], nread[s.s])))
		case "sync":
			t = fmt.Sprintf("(CL (LSync %s), ONone)", natT(s.s))
		case "deq":
			t = fmt.Sprintf("(CL (LDeq %s), ONone)", natT(s.s))
		case "read":
			nread[s.s]++
			if s.resp.K == "other" {
				bad = true
			}
			t = fmt.Sprintf("(CL (LRead %s), OResp (%s))", natT(s.s), e.respT(s.resp))
		case "sent":
			t = fmt.Sprintf("(CL (LSent %s), ONone)", natT(s.s))
		}
		st = append(st, t)
	}
	b.WriteString(vh.List(st) + " ")
	streams := make([]string, len(obs.Streams))
	for i, rs := range obs.Streams {
		ts := make([]string, len(rs))
		for j, r := range rs {
			if r.K == "other" {
				bad = true
			}
			ts[j] = e.respT(r)
		}
		streams[i] = vh.List(ts)
	}
	b.WriteString(vh.List(streams) + " ")
	ended := make([]string, len(obs.Ended))
	for i, x := range obs.Ended {
		ended[i] = vh.Bool(x)
	}
	b.WriteString(vh.List(ended) + " ")
	dump := make([]string, len(obs.Dump))
	for i, l := range obs.Dump {
		dump[i] = fmt.Sprintf("(%s, (%s, %s))", e.path(l.P), vh.Z(l.V), vh.Z(l.TS))
	}
	b.WriteString(vh.List(dump) + " ")
	snaps := make([]string, len(cs.Subs))
	for i := range cs.Subs {
		var ps [][]string
		if i < len(obs.Snaps) {
			for _, s := range obs.Snaps[i] {
				ps = append(ps, strings.Split(s, "/"))
			}
		}
		snaps[i] = e.paths(ps)
	}
	b.WriteString(vh.List(snaps) + " ")
	b.WriteString(vh.Bool(bad))
	return b.String()
}

func nontrivial(obs *Obs) bool {
	for _, rs := range obs.Streams {
		seenSync := false
		for _, r := range rs {
			if r.K == "sync" {
				seenSync = true
			} else if seenSync {
				return true
			}
		}
	}
	return false
}

func (e *emitter) add(cs *Case, steps []*stepRec, obs *Obs) {
	cs.Obs = obs
	e.cf.Add(e.caseTerm(cs, steps, obs), cs)
	canon, _ := json.Marshal(struct {
		O []Op
		S []SubCfg
		T []string
		R [][]Resp
	}{cs.Ops, cs.Subs, cs.Schedule, obs.Streams})
	e.meta.Count(cs.Family, string(canon), nontrivial(obs), cs)
	e.meta.Hist("mode:" + cs.Mode)
	for _, o := range cs.Ops {
		e.meta.Hist("op:" + o.K)
	}
	for _, s := range cs.Subs {
		e.meta.Hist(fmt.Sprintf("sub:queries=%d,uo=%v", len(s.Qs), s.UO))
	}
	if obs.Bad != "" {
		e.meta.Hist("bad")
		e.bad++
	}
	if e.cf.Len() >= e.limit {
		e.flush()
	}
}

// execute runs a case in its mode and emits it.
func (e *emitter) execute(cs *Case, decide func(ready []string, k int) int) *runS {
	// A case counts as observed only on positive evidence that it ran to its end (runs.go:
	// incomplete, waitQuiet).  If that evidence is not there within the (generous) bounds the
	// case is RE-RUN, up to two more times, and only a hang that reproduces every time is
	// emitted -- as a hang (K_P tag 5 alone): a half-observed run is never judged.
	if cs.Mode == "A" {
		obs := runFree(cs)
		for try := 0; try < 2 && obs.Bad != ""; try++ {
			e.meta.Hist("retried")
			obs = runFree(cs)
		}
		e.add(cs, nil, obs)
		return nil
	}
	r, obs := runSched(cs, decide)
	for try := 0; try < 2 && obs.Bad != ""; try++ {
		e.meta.Hist("retried")
		prefix := forced(r.sched)
		n := len(r.sched)
		r, obs = runSched(cs, func(ready []string, k int) int {
			if k < n {
				return prefix(ready, k)
			}
			return decide(ready, k)
		})
	}
	cs.Schedule = r.sched
	e.add(cs, r.steps, obs)
	return r
}

// forced follows cs.Schedule (entries naming a thread that is not ready are
// skipped), then drains in fixed order.
func forced(sched []string) func(ready []string, k int) int {
	pos := 0
	return func(ready []string, k int) int {
		for pos < len(sched) {
			want := sched[pos]
			pos++
			for i, n := range ready {
				if n == want {
					return i
				}
			}
		}
		return 0
	}
}

func randomDecide(r *vh.Rand) func(ready []string, k int) int {
	return func(ready []string, k int) int { return r.Intn(len(ready)) }
}

// ---------------------------------------------------------------------------
// generators

// b / bc and a/x / a/x1: names that are textual prefixes of each other
var leafUniverse = [][]string{
	{"a", "x"}, {"a", "y"}, {"b"}, {"c", "z"}, {"bc"}, {"a", "x1"},
}

// single-leaf paths, pairwise selecting different leaves although b is a textual prefix of bc
// and a/x of a/x1: any list of them, in any order, is fine for the forced-schedule families
var prefixNamed = [][]string{{"b"}, {"bc"}, {"a", "x"}, {"a", "x1"}, {"c", "z"}}

func genPath(r *vh.Rand, t string) []string {
	l := leafUniverse[r.Intn(len(leafUniverse))]
	if r.Chance(1, 25) {
		// a path that collides with the schema: a/x/deep or a
		if r.Chance(1, 2) {
			return []string{t, "a"}
		}
		return []string{t, "a", "x", "deep"}
	}
	return append([]string{t}, l...)
}

func genDelPattern(r *vh.Rand, t string) []string {
	switch r.Pick(5, 2, 1, 1, 1) {
	case 0:
		return append([]string{t}, leafUniverse[r.Intn(len(leafUniverse))]...)
	case 1:
		return []string{t, "a"}
	case 2:
		return []string{t, "*"}
	case 3:
		return []string{t, "a", "*"}
	}
	return []string{t, "*", "x"}
}

func genOp(r *vh.Rand, w int, t string) Op {
	switch r.Pick(6, 3, 1) {
	case 0:
		return Op{W: w, K: "upd", P: genPath(r, t), V: int64(1 + r.Intn(3)), TS: int64(1 + r.Intn(6))}
	case 1:
		return Op{W: w, K: "del", P: genDelPattern(r, t), TS: int64(1 + r.Intn(7))}
	}
	return Op{W: w, K: "reset", P: []string{t}}
}

// single queries; pairs (disjoint second elements) for mode S
var queryShapes = [][]string{
	{}, {"a"}, {"a", "*"}, {"*"}, {"b"}, {"a", "x"}, {"*", "x"}, {"c"}, {"a", "y"}, {"c", "z"},
}
var disjointPairs = [][2][]string{
	{{"a"}, {"b"}}, {{"a", "x"}, {"c"}}, {{"b"}, {"c", "z"}}, {{"a", "*"}, {"b"}}, {{"a", "y"}, {"a", "x"}},
}

func genSub(r *vh.Rand, overlapping bool) SubCfg {
	t := targets[r.Pick(3, 1)]
	var s SubCfg
	s.UO = r.Chance(1, 5)
	switch {
	case r.Chance(1, 5):
		// several entries whose names are textual prefixes of each other, in a seeded order;
		// free-running cases also repeat an entry or add the container of some
		idx := []int{0, 1, 2, 3, 4}
		for i := len(idx) - 1; i > 0; i-- {
			j := r.Intn(i + 1)
			idx[i], idx[j] = idx[j], idx[i]
		}
		n := 2 + r.Intn(3)
		for _, k := range idx[:n] {
			s.Qs = append(s.Qs, append([]string{t}, prefixNamed[k]...))
		}
		if overlapping && r.Chance(1, 2) {
			extra := [][]string{{"a"}, prefixNamed[idx[0]], {"a", "*"}, {}}
			at := r.Intn(len(s.Qs) + 1)
			q := append([]string{t}, extra[r.Intn(len(extra))]...)
			s.Qs = append(s.Qs[:at], append([][]string{q}, s.Qs[at:]...)...)
		}
	case r.Chance(1, 30):
		// a query longer than a leaf it is compatible with (feed and walk disagree)
		s.Qs = [][]string{{t, "b", "q"}}
	case overlapping && r.Chance(1, 3):
		n := 2 + r.Intn(2)
		for i := 0; i < n; i++ {
			s.Qs = append(s.Qs, append([]string{t}, queryShapes[r.Intn(len(queryShapes))]...))
		}
		if !r.Chance(1, 3) { // sometimes the same path twice in one subscription
			s.Qs = dedupQs(s.Qs)
		}
	case r.Chance(1, 3):
		p := disjointPairs[r.Intn(len(disjointPairs))]
		s.Qs = [][]string{append([]string{t}, p[0]...), append([]string{t}, p[1]...)}
	default:
		s.Qs = [][]string{append([]string{t}, queryShapes[r.Intn(len(queryShapes))]...)}
	}
	return s
}

func dedupQs(qs [][]string) [][]string {
	seen := map[string]bool{}
	var out [][]string
	for _, q := range qs {
		if !seen[pstr(q)] {
			seen[pstr(q)] = true
			out = append(out, q)
		}
	}
	return out
}

// genReadd: a lagging subscriber (its sender is released only when nothing else can move)
// while a writer updates, deletes and re-creates the same few paths over and over: the
// handles of leaves that no longer exist are still queued when the path comes back.
func genReadd(r *vh.Rand) *Case {
	cs := &Case{Mode: "S", ED: false, NW: 1, Seed: r.U64() % 1000000}
	t := targets[0]
	leaves := [][]string{{"b"}, {"a", "x"}}
	ts := int64(1)
	for _, l := range leaves[:1+r.Intn(2)] {
		cs.Ops = append(cs.Ops, Op{W: -1, K: "upd", P: append([]string{t}, l...), V: 1, TS: ts})
	}
	for i, n := 0, 2+r.Intn(3); i < n; i++ {
		l := append([]string{t}, leaves[r.Intn(len(leaves))]...)
		ts++
		cs.Ops = append(cs.Ops, Op{W: 0, K: "upd", P: l, V: int64(2 + i), TS: ts})
		ts++
		if r.Chance(1, 4) {
			cs.Ops = append(cs.Ops, Op{W: 0, K: "reset", P: []string{t}})
		} else {
			cs.Ops = append(cs.Ops, Op{W: 0, K: "del", P: l, TS: ts})
		}
		ts++
		cs.Ops = append(cs.Ops, Op{W: 0, K: "upd", P: l, V: int64(20 + i), TS: ts})
	}
	cs.Subs = []SubCfg{{Qs: [][]string{{t}}}}
	if r.Chance(1, 2) {
		cs.Subs = append(cs.Subs, SubCfg{Qs: [][]string{{t, "b"}}, UO: r.Chance(1, 2)})
	}
	return cs
}

// laggingDecide releases subscribers and walkers first, then writers, senders last; one
// choice in five is random.
func laggingDecide(r *vh.Rand) func(ready []string, k int) int {
	rank := map[byte]int{'s': 0, 'k': 1, 'w': 2, 'x': 3}
	return func(ready []string, k int) int {
		if r.Chance(1, 5) {
			return r.Intn(len(ready))
		}
		best := 0
		for i, n := range ready {
			if rank[n[0]] < rank[ready[best][0]] {
				best = i
			}
		}
		return best
	}
}

// genWalkLock: pre-populated leaves, single-path subscriptions, writers that only delete:
// released while a walk is parked inside an insertion, a delete must wait for the walk.
func genWalkLock(r *vh.Rand) *Case {
	cs := &Case{Mode: "S", ED: r.Chance(1, 2), NW: 2, Seed: r.U64() % 1000000, WalkLock: true}
	t := targets[0]
	for i, n := 0, 2+r.Intn(3); i < n; i++ {
		cs.Ops = append(cs.Ops, Op{W: -1, K: "upd", P: append([]string{t}, leafUniverse[r.Intn(len(leafUniverse))]...), V: int64(1 + r.Intn(3)), TS: int64(1 + r.Intn(3))})
	}
	for i, n := 0, 1+r.Intn(3); i < n; i++ {
		if r.Chance(1, 6) {
			cs.Ops = append(cs.Ops, Op{W: 0, K: "reset", P: []string{t}})
		} else {
			cs.Ops = append(cs.Ops, Op{W: 0, K: "del", P: genDelPattern(r, t), TS: int64(5 + r.Intn(3))})
		}
	}
	for i, n := 0, 1+r.Intn(2); i < n; i++ {
		cs.Subs = append(cs.Subs, SubCfg{Qs: [][]string{append([]string{t}, queryShapes[r.Intn(len(queryShapes))]...)}})
	}
	return cs
}

func genCase(r *vh.Rand, mode string, shared bool, maxOps int) *Case {
	cs := &Case{Mode: mode, ED: r.Chance(1, 2), NW: 2, Seed: r.U64() % 1000000}
	npre := r.Intn(4)
	for i := 0; i < npre; i++ {
		t := targets[r.Pick(3, 1)]
		cs.Ops = append(cs.Ops, Op{W: -1, K: "upd", P: genPath(r, t), V: int64(1 + r.Intn(3)), TS: int64(1 + r.Intn(3))})
	}
	nops := 1 + r.Intn(maxOps)
	for i := 0; i < nops; i++ {
		w := r.Intn(2)
		t := targets[w]
		if shared {
			t = targets[0]
		}
		cs.Ops = append(cs.Ops, genOp(r, w, t))
	}
	nsub := 1 + r.Pick(2, 5, 1)
	if mode == "A" && r.Chance(1, 2) {
		// sibling / nested pairs; one of the two goes away, then more writes
		pairs := [][2][]string{{{"a", "x"}, {"a", "y"}}, {{"a", "x"}, {"a"}}, {{"a"}, {"a", "x"}}, {{"a", "x"}, {}}, {{"b"}, {"c", "z"}}, {{"a", "*"}, {"a", "y"}}}
		pr := pairs[r.Intn(len(pairs))]
		t := targets[0]
		cs.Subs = append(cs.Subs, SubCfg{Qs: [][]string{append([]string{t}, pr[0]...)}}, SubCfg{Qs: [][]string{append([]string{t}, pr[1]...)}})
		cs.Cancel = []int{0}
		for k, n := 0, 2+r.Intn(4); k < n; k++ {
			cs.Ops = append(cs.Ops, Op{W: -2, K: "upd", P: genPath(r, t), V: int64(4 + r.Intn(5)), TS: int64(20 + k)})
		}
		if r.Chance(1, 2) {
			return cs
		}
		nsub = 1
	}
	for i := 0; i < nsub; i++ {
		// mode S: the paths of one subscriber select disjoint leaves -- a leaf selected twice by
		// one walk is inserted twice, and a sender woken by the first insertion races the second
		// (there is no schedule point inside the walk); mode A covers overlapping paths
		cs.Subs = append(cs.Subs, genSub(r, mode == "A"))
	}
	if mode == "A" {
		// writes after the sync under EVERY entry of every subscription that names a leaf
		k := 0
		for _, sc := range cs.Subs {
			for _, q := range sc.Qs {
				for _, l := range leafUniverse {
					if pstr(q[1:]) == pstr(l) {
						cs.Ops = append(cs.Ops, Op{W: -2, K: "upd", P: append([]string(nil), q...), V: int64(10 + k), TS: int64(40 + k)})
						k++
					}
				}
			}
		}
	}
	return cs
}

// dfs enumerates the schedules of one configuration depth-first (stateless,
// by re-execution), at most maxLeaves runs.
func (e *emitter) dfs(family string, base *Case, maxLeaves int) (int, bool) {
	type frame struct{ prefix []int }
	stack := []frame{{}}
	leaves := 0
	for len(stack) > 0 {
		if leaves >= maxLeaves || e.bad >= 3 {
			return leaves, false
		}
		f := stack[len(stack)-1]
		stack = stack[:len(stack)-1]
		cs := *base
		cs.Family = family
		cs.Obs = nil
		r := e.execute(&cs, func(ready []string, k int) int {
			if k < len(f.prefix) {
				return f.prefix[k]
			}
			return 0
		})
		leaves++
		for k := len(r.nready) - 1; k >= len(f.prefix); k-- {
			for alt := r.nready[k] - 1; alt >= 1; alt-- {
				p := make([]int, k+1)
				copy(p, f.prefix)
				// choices between len(prefix) and k were 0
				p[k] = alt
				stack = append(stack, frame{p})
			}
		}
	}
	return leaves, true
}

func readCases(path string) []*Case {
	b, err := os.ReadFile(path)
	if err != nil {
		vh.Die("read %s: %v", path, err)
	}
	var cs []*Case
	if err := json.Unmarshal(b, &cs); err != nil {
		var one Case
		if err2 := json.Unmarshal(b, &one); err2 != nil {
			vh.Die("parse %s: %v", path, err)
		}
		cs = []*Case{&one}
	}
	return cs
}

func (e *emitter) replay(cs *Case, family string) {
	if family != "" {
		cs.Family = family
	}
	cs.Obs = nil
	if cs.Mode == "A" {
		e.execute(cs, nil)
		return
	}
	e.execute(cs, forced(cs.Schedule))
}

func main() {
	flag.Set("logtostderr", "true")
	flag.Set("stderrthreshold", "FATAL")
	o := vh.ParseFlags()
	devnull, _ := os.OpenFile(os.DevNull, os.O_WRONLY, 0)
	if devnull != nil {
		os.Stderr = devnull
	}
	subscribe.VerifHook = func(point string) {
		hookS(point)
		hookA(point)
	}
	// pauses inside coalesce.Queue.Insert / Next as well (mode A): between a walk's visit of a
	// leaf and its insertion, between insertion and signal
	coalesce.VerifHook = func(point string) {
		hookA(point)
		hookWalkLock(point)
		hookEmpty(point)
	}
	meta := vh.NewMeta("corpus; mode S: 2 writers x 1-3 STREAM subscribers x 1-4 writes (+0-3 pre-populated leaves) on a 4-leaf schema over 2 targets, every thread parked at the verif hook points (registered / before-walk / before-sync / before-next), in the feed callback and in Send, schedules chosen blindly (seeded random walks; depth-first enumeration of small configurations), every released step validated against the transition system inside Coq; mode A: the same shapes (overlapping queries allowed, up to 8 writes) free-running with seeded pauses at the same points, judged at quiescence. distinct = distinct (ops, subscriptions, schedule, streams); non-trivial = some subscriber received a response after its sync")
	e := &emitter{dir: o.Out, cf: vh.NewCaseFile(), meta: meta, limit: 400}

	if o.Replay != "" {
		for _, c := range readCases(o.Replay) {
			e.replay(c, "")
		}
		e.flush()
		meta.Write(o.Out)
		return
	}
	if dir := os.Getenv("VERIF_CORPUS"); dir != "" {
		ents, _ := os.ReadDir(dir)
		var names []string
		for _, en := range ents {
			if strings.HasSuffix(en.Name(), ".json") {
				names = append(names, en.Name())
			}
		}
		sort.Strings(names)
		for _, n := range names {
			for _, c := range readCases(dir + "/" + n) {
				e.replay(c, "corpus")
			}
		}
	}

	r := vh.NewRand(o.Seed)
	nS, nShared, nA, leaves := 500, 150, 120, 300
	if o.Thorough() {
		nS, nShared, nA, leaves = 12000, 4000, 3000, 6000
	}

	// depth-first enumeration of small configurations
	small := []struct {
		name string
		cs   Case
	}{
		{"S-dfs-upd-vs-subscribe", Case{Mode: "S", ED: false, NW: 1,
			Ops:  []Op{{W: -1, K: "upd", P: []string{"t1", "b"}, V: 1, TS: 1}, {W: 0, K: "upd", P: []string{"t1", "b"}, V: 2, TS: 2}},
			Subs: []SubCfg{{Qs: [][]string{{"t1", "b"}}}}}},
		{"S-dfs-del-vs-subscribe", Case{Mode: "S", ED: true, NW: 1,
			Ops:  []Op{{W: -1, K: "upd", P: []string{"t1", "b"}, V: 1, TS: 1}, {W: 0, K: "del", P: []string{"t1", "b"}, TS: 2}, {W: 0, K: "upd", P: []string{"t1", "b"}, V: 2, TS: 3}},
			Subs: []SubCfg{{Qs: [][]string{{"t1"}}}}}},
		{"S-dfs-two-writers-two-subs", Case{Mode: "S", ED: true, NW: 2,
			Ops:  []Op{{W: 0, K: "upd", P: []string{"t1", "a", "x"}, V: 1, TS: 1}, {W: 1, K: "upd", P: []string{"t2", "b"}, V: 1, TS: 1}},
			Subs: []SubCfg{{Qs: [][]string{{"t1", "a"}}}, {Qs: [][]string{{"t2"}}, UO: true}}}},
	}
	dfsInfo := map[string]interface{}{}
	for _, d := range small {
		cs := d.cs
		n, complete := e.dfs(d.name, &cs, leaves)
		dfsInfo[d.name] = map[string]interface{}{"leaves": n, "complete": complete}
	}
	meta.Extra["S_dfs"] = dfsInfo

	for i := 0; i < nS && e.bad < 3; i++ {
		rr := r.Fork()
		cs := genCase(rr, "S", false, 4)
		cs.Family = "S-random"
		e.execute(cs, randomDecide(rr))
	}
	for i := 0; i < nShared && e.bad < 3; i++ {
		rr := r.Fork()
		cs := genCase(rr, "S", true, 4)
		cs.Family = "S-random-shared-target"
		e.execute(cs, randomDecide(rr))
	}
	nRA := 60
	if o.Thorough() {
		nRA = 1500
	}
	// one processor: a node a delete has just unlinked is the one the next add would get
	// from a per-processor free list, if the tree recycled nodes
	prevProcs := runtime.GOMAXPROCS(1)
	for i := 0; i < nRA && e.bad < 3; i++ {
		rr := r.Fork()
		cs := genReadd(rr)
		cs.Family = "S-readd-lagging"
		e.execute(cs, laggingDecide(rr))
	}
	runtime.GOMAXPROCS(prevProcs)
	nWL := 250
	if o.Thorough() {
		nWL = 6000
	}
	for i := 0; i < nWL && e.bad < 3; i++ {
		rr := r.Fork()
		cs := genWalkLock(rr)
		cs.Family = "S-walk-lock"
		e.execute(cs, randomDecide(rr))
	}
	for i := 0; i < nA && e.bad < 3; i++ {
		rr := r.Fork()
		cs := genCase(rr, "A", i%4 == 3, 8)
		cs.Family = "A-free"
		if i%4 == 3 {
			cs.Family = "A-free-shared-target"
		}
		e.execute(cs, nil)
	}
	e.flush()
	if err := meta.Write(o.Out); err != nil {
		vh.Die("meta: %v", err)
	}
}

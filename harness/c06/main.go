// Harness for C06: drives ONE real subscribe.Server per case -- its
// match.Match trie through AddQuery / the removal closures / Update /
// UpdateOnce, the real addSubscription, and the real Server.Update on a
// ctree leaf holding a notification -- with clients that are real
// *matchClient values on real coalescing queues.  After every operation the
// queues are drained: a client was offered the item 1 + (duplicate count)
// times.  For notifications the harness also records which live subscribers
// would have found one of the notification's leaves in their snapshot (real
// path.CompletePath + real ctree.Tree.Query on a tree holding the leaves at
// their index paths).  Cases are written as Gallina terms for
// MatchCheck.check_all.
package main

import (
	"context"
	"encoding/json"
	"flag"
	"fmt"
	"os"
	"runtime"
	"sort"
	"strings"
	"sync"
	"sync/atomic"
	"time"

	"github.com/openconfig/gnmi/coalesce"

	log "github.com/golang/glog"
	"github.com/openconfig/gnmi/cache"
	"github.com/openconfig/gnmi/ctree"
	"github.com/openconfig/gnmi/match"
	"github.com/openconfig/gnmi/path"
	pb "github.com/openconfig/gnmi/proto/gnmi"
	"github.com/openconfig/gnmi/subscribe"
	"github.com/openconfig/gnmi/zz_verif/vh"
)

var _ = log.Info

// Elem is one path element; Keys is rendered in key-name order.
type Elem struct {
	Name string            `json:"n"`
	Keys map[string]string `json:"k,omitempty"`
}

// GPath is a gnmi.Path.
type GPath struct {
	Target  string   `json:"t,omitempty"`
	Origin  string   `json:"o,omitempty"`
	Elems   []Elem   `json:"e,omitempty"`
	Element []string `json:"el,omitempty"`
}

// Op is one step.  K: add sub rem upd once notif nodes conc.
// conc: Update (Once=false) or UpdateOnce (Once=true) of P while a trigger
// client registered at Tq for this step only starts, inside its callback, a
// goroutine that calls the removal closures Hs.
type Op struct {
	K    string     `json:"k"`
	C    int        `json:"c,omitempty"`
	C2   int        `json:"c2,omitempty"` // race: the other subscriber
	Upd  bool       `json:"upd,omitempty"` // race: a third goroutine spins Update
	P    []string   `json:"p,omitempty"`
	Ps   [][]string `json:"ps,omitempty"`
	H    int        `json:"h,omitempty"`
	Pre  *GPath     `json:"pre,omitempty"`
	Ents []*GPath   `json:"ents,omitempty"`
	Ups  []*GPath   `json:"ups,omitempty"`
	Dels []*GPath   `json:"dels,omitempty"`
	Atom bool       `json:"atomic,omitempty"` // notif: Notification.Atomic
	Once bool       `json:"once,omitempty"`
	Tq   []string   `json:"tq,omitempty"`
	Hs   []int      `json:"hs,omitempty"`
}

// Offer is (client, number of calls).
type Offer struct {
	C int `json:"c"`
	N int `json:"n"`
}

// Obs is the projected observation of one step.
type Obs struct {
	Kind   string  `json:"kind"` // done offers notif nodes conc panic
	Trig   bool    `json:"trig,omitempty"`  // conc: the trigger was called
	Early  bool    `json:"early,omitempty"` // conc: the removals returned while the update was in progress
	Late   []int   `json:"late,omitempty"`  // conc: clients first called after the removals had returned
	Offers []Offer `json:"offers,omitempty"`
	Hits   []int   `json:"hits,omitempty"`
	N      int     `json:"n,omitempty"`
	Msg    string  `json:"msg,omitempty"`
}

// Case is what is written to cases_k.json and read back for replay.
type Case struct {
	Family string `json:"family"`
	Ops    []Op   `json:"ops"`
	Obs    []Obs  `json:"obs,omitempty"`
}

func (g *GPath) pb() *pb.Path {
	if g == nil {
		return nil
	}
	p := &pb.Path{Target: g.Target, Origin: g.Origin, Element: append([]string(nil), g.Element...)}
	for _, e := range g.Elems {
		pe := &pb.PathElem{Name: e.Name}
		if len(e.Keys) > 0 {
			pe.Key = map[string]string{}
			for k, v := range e.Keys {
				pe.Key[k] = v
			}
		}
		p.Elem = append(p.Elem, pe)
	}
	return p
}

const maxClients = 80

type subInfo struct {
	client int
	list   *pb.SubscriptionList
	live   bool
}

// concState is the bookkeeping of one conc step, read by the coalesce hook.
type concState struct {
	done  int32 // set once every removal closure has returned
	vict  [maxClients]bool // clients whose removal closures are being called
	seen  [maxClients]bool
	late  []int
	trig  bool
	early bool
}

// curWorld is the world of the case being run (cases run one at a time).
var curWorld atomic.Pointer[world]

// queueHook is installed as coalesce.VerifHook: after every Queue.Insert it
// finds the client that has just been called for the first time in this conc
// step and notes whether the removals had already returned.
func queueHook(point string) {
	if point != "insert:inserted" {
		return
	}
	w := curWorld.Load()
	if w == nil || w.conc == nil {
		return
	}
	cs := w.conc
	for i, c := range w.clients {
		if c != nil && !cs.seen[i] && c.Q.Len() > 0 {
			cs.seen[i] = true
			if cs.vict[i] && atomic.LoadInt32(&cs.done) == 1 {
				cs.late = append(cs.late, i)
			}
		}
	}
}

// trigger is an ordinary slow subscriber.
type trigger struct {
	w    *world
	hs   []int
	fin  chan struct{}
	used bool
}

// c06remover calls the removal closures; its name is looked for in goroutine dumps.
func c06remover(w *world, hs []int, cs *concState, fin chan struct{}) {
	defer close(fin)
	for _, h := range hs {
		if h >= 0 && h < len(w.removes) {
			w.removes[h]()
		}
	}
	atomic.StoreInt32(&cs.done, 1)
}

// removerBlocked reports whether the remover goroutine is parked on a lock.
func removerBlocked() bool {
	buf := make([]byte, 1<<16)
	n := runtime.Stack(buf, true)
	for _, g := range strings.Split(string(buf[:n]), "\n\n") {
		if !strings.Contains(g, "main.c06remover") {
			continue
		}
		head := g
		if i := strings.IndexByte(g, '\n'); i >= 0 {
			head = g[:i]
		}
		return strings.Contains(head, "sync.RWMutex.Lock") || strings.Contains(head, "sync.Mutex.Lock") || strings.Contains(head, "semacquire")
	}
	return false
}

func (t *trigger) Update(interface{}) {
	if t.used {
		return
	}
	t.used = true
	cs := t.w.conc
	cs.trig = true
	go c06remover(t.w, t.hs, cs, t.fin)
	// Wait until the removals have returned, or the remover is seen parked on
	// the lock, or (load) 3 s have passed.  Load can only hide a defect.
	deadline := time.Now().Add(3 * time.Second)
	for i := 0; time.Now().Before(deadline); i++ {
		if atomic.LoadInt32(&cs.done) == 1 {
			break
		}
		if i%4 == 3 && removerBlocked() {
			break
		}
		time.Sleep(200 * time.Microsecond)
	}
	cs.early = atomic.LoadInt32(&cs.done) == 1
}

type world struct {
	conc    *concState
	srv     *subscribe.Server
	m       *match.Match
	clients [maxClients]*subscribe.VerifC06Client
	removes []func()
	hclient []int // client of each handle
	subs    []*subInfo // by handle; nil for AddQuery handles
}

// cl returns client i, created on first use (only the queues of clients that
// exist are drained).
func (w *world) cl(i int) *subscribe.VerifC06Client {
	i %= maxClients
	if w.clients[i] == nil {
		w.clients[i] = subscribe.VerifC06NewClient()
	}
	return w.clients[i]
}

func newWorld() *world {
	srv, err := subscribe.NewServer(cache.New(nil))
	if err != nil {
		vh.Die("NewServer: %v", err)
	}
	w := &world{srv: srv, m: subscribe.VerifC06Match(srv)}
	return w
}

// drain empties every client's queue and reports how often item was offered.
func (w *world) drain(item interface{}) []Offer {
	var out []Offer
	ctx := context.Background()
	for i, c := range w.clients {
		n := 0
		for c != nil && c.Q.Len() > 0 {
			it, dup, err := c.Q.Next(ctx)
			if err != nil {
				panic(fmt.Sprintf("queue: %v", err))
			}
			if it != item {
				panic("queue held an item of another operation")
			}
			n += 1 + int(dup)
		}
		if n > 0 {
			out = append(out, Offer{C: i, N: n})
		}
	}
	return out
}

func cp(p []string) []string { return append([]string{}, p...) }

func (w *world) apply(o Op) (res Obs) {
	defer func() {
		if r := recover(); r != nil {
			res = Obs{Kind: "panic", Msg: fmt.Sprint(r)}
		}
	}()
	switch o.K {
	case "add":
		w.removes = append(w.removes, w.m.AddQuery(cp(o.P), w.cl(o.C).MatchClient()))
		w.subs = append(w.subs, nil)
		w.hclient = append(w.hclient, o.C%maxClients)
		return Obs{Kind: "done"}
	case "sub":
		sl := &pb.SubscriptionList{Prefix: o.Pre.pb(), Mode: pb.SubscriptionList_STREAM}
		for _, e := range o.Ents {
			sl.Subscription = append(sl.Subscription, &pb.Subscription{Path: e.pb()})
		}
		w.removes = append(w.removes, subscribe.VerifC06AddSubscription(w.srv, sl, w.cl(o.C)))
		w.subs = append(w.subs, &subInfo{client: o.C % maxClients, list: sl, live: true})
		w.hclient = append(w.hclient, o.C%maxClients)
		return Obs{Kind: "done"}
	case "rem":
		if o.H >= 0 && o.H < len(w.removes) {
			w.removes[o.H]()
			if s := w.subs[o.H]; s != nil {
				s.live = false
			}
		}
		return Obs{Kind: "done"}
	case "upd":
		tok := new(int)
		w.m.Update(tok, cp(o.P))
		return Obs{Kind: "offers", Offers: w.drain(tok)}
	case "once":
		tok := new(int)
		updated := map[match.Client]struct{}{}
		for _, p := range o.Ps {
			w.m.UpdateOnce(tok, cp(p), updated)
		}
		return Obs{Kind: "offers", Offers: w.drain(tok)}
	case "notif":
		n := &pb.Notification{Timestamp: 1, Prefix: o.Pre.pb(), Atomic: o.Atom}
		for _, u := range o.Ups {
			n.Update = append(n.Update, &pb.Update{Path: u.pb(), Val: &pb.TypedValue{Value: &pb.TypedValue_IntVal{IntVal: 1}}})
		}
		for _, d := range o.Dels {
			n.Delete = append(n.Delete, d.pb())
		}
		t := &ctree.Tree{}
		if err := t.Add([]string{"n"}, n); err != nil {
			panic(err)
		}
		leaf := t.GetLeaf([]string{"n"})
		w.srv.Update(leaf)
		offers := w.drain(leaf)
		return Obs{Kind: "notif", Offers: offers, Hits: w.hits(n)}
	case "nodes":
		return Obs{Kind: "nodes", N: match.VerifC06Nodes(w.m)}
	case "race":
		// X = client C registers P, is sent Ps[0] and removes itself, H times;
		// Y = client C2 spins AddQuery(Tq)/remove (a neighbour on a shared prefix).
		cx, cy := o.C%maxClients, o.C2%maxClients
		mcx, mcy, qx := w.cl(cx).MatchClient(), w.cl(cy).MatchClient(), w.cl(cx).Q
		pth := o.Ps[0]
		var stop int32
		var wg sync.WaitGroup
		wg.Add(1)
		go func() {
			defer wg.Done()
			for atomic.LoadInt32(&stop) == 0 {
				rm := w.m.AddQuery(cp(o.Tq), mcy)
				rm()
			}
		}()
		if o.Upd {
			wg.Add(1)
			go func() {
				defer wg.Done()
				junk := new(int)
				for atomic.LoadInt32(&stop) == 0 {
					w.m.Update(junk, cp(pth))
					runtime.Gosched()
				}
			}()
		}
		offered := 0
		ctx := context.Background()
		func() {
			defer func() {
				atomic.StoreInt32(&stop, 1)
				wg.Wait()
			}()
			for i := 0; i < o.H; i++ {
				rm := w.m.AddQuery(cp(o.P), mcx)
				tok := new(int)
				w.m.UpdateOnce(tok, cp(pth), map[match.Client]struct{}{})
				q := qx
				for q.Len() > 0 {
					it, dup, err := q.Next(ctx)
					if err != nil {
						panic(fmt.Sprintf("queue: %v", err))
					}
					if it == interface{}(tok) {
						offered += 1 + int(dup)
					}
				}
				rm()
			}
		}()
		for _, c := range w.clients {
			for c != nil && c.Q.Len() > 0 {
				if _, _, err := c.Q.Next(ctx); err != nil {
					panic(fmt.Sprintf("queue: %v", err))
				}
			}
		}
		return Obs{Kind: "race", N: offered}
	case "conc":
		cs := &concState{}
		for _, h := range o.Hs {
			if h >= 0 && h < len(w.hclient) {
				cs.vict[w.hclient[h]] = true
			}
		}
		w.conc = cs
		defer func() { w.conc = nil }()
		tr := &trigger{w: w, hs: o.Hs, fin: make(chan struct{})}
		rmTrig := w.m.AddQuery(cp(o.Tq), tr)
		tok := new(int)
		if o.Once {
			w.m.UpdateOnce(tok, cp(o.P), map[match.Client]struct{}{})
		} else {
			w.m.Update(tok, cp(o.P))
		}
		if cs.trig {
			select {
			case <-tr.fin:
			case <-time.After(15 * time.Second):
				panic("removal closures did not return after the update returned")
			}
		} else {
			c06remover(w, o.Hs, cs, tr.fin)
		}
		for _, h := range o.Hs {
			if h >= 0 && h < len(w.subs) && w.subs[h] != nil {
				w.subs[h].live = false
			}
		}
		rmTrig()
		sort.Ints(cs.late)
		return Obs{Kind: "conc", Offers: w.drain(tok), Trig: cs.trig, Early: cs.early, Late: cs.late}
	}
	panic("unknown op " + o.K)
}

// hits: the live subscribers one of whose snapshot queries (CompletePath on
// the subscription, Query on the target's tree) selects a leaf this
// notification stores.  Leaves are stored as the cache stores them: at the
// index path of prefix+path without the target.
func (w *world) hits(n *pb.Notification) []int {
	target := n.GetPrefix().GetTarget()
	if target == "" {
		return nil
	}
	t := &ctree.Tree{}
	pre := path.ToStrings(n.Prefix, true)
	if n.Atomic {
		// the cache stores an atomic notification as one leaf at its prefix
		if len(n.Update) > 0 && len(pre) > 0 {
			_ = t.Add(pre[1:], 1)
		}
		pre = nil
	}
	for _, u := range n.Update {
		if n.Atomic {
			break
		}
		sp := append(cp(pre), path.ToStrings(u.Path, false)...)
		if len(sp) == 0 {
			continue
		}
		_ = t.Add(sp[1:], 1) // conflicting index paths: the later one is not stored
	}
	seen := map[int]bool{}
	for _, s := range w.subs {
		if s == nil || !s.live {
			continue
		}
		st := s.list.GetPrefix().GetTarget()
		if st != "*" && st != target {
			continue
		}
		for _, sub := range s.list.Subscription {
			fp, err := path.CompletePath(s.list.GetPrefix(), sub.GetPath())
			if err != nil {
				continue
			}
			found := false
			t.Query(fp, func(_ []string, _ *ctree.Leaf, _ interface{}) error {
				found = true
				return nil
			})
			if found {
				seen[s.client] = true
			}
		}
	}
	var out []int
	for c := range seen {
		out = append(out, c)
	}
	sort.Ints(out)
	return out
}

// hung counts cases stopped by the watchdog; after maxHung the remaining
// generated cases are not run (every one of them would wait for the watchdog).
var hung int

const maxHung = 8

func run(ops []Op) []Obs {
	limit := 5 * time.Second
	for _, o := range ops {
		if o.K == "conc" {
			limit += 20 * time.Second
		}
		if o.K == "race" {
			limit += 10 * time.Second
		}
	}
	done := make(chan []Obs, 1)
	go func() {
		w := newWorld()
		curWorld.Store(w)
		out := make([]Obs, len(ops))
		for i, o := range ops {
			out[i] = w.apply(o)
		}
		done <- out
	}()
	select {
	case out := <-done:
		return out
	case <-time.After(limit):
		hung++
		out := make([]Obs, len(ops))
		for i := range out {
			out[i] = Obs{Kind: "panic", Msg: "hang"}
		}
		return out
	}
}

// ---------------------------------------------------------------------------
// Gallina

func gpTerm(n *vh.Names, g *GPath) string {
	els := make([]string, len(g.Elems))
	for i, e := range g.Elems {
		ks := make([]string, 0, len(e.Keys))
		for k := range e.Keys {
			ks = append(ks, k)
		}
		sort.Strings(ks)
		kv := make([]string, len(ks))
		for j, k := range ks {
			kv[j] = fmt.Sprintf("(%s, %s)", n.Ref(k), n.Ref(e.Keys[k]))
		}
		els[i] = fmt.Sprintf("(%s, %s)", n.Ref(e.Name), vh.List(kv))
	}
	return fmt.Sprintf("(GPath %s %s %s %s)", n.Ref(g.Target), n.Ref(g.Origin), vh.List(els), n.Path(g.Element))
}

func optGp(n *vh.Names, g *GPath) string {
	if g == nil {
		return "None"
	}
	return "(Some " + gpTerm(n, g) + ")"
}

func optGps(n *vh.Names, gs []*GPath) string {
	el := make([]string, len(gs))
	for i, g := range gs {
		el[i] = optGp(n, g)
	}
	return vh.List(el)
}

func opTerm(n *vh.Names, o Op) string {
	switch o.K {
	case "add":
		return fmt.Sprintf("OAdd %s %s", vh.Nat(o.C%maxClients), n.Path(o.P))
	case "sub":
		pre := o.Pre
		if pre == nil {
			pre = &GPath{}
		}
		return fmt.Sprintf("OSub %s %s %s", vh.Nat(o.C%maxClients), gpTerm(n, pre), optGps(n, o.Ents))
	case "rem":
		h := o.H
		if h < 0 {
			h = 1 << 20
		}
		return "ORem " + vh.Nat(h)
	case "upd":
		return "OUpd " + n.Path(o.P)
	case "once":
		el := make([]string, len(o.Ps))
		for i, p := range o.Ps {
			el[i] = n.Path(p)
		}
		return "OOnce " + vh.List(el)
	case "notif":
		return fmt.Sprintf("ONotif %s %s %s %s", vh.Bool(o.Atom), optGp(n, o.Pre), optGps(n, o.Ups), optGps(n, o.Dels))
	case "nodes":
		return "ONodes"
	case "race":
		cy := o.C2 % maxClients
		return fmt.Sprintf("ORace %s %s %s %s %s %s %s", vh.Nat(o.C%maxClients), vh.Nat(cy), n.Path(o.P), n.Path(o.Tq), n.Path(o.Ps[0]), vh.Nat(o.H), vh.Bool(o.Upd))
	case "conc":
		hs := make([]string, len(o.Hs))
		for i, h := range o.Hs {
			if h < 0 {
				h = 1 << 20
			}
			hs[i] = vh.Nat(h)
		}
		return fmt.Sprintf("OConc %s %s %s %s", vh.Bool(o.Once), n.Path(o.Tq), vh.List(hs), n.Path(o.P))
	}
	panic("opTerm")
}

func offersTerm(os []Offer) string {
	el := make([]string, len(os))
	for i, o := range os {
		el[i] = fmt.Sprintf("(%s, %s)", vh.Nat(o.C), vh.Nat(o.N))
	}
	return vh.List(el)
}

func obsTerm(r Obs) string {
	switch r.Kind {
	case "done":
		return "RDone"
	case "offers":
		return "ROffers " + offersTerm(r.Offers)
	case "notif":
		el := make([]string, len(r.Hits))
		for i, h := range r.Hits {
			el[i] = vh.Nat(h)
		}
		return fmt.Sprintf("RNotif %s %s", offersTerm(r.Offers), vh.List(el))
	case "nodes":
		return "RNodes " + vh.Nat(r.N)
	case "race":
		return "RRace " + vh.Nat(r.N)
	case "conc":
		el := make([]string, len(r.Late))
		for i, h := range r.Late {
			el[i] = vh.Nat(h)
		}
		return fmt.Sprintf("RConc %s %s %s %s", offersTerm(r.Offers), vh.Bool(r.Trig), vh.Bool(r.Early), vh.List(el))
	case "panic":
		return "RPanic"
	}
	panic("obsTerm")
}

func caseTerm(n *vh.Names, c Case) string {
	el := make([]string, len(c.Ops))
	for i := range c.Ops {
		el[i] = fmt.Sprintf("(%s, %s)", opTerm(n, c.Ops[i]), obsTerm(c.Obs[i]))
	}
	return vh.List(el)
}

// ---------------------------------------------------------------------------
// Generators

// all paths over the alphabet of length 0..maxLen
func allPaths(alpha []string, maxLen int) [][]string {
	out := [][]string{{}}
	level := [][]string{{}}
	for l := 1; l <= maxLen; l++ {
		var next [][]string
		for _, p := range level {
			for _, a := range alpha {
				next = append(next, append(cp(p), a))
			}
		}
		out = append(out, next...)
		level = next
	}
	return out
}

func names(ss ...string) *GPath {
	g := &GPath{}
	for _, s := range ss {
		g.Elems = append(g.Elems, Elem{Name: s})
	}
	return g
}

var nameAlpha = []string{"a", "b", "c", "*"}

func randNames(r *vh.Rand, maxLen, globW int) []string {
	n := r.Intn(maxLen + 1)
	p := make([]string, n)
	for i := range p {
		p[i] = []string{"a", "b", "c", "*", ""}[r.Pick(15, 12, 6, 3*globW, 1)]
	}
	return p
}

// mutate a known path: keep, truncate, extend, glob one element
func mutate(r *vh.Rand, p []string) []string {
	p = cp(p)
	switch r.Pick(4, 2, 2, 2, 1) {
	case 1:
		if len(p) > 0 {
			p = p[:r.Intn(len(p))]
		}
	case 2:
		p = append(p, randNames(r, 2, 1)...)
	case 3:
		if len(p) > 0 {
			p[r.Intn(len(p))] = "*"
		}
	case 4:
		if len(p) > 0 {
			p[r.Intn(len(p))] = []string{"a", "b", "c"}[r.Intn(3)]
		}
	}
	return p
}

// randGPath renders names as a gnmi.Path, sometimes with keys or through the
// deprecated element field (representation noise the model must not depend on
// beyond ToStrings).
func randGPath(r *vh.Rand, ns []string) *GPath {
	g := &GPath{}
	if len(ns) > 0 && r.Chance(1, 8) {
		g.Element = cp(ns)
		return g
	}
	for i := 0; i < len(ns); i++ {
		e := Elem{Name: ns[i]}
		if i+2 < len(ns) && r.Chance(1, 12) {
			// two keys: values are indexed in key-name order (j before k)
			e.Keys = map[string]string{"k": ns[i+2], "j": ns[i+1]}
			i += 2
		} else if i+1 < len(ns) && r.Chance(1, 6) {
			e.Keys = map[string]string{"k": ns[i+1]}
			i++
		}
		g.Elems = append(g.Elems, e)
	}
	if len(g.Elems) > 0 && r.Chance(1, 10) {
		// the deprecated field next to the new one: ignored when Elem is set
		g.Element = []string{"zz", "*"}
	}
	return g
}

// longNames: more names than path.ToStrings' initial capacity (20)
func longNames(r *vh.Rand) []string {
	l := make([]string, 18+r.Intn(8))
	for i := range l {
		l[i] = []string{"a", "b"}[r.Intn(2)]
	}
	return l
}

// randOrigin: origins, including values that look like the default origin
// (gNMI's mixed-schema default is "openconfig"; the code must treat every
// non-empty origin literally).
func randOrigin(r *vh.Rand) string {
	return []string{"oc", "openconfig", "Openconfig", "openconfig-x", "default"}[r.Pick(4, 5, 1, 1, 1)]
}

func randTarget(r *vh.Rand) string {
	return []string{"dev1", "dev2", "*"}[r.Pick(6, 2, 2)]
}

func randSub(r *vh.Rand, c int, known *[][]string) Op {
	pre := randGPath(r, randNames(r, 1, 0))
	if r.Chance(1, 40) {
		// a prefix longer than the capacity path.ToStrings allocates (20)
		long := make([]string, 19+r.Intn(4))
		for i := range long {
			long[i] = "a"
		}
		pre = randGPath(r, long)
	}
	pre.Target = randTarget(r)
	if r.Chance(1, 5) {
		pre.Origin = randOrigin(r)
	}
	n := 1 + r.Pick(4, 4, 2)
	if r.Chance(1, 30) {
		n = 0 // a list without entries
	} else if r.Chance(1, 20) {
		n = 5 + r.Intn(4)
	}
	o := Op{K: "sub", C: c, Pre: pre}
	// Names containing separator-like bytes: one element "a/b" is not the two
	// elements a, b.  A joined spelling and its split spelling in one list, in
	// either order, each possibly extended or cut.
	if r.Chance(1, 6) {
		sep := []string{"/", "/", ",", ".", " ", "|", "//"}[r.Intn(7)]
		parts := []string{"a", "b", "c"}[:2+r.Intn(2)]
		cut := 1 + r.Intn(len(parts))
		joined := append([]string{strings.Join(parts[:cut], sep)}, parts[cut:]...)
		if r.Chance(1, 3) {
			joined[0] += sep // trailing separator inside the name
		}
		split := cp(parts)
		if r.Chance(1, 2) {
			split = append(split, randNames(r, 1, 1)...)
		}
		if r.Chance(1, 3) && len(joined) > 1 {
			joined = joined[:len(joined)-1]
		}
		pair := [][]string{joined, split}
		if r.Chance(1, 2) {
			pair[0], pair[1] = pair[1], pair[0]
		}
		for _, ns := range pair {
			o.Ents = append(o.Ents, names(ns...))
			*known = append(*known, ns)
		}
		n--
	}
	for i := 0; i < n; i++ {
		if r.Chance(1, 10) {
			o.Ents = append(o.Ents, nil)
			continue
		}
		var ns []string
		if len(*known) > 0 && r.Chance(1, 2) {
			ns = mutate(r, (*known)[r.Intn(len(*known))])
		} else {
			ns = randNames(r, 3, 2)
		}
		if r.Chance(1, 40) {
			ns = append(ns, longNames(r)...)
		}
		e := randGPath(r, ns)
		if r.Chance(1, 10) {
			e.Origin = randOrigin(r)
		}
		if r.Chance(1, 10) {
			e.Target = "dev9" // a target inside a subscription path is not indexed
		}
		o.Ents = append(o.Ents, e)
		*known = append(*known, ns)
	}
	return o
}

func randNotif(r *vh.Rand, known [][]string) Op {
	var pre *GPath
	if !r.Chance(1, 25) {
		pre = randGPath(r, randNames(r, 1, 0))
		pre.Target = []string{"dev1", "dev2", "*", ""}[r.Pick(10, 3, 1, 1)]
		if r.Chance(1, 5) {
			pre.Origin = randOrigin(r)
		}
	}
	o := Op{K: "notif", Pre: pre, Atom: r.Chance(1, 5)}
	k := 1 + r.Pick(6, 3, 2)
	if r.Chance(1, 30) {
		k = 0 // prefix-only notification
	}
	for i := 0; i < k; i++ {
		var ns []string
		if len(known) > 0 && r.Chance(2, 3) {
			ns = mutate(r, known[r.Intn(len(known))])
		} else {
			ns = randNames(r, 3, 1)
		}
		if r.Chance(1, 40) {
			ns = append(ns, longNames(r)...)
		}
		var g *GPath
		if !r.Chance(1, 20) {
			g = randGPath(r, ns)
			// target / origin inside an update or delete path are not indexed
			if r.Chance(1, 12) {
				g.Origin = randOrigin(r)
			}
			if r.Chance(1, 12) {
				g.Target = "dev9"
			}
		}
		if r.Chance(1, 4) {
			o.Dels = append(o.Dels, g)
		} else {
			o.Ups = append(o.Ups, g)
		}
	}
	return o
}

// random sequence over both levels
func randSeq(r *vh.Rand, maxOps int) []Op {
	n := 4 + r.Intn(maxOps-3)
	var ops []Op
	var known [][]string // index paths (with target) registered so far
	var subKnown [][]string
	handles := 0
	nextSub := 3
	for i := 0; i < n; i++ {
		switch r.Pick(16, 10, 10, 14, 6, 16, 3) {
		case 0:
			var q []string
			if len(known) > 0 && r.Chance(1, 2) {
				q = mutate(r, known[r.Intn(len(known))])
			} else {
				q = append([]string{randTarget(r)}, randNames(r, 3, 2)...)
				if r.Chance(1, 8) {
					q = randNames(r, 3, 2)
				}
			}
			ops = append(ops, Op{K: "add", C: r.Intn(3), P: q})
			known = append(known, q)
			handles++
		case 1:
			// one subscription list per client (a fresh matchClient per RPC)
			if nextSub < maxClients {
				ops = append(ops, randSub(r, nextSub, &subKnown))
				nextSub++
				handles++
			}
		case 2:
			if handles > 0 {
				ops = append(ops, Op{K: "rem", H: r.Intn(handles)})
			}
		case 3:
			var p []string
			if len(known) > 0 && r.Chance(3, 4) {
				p = mutate(r, known[r.Intn(len(known))])
			} else {
				p = append([]string{randTarget(r)}, randNames(r, 3, 1)...)
			}
			ops = append(ops, Op{K: "upd", P: p})
		case 4:
			k := 1 + r.Intn(3)
			o := Op{K: "once"}
			for j := 0; j < k; j++ {
				var p []string
				if len(known) > 0 && r.Chance(3, 4) {
					p = mutate(r, known[r.Intn(len(known))])
				} else {
					p = append([]string{randTarget(r)}, randNames(r, 3, 1)...)
				}
				o.Ps = append(o.Ps, p)
			}
			ops = append(ops, o)
		case 5:
			// notification paths come without the target
			kn := subKnown
			for _, q := range known {
				if len(q) > 0 {
					kn = append(kn, q[1:])
				}
			}
			ops = append(ops, randNotif(r, kn))
		case 6:
			ops = append(ops, Op{K: "nodes"})
		}
	}
	ops = append(ops, Op{K: "nodes"})
	return ops
}

// subscribe-level sequence: subscriptions, notifications, removal, notifications
func randSubSeq(r *vh.Rand) []Op {
	var ops []Op
	var known [][]string
	nsub := 1 + r.Intn(3)
	for i := 0; i < nsub; i++ {
		ops = append(ops, randSub(r, i, &known))
	}
	for i := 0; i < 2+r.Intn(4); i++ {
		ops = append(ops, randNotif(r, known))
	}
	ops = append(ops, Op{K: "rem", H: r.Intn(nsub)})
	for i := 0; i < 2+r.Intn(4); i++ {
		ops = append(ops, randNotif(r, known))
	}
	for h := 0; h < nsub; h++ {
		ops = append(ops, Op{K: "rem", H: h})
	}
	ops = append(ops, randNotif(r, known), Op{K: "nodes"})
	return ops
}

// many family: n distinct subscribers on exactly the same query (plus a few on
// the parent, a child and a glob sibling), registered in two batches with
// removals in between, then removals in every position -- first, middle and
// last registered, a random half, all -- each followed by updates, then
// re-registration of removed ones.  n runs over powers of two and their
// neighbours: whatever thresholds an implementation has are not known here.
func randManySeq(r *vh.Rand, n int) []Op {
	var ops []Op
	q := append([]string{randTarget(r)}, randNames(r, 2, 1)...)
	p := append(cp(q), randNames(r, 1, 1)...)
	upd := func() {
		ops = append(ops, Op{K: "upd", P: p})
		if r.Chance(1, 2) {
			ops = append(ops, Op{K: "once", Ps: [][]string{p, q}})
		}
	}
	alive := map[int]bool{}
	viaSub := r.Chance(1, 3) // some of the subscribers come through addSubscription
	add := func(c int) {
		if viaSub && r.Chance(1, 2) {
			ops = append(ops, Op{K: "sub", C: c, Pre: &GPath{Target: q[0]}, Ents: []*GPath{names(q[1:]...)}})
		} else {
			ops = append(ops, Op{K: "add", C: c, P: q})
		}
		alive[c] = true
	}
	rem := func(c int) { // handle numbers equal client numbers for the first n adds
		ops = append(ops, Op{K: "rem", H: c})
		delete(alive, c)
	}
	first := 1 + r.Intn(n)
	for c := 0; c < first; c++ {
		add(c)
	}
	if r.Chance(1, 2) {
		upd()
		for _, c := range []int{0, first / 2, first - 1} {
			if alive[c] && r.Chance(2, 3) {
				rem(c)
			}
		}
		upd()
	}
	for c := first; c < n; c++ {
		add(c)
	}
	// neighbours on shared nodes (handles n, n+1, ...)
	h := n
	extra := func(c int, qq []string) int {
		ops = append(ops, Op{K: "add", C: c, P: qq})
		h++
		return h - 1
	}
	hp := extra(n, cp(q[:len(q)-1]))
	hc := extra(n+1, append(cp(q), "c"))
	hg := extra(n+2, append(cp(q[:len(q)-1]), "*"))
	upd()
	for _, c := range []int{0, n / 2, n - 1} {
		if alive[c] {
			rem(c)
			upd()
		}
	}
	for c := 0; c < n; c++ {
		if alive[c] && r.Chance(1, 2) {
			rem(c)
		}
	}
	upd()
	// some come back (new handles), the update reaches exactly the live ones
	back := []int{0, n - 1, r.Intn(n)}
	var hb []int
	for _, c := range back {
		if !alive[c] {
			hb = append(hb, extra(c, cp(q)))
			alive[c] = true
		}
	}
	upd()
	for c := 0; c < n; c++ {
		if alive[c] {
			ops = append(ops, Op{K: "rem", H: c})
		}
	}
	for _, x := range hb {
		ops = append(ops, Op{K: "rem", H: x})
	}
	upd()
	ops = append(ops, Op{K: "rem", H: hp}, Op{K: "rem", H: hc}, Op{K: "rem", H: hg})
	upd()
	ops = append(ops, Op{K: "nodes"})
	return ops
}

// race family: registration concurrent with another subscriber's
// registration/removal on a shared prefix (and with updates).  X's query
// extends, equals, or is a sibling of Y's, so that Y's removal prunes (or
// would prune) nodes on X's way.
func randRaceSeq(r *vh.Rand, iters int) []Op {
	var ops []Op
	base := append([]string{randTarget(r)}, randNames(r, 2, 0)...)
	// a few bystanders, some of them keeping part of the prefix alive
	for i := 0; i < r.Intn(3); i++ {
		q := mutate(r, base)
		ops = append(ops, Op{K: "add", C: 4 + i, P: q})
	}
	nr := 1 + r.Intn(3)
	for i := 0; i < nr; i++ {
		qy := cp(base)
		var qx []string
		switch r.Pick(6, 2, 2, 1) {
		case 0: // X below Y
			qx = append(cp(base), randNames(r, 2, 1)...)
			if len(qx) == len(base) {
				qx = append(qx, "c")
			}
		case 1: // same node
			qx = cp(base)
		case 2: // siblings under a shared parent
			qx = append(cp(base[:len(base)-1]), "x", "y")
		case 3: // Y below X
			qx = cp(base[:r.Intn(len(base))])
		}
		var p []string
		if r.Chance(4, 5) {
			p = append(cp(qx), randNames(r, 1, 1)...)
		} else {
			p = mutate(r, qx)
		}
		cx := r.Intn(4)
		cy := (cx + 1 + r.Intn(3)) % 4
		ops = append(ops, Op{K: "race", C: cx, C2: cy, P: qx, Tq: qy, Ps: [][]string{p}, H: iters, Upd: r.Chance(1, 3)})
		ops = append(ops, Op{K: "upd", P: p})
	}
	ops = append(ops, Op{K: "nodes"})
	return ops
}

// concurrent family: several clients on the same or overlapping paths, then
// an update during which a trigger's callback has some of them removed, then
// updates that must not reach the removed ones.
func randConcSeq(r *vh.Rand) []Op {
	var ops []Op
	base := append([]string{randTarget(r)}, randNames(r, 2, 1)...)
	if len(base) == 1 {
		base = append(base, "a")
	}
	nv := 2 + r.Intn(6)
	var known [][]string
	for i := 0; i < nv; i++ {
		q := cp(base)
		if r.Chance(1, 3) {
			q = mutate(r, base)
		}
		ops = append(ops, Op{K: "add", C: i % maxClients, P: q})
		known = append(known, q)
	}
	nsub := 0
	if r.Chance(1, 3) {
		var sk [][]string
		ops = append(ops, randSub(r, 7, &sk))
		nsub = 1
	}
	handles := nv + nsub
	p := append(cp(base), randNames(r, 1, 1)...)
	if r.Chance(1, 4) {
		p = mutate(r, base)
	}
	tq := cp(base)
	if r.Chance(1, 5) {
		tq = mutate(r, base)
	}
	var hs []int
	for h := 0; h < handles; h++ {
		if r.Chance(3, 4) {
			hs = append(hs, h)
		}
	}
	if r.Chance(1, 10) {
		hs = append(hs, hs...) // closures called twice
	}
	ops = append(ops, Op{K: "conc", Once: r.Chance(1, 2), Tq: tq, Hs: hs, P: p})
	ops = append(ops, Op{K: "upd", P: p}, Op{K: "once", Ps: [][]string{p, base}})
	if r.Chance(1, 2) {
		// a second round on what is left
		var hs2 []int
		for h := 0; h < handles; h++ {
			if r.Chance(1, 2) {
				hs2 = append(hs2, h)
			}
		}
		ops = append(ops, Op{K: "conc", Once: r.Chance(1, 2), Tq: mutate(r, base), Hs: hs2, P: mutate(r, p)})
		ops = append(ops, Op{K: "upd", P: p})
	}
	ops = append(ops, Op{K: "nodes"})
	return ops
}

// splitSub renders the full index path (without target) of a subscription as
// prefix elements + path elements, split at a random point.
func splitSub(r *vh.Rand, c int, target, origin string, full []string) Op {
	j := r.Intn(len(full) + 1)
	pre := randGPath(r, full[:j])
	pre.Target = target
	var e *GPath
	if j == len(full) && r.Chance(1, 3) {
		e = nil // everything in the prefix, no path at all
	} else {
		e = randGPath(r, full[j:])
	}
	if origin != "" {
		if j > 0 || e == nil || r.Chance(1, 2) {
			pre.Origin = origin
		} else {
			e.Origin = origin
		}
	}
	return Op{K: "sub", C: c, Pre: pre, Ents: []*GPath{e}}
}

// "under what path is a notification matched": one notification prefix P and
// update/delete paths u_i; subscribers above P, at P, below P on paths that
// agree with some u_i (prefix of it, equal, extension, globbed) and on paths
// that disagree with every u_i at the first or a later element; the
// notification sent atomic and not, as updates and as deletes, prefix-only,
// with an empty update path, with target/origin noise.
func randUnderSeq(r *vh.Rand) []Op {
	target := []string{"dev1", "dev2"}[r.Pick(4, 1)]
	origin := ""
	if r.Chance(1, 6) {
		origin = randOrigin(r)
	}
	pool := []string{"a", "b", "c", "g"}
	P := make([]string, r.Pick(2, 3, 3))
	for i := range P {
		P[i] = pool[r.Intn(len(pool))]
	}
	nu := 1 + r.Intn(3)
	us := make([][]string, nu)
	for i := range us {
		us[i] = make([]string, r.Pick(1, 4, 3))
		for k := range us[i] {
			us[i][k] = pool[r.Intn(3)]
		}
	}
	disagree := func(s string) string { // a name different from s and not a glob
		for _, x := range []string{"x", "y"} {
			if x != s {
				return x
			}
		}
		return "z"
	}
	var ops []Op
	nsub := 3 + r.Intn(5)
	for c := 0; c < nsub && c < maxClients; c++ {
		var full []string
		u := us[r.Intn(nu)]
		switch r.Pick(2, 2, 3, 3, 5, 2) {
		case 0: // above the prefix
			full = cp(P[:r.Intn(len(P)+1)])
		case 1: // at the prefix
			full = cp(P)
		case 2: // below, a prefix of / equal to an update path
			full = append(cp(P), u[:r.Intn(len(u)+1)]...)
		case 3: // below, an extension of an update path
			full = append(append(cp(P), u...), pool[r.Intn(3)])
		case 4: // below, disagreeing with EVERY update path
			k := 0
			if len(u) > 1 && r.Chance(1, 2) {
				k = r.Intn(len(u))
			}
			full = append(cp(P), u[:k]...)
			bad := "x"
			for _, v := range us { // differ from every update at position k (or be past its end with a mismatch before)
				if k < len(v) && v[k] == bad {
					bad = disagree(v[k])
				}
			}
			full = append(full, bad)
			if r.Chance(1, 3) {
				full = append(full, pool[r.Intn(3)])
			}
		case 5: // disagreeing inside the prefix
			if len(P) > 0 {
				full = cp(P)
				full[r.Intn(len(P))] = "x"
				full = append(full, u...)
			} else {
				full = []string{"x"}
			}
		}
		if len(full) > 0 && r.Chance(1, 5) {
			full[r.Intn(len(full))] = "*"
		}
		st := target
		if r.Chance(1, 6) {
			st = "*"
		}
		so := origin
		switch r.Pick(6, 1, 1) {
		case 1:
			so = randOrigin(r) // the subscriber names an origin the data may not have
		case 2:
			so = ""
		}
		ops = append(ops, splitSub(r, c, st, so, full))
	}
	mk := func(atomic, asDelete bool, paths [][]string) Op {
		pre := randGPath(r, P)
		pre.Target = target
		pre.Origin = origin
		o := Op{K: "notif", Pre: pre, Atom: atomic}
		for _, u := range paths {
			var g *GPath
			if len(u) > 0 || !r.Chance(1, 3) {
				g = randGPath(r, u)
				if r.Chance(1, 8) {
					g.Target = "dev9"
				}
				if origin == "" && r.Chance(1, 10) {
					g.Origin = randOrigin(r)
				}
			}
			if asDelete {
				o.Dels = append(o.Dels, g)
			} else {
				o.Ups = append(o.Ups, g)
			}
		}
		return o
	}
	ops = append(ops, mk(false, false, us), mk(true, false, us), mk(false, true, us), mk(true, true, us))
	ops = append(ops, mk(r.Chance(1, 2), false, nil))                  // prefix-only
	ops = append(ops, mk(r.Chance(1, 2), false, [][]string{{}}))       // one update with an empty path
	ops = append(ops, mk(true, false, us[:1]), mk(false, false, us[:1])) // single update
	mixed := mk(r.Chance(1, 2), false, us[:1])
	mixed.Dels = mk(false, true, us[1:]).Dels
	ops = append(ops, mixed)
	// the other target, and the same elements carried by a notification whose prefix is shorter
	other := mk(true, false, us)
	other.Pre.Target = "dev3"
	ops = append(ops, other)
	if len(P) > 0 {
		short := Op{K: "notif", Atom: r.Chance(1, 2), Pre: &GPath{Target: target, Origin: origin}}
		for _, u := range us {
			short.Ups = append(short.Ups, randGPath(r, append(cp(P), u...)))
		}
		short.Pre.Elems = nil
		ops = append(ops, short)
	}
	ops = append(ops, Op{K: "rem", H: r.Intn(nsub)}, mk(true, false, us), mk(false, true, us), Op{K: "nodes"})
	return ops
}

func nontrivial(c Case) bool {
	reg, hit := false, false
	for i, o := range c.Ops {
		if o.K == "add" || o.K == "sub" {
			reg = true
		}
		if len(c.Obs[i].Offers) > 0 {
			hit = true
		}
	}
	return reg && hit
}

func canonical(c Case) string {
	b, _ := json.Marshal(c.Ops)
	return string(b)
}

type emitter struct {
	dir   string
	shard int
	cf    *vh.CaseFile
	meta  *vh.Meta
	limit int
	ops   int
}

func (e *emitter) add(family string, ops []Op) {
	if hung >= maxHung && family != "corpus" && family != "replay" {
		e.meta.Hist("not-run-after-too-many-hangs")
		return
	}
	c := Case{Family: family, Ops: ops, Obs: run(ops)}
	e.cf.Add(caseTerm(e.cf.Names, c), c)
	for i, o := range c.Ops {
		e.meta.Hist("op:" + o.K)
		r := c.Obs[i]
		switch r.Kind {
		case "panic":
			e.meta.Hist("panic")
		case "conc":
			if r.Trig {
				e.meta.Hist("conc:trigger-called")
			} else {
				e.meta.Hist("conc:trigger-not-matched")
			}
			if r.Early {
				e.meta.Hist("conc:removals-returned-during-update")
			}
			if len(r.Late) > 0 {
				e.meta.Hist("conc:client-called-after-removal-returned")
			}
			fallthrough
		case "offers", "notif":
			if len(r.Offers) == 0 {
				e.meta.Hist("update:no-client")
			} else {
				e.meta.Hist(fmt.Sprintf("update:clients=%d", len(r.Offers)))
			}
			for _, of := range r.Offers {
				if of.N > 1 {
					e.meta.Hist("update:client-offered-more-than-once")
					break
				}
			}
			if len(r.Hits) > 0 {
				e.meta.Hist("notif:snapshot-hit")
			}
		}
	}
	e.meta.Hist(fmt.Sprintf("len:%03d", (len(ops)/10)*10))
	e.meta.Count(family, canonical(c), nontrivial(c), map[string]interface{}{"family": family, "ops": describe(c)})
	e.ops += len(ops)
	if e.cf.Len() >= e.limit || e.ops >= 12000 {
		e.flush()
	}
}

func describe(c Case) []string {
	out := make([]string, 0, len(c.Ops))
	for i, o := range c.Ops {
		if i >= 12 {
			out = append(out, fmt.Sprintf("... %d more", len(c.Ops)-i))
			break
		}
		ob, _ := json.Marshal(o)
		b, _ := json.Marshal(c.Obs[i])
		out = append(out, fmt.Sprintf("%s -> %s", ob, b))
	}
	return out
}

func (e *emitter) flush() {
	if e.cf.Len() == 0 {
		return
	}
	if err := e.cf.Write(e.dir, e.shard, "Path.PathModel Match.MatchModel Match.MatchCheck", "list (op * obs)", "check_all"); err != nil {
		vh.Die("write: %v", err)
	}
	e.shard++
	e.cf = vh.NewCaseFile()
	e.ops = 0
}

func readCases(file string) []Case {
	b, err := os.ReadFile(file)
	if err != nil {
		vh.Die("read %s: %v", file, err)
	}
	var cs []Case
	if err := json.Unmarshal(b, &cs); err != nil {
		var one Case
		if err2 := json.Unmarshal(b, &one); err2 != nil {
			vh.Die("%s unreadable: %v", file, err)
		}
		cs = []Case{one}
	}
	return cs
}

func main() {
	// glog: nothing to files, nothing below FATAL to stderr
	flag.Set("logtostderr", "true")
	flag.Set("stderrthreshold", "FATAL")
	o := vh.ParseFlags()
	coalesce.VerifHook = queueHook
	meta := vh.NewMeta("corpus cases; pairs-1: for every query path q of length 0..4 over {a,b,*} one case registering q and matching EVERY update path of length 0..4 over {a,b,*} against it (Update and UpdateOnce), then removal and the same updates again; pairs-2: two queries (same or different client) of length 0..3 against every update path of length 0..3 (quick: a seeded slice; thorough: all); sub: seeded subscribe-level sequences (1..3 subscription lists with 1..4 entries incl. entries without path, one list in six holding a name with a separator-like byte (/ , . space |) together with the same text split into separate elements, in either order, origins, keyed elements, deprecated element paths; notifications with 1..3 updates/deletes through Server.Update before and after removal); under: seeded cases about the path a notification is matched under: one notification prefix (0..2 elements) and 1..3 update paths, 3..7 subscribers above / at / below the prefix on paths agreeing with an update path (prefix, equal, extension, globbed) or disagreeing with every update path (at the first or a later element, or inside the prefix), subscription split between prefix and path at a random point (also path-less), origins (oc, openconfig, Openconfig, openconfig-x, default, none) in the subscription prefix or path and in the notification prefix, agreeing or not; then the notification as updates / deletes / mixed, atomic and not, prefix-only, with an empty update path, single update, other target, shorter prefix, target/origin noise, and again after one removal; many: for n in {1,2,3,4,5,7,8,9,15,16,17,31,32,33,63,64,65}, three (thorough: twenty) seeded cases with n distinct clients on exactly the same query (through AddQuery, in a third of the cases half of them through addSubscription) plus neighbours on the parent, a child and a glob sibling, registered in two batches, removed in every position (first, middle, last registered, a random half, all), re-registered, with Update/UpdateOnce after every stage; race: seeded cases in which a client registers a query, is sent a compatible update and removes itself 1500 times (thorough: 4000) while a second goroutine spins AddQuery/removal of another client on a shared prefix (X below / at / beside / above Y) and sometimes a third spins Update; observed: how many of its updates the client was offered; conc: seeded concurrent cases: 2..7 clients on the same or overlapping paths (AddQuery, sometimes a subscription list), then Update/UpdateOnce during which a trigger client's callback -- running inside the matcher's call -- starts a goroutine calling the removal closures of a random subset (also twice), observing whether they return before the callback does (goroutine dump shows the remover parked on the lock, else bounded wait) and which of the clients being removed are first called after the removals returned, then updates that must not reach the removed clients; seq: seeded sequences of 4..30 operations mixing AddQuery (clients 0..2) / addSubscription (clients 3..7, one list each) / removal (repeated) / Update / UpdateOnce / Server.Update / trie size. distinct = distinct operation sequence; non-trivial = at least one registration and at least one update that was offered to some client")
	meta.Samples = []interface{}{} // never null in meta.json
	e := &emitter{dir: o.Out, cf: vh.NewCaseFile(), meta: meta, limit: 1500}

	if o.Replay != "" {
		for _, c := range readCases(o.Replay) {
			e.add("replay", c.Ops)
		}
		e.flush()
		meta.Write(o.Out)
		return
	}

	// corpus first
	if dir := os.Getenv("VERIF_CORPUS"); dir != "" {
		ents, _ := os.ReadDir(dir)
		for _, en := range ents {
			if !strings.HasSuffix(en.Name(), ".json") {
				continue
			}
			for _, c := range readCases(dir + "/" + en.Name()) {
				e.add("corpus", c.Ops)
			}
		}
	}

	r := vh.NewRand(o.Seed)

	// pairs-1: exhaustive to length 4 over {a,b,*}
	alpha := []string{"a", "b", "*"}
	p4 := allPaths(alpha, 4)
	for _, q := range p4 {
		ops := []Op{{K: "add", C: 0, P: q}, {K: "nodes"}}
		for _, p := range p4 {
			ops = append(ops, Op{K: "upd", P: p})
		}
		// the same through UpdateOnce, two paths sharing the set
		for i := 0; i+1 < len(p4); i += 7 {
			ops = append(ops, Op{K: "once", Ps: [][]string{p4[i], p4[len(p4)-1-i]}})
		}
		ops = append(ops, Op{K: "rem", H: 0}, Op{K: "nodes"})
		for i := 0; i < len(p4); i += 5 {
			ops = append(ops, Op{K: "upd", P: p4[i]})
		}
		e.add("pairs-1", ops)
	}
	meta.Extra["pairs1_paths"] = len(p4)
	meta.Extra["pairs1_pairs"] = len(p4) * len(p4)

	// pairs-2
	p3 := allPaths(alpha, 3)
	rp := r.Fork()
	quota := 260
	if o.Thorough() {
		quota = len(p3) * len(p3) * 2
	}
	total := 0
	for i, q1 := range p3 {
		for j, q2 := range p3 {
			for same := 0; same < 2; same++ {
				if !o.Thorough() && !rp.Chance(quota, len(p3)*len(p3)*2) {
					continue
				}
				_ = i
				_ = j
				ops := []Op{{K: "add", C: 0, P: q1}, {K: "add", C: same, P: q2}, {K: "nodes"}}
				for _, p := range p3 {
					ops = append(ops, Op{K: "upd", P: p})
				}
				for k := 0; k+1 < len(p3); k += 3 {
					ops = append(ops, Op{K: "once", Ps: [][]string{p3[k], p3[len(p3)-1-k]}})
				}
				ops = append(ops, Op{K: "rem", H: 0}, Op{K: "nodes"})
				for _, p := range p3 {
					ops = append(ops, Op{K: "upd", P: p})
				}
				ops = append(ops, Op{K: "rem", H: 1}, Op{K: "rem", H: 0}, Op{K: "nodes"}, Op{K: "upd", P: q2})
				e.add("pairs-2", ops)
				total++
			}
		}
	}
	meta.Extra["pairs2_cases"] = total
	meta.Extra["pairs2_all"] = len(p3) * len(p3) * 2

	// subscribe-level
	nsub, nseq := 1500, 1200
	if o.Thorough() {
		nsub, nseq = 30000, 20000
	}
	rs := r.Fork()
	for i := 0; i < nsub; i++ {
		e.add("sub", randSubSeq(rs.Fork()))
	}
	nunder := 500
	if o.Thorough() {
		nunder = 10000
	}
	ru := r.Fork()
	for i := 0; i < nunder; i++ {
		e.add("under", randUnderSeq(ru.Fork()))
	}
	counts := []int{1, 2, 3, 4, 5, 7, 8, 9, 15, 16, 17, 31, 32, 33, 63, 64, 65}
	reps := 3
	if o.Thorough() {
		reps = 20
	}
	rm := r.Fork()
	for k := 0; k < reps; k++ {
		for _, n := range counts {
			e.add("many", randManySeq(rm.Fork(), n))
		}
	}
	nrace, iters := 150, 1500
	if o.Thorough() {
		nrace, iters = 1500, 4000
	}
	rr := r.Fork()
	for i := 0; i < nrace; i++ {
		e.add("race", randRaceSeq(rr.Fork(), iters))
	}
	nconc := 400
	if o.Thorough() {
		nconc = 4000
	}
	rc := r.Fork()
	for i := 0; i < nconc; i++ {
		e.add("conc", randConcSeq(rc.Fork()))
	}
	rq := r.Fork()
	for i := 0; i < nseq; i++ {
		e.add("seq", randSeq(rq.Fork(), 30))
	}
	e.flush()
	meta.Exhaustive = false
	if err := meta.Write(o.Out); err != nil {
		vh.Die("meta: %v", err)
	}
}

package main

import (
	"context"
	"crypto/ecdsa"
	"crypto/elliptic"
	"crypto/rand"
	"crypto/tls"
	"crypto/x509"
	"crypto/x509/pkix"
	"encoding/json"
	"encoding/pem"
	"fmt"
	"math"
	"math/big"
	"net"
	"os"
	"os/exec"
	"path/filepath"
	"sort"
	"strconv"
	"strings"
	"sync"
	"syscall"
	"time"

	"google.golang.org/grpc"
	"google.golang.org/grpc/codes"
	"google.golang.org/grpc/credentials"
	"google.golang.org/grpc/status"
	"google.golang.org/protobuf/encoding/prototext"

	"github.com/openconfig/gnmi/client"
	_ "github.com/openconfig/gnmi/client/gnmi"
	gpb "github.com/openconfig/gnmi/proto/gnmi"
	tpb "github.com/openconfig/gnmi/proto/target"
	"github.com/openconfig/gnmi/value"
)

// ---------------------------------------------------------------------------
// TLS material (self-signed, generated once per harness run)

type tlsFiles struct {
	cert, key string
	conf      *tls.Config
}

func makeCert(dir string) (*tlsFiles, error) {
	priv, err := ecdsa.GenerateKey(elliptic.P256(), rand.Reader)
	if err != nil {
		return nil, err
	}
	tmpl := &x509.Certificate{
		SerialNumber:          big.NewInt(1),
		Subject:               pkix.Name{CommonName: "verif-c01"},
		NotBefore:             time.Now().Add(-time.Hour),
		NotAfter:              time.Now().Add(24 * time.Hour),
		KeyUsage:              x509.KeyUsageDigitalSignature | x509.KeyUsageCertSign,
		ExtKeyUsage:           []x509.ExtKeyUsage{x509.ExtKeyUsageServerAuth},
		BasicConstraintsValid: true,
		IsCA:                  true,
		DNSNames:              []string{"localhost"},
		IPAddresses:           []net.IP{net.ParseIP("127.0.0.1")},
	}
	der, err := x509.CreateCertificate(rand.Reader, tmpl, tmpl, &priv.PublicKey, priv)
	if err != nil {
		return nil, err
	}
	kb, err := x509.MarshalECPrivateKey(priv)
	if err != nil {
		return nil, err
	}
	cp := pem.EncodeToMemory(&pem.Block{Type: "CERTIFICATE", Bytes: der})
	kp := pem.EncodeToMemory(&pem.Block{Type: "EC PRIVATE KEY", Bytes: kb})
	f := &tlsFiles{cert: filepath.Join(dir, "cert.pem"), key: filepath.Join(dir, "key.pem")}
	if err := os.WriteFile(f.cert, cp, 0o600); err != nil {
		return nil, err
	}
	if err := os.WriteFile(f.key, kp, 0o600); err != nil {
		return nil, err
	}
	pair, err := tls.X509KeyPair(cp, kp)
	if err != nil {
		return nil, err
	}
	f.conf = &tls.Config{Certificates: []tls.Certificate{pair}}
	return f, nil
}

// ---------------------------------------------------------------------------
// Scripted fake target

// step is one element of a target's script: a message, or the end of a session
// (the stream is closed with an error; the next Subscribe continues the script).
type step struct {
	resp   *gpb.SubscribeResponse
	brk    bool
	eof    bool // the failing session ends with a clean end of stream instead of an error
	phase2 bool // after the clients' subscription point
	delay  time.Duration
}

type fakeTarget struct {
	gpb.UnimplementedGNMIServer
	name   string
	script []step
	pace   time.Duration // between phase-2 messages
	go2    chan struct{} // closed when the clients have subscribed
	stop   chan struct{}

	mu        sync.Mutex
	pos       int
	subs      int
	req       *gpb.SubscribeRequest
	sent1     chan struct{} // closed when phase 1 was handed to gRPC
	sentAll   chan struct{}
	once1     sync.Once
	onceAll   sync.Once
	srv       *grpc.Server
	addr      string
	sendError string
}

func (f *fakeTarget) Subscribe(stream gpb.GNMI_SubscribeServer) error {
	req, err := stream.Recv()
	if err != nil {
		return err
	}
	f.mu.Lock()
	f.subs++
	if f.subs == 1 {
		f.req = req
	}
	f.mu.Unlock()
	for {
		f.mu.Lock()
		pos := f.pos
		f.mu.Unlock()
		if pos >= len(f.script) {
			f.once1.Do(func() { close(f.sent1) })
			f.onceAll.Do(func() { close(f.sentAll) })
			break
		}
		st := f.script[pos]
		if st.phase2 {
			f.once1.Do(func() { close(f.sent1) })
			select {
			case <-f.go2:
			case <-f.stop:
				return nil
			case <-stream.Context().Done():
				return nil
			}
			if f.pace > 0 && !st.brk {
				// let the collector's sender drain its queue between messages, so
				// that what a subscriber sees does not depend on coalescing
				time.Sleep(f.pace)
			}
		}
		if st.delay > 0 {
			time.Sleep(st.delay)
		}
		f.mu.Lock()
		f.pos++
		f.mu.Unlock()
		if st.brk {
			// the session ends: the collector sees a Recv error, resets the target
			// and, after its back-off, opens the next session
			if st.eof {
				return nil
			}
			return status.Error(codes.Unavailable, "scripted stream failure")
		}
		if err := stream.Send(st.resp); err != nil {
			f.mu.Lock()
			f.sendError = err.Error()
			f.mu.Unlock()
			return err
		}
	}
	// keep the stream open: closing it would make the collector reset the target
	select {
	case <-f.stop:
	case <-stream.Context().Done():
	}
	return nil
}

func startTarget(name string, tf *tlsFiles, script []step, pace time.Duration) (*fakeTarget, error) {
	lis, err := net.Listen("tcp", "127.0.0.1:0")
	if err != nil {
		return nil, err
	}
	f := &fakeTarget{name: name, script: script, pace: pace, go2: make(chan struct{}), stop: make(chan struct{}),
		sent1: make(chan struct{}), sentAll: make(chan struct{}), addr: lis.Addr().String()}
	f.srv = grpc.NewServer(grpc.Creds(credentials.NewTLS(tf.conf)))
	gpb.RegisterGNMIServer(f.srv, f)
	go f.srv.Serve(lis)
	return f, nil
}

func (f *fakeTarget) shutdown() {
	select {
	case <-f.stop:
	default:
		close(f.stop)
	}
	f.srv.Stop()
}

func respOf(n *Noti) *gpb.SubscribeResponse {
	if n == nil {
		return &gpb.SubscribeResponse{Response: &gpb.SubscribeResponse_SyncResponse{SyncResponse: true}}
	}
	return &gpb.SubscribeResponse{Response: &gpb.SubscribeResponse_Update{Update: n.pb()}}
}

// ---------------------------------------------------------------------------
// A quick oracle of the expected number of data leaves per target, used only
// to decide how long to wait (never for a verdict).

func keyOf(pre *GPath, p GPath) []string {
	o := ""
	if pre != nil {
		o = pre.Origin
	}
	if o == "" {
		o = "openconfig"
	}
	k := []string{o}
	k = append(k, strs(pre)...)
	k = append(k, strs(&p)...)
	return k
}

func strs(p *GPath) []string {
	if p == nil {
		return nil
	}
	var r []string
	if len(p.Elem) == 0 {
		return append(r, p.Element...)
	}
	for _, e := range p.Elem {
		r = append(r, e.Name)
		for _, kv := range e.Keys { // keys are kept sorted by the generator
			r = append(r, kv[1])
		}
	}
	return r
}

func expectedCount(ops []Op, target string) int {
	st := map[string]int64{} // key -> timestamp of the newest accepted update
	for _, o := range ops {
		if o.Subscribe || o.T != target {
			continue
		}
		if o.Break {
			st = map[string]int64{} // the reset drops everything
			continue
		}
		if o.N == nil {
			continue
		}
		for _, u := range o.N.Updates {
			k := strings.Join(keyOf(o.N.Prefix, u.Path), "\x00")
			if t0, ok := st[k]; !ok || o.N.TS >= t0 {
				st[k] = o.N.TS
			}
		}
		for _, d := range o.N.Deletes {
			dk := keyOf(o.N.Prefix, d)
			for k, t0 := range st {
				if t0 >= o.N.TS {
					continue
				}
				ks := strings.Split(k, "\x00")
				m := len(ks) >= len(dk)
				for i := 0; m && i < len(dk); i++ {
					if dk[i] != "*" && dk[i] != ks[i] {
						m = false
					}
				}
				if m {
					delete(st, k)
				}
			}
		}
	}
	return len(st)
}

// ---------------------------------------------------------------------------
// Library client

type libClient struct {
	c     *client.CacheClient
	done  chan error
	mu    sync.Mutex
	last  time.Time
	count int
}

func project(v interface{}) SV {
	switch x := v.(type) {
	case string:
		return SV{K: "str", S: x}
	case int64:
		return SV{K: "int", I: x}
	case uint64:
		return SV{K: "uint", U: x}
	case bool:
		return SV{K: "bool", B: x}
	case []byte:
		return SV{K: "bytes", S: string(x)}
	case float32:
		return SV{K: "f32", U: uint64(math.Float32bits(x))}
	case float64:
		return SV{K: "f64", U: math.Float64bits(x)}
	case []interface{}:
		r := SV{K: "list", L: []SV{}}
		for _, e := range x {
			r.L = append(r.L, project(e))
		}
		return r
	case value.DeprecatedScalar:
		b, err := json.Marshal(x.Value)
		if err != nil {
			return SV{K: "other", S: "json:" + err.Error()}
		}
		if strings.Contains(x.Message, "JsonIetfVal") {
			return SV{K: "jsonietf", S: string(b)}
		}
		return SV{K: "json", S: string(b)}
	}
	return SV{K: "other", S: fmt.Sprintf("%T", v)}
}

func subReq(q ClientSpec) *gpb.SubscribeRequest {
	pre := q.Prefix
	p := q.Path
	subs := []*gpb.Subscription{{Path: p.pb()}}
	for i := range q.More {
		m := q.More[i]
		subs = append(subs, &gpb.Subscription{Path: m.pb()})
	}
	return &gpb.SubscribeRequest{Request: &gpb.SubscribeRequest_Subscribe{Subscribe: &gpb.SubscriptionList{
		Mode:         gpb.SubscriptionList_STREAM,
		Prefix:       pre.pb(),
		Subscription: subs,
	}}}
}

func startClient(ctx context.Context, addr string, q ClientSpec) *libClient {
	lc := &libClient{c: client.New(), done: make(chan error, 1), last: time.Now()}
	cq := client.Query{
		Addrs:   []string{addr},
		Target:  q.Prefix.Target,
		Type:    client.Stream,
		Timeout: 5 * time.Second,
		TLS:     &tls.Config{InsecureSkipVerify: true},
		SubReq:  subReq(q),
		NotificationHandler: func(client.Notification) error {
			if q.Slow > 0 {
				// a subscriber that reads slowly: the collector's queue for it fills up
				time.Sleep(time.Duration(q.Slow) * time.Microsecond)
			}
			lc.mu.Lock()
			lc.last = time.Now()
			lc.count++
			lc.mu.Unlock()
			return nil
		},
	}
	go func() {
		defer func() {
			if r := recover(); r != nil {
				lc.done <- fmt.Errorf("panic: %v", r)
			}
		}()
		lc.done <- lc.c.Subscribe(ctx, cq)
	}()
	return lc
}

func (lc *libClient) dataLeaves(target string) int {
	n := 0
	for _, l := range lc.c.Leaves() {
		if len(l.Path) >= 2 && l.Path[1] == "meta" {
			continue
		}
		n++
	}
	return n
}

func (lc *libClient) lastEvent() time.Time {
	lc.mu.Lock()
	defer lc.mu.Unlock()
	return lc.last
}

func (lc *libClient) view(err error, ended bool) ViewObs {
	leaves := func() []LeafObs {
		r := []LeafObs{}
		for _, l := range lc.c.Leaves() {
			r = append(r, LeafObs{P: append([]string{}, l.Path...), V: project(l.Val)})
		}
		return r
	}
	if ended {
		if err == nil {
			return ViewObs{Kind: "clienterr", Leaves: leaves(), Note: "stream ended"}
		}
		switch status.Code(err) {
		case codes.NotFound:
			return ViewObs{Kind: "notfound"}
		case codes.InvalidArgument:
			return ViewObs{Kind: "invalid"}
		case codes.Unavailable:
			return ViewObs{Kind: "down", Note: "unavailable"}
		}
		msg := err.Error()
		switch {
		case strings.Contains(msg, "failed to decode"), strings.Contains(msg, "non-scalar"):
			return ViewObs{Kind: "clienterr", Leaves: leaves()}
		case strings.Contains(msg, "Dialer("), strings.Contains(msg, "connection refused"):
			return ViewObs{Kind: "down"}
		case strings.Contains(msg, "origin is set both"), strings.Contains(msg, "path elements in prefix"):
			return ViewObs{Kind: "suberr"}
		}
		return ViewObs{Kind: "clienterr", Leaves: leaves(), Note: "other error"}
	}
	select {
	case <-lc.c.Synced():
		return ViewObs{Kind: "leaves", Leaves: leaves()}
	default:
		return ViewObs{Kind: "hang", Leaves: leaves()}
	}
}

// ---------------------------------------------------------------------------
// gnmi_cli output

func parseTok(s string) Tok {
	switch {
	case strings.HasPrefix(s, `"`):
		if u, err := strconv.Unquote(s); err == nil {
			return Tok{K: "str", S: u}
		}
		return Tok{K: "raw", S: s}
	case s == "true":
		return Tok{K: "bool", B: true}
	case s == "false":
		return Tok{K: "bool", B: false}
	case strings.HasPrefix(s, "{Deprecated TypedValue_JsonIetfVal"):
		return Tok{K: "dep", IETF: true}
	case strings.HasPrefix(s, "{Deprecated TypedValue_JsonVal"):
		return Tok{K: "dep"}
	case strings.HasPrefix(s, "[") && strings.HasSuffix(s, "]"):
		inner := s[1 : len(s)-1]
		t := Tok{K: "seq", L: []Tok{}}
		if inner == "" {
			return t
		}
		// split at top-level ", " (outside quotes)
		var parts []string
		cur := ""
		for i := 0; i < len(inner); {
			if inner[i] == '"' {
				if q, err := strconv.QuotedPrefix(inner[i:]); err == nil {
					cur += q
					i += len(q)
					continue
				}
			}
			if strings.HasPrefix(inner[i:], ", ") {
				parts = append(parts, cur)
				cur = ""
				i += 2
				continue
			}
			cur += string(inner[i])
			i++
		}
		parts = append(parts, cur)
		if len(parts) > 1 {
			t.Comma = true
		} else if !strings.HasPrefix(inner, `"`) {
			parts = strings.Split(inner, " ")
		}
		for _, p := range parts {
			t.L = append(t.L, parseTok(p))
		}
		return t
	}
	t := Tok{K: "num"}
	if bi, ok := new(big.Int).SetString(s, 10); ok {
		t.HasInt = true
		t.Int = bi.String()
	}
	f64, err := strconv.ParseFloat(s, 64)
	if err != nil && !t.HasInt {
		if ne, ok := err.(*strconv.NumError); !ok || ne.Err != strconv.ErrRange {
			return Tok{K: "raw", S: s}
		}
	}
	f32, _ := strconv.ParseFloat(s, 32)
	t.F64 = math.Float64bits(f64)
	t.F32 = math.Float32bits(float32(f32))
	return t
}

// parseCliTree parses the group display of gnmi_cli back into leaves.
func parseCliTree(out string) ([]CliLeaf, error) {
	var stack []string
	leaves := []CliLeaf{}
	depth := 0
	started := false
	for _, raw := range strings.Split(out, "\n") {
		line := strings.TrimSpace(raw)
		if line == "" {
			continue
		}
		if !started {
			if line != "{" {
				return nil, fmt.Errorf("unexpected first line %q", line)
			}
			started = true
			depth = 1
			continue
		}
		if line == "}" || line == "}," {
			depth--
			if len(stack) > 0 {
				stack = stack[:len(stack)-1]
			}
			continue
		}
		q, err := strconv.QuotedPrefix(line)
		if err != nil {
			return nil, fmt.Errorf("no key in line %q", line)
		}
		key, err := strconv.Unquote(q)
		if err != nil {
			return nil, err
		}
		rest := line[len(q):]
		if !strings.HasPrefix(rest, ": ") {
			return nil, fmt.Errorf("no separator in line %q", line)
		}
		rest = rest[2:]
		if rest == "{" {
			stack = append(stack, key)
			depth++
			continue
		}
		rest = strings.TrimSuffix(rest, ",")
		p := append(append([]string{}, stack...), key)
		leaves = append(leaves, CliLeaf{P: p, V: parseTok(rest)})
	}
	if !started || depth != 0 {
		return nil, fmt.Errorf("unbalanced output")
	}
	return leaves, nil
}

// reqEncodings: the spellings of one logical query (target, index path below
// it) that only a request handed over as a proto can carry.  "" is what the
// flag style builds (target in the prefix, the names as elem).
var reqEncodings = []string{"path-el", "pre-el", "both-el", "pre-origin", "mixed"}

func namesElem(q []string) []PElem {
	el := make([]PElem, len(q))
	for i, n := range q {
		el[i] = PElem{Name: n}
	}
	return el
}

// encodeQuery mirrors the model's encode_request.
func encodeQuery(enc, target string, q []string) WireReq {
	q = append([]string{}, q...)
	canon := WireReq{Prefix: GPath{Target: target}, Path: GPath{Elem: namesElem(q)}}
	if enc == "path-el" {
		return WireReq{Prefix: GPath{Target: target}, Path: GPath{Element: q}}
	}
	if enc == "" || len(q) == 0 {
		return canon
	}
	q0, rest := q[0], q[1:]
	switch enc {
	case "pre-el":
		return WireReq{Prefix: GPath{Target: target, Element: []string{q0}}, Path: GPath{Elem: namesElem(rest)}}
	case "both-el":
		return WireReq{Prefix: GPath{Target: target, Element: []string{q0}}, Path: GPath{Element: rest}}
	case "pre-origin":
		return WireReq{Prefix: GPath{Target: target, Origin: q0}, Path: GPath{Elem: namesElem(rest)}}
	case "mixed":
		return WireReq{Prefix: GPath{Target: target, Elem: namesElem([]string{q0})}, Path: GPath{Element: rest}}
	}
	return canon
}

func protoText(s CliSpec, enc string) (string, WireReq) {
	w := encodeQuery(enc, s.Target, s.Query)
	p := w.Path.pb()
	sr := &gpb.SubscribeRequest{Request: &gpb.SubscribeRequest_Subscribe{Subscribe: &gpb.SubscriptionList{
		Mode:         gpb.SubscriptionList_ONCE,
		Prefix:       w.Prefix.pb(),
		Subscription: []*gpb.Subscription{{Path: p}},
	}}}
	return prototext.MarshalOptions{Multiline: false}.Format(sr), w
}

func runCli(ctx context.Context, bin, dir, addr string, idx int, s CliSpec, style string, files map[string]string, protos map[string]int, wire map[string]WireReq) CliObs {
	enc := ""
	if i := strings.Index(style, ":"); i >= 0 {
		style, enc = style[:i], style[i+1:]
	}
	o := CliObs{Style: style, Spec: idx, Enc: enc}
	args := []string{"-logtostderr", "-a", addr, "-tls_skip_verify", "-timeout", "5s"}
	q := "/" + strings.Join(s.Query, "/")
	switch style {
	case "flags":
		o.Args = CliArgs{Target: s.Target, Queries: []string{q}, QType: "once"}
		args = append(args, "-t", s.Target, "-q", q, "-qt", "once")
	case "flags-default":
		// no -qt: the flag's default ("once") applies; long-form flags
		o.Args = CliArgs{Target: s.Target, Queries: []string{q}, QType: "once"}
		args = append(args, "-target", s.Target, "-query", q, "-display_type", "group")
	case "proto":
		txt, w := protoText(s, enc)
		protos[txt] = idx
		wire[txt] = w
		o.Args = CliArgs{Proto: txt, QType: "once"}
		args = append(args, "-proto", txt)
	case "file":
		txt, w := protoText(s, enc)
		protos[txt] = idx
		wire[txt] = w
		fn := filepath.Join(dir, fmt.Sprintf("req_%d%s.txt", idx, strings.ReplaceAll(enc, "-", "_")))
		if err := os.WriteFile(fn, []byte(txt), 0o644); err != nil {
			o.Note = err.Error()
			return o
		}
		files[fn] = txt
		o.Args = CliArgs{ProtoFile: fn, QType: "once"}
		args = append(args, "-proto_file", fn)
	}
	cctx, cancel := context.WithTimeout(ctx, 15*time.Second)
	defer cancel()
	cmd := exec.CommandContext(cctx, bin, args...)
	cmd.Dir = dir
	cmd.SysProcAttr = &syscall.SysProcAttr{Pdeathsig: syscall.SIGKILL}
	var stdout, stderr strings.Builder
	cmd.Stdout = &stdout
	cmd.Stderr = &stderr
	err := cmd.Run()
	if err != nil {
		o.Note = strings.TrimSpace(lastLine(stderr.String()))
		return o
	}
	leaves, perr := parseCliTree(stdout.String())
	if perr != nil {
		o.Note = "unparsable output: " + perr.Error()
		return o
	}
	o.OK = true
	o.Leaves = leaves
	return o
}

// cliStyles: the three invocation styles, plus for the first query the
// flags style relying on the default query type; for a query that names at
// least one element, both proto styles once more per request encoding.
func cliStyles(i int, s CliSpec) []string {
	st := []string{"flags", "proto", "file"}
	if i == 0 {
		st = append(st, "flags-default")
	}
	if len(s.Query) > 0 {
		for _, e := range reqEncodings {
			st = append(st, "proto:"+e, "file:"+e)
		}
	}
	return st
}

func lastLine(s string) string {
	s = strings.TrimSpace(s)
	if i := strings.LastIndex(s, "\n"); i >= 0 {
		s = s[i+1:]
	}
	if len(s) > 300 {
		s = s[:300]
	}
	return s
}

// ---------------------------------------------------------------------------
// One scenario, end to end

type env struct {
	collectorBin, cliBin string
	tf                   *tlsFiles
	root                 string
}

func freePort() (int, error) {
	l, err := net.Listen("tcp", "127.0.0.1:0")
	if err != nil {
		return 0, err
	}
	defer l.Close()
	return l.Addr().(*net.TCPAddr).Port, nil
}

// runScenario drives one case and fills c.Obs.  It never panics; whatever goes
// wrong with the processes under test ends up as an observation.
func runScenario(e *env, id int, c *Case) (obs *Obs, herr error) {
	defer func() {
		if r := recover(); r != nil {
			herr = fmt.Errorf("harness panic: %v", r)
		}
	}()
	dir := filepath.Join(e.root, fmt.Sprintf("scn_%d", id))
	if err := os.MkdirAll(dir, 0o755); err != nil {
		return nil, err
	}
	ctx, cancel := context.WithCancel(context.Background())
	defer cancel()
	obs = &Obs{Files: map[string]string{}, Protos: map[string]int{}, Wire: map[string]WireReq{}}

	// target streams
	names := []string{}
	known := map[string]bool{}
	for _, t := range c.Targets {
		if !known[t.Name] {
			known[t.Name] = true
			names = append(names, t.Name)
		}
	}
	targets := map[string]*fakeTarget{}
	pace := 2 * time.Millisecond
	if c.NoPace {
		pace = 0
	}
	breaks := 0
	for _, nm := range names {
		var script []step
		sub := false
		for _, o := range c.Ops {
			if o.Subscribe {
				sub = true
				continue
			}
			if o.T != nm {
				continue
			}
			if o.Break {
				breaks++
				script = append(script, step{brk: true, eof: o.EOF, phase2: sub})
			} else {
				script = append(script, step{resp: respOf(o.N), phase2: sub, delay: time.Duration(o.DelayUS) * time.Microsecond})
			}
		}
		ft, err := startTarget(nm, e.tf, script, pace)
		if err != nil {
			return nil, err
		}
		defer ft.shutdown()
		targets[nm] = ft
	}
	// every scripted stream failure costs one back-off of the target manager
	// (1 s base, growing, randomised): allow for it when waiting
	slack := time.Duration(breaks) * 3 * time.Second

	// collector configuration
	cfg := &tpb.Configuration{Request: map[string]*gpb.SubscribeRequest{}, Target: map[string]*tpb.Target{}}
	for _, r := range c.Requests {
		sl := &gpb.SubscriptionList{Prefix: r.Prefix.pb(), Mode: gpb.SubscriptionList_STREAM}
		for _, p := range r.Paths {
			p := p
			sl.Subscription = append(sl.Subscription, &gpb.Subscription{Path: p.pb()})
		}
		cfg.Request[r.Name] = &gpb.SubscribeRequest{Request: &gpb.SubscribeRequest_Subscribe{Subscribe: sl}}
	}
	for _, t := range c.Targets {
		tt := &tpb.Target{Request: t.Request}
		if !t.NoAddr {
			tt.Addresses = []string{targets[t.Name].addr}
		}
		cfg.Target[t.Name] = tt
	}
	cfgFile := filepath.Join(dir, "collector.cfg")
	if err := os.WriteFile(cfgFile, []byte(prototext.Format(cfg)), 0o644); err != nil {
		return nil, err
	}

	// collector process
	// The port is chosen by listening on :0 and closing; if somebody else grabs it
	// before the collector listens ("failed to listen"), another one is tried.
	var (
		addr   string
		cmd    *exec.Cmd
		exited chan struct{}
		up     bool
	)
	for attempt := 0; attempt < 3 && !up; attempt++ {
		port, err := freePort()
		if err != nil {
			return nil, err
		}
		addr = fmt.Sprintf("127.0.0.1:%d", port)
		logName := filepath.Join(dir, fmt.Sprintf("collector_%d.log", attempt))
		logf, err := os.Create(logName)
		if err != nil {
			return nil, err
		}
		defer logf.Close()
		cmd = exec.Command(e.collectorBin, "-logtostderr", "-config_file", cfgFile, "-cert_file", e.tf.cert,
			"-key_file", e.tf.key, "-port", strconv.Itoa(port), "-dial_timeout", "5s")
		cmd.Dir = dir
		cmd.Stdout = logf
		cmd.Stderr = logf
		cmd.SysProcAttr = &syscall.SysProcAttr{Pdeathsig: syscall.SIGKILL}
		if err := cmd.Start(); err != nil {
			return nil, fmt.Errorf("cannot start collector: %v", err)
		}
		ex := make(chan struct{})
		exited = ex
		c0 := cmd
		go func() { c0.Wait(); close(ex) }()
		defer func() {
			c0.Process.Kill()
			select {
			case <-ex:
			case <-time.After(3 * time.Second):
			}
		}()
		// wait for the port (or for the process to give up)
		gone := false
		deadline := time.Now().Add(8 * time.Second)
		for time.Now().Before(deadline) && !up && !gone {
			select {
			case <-ex:
				gone = true
				continue
			default:
			}
			conn, err := net.DialTimeout("tcp", addr, 200*time.Millisecond)
			if err == nil {
				conn.Close()
				up = true
				break
			}
			time.Sleep(40 * time.Millisecond)
		}
		if up || !gone {
			break
		}
		b, _ := os.ReadFile(logName)
		if !strings.Contains(string(b), "failed to listen") {
			break // the collector refused its configuration: an observation
		}
	}
	_ = exited

	collect := func() {
		for _, nm := range names {
			ft := targets[nm]
			ft.mu.Lock()
			so := SeenObs{Name: nm}
			if ft.req != nil {
				so.Got = true
				so.Prefix = fromPB(ft.req.GetSubscribe().GetPrefix())
				for _, s := range ft.req.GetSubscribe().GetSubscription() {
					so.Paths = append(so.Paths, *fromPB(nonNil(s.GetPath())))
				}
			}
			ft.mu.Unlock()
			obs.Seen = append(obs.Seen, so)
		}
	}

	if !up {
		for range c.Clients {
			obs.Clients = append(obs.Clients, ViewObs{Kind: "down"})
		}
		for i, s := range c.Cli {
			for _, st := range cliStyles(i, s) {
				obs.Cli = append(obs.Cli, runCli(ctx, e.cliBin, dir, addr, i, s, st, obs.Files, obs.Protos, obs.Wire))
			}
		}
		collect()
		return obs, nil
	}

	// phase 1: every contacted target hands its first messages to the collector
	waitAll := func(ch func(*fakeTarget) chan struct{}, d time.Duration) {
		t := time.After(d)
		for _, nm := range names {
			select {
			case <-ch(targets[nm]):
			case <-t:
				return
			}
		}
	}
	contacted := func() bool {
		for _, t := range c.Targets {
			if t.NoAddr {
				continue
			}
			ft := targets[t.Name]
			ft.mu.Lock()
			n := ft.subs
			ft.mu.Unlock()
			if n == 0 {
				return false
			}
		}
		return true
	}
	for t0 := time.Now(); time.Since(t0) < 3*time.Second && !contacted(); {
		time.Sleep(20 * time.Millisecond)
	}
	if contacted() {
		waitAll(func(f *fakeTarget) chan struct{} { return f.sent1 }, 3*time.Second+slack)
	}
	time.Sleep(150 * time.Millisecond)

	// clients subscribe; in a "live" scenario the targets are already sending
	// their later messages, so the snapshot walk overlaps with streamed updates
	released := false
	if c.Live {
		for _, nm := range names {
			close(targets[nm].go2)
		}
		released = true
		time.Sleep(time.Duration(c.LiveDelayMS) * time.Millisecond)
	}
	clients := make([]*libClient, len(c.Clients))
	for i, q := range c.Clients {
		clients[i] = startClient(ctx, addr, q)
		if c.Live {
			time.Sleep(time.Duration(3+c.LiveStaggerMS) * time.Millisecond)
		}
	}
	// wait until every client is synced or has ended
	ended := make([]bool, len(clients))
	errs := make([]error, len(clients))
	for i, lc := range clients {
		select {
		case <-lc.c.Synced():
		case err := <-lc.done:
			ended[i], errs[i] = true, err
		case <-time.After(5 * time.Second):
		}
	}

	// phase 2
	if !released {
		for _, nm := range names {
			close(targets[nm].go2)
		}
	}
	if contacted() {
		waitAll(func(f *fakeTarget) chan struct{} { return f.sentAll }, 5*time.Second+slack)
	}
	sentAt := time.Now()

	// quiescence: expected leaf count reached (bounded) and 300 ms of silence
	want := make([]int, len(clients))
	for i, q := range c.Clients {
		want[i] = -1
		if len(q.More) == 0 && len(q.Path.Elem) == 0 && len(q.Path.Element) == 0 && len(q.Prefix.Elem) == 0 && q.Prefix.Origin == "" && q.Path.Origin == "" {
			want[i] = expectedCount(c.Ops, q.Prefix.Target)
		}
	}
	for t0 := time.Now(); time.Since(t0) < 5*time.Second; time.Sleep(25 * time.Millisecond) {
		quiet := time.Since(sentAt) > 300*time.Millisecond
		reached := true
		for i, lc := range clients {
			if ended[i] {
				continue
			}
			select {
			case err := <-lc.done:
				ended[i], errs[i] = true, err
				continue
			default:
			}
			if time.Since(lc.lastEvent()) < 300*time.Millisecond {
				quiet = false
			}
			if want[i] >= 0 && lc.dataLeaves(c.Clients[i].Prefix.Target) != want[i] {
				reached = false
			}
		}
		if quiet && (reached || time.Since(t0) > 1500*time.Millisecond) {
			break
		}
	}
	for i, lc := range clients {
		obs.Clients = append(obs.Clients, lc.view(errs[i], ended[i]))
	}

	// gnmi_cli, three styles per query
	for i, s := range c.Cli {
		for _, st := range cliStyles(i, s) {
			obs.Cli = append(obs.Cli, runCli(ctx, e.cliBin, dir, addr, i, s, st, obs.Files, obs.Protos, obs.Wire))
		}
	}
	for _, lc := range clients {
		lc.c.Close()
	}
	collect()
	return obs, nil
}

func nonNil(p *gpb.Path) *gpb.Path {
	if p == nil {
		return &gpb.Path{}
	}
	return p
}

func sortedNames(m map[string]int) []string {
	r := make([]string, 0, len(m))
	for k := range m {
		r = append(r, k)
	}
	sort.Strings(r)
	return r
}

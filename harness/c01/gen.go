package main

import (
	"fmt"
	"math"
	"sort"
	"strings"

	"github.com/openconfig/gnmi/zz_verif/vh"
)

// A schema leaf: origin group plus structured elements.
type sleaf struct {
	origin string // "" (= openconfig), "foo", "bar"
	elems  []PElem
}

func (l sleaf) strs() []string {
	g := GPath{Elem: l.elems}
	return strs(&g)
}

func effOrigin(o string) string {
	if o == "" {
		return "openconfig"
	}
	return o
}

func (l sleaf) key() string { return effOrigin(l.origin) + "\x00" + strings.Join(l.strs(), "\x00") }

var elemNames = []string{"a", "b", "c", "d", "interfaces", "state", "x", "counters", "in-octets", "café"}
var keyVals = []string{"eth0", "eth1", "lo", "10.0.0.1", "7", "Ethernet1/2", "a b"}

func genElem(r *vh.Rand, keyed bool) PElem {
	e := PElem{Name: elemNames[r.Intn(len(elemNames))]}
	if keyed && r.Chance(1, 4) {
		e.Keys = [][2]string{{"name", keyVals[r.Intn(len(keyVals))]}}
		if r.Chance(1, 3) {
			e.Keys = append(e.Keys, [2]string{"zone", keyVals[r.Intn(len(keyVals))]})
			if r.Chance(1, 2) {
				e.Keys = append(e.Keys, [2]string{"id", keyVals[r.Intn(len(keyVals))]})
			}
			sort.Slice(e.Keys, func(i, j int) bool { return e.Keys[i][0] < e.Keys[j][0] })
		}
	}
	return e
}

func isPrefixStr(a, b []string) bool {
	if len(a) > len(b) {
		return false
	}
	for i := range a {
		if a[i] != b[i] {
			return false
		}
	}
	return true
}

// genSchema draws n leaves, prefix-free within each origin group unless
// conflicts is set.
func genSchema(r *vh.Rand, n int, origins []string, keyed, conflicts bool) []sleaf {
	var out []sleaf
	for tries := 0; len(out) < n && tries < 40*n; tries++ {
		l := sleaf{origin: origins[r.Intn(len(origins))]}
		// share a stem with an existing leaf most of the time (so that
		// subtree deletes and prefixes have something to bite on)
		if len(out) > 0 && r.Chance(2, 3) {
			base := out[r.Intn(len(out))]
			if effOrigin(base.origin) == effOrigin(l.origin) && len(base.elems) > 1 {
				k := 1 + r.Intn(len(base.elems)-1)
				l.elems = append(l.elems, base.elems[:k]...)
			}
		}
		d := 1 + r.Intn(3)
		if r.Chance(1, 12) {
			d = 22 + r.Intn(6) // longer than the capacity path.ToStrings reserves
		}
		for i := 0; i < d; i++ {
			l.elems = append(l.elems, genElem(r, keyed))
		}
		ok := true
		for _, o := range out {
			if effOrigin(o.origin) != effOrigin(l.origin) {
				continue
			}
			a, b := o.strs(), l.strs()
			if isPrefixStr(a, b) || isPrefixStr(b, a) {
				if !conflicts || len(a) == len(b) {
					ok = false
				}
			}
		}
		if ok {
			out = append(out, l)
		}
	}
	return out
}

type valOpts struct {
	arms      []string
	negzero   bool
	undecodab bool
}

var allArms = []string{"str", "int", "uint", "bool", "bytes", "f32", "f64", "dec", "list", "json", "jsonietf"}

var strVals = []string{"", "up", "UP", "DOWN", "x y", "café", "a,b", "[1 2]", "true", "42", "tab\there", `q"uote`, `back\slash`}
var jsonVals = []string{`"up"`, `12`, `true`, `{"a":1}`, `[1,2]`, `1.5`, `{"k":"v","n":[1,2]}`, `null`}

func genVal(r *vh.Rand, o valOpts) TV {
	arms := o.arms
	if len(arms) == 0 {
		arms = allArms
	}
	switch k := arms[r.Intn(len(arms))]; k {
	case "str":
		return TV{K: "str", S: strVals[r.Intn(len(strVals))]}
	case "int":
		c := []int64{0, 1, -1, 42, -42, math.MaxInt64, math.MinInt64, 1 << 40}
		return TV{K: "int", I: c[r.Intn(len(c))]}
	case "uint":
		c := []uint64{0, 1, 42, math.MaxUint64, 1 << 63, 1 << 40}
		return TV{K: "uint", U: c[r.Intn(len(c))]}
	case "bool":
		return TV{K: "bool", B: r.Chance(1, 2)}
	case "bytes":
		c := []string{"", "A", "AB", "\x01\x02\x7f", "hello"}
		return TV{K: "bytes", S: c[r.Intn(len(c))]}
	case "f32":
		c := []float32{0, 1, -1, 1.5, 0.1, 3.4028235e38, 1e-45, float32(math.Inf(1)), float32(math.Inf(-1)), 16777216, 1e21}
		b := math.Float32bits(c[r.Intn(len(c))])
		if o.negzero && r.Chance(1, 2) {
			b = 1 << 31
		}
		return TV{K: "f32", U: uint64(b)}
	case "f64":
		c := []float64{0, 1, -1, 1.5, 0.1, math.MaxFloat64, 5e-324, math.Inf(1), math.Inf(-1), 1e21, 123456789.125}
		b := math.Float64bits(c[r.Intn(len(c))])
		if o.negzero && r.Chance(1, 2) {
			b = 1 << 63
		}
		return TV{K: "f64", U: b}
	case "dec":
		c := []int64{0, 1, -1, 15, 314159, -271828, 16777215, -16777215, 100, 7}
		return TV{K: "dec", I: c[r.Intn(len(c))], Prec: uint32(r.Intn(11))}
	case "list":
		n := r.Intn(4)
		v := TV{K: "list", L: []TV{}}
		sub := valOpts{arms: []string{"str", "int", "uint", "bool", "f64"}}
		for i := 0; i < n; i++ {
			v.L = append(v.L, genVal(r, sub))
		}
		return v
	case "json":
		return TV{K: "json", S: jsonVals[r.Intn(len(jsonVals))]}
	case "jsonietf":
		return TV{K: "jsonietf", S: jsonVals[r.Intn(len(jsonVals))]}
	case "ascii":
		return TV{K: "ascii", S: "text"}
	case "any":
		return TV{K: "any", S: "x"}
	}
	return TV{K: "str", S: "?"}
}

// nearVal returns a value that differs from v as little as possible.
func nearVal(r *vh.Rand, v TV) TV {
	switch v.K {
	case "str":
		if v.S == "" {
			return TV{K: "str", S: " "}
		}
		b := []byte(v.S)
		i := r.Intn(len(b))
		switch {
		case b[i] >= 'a' && b[i] <= 'z', b[i] >= 'A' && b[i] <= 'Z':
			b[i] ^= 0x20 // flip the case of one letter
		case b[i] < 0x80:
			b[i] = 'x'
		default:
			return TV{K: "str", S: v.S + "x"}
		}
		return TV{K: "str", S: string(b)}
	case "int":
		if v.I == math.MaxInt64 {
			return TV{K: "int", I: v.I - 1}
		}
		return TV{K: "int", I: v.I + 1}
	case "uint":
		if v.U == math.MaxUint64 {
			return TV{K: "uint", U: v.U - 1}
		}
		return TV{K: "uint", U: v.U + 1}
	case "bool":
		return TV{K: "bool", B: !v.B}
	case "bytes":
		return TV{K: "bytes", S: v.S + "A"}
	case "f32":
		f := math.Float32frombits(uint32(v.U))
		if f != f || math.IsInf(float64(f), 0) || f == 0 {
			return TV{K: "f32", U: uint64(math.Float32bits(1))}
		}
		return TV{K: "f32", U: v.U ^ 1}
	case "f64":
		f := math.Float64frombits(v.U)
		if f != f || math.IsInf(f, 0) || f == 0 {
			return TV{K: "f64", U: math.Float64bits(1)}
		}
		return TV{K: "f64", U: v.U ^ 1}
	case "dec":
		if r.Chance(1, 2) && v.Prec < 10 {
			return TV{K: "dec", I: v.I, Prec: v.Prec + 1}
		}
		return TV{K: "dec", I: v.I + 1, Prec: v.Prec}
	case "list":
		l := append([]TV{}, v.L...)
		switch {
		case len(l) > 0 && r.Chance(1, 3):
			l[len(l)-1] = nearVal(r, l[len(l)-1])
		case len(l) > 1 && r.Chance(1, 2):
			l = l[:len(l)-1] // a proper prefix of the previous list
		default:
			l = append(l, TV{K: "int", I: 1}) // the previous list is a proper prefix
		}
		return TV{K: "list", L: l}
	case "json":
		return TV{K: "jsonietf", S: v.S}
	case "jsonietf":
		return TV{K: "json", S: v.S}
	}
	return v
}

type streamOpts struct {
	n          int // notifications
	keyed      bool
	element    int // percent of notifications in the deprecated element encoding
	mixed      bool
	pathOrigin bool
	vals       valOpts
	delPct     int
	globPct    int
	syncs      bool
}

func pathOf(elems []PElem, element bool) GPath {
	if element {
		g := GPath{Elem: elems}
		return GPath{Element: strs(&g)}
	}
	return GPath{Elem: append([]PElem{}, elems...)}
}

// genStream builds one target's stream over a schema.
func genStream(r *vh.Rand, schema []sleaf, o streamOpts, ts *int64) []*Noti {
	var out []*Noti
	last := map[string]TV{}
	for i := 0; i < o.n; i++ {
		*ts += int64(1 + r.Intn(1000))
		if o.syncs && r.Chance(1, 12) {
			out = append(out, nil)
		}
		n := &Noti{TS: *ts}
		// timestamps need not increase: now and then a notification carries the
		// timestamp of an earlier one (an unchanged repeat is then rejected as
		// stale) or an older one (its updates of newer leaves are rejected, its
		// deletes spare them), mixed with operations that do take effect
		if len(out) > 0 && r.Chance(1, 6) {
			var prev []*Noti
			for _, pn := range out {
				if pn != nil {
					prev = append(prev, pn)
				}
			}
			if len(prev) > 0 {
				pick := prev[len(prev)-1-r.Intn(min(3, len(prev)))]
				n.TS = pick.TS
				if r.Chance(1, 2) {
					n.TS -= int64(r.Intn(400))
				}
			}
		}
		base := schema[r.Intn(len(schema))]
		element := r.Intn(100) < o.element
		// prefix: nil / origin only / origin + leading elements of base
		cut := 0
		switch r.Intn(4) {
		case 0:
			if base.origin == "" || (o.pathOrigin && r.Chance(1, 2)) {
				n.Prefix = nil
			} else {
				n.Prefix = &GPath{Origin: base.origin}
			}
		case 1:
			n.Prefix = &GPath{Origin: base.origin}
			if base.origin == "" && r.Chance(1, 2) {
				n.Prefix.Origin = "openconfig"
			}
		default:
			cut = r.Intn(len(base.elems))
			g := pathOf(base.elems[:cut], element)
			g.Origin = base.origin
			n.Prefix = &g
		}
		if o.pathOrigin && n.Prefix != nil && r.Chance(1, 2) {
			n.Prefix.Origin = ""
		}
		if n.Prefix != nil && r.Chance(1, 5) {
			n.Prefix.Target = "whatever" // the collector overrides it
		}
		preStrs := []string{}
		if cut > 0 {
			g := GPath{Elem: base.elems[:cut]}
			preStrs = strs(&g)
		}
		pathOrigin := ""
		if (n.Prefix == nil || n.Prefix.Origin == "") && base.origin != "" {
			pathOrigin = base.origin // only reachable with o.pathOrigin
		}
		// candidates: schema leaves of the same origin group under the prefix
		var cands []sleaf
		for _, l := range schema {
			if effOrigin(l.origin) == effOrigin(base.origin) && len(l.elems) >= cut && isPrefixStr(preStrs, l.strs()) {
				g := GPath{Elem: l.elems[:cut]}
				if strings.Join(strs(&g), "\x00") == strings.Join(preStrs, "\x00") {
					cands = append(cands, l)
				}
			}
		}
		nu := 1 + r.Intn(3)
		if r.Intn(100) < o.delPct && r.Chance(1, 2) {
			nu = 0
		}
		for j := 0; j < nu && len(cands) > 0; j++ {
			l := cands[r.Intn(len(cands))]
			var v TV
			if old, ok := last[l.key()]; ok && r.Chance(1, 4) {
				v = old // unchanged value: suppressed by the cache
			} else if ok && r.Chance(1, 3) {
				v = nearVal(r, old) // almost the same value: must not be suppressed
			} else {
				v = genVal(r, o.vals)
			}
			last[l.key()] = v
			pe := element
			if o.mixed && r.Chance(1, 2) {
				pe = !pe
			}
			p := pathOf(l.elems[cut:], pe)
			p.Origin = pathOrigin
			if r.Chance(1, 6) {
				p.Target = "ignored-target" // only valid on a prefix: must be ignored on a path
			}
			if len(p.Elem) > 0 && r.Chance(1, 8) {
				p.Element = []string{"stale", "element"} // deprecated encoding next to elem: ignored
			}
			n.Updates = append(n.Updates, Upd{Path: p, Val: v})
		}
		if r.Intn(100) < o.delPct && len(cands) > 0 {
			nd := 1 + r.Intn(2)
			for j := 0; j < nd; j++ {
				l := cands[r.Intn(len(cands))]
				rest := l.elems[cut:]
				k := len(rest)
				if len(rest) > 0 && r.Chance(2, 3) {
					k = r.Intn(len(rest) + 1)
				}
				de := append([]PElem{}, rest[:k]...)
				if r.Intn(100) < o.globPct {
					if len(de) > 0 && r.Chance(1, 2) {
						de[r.Intn(len(de))] = PElem{Name: "*"}
					} else {
						de = append(de, PElem{Name: "*"})
					}
				}
				if r.Chance(1, 10) {
					de = append(de, PElem{Name: "nonexistent"})
				}
				if len(de) == 0 && cut == 0 {
					// deleting the whole origin: keep it rare
					if !r.Chance(1, 4) {
						continue
					}
				}
				p := pathOf(de, element)
				p.Origin = pathOrigin
				if r.Chance(1, 6) {
					p.Target = "ignored-target"
				}
				n.Deletes = append(n.Deletes, p)
			}
		}
		// an update the cache rejects inside a multi-operation notification: the
		// same leaf repeated with the same value (stale at an equal timestamp);
		// the other operations of the notification, its deletes in particular,
		// must still take effect
		if len(n.Updates) > 0 && (len(n.Deletes) > 0 && r.Chance(1, 2) || r.Chance(1, 8)) {
			dup := n.Updates[r.Intn(len(n.Updates))]
			at := r.Intn(len(n.Updates) + 1)
			us := append([]Upd{}, n.Updates[:at]...)
			us = append(us, dup)
			n.Updates = append(us, n.Updates[at:]...)
		}
		if len(n.Updates)+len(n.Deletes) == 0 && !r.Chance(1, 10) {
			continue
		}
		out = append(out, n)
	}
	// the last word on a few leaves is a value that differs minimally from the
	// one before (a suppression that is too eager shows at quiescence)
	keys := make([]string, 0, len(last))
	for k := range last {
		keys = append(keys, k)
	}
	sort.Strings(keys)
	byKey := map[string]sleaf{}
	for _, l := range schema {
		byKey[l.key()] = l
	}
	var picks []string
	for _, k := range keys { // every leaf that holds a list, then a few others
		if last[k].K == "list" && len(picks) < 4 {
			picks = append(picks, k)
		}
	}
	for i := 0; i < 3 && len(keys) > 0; i++ {
		picks = append(picks, keys[r.Intn(len(keys))])
	}
	for _, k := range picks {
		l := byKey[k]
		if o.pathOrigin || o.mixed || (l.origin != "" && l.origin != "openconfig") {
			continue
		}
		*ts += int64(1 + r.Intn(50))
		v := nearVal(r, last[k])
		last[k] = v
		out = append(out, &Noti{TS: *ts, Updates: []Upd{{Path: pathOf(l.elems, false), Val: v}}})
	}
	return out
}

// breakMark stands for a stream failure inside a generated stream.
var breakMark = &Noti{TS: -1}

// interleave merges per-target streams into one script with the subscription
// point somewhere inside.
func interleave(r *vh.Rand, streams map[string][]*Noti, order []string, subAt int) []Op {
	var ops []Op
	idx := map[string]int{}
	total := 0
	for _, s := range streams {
		total += len(s)
	}
	placed := false
	for done := 0; done < total; {
		if !placed && done >= subAt {
			ops = append(ops, Op{Subscribe: true})
			placed = true
		}
		nm := order[r.Intn(len(order))]
		if idx[nm] >= len(streams[nm]) {
			continue
		}
		if streams[nm][idx[nm]] == breakMark {
			ops = append(ops, Op{T: nm, Break: true, EOF: r.Chance(1, 2)})
		} else {
			ops = append(ops, Op{T: nm, N: streams[nm][idx[nm]]})
		}
		idx[nm]++
		done++
	}
	if !placed {
		ops = append(ops, Op{Subscribe: true})
	}
	return ops
}

func wholeTarget(name string) ClientSpec { return ClientSpec{Prefix: GPath{Target: name}} }

// genBurst: one target sends, back to back, rounds of one large notification
// over many leaves followed at once by a last single update of one of them
// (which is never written again); a slow subscriber and a fast one watch.  The
// collector's per-subscriber queue then holds several leaves while the same
// leaf is updated again -- what is left at the end must still be the last value.
func genBurst(r *vh.Rand, thorough bool) *Case {
	c := &Case{Family: "burst", NoPace: true}
	c.Requests = []ReqCfg{{Name: "all", Prefix: &GPath{Origin: "openconfig"}, Paths: []GPath{{}}}}
	c.Targets = []TargetCfg{{Name: "dev1", Request: "all"}}
	nl := 56 + r.Intn(16)
	rounds := 6 + r.Intn(3)
	if thorough {
		rounds += 6
	}
	leaf := func(i int) GPath {
		return GPath{Elem: []PElem{{Name: "burst"}, {Name: fmt.Sprintf("l%02d", i)}}}
	}
	ts := int64(1000)
	// a little state before the clients subscribe
	ts += 10
	c.Ops = append(c.Ops, Op{T: "dev1", N: &Noti{TS: ts, Updates: []Upd{{Path: leaf(0), Val: TV{K: "int", I: -1}}}}})
	c.Ops = append(c.Ops, Op{Subscribe: true})
	for round := 0; round < rounds && round < nl; round++ {
		for rep := 0; rep < 1+r.Intn(2); rep++ {
			ts += 10
			n := &Noti{TS: ts}
			for i := round; i < nl; i++ {
				n.Updates = append(n.Updates, Upd{Path: leaf(i), Val: TV{K: "int", I: int64(1000*round + 10*rep + i%7)}})
			}
			c.Ops = append(c.Ops, Op{T: "dev1", N: n})
		}
		ts += 10
		// shortly afterwards (the sender has taken this leaf, the rest of the
		// large notification is still queued) its last value
		c.Ops = append(c.Ops, Op{T: "dev1", DelayUS: 150 + r.Intn(400), N: &Noti{TS: ts, Updates: []Upd{{Path: leaf(round), Val: TV{K: "str", S: fmt.Sprintf("final-%d", round)}}}}})
	}
	c.Clients = []ClientSpec{
		{Prefix: GPath{Target: "dev1"}, Slow: 300 + r.Intn(700)},
		{Prefix: GPath{Target: "dev1"}},
	}
	c.Cli = []CliSpec{{Target: "dev1", Query: []string{}}}
	return c
}

// genLiveDelete: the target holds a few hundred leaves and deletes them one by
// one, back to back, while several clients subscribe: a leaf the snapshot walk
// has seen may be deleted before it is queued -- its delete notification must
// not overtake it.
func genLiveDelete(r *vh.Rand) *Case {
	c := &Case{Family: "live", Live: true, NoPace: true, LiveDelayMS: r.Intn(3), LiveStaggerMS: r.Intn(3)}
	c.Requests = []ReqCfg{{Name: "all", Prefix: &GPath{Origin: "openconfig"}, Paths: []GPath{{}}}}
	c.Targets = []TargetCfg{{Name: "dev1", Request: "all"}}
	n := 260 + r.Intn(80)
	leaf := func(i int) GPath {
		return GPath{Elem: []PElem{{Name: "gone"}, {Name: fmt.Sprintf("l%03d", i)}}}
	}
	ts := int64(1000)
	for i := 0; i < n; i += 20 {
		ts += 5
		nt := &Noti{TS: ts}
		for j := i; j < i+20 && j < n; j++ {
			nt.Updates = append(nt.Updates, Upd{Path: leaf(j), Val: TV{K: "int", I: int64(j)}})
		}
		c.Ops = append(c.Ops, Op{T: "dev1", N: nt})
	}
	c.Ops = append(c.Ops, Op{Subscribe: true})
	for i := 0; i < n-3; i++ { // three leaves stay
		ts += 5
		c.Ops = append(c.Ops, Op{T: "dev1", DelayUS: 20 + r.Intn(40), N: &Noti{TS: ts, Deletes: []GPath{leaf(i)}}})
	}
	for i := 0; i < 5; i++ {
		c.Clients = append(c.Clients, ClientSpec{Prefix: GPath{Target: "dev1"}})
	}
	c.Cli = []CliSpec{{Target: "dev1", Query: []string{}}}
	return c
}

// genLive: the target writes each of many leaves exactly once, one message
// every 2 ms, while several clients subscribe one after the other: whatever
// falls between a client's snapshot and its registration is missing for good.
func genLive(r *vh.Rand, thorough bool) *Case {
	if thorough && r.Chance(1, 2) {
		return genLiveDelete(r) // slow to evaluate: thorough tier only
	}
	c := &Case{Family: "live", Live: true, LiveDelayMS: 5 + r.Intn(30), LiveStaggerMS: 15 + r.Intn(25)}
	c.Requests = []ReqCfg{{Name: "all", Prefix: &GPath{Origin: "openconfig"}, Paths: []GPath{{}}}}
	c.Targets = []TargetCfg{{Name: "dev1", Request: "all"}}
	ts := int64(1000)
	c.Ops = append(c.Ops, Op{T: "dev1", N: &Noti{TS: ts, Updates: []Upd{{Path: GPath{Elem: []PElem{{Name: "live"}, {Name: "first"}}}, Val: TV{K: "int", I: 0}}}}})
	c.Ops = append(c.Ops, Op{Subscribe: true})
	n := 140 + r.Intn(40)
	for i := 0; i < n; i++ {
		ts += 7
		c.Ops = append(c.Ops, Op{T: "dev1", N: &Noti{TS: ts, Updates: []Upd{{Path: GPath{Elem: []PElem{{Name: "live"}, {Name: fmt.Sprintf("l%03d", i)}}}, Val: TV{K: "int", I: int64(i)}}}}})
	}
	for i := 0; i < 5; i++ {
		c.Clients = append(c.Clients, ClientSpec{Prefix: GPath{Target: "dev1"}})
	}
	c.Cli = []CliSpec{{Target: "dev1", Query: []string{}}}
	return c
}

// genScenario draws one scenario of the given family.
func genScenario(r *vh.Rand, family string, thorough bool) *Case {
	if family == "burst" {
		return genBurst(r, thorough)
	}
	if family == "live" {
		return genLive(r, thorough)
	}
	c := &Case{Family: family}
	ts := int64(1000 + r.Intn(1000))
	nt := 2 + r.Intn(2)
	so := streamOpts{n: 14 + r.Intn(14), keyed: false, delPct: 25, globPct: 10, syncs: true}
	origins := []string{""}
	conflicts := false
	switch family {
	case "basic":
	case "values":
		nt = 1 + r.Intn(2)
		so.n = 30 + r.Intn(20)
		so.delPct = 10
	case "origins":
		origins = []string{"", "foo", "bar", "openconfig"}
		so.delPct = 50
		so.n += 12
		so.vals.arms = []string{"int", "str", "bool", "uint"}
	case "keys-element":
		so.keyed = true
		so.element = 40
	case "deletes":
		so.delPct = 60
		so.globPct = 30
		so.vals.arms = []string{"int", "str", "bool"}
	case "multi":
		nt = 4
		so.n = 8 + r.Intn(8)
		origins = []string{"", "foo"}
	case "undecodable":
		nt = 2
		so.vals.arms = []string{"int", "str", "ascii", "int", "str", "bool", "uint"}
	case "nonpf":
		conflicts = true
		so.vals.arms = []string{"int", "str"}
		so.delPct = 35
	case "kf-path-origin":
		origins = []string{"", "foo"}
		so.pathOrigin = true
		nt = 1
	case "kf-negzero":
		so.vals = valOpts{arms: []string{"f32", "f64", "int"}, negzero: true}
		so.delPct = 5
		nt = 1
	case "kf-mixed":
		so.element = 50
		so.mixed = true
		so.delPct = 50
		nt = 1
	case "badcfg":
		nt = 2
	case "reconnect":
		nt = 2
		origins = []string{"", "foo"}
		so.delPct = 20
		so.n = 10 + r.Intn(8)
	}
	if thorough {
		so.n += 10
	}
	// requests: shared or distinct
	pool0 := []ReqCfg{
		{Name: "all", Prefix: &GPath{Origin: "openconfig"}, Paths: []GPath{{}}},
		{Name: "ifs", Paths: []GPath{{Elem: []PElem{{Name: "interfaces"}}}, {Elem: []PElem{{Name: "a"}, {Name: "b", Keys: [][2]string{{"k", "v"}}}}}}},
		{Name: "pfx", Prefix: &GPath{Origin: "foo", Target: "stale-name", Elem: []PElem{{Name: "x"}, {Name: "y", Keys: [][2]string{{"k", "v"}}}}}, Paths: []GPath{{Elem: []PElem{{Name: "z"}}}}},
		{Name: "old", Prefix: &GPath{Element: []string{"a", "b"}}, Paths: []GPath{{Element: []string{"c"}}}},
	}
	c.Requests = []ReqCfg{pool0[0]}
	for _, rq := range pool0[1:] {
		if family == "multi" || r.Chance(1, 2) {
			c.Requests = append(c.Requests, rq)
		}
	}
	names := []string{}
	pool := []string{"dev1", "dev2", "r3.example.net", "sw-4"}
	streams := map[string][]*Noti{}
	for i := 0; i < nt; i++ {
		nm := pool[i]
		names = append(names, nm)
		req := c.Requests[(i+int(r.Intn(2)))%len(c.Requests)].Name
		if i > 0 && i < len(c.Requests) {
			req = c.Requests[i].Name // every request of the configuration gets used
		}
		c.Targets = append(c.Targets, TargetCfg{Name: nm, Request: req})
		if family == "multi" && i == nt-1 {
			continue // configured, silent target
		}
		schema := genSchema(r, 6+r.Intn(8), origins, so.keyed, conflicts)
		if len(schema) == 0 {
			continue
		}
		streams[nm] = genStream(r, schema, so, &ts)
		if family == "reconnect" {
			// one or two stream failures; the sessions after them re-send only part
			// of the state, with edited values (the rest must disappear)
			nb := 1 + r.Intn(2)
			if i > 0 && r.Chance(1, 2) {
				nb = 0 // the other target may stay up
			}
			for b := 0; b < nb; b++ {
				sess := genStream(r, schema, streamOpts{n: 5 + r.Intn(6), delPct: 15, globPct: 10, syncs: true, vals: so.vals}, &ts)
				streams[nm] = append(streams[nm], breakMark)
				streams[nm] = append(streams[nm], sess...)
			}
		}
	}
	if family == "badcfg" {
		if r.Chance(1, 2) {
			c.Targets[0].Request = "missing"
		} else {
			c.Targets[0].NoAddr = true
		}
	}
	total := 0
	for _, s := range streams {
		total += len(s)
	}
	// where the clients subscribe: most scenarios somewhere in the first half, so
	// that both the snapshot and the streamed part carry updates and deletes;
	// one family streams everything, one serves everything from the snapshot
	subAt := total/5 + r.Intn(total/3+1)
	switch family {
	case "basic":
		subAt = 0
	case "multi":
		subAt = total
	case "deletes":
		subAt = total / 10
	case "reconnect":
		subAt = total / 8 // the clients are streaming when the sessions fail
	}
	c.Ops = interleave(r, streams, names, subAt)
	if (family == "basic" || family == "deletes" || family == "keys-element") && r.Chance(1, 2) {
		c.Live = true
		c.LiveDelayMS = r.Intn(40)
	}
	// clients: the whole target for every streaming target; plus variety
	for _, nm := range names {
		c.Clients = append(c.Clients, wholeTarget(nm))
	}
	first := names[0]
	switch family {
	case "origins", "multi", "kf-path-origin":
		o := []string{"openconfig", "foo"}[r.Intn(2)]
		c.Clients = append(c.Clients, ClientSpec{Prefix: GPath{Target: first, Origin: o}})
		c.Clients = append(c.Clients, ClientSpec{Prefix: GPath{Target: first}, Path: GPath{Origin: o}})
	}
	if family == "multi" {
		c.Clients = append(c.Clients, wholeTarget("unknown-device"))
	}
	// one request with several subscription entries, as a client writes it in a
	// text proto: (A) no origin in the prefix, the origin in the path of each
	// entry (a different one per entry, the non-last ones included); (B) the
	// origin in the prefix and one subtree per entry.  What is streamed after
	// the sync under every entry must arrive.
	switch family {
	case "origins", "multi", "basic", "deletes", "reconnect":
		tops := map[string][]string{} // origin -> first path elements seen under it
		for _, o := range c.Ops {
			if o.T != first || o.N == nil {
				continue
			}
			for _, u := range o.N.Updates {
				k := keyOf(o.N.Prefix, u.Path)
				if len(k) >= 2 && k[1] != "*" {
					dup := false
					for _, x := range tops[k[0]] {
						dup = dup || x == k[1]
					}
					if !dup {
						tops[k[0]] = append(tops[k[0]], k[1])
					}
				}
			}
		}
		origs := make([]string, 0, len(tops))
		for o := range tops {
			origs = append(origs, o)
		}
		sort.Strings(origs)
		if len(origs) > 0 {
			// (A)
			var entries []GPath
			for i, o := range origs {
				e := GPath{Origin: o}
				if i%2 == 1 || len(origs) == 1 {
					e.Elem = []PElem{{Name: tops[o][r.Intn(len(tops[o]))]}}
				}
				entries = append(entries, e)
			}
			if len(entries) == 1 && len(tops[origs[0]]) > 1 {
				entries = append(entries, GPath{Origin: origs[0], Elem: []PElem{{Name: tops[origs[0]][0]}}})
			}
			entries = append(entries, GPath{Origin: "unused-origin", Elem: []PElem{{Name: "nothing"}}})
			r0 := r.Intn(len(entries))
			entries[0], entries[r0] = entries[r0], entries[0]
			c.Clients = append(c.Clients, ClientSpec{Prefix: GPath{Target: first}, Path: entries[0], More: entries[1:]})
			// (B)
			o := origs[r.Intn(len(origs))]
			var sub []GPath
			for _, t := range tops[o] {
				if len(sub) < 3 {
					sub = append(sub, GPath{Elem: []PElem{{Name: t}}})
				}
			}
			c.Clients = append(c.Clients, ClientSpec{Prefix: GPath{Target: first, Origin: o}, Path: sub[0], More: sub[1:]})
		}
	}
	// a subtree subscription: an interior node of some update of the first target
	for _, o := range c.Ops {
		if o.T == first && o.N != nil && len(o.N.Updates) > 0 && r.Chance(1, 3) {
			k := keyOf(o.N.Prefix, o.N.Updates[0].Path)
			if len(k) >= 2 && !strings.Contains(strings.Join(k, ""), "*") {
				el := []PElem{}
				for _, s := range k[1 : 1+r.Intn(len(k)-1)] {
					el = append(el, PElem{Name: s})
				}
				c.Clients = append(c.Clients, ClientSpec{Prefix: GPath{Target: first, Origin: k[0]}, Path: GPath{Elem: el}})
				break
			}
		}
	}
	// request encodings: the same logical query (an interior node of the first
	// target's data, origin first) as library clients whose raw SubscribeRequest
	// spells prefix and path in the deprecated `element` strings, and as a CLI
	// query that every proto style repeats in every encoding (cliStyles)
	var encQuery []string
	for _, o := range c.Ops {
		if o.T == first && o.N != nil && len(o.N.Updates) > 0 && o.N.Prefix != nil && o.N.Prefix.Origin != "" && o.N.Updates[0].Path.Origin == "" {
			k := keyOf(o.N.Prefix, o.N.Updates[0].Path)
			ok := len(k) >= 2
			for _, x := range k {
				if x == "" || strings.Contains(x, "*") || strings.Contains(x, "/") {
					ok = false
				}
			}
			if ok {
				encQuery = append([]string{}, k[:1+r.Intn(len(k)-1)]...)
				break
			}
		}
	}
	if encQuery != nil {
		for _, e := range []string{"pre-el", "both-el", "mixed"}[r.Intn(3):] {
			w := encodeQuery(e, first, encQuery)
			c.Clients = append(c.Clients, ClientSpec{Prefix: w.Prefix, Path: w.Path})
		}
	}
	// CLI queries
	c.Cli = append(c.Cli, CliSpec{Target: first, Query: []string{}})
	if encQuery != nil && family != "live" {
		c.Cli = append(c.Cli, CliSpec{Target: first, Query: encQuery})
	}
	if family == "multi" {
		c.Cli = append(c.Cli, CliSpec{Target: "unknown-device", Query: []string{}})
	} else if len(names) > 1 {
		c.Cli = append(c.Cli, CliSpec{Target: names[1], Query: []string{"openconfig"}})
	}
	return c
}

// canonical text of a scenario's inputs (for distinctness)
func canonical(c *Case) string {
	cc := *c
	cc.Obs = nil
	return fmt.Sprintf("%+v", mustJSON(cc))
}

package main

import (
	"fmt"
	"math"
	"sort"
	"strings"

	gpb "github.com/openconfig/gnmi/proto/gnmi"
	"github.com/openconfig/gnmi/zz_verif/vh"
)

// ---------------------------------------------------------------------------
// Inputs (JSON <-> protobuf <-> Gallina)

// PElem is a path element; keys as an ordered list of pairs.
type PElem struct {
	Name string      `json:"n"`
	Keys [][2]string `json:"k,omitempty"`
}

// GPath is a gNMI path.
type GPath struct {
	Origin  string   `json:"o,omitempty"`
	Target  string   `json:"t,omitempty"`
	Elem    []PElem  `json:"e,omitempty"`
	Element []string `json:"el,omitempty"`
}

// TV is a TypedValue.  K: str int uint bool bytes f32 f64 dec list json jsonietf any ascii proto.
type TV struct {
	K    string `json:"k"`
	S    string `json:"s,omitempty"`
	I    int64  `json:"i,omitempty"`
	U    uint64 `json:"u,omitempty"`
	B    bool   `json:"b,omitempty"`
	Prec uint32 `json:"p,omitempty"`
	L    []TV   `json:"l,omitempty"`
}

// Upd is one update.
type Upd struct {
	Path GPath `json:"p"`
	Val  TV    `json:"v"`
}

// Noti is one notification of a target stream.
type Noti struct {
	TS      int64   `json:"ts"`
	Prefix  *GPath  `json:"pre,omitempty"`
	Updates []Upd   `json:"u,omitempty"`
	Deletes []GPath `json:"d,omitempty"`
}

// Op is one element of the scenario script: a message of target T's stream
// (a sync response when N is nil), or the point where the clients subscribe.
type Op struct {
	T         string `json:"t,omitempty"`
	N         *Noti  `json:"n,omitempty"`
	Subscribe bool   `json:"subscribe,omitempty"`
	Break     bool   `json:"break,omitempty"` // target T's stream fails here; the next session continues the script
	EOF       bool   `json:"eof,omitempty"`      // the failing session ends cleanly (EOF) instead of with an error
	DelayUS   int    `json:"delay_us,omitempty"` // the target waits this long before sending the message
}

// ReqCfg is a named SubscribeRequest of the collector configuration.
type ReqCfg struct {
	Name   string  `json:"name"`
	Prefix *GPath  `json:"pre,omitempty"`
	Paths  []GPath `json:"paths"`
}

// TargetCfg is a configured target.
type TargetCfg struct {
	Name    string `json:"name"`
	Request string `json:"request"`
	NoAddr  bool   `json:"noaddr,omitempty"` // configuration without an address (invalid)
}

// ClientSpec is a library client subscription.
type ClientSpec struct {
	Prefix GPath `json:"pre"`
	Path   GPath `json:"path"`
	More   []GPath `json:"more,omitempty"` // the paths of further subscription entries of the same request
	Slow   int   `json:"slow,omitempty"` // microseconds the client spends on every notification
}

// CliSpec is a gnmi_cli ONCE query for Target with Query (element names), to be
// run in every invocation style.
type CliSpec struct {
	Target string   `json:"target"`
	Query  []string `json:"query"`
}

// Case is one scenario.
type Case struct {
	Family   string       `json:"family"`
	Requests []ReqCfg     `json:"requests"`
	Targets  []TargetCfg  `json:"targets"`
	Ops      []Op         `json:"ops"`
	Clients  []ClientSpec `json:"clients"`
	Cli      []CliSpec    `json:"cli"`
	NoPace   bool         `json:"nopace,omitempty"` // targets send their later messages back to back
	Live        bool      `json:"live,omitempty"`   // the clients subscribe while the later messages are already flowing
	LiveDelayMS int       `json:"live_delay_ms,omitempty"`
	LiveStaggerMS int     `json:"live_stagger_ms,omitempty"` // between the clients' subscriptions
	Obs      *Obs         `json:"obs,omitempty"`
}

// ---------------------------------------------------------------------------
// Observations

// SV is a decoded value held by the client library.
type SV struct {
	K string `json:"k"` // str int uint bool bytes f32 f64 list json jsonietf other
	S string `json:"s,omitempty"`
	I int64  `json:"i,omitempty"`
	U uint64 `json:"u,omitempty"`
	B bool   `json:"b,omitempty"`
	L []SV   `json:"l,omitempty"`
}

// LeafObs is one client leaf.
type LeafObs struct {
	P []string `json:"p"`
	V SV       `json:"v"`
}

// ViewObs is what one library client ended up with.  Kind: leaves notfound
// invalid suberr clienterr down hang.
type ViewObs struct {
	Kind   string    `json:"kind"`
	Leaves []LeafObs `json:"leaves,omitempty"`
	Note   string    `json:"note,omitempty"`
}

// Tok is a parsed CLI value.  K: str num bool seq dep raw.
type Tok struct {
	K      string `json:"k"`
	S      string `json:"s,omitempty"`
	HasInt bool   `json:"hasint,omitempty"`
	Int    string `json:"int,omitempty"` // decimal text (may exceed int64)
	F32    uint32 `json:"f32,omitempty"`
	F64    uint64 `json:"f64,omitempty"`
	B      bool   `json:"b,omitempty"`
	Comma  bool   `json:"comma,omitempty"`
	L      []Tok  `json:"l,omitempty"`
	IETF   bool   `json:"ietf,omitempty"`
}

// CliLeaf is one leaf of the CLI output.
type CliLeaf struct {
	P []string `json:"p"`
	V Tok      `json:"v"`
}

// CliObs is one gnmi_cli run.
type CliObs struct {
	Style  string    `json:"style"` // flags proto file
	Spec   int       `json:"spec"`
	Enc    string    `json:"enc,omitempty"` // request encoding of a proto style ("" = target prefix + elem path)
	Args   CliArgs   `json:"args"`
	OK     bool      `json:"ok"`
	Leaves []CliLeaf `json:"leaves,omitempty"`
	Note   string    `json:"note,omitempty"`
}

// CliArgs mirrors the model's cli_args.
type CliArgs struct {
	Target    string   `json:"t"`
	Queries   []string `json:"q"`
	QType     string   `json:"qt"`
	Proto     string   `json:"proto"`
	ProtoFile string   `json:"proto_file"`
}

// SeenObs is the request a fake target received.
type SeenObs struct {
	Name   string  `json:"name"`
	Got    bool    `json:"got"`
	Prefix *GPath  `json:"pre,omitempty"`
	Paths  []GPath `json:"paths,omitempty"`
}

// Obs is everything observed in one scenario.
type Obs struct {
	Clients []ViewObs         `json:"clients"`
	Cli     []CliObs          `json:"cli"`
	Seen    []SeenObs         `json:"seen"`
	Files   map[string]string `json:"files,omitempty"`
	Protos  map[string]int    `json:"protos,omitempty"` // proto text -> index into Case.Cli
	Wire    map[string]WireReq `json:"wire,omitempty"`  // proto text -> the prefix and path it spells (its encoding)
}

// WireReq is the SubscriptionList prefix and (single) path a rendered proto
// text carries, in the encoding it was written in.
type WireReq struct {
	Prefix GPath `json:"pre"`
	Path   GPath `json:"path"`
}

// ---------------------------------------------------------------------------
// protobuf conversion

func (p *GPath) pb() *gpb.Path {
	if p == nil {
		return nil
	}
	r := &gpb.Path{Origin: p.Origin, Target: p.Target}
	for _, e := range p.Elem {
		pe := &gpb.PathElem{Name: e.Name}
		if len(e.Keys) > 0 {
			pe.Key = map[string]string{}
			for _, kv := range e.Keys {
				pe.Key[kv[0]] = kv[1]
			}
		}
		r.Elem = append(r.Elem, pe)
	}
	if len(p.Element) > 0 {
		r.Element = append([]string{}, p.Element...)
	}
	return r
}

func fromPB(p *gpb.Path) *GPath {
	if p == nil {
		return nil
	}
	r := &GPath{Origin: p.Origin, Target: p.Target, Element: p.Element}
	for _, e := range p.Elem {
		pe := PElem{Name: e.Name}
		ks := make([]string, 0, len(e.Key))
		for k := range e.Key {
			ks = append(ks, k)
		}
		sort.Strings(ks)
		for _, k := range ks {
			pe.Keys = append(pe.Keys, [2]string{k, e.Key[k]})
		}
		r.Elem = append(r.Elem, pe)
	}
	return r
}

func (v TV) pb() *gpb.TypedValue {
	switch v.K {
	case "str":
		return &gpb.TypedValue{Value: &gpb.TypedValue_StringVal{StringVal: v.S}}
	case "int":
		return &gpb.TypedValue{Value: &gpb.TypedValue_IntVal{IntVal: v.I}}
	case "uint":
		return &gpb.TypedValue{Value: &gpb.TypedValue_UintVal{UintVal: v.U}}
	case "bool":
		return &gpb.TypedValue{Value: &gpb.TypedValue_BoolVal{BoolVal: v.B}}
	case "bytes":
		return &gpb.TypedValue{Value: &gpb.TypedValue_BytesVal{BytesVal: []byte(v.S)}}
	case "f32":
		return &gpb.TypedValue{Value: &gpb.TypedValue_FloatVal{FloatVal: math.Float32frombits(uint32(v.U))}}
	case "f64":
		return &gpb.TypedValue{Value: &gpb.TypedValue_DoubleVal{DoubleVal: math.Float64frombits(v.U)}}
	case "dec":
		return &gpb.TypedValue{Value: &gpb.TypedValue_DecimalVal{DecimalVal: &gpb.Decimal64{Digits: v.I, Precision: v.Prec}}}
	case "list":
		ll := &gpb.ScalarArray{}
		for _, e := range v.L {
			ll.Element = append(ll.Element, e.pb())
		}
		return &gpb.TypedValue{Value: &gpb.TypedValue_LeaflistVal{LeaflistVal: ll}}
	case "json":
		return &gpb.TypedValue{Value: &gpb.TypedValue_JsonVal{JsonVal: []byte(v.S)}}
	case "jsonietf":
		return &gpb.TypedValue{Value: &gpb.TypedValue_JsonIetfVal{JsonIetfVal: []byte(v.S)}}
	case "ascii":
		return &gpb.TypedValue{Value: &gpb.TypedValue_AsciiVal{AsciiVal: v.S}}
	case "proto":
		return &gpb.TypedValue{Value: &gpb.TypedValue_ProtoBytes{ProtoBytes: []byte(v.S)}}
	}
	// "any" and unknown kinds: an ascii value stands in (same client behaviour)
	return &gpb.TypedValue{Value: &gpb.TypedValue_AsciiVal{AsciiVal: v.S}}
}

func (n *Noti) pb() *gpb.Notification {
	r := &gpb.Notification{Timestamp: n.TS, Prefix: n.Prefix.pb()}
	for _, u := range n.Updates {
		p := u.Path
		r.Update = append(r.Update, &gpb.Update{Path: p.pb(), Val: u.Val.pb()})
	}
	for _, d := range n.Deletes {
		d := d
		r.Delete = append(r.Delete, d.pb())
	}
	return r
}

// ---------------------------------------------------------------------------
// Gallina printing

type printer struct{ n *vh.Names }

func (p printer) str(s string) string { return p.n.Ref(s) }

func (p printer) strs(l []string) string { return p.n.Path(l) }

func (p printer) gpath(g GPath) string {
	es := make([]string, len(g.Elem))
	for i, e := range g.Elem {
		ks := make([]string, len(e.Keys))
		for j, kv := range e.Keys {
			ks[j] = fmt.Sprintf("(%s, %s)", p.str(kv[0]), p.str(kv[1]))
		}
		es[i] = fmt.Sprintf("E %s %s", p.str(e.Name), vh.List(ks))
	}
	return fmt.Sprintf("(P %s %s %s %s)", p.str(g.Origin), p.str(g.Target), vh.List(es), p.strs(g.Element))
}

func (p printer) optGpath(g *GPath) string {
	if g == nil {
		return "None"
	}
	return "(Some " + p.gpath(*g) + ")"
}

func zlit(s string) string { return "(" + s + ")%Z" }

func (p printer) tv(v TV) string {
	switch v.K {
	case "str":
		return "(TVString " + p.str(v.S) + ")"
	case "int":
		return "(TVInt " + vh.Z(v.I) + ")"
	case "uint":
		return "(TVUint " + zlit(fmt.Sprint(v.U)) + ")"
	case "bool":
		return "(TVBool " + vh.Bool(v.B) + ")"
	case "bytes":
		return "(TVBytes " + p.str(v.S) + ")"
	case "f32":
		return "(TVFloat " + zlit(fmt.Sprint(uint32(v.U))) + ")"
	case "f64":
		return "(TVDouble " + zlit(fmt.Sprint(v.U)) + ")"
	case "dec":
		return "(TVDecimal " + vh.Z(v.I) + " " + zlit(fmt.Sprint(v.Prec)) + ")"
	case "list":
		es := make([]string, len(v.L))
		for i, e := range v.L {
			es[i] = p.tv(e)
		}
		return "(TVLeaflist " + vh.List(es) + ")"
	case "json":
		return "(TVJson " + p.str(v.S) + ")"
	case "jsonietf":
		return "(TVJsonIetf " + p.str(v.S) + ")"
	case "ascii":
		return "(TVAscii " + p.str(v.S) + ")"
	case "proto":
		return "(TVProto " + p.str(v.S) + ")"
	}
	return "(TVAny " + p.str(v.S) + ")"
}

func (p printer) item(n *Noti) string {
	if n == nil {
		return "ISync"
	}
	us := make([]string, len(n.Updates))
	for i, u := range n.Updates {
		us[i] = fmt.Sprintf("(%s, %s)", p.gpath(u.Path), p.tv(u.Val))
	}
	ds := make([]string, len(n.Deletes))
	for i, d := range n.Deletes {
		ds[i] = p.gpath(d)
	}
	return fmt.Sprintf("Nt %s %s %s %s", vh.Z(n.TS), p.optGpath(n.Prefix), vh.List(us), vh.List(ds))
}

func (p printer) sv(v SV) string {
	switch v.K {
	case "str":
		return "(SStr " + p.str(v.S) + ")"
	case "int":
		return "(SInt " + vh.Z(v.I) + ")"
	case "uint":
		return "(SUint " + zlit(fmt.Sprint(v.U)) + ")"
	case "bool":
		return "(SBool " + vh.Bool(v.B) + ")"
	case "bytes":
		return "(SBytes " + p.str(v.S) + ")"
	case "f32":
		return "(SF32 " + zlit(fmt.Sprint(uint32(v.U))) + ")"
	case "f64":
		return "(SF64 " + zlit(fmt.Sprint(v.U)) + ")"
	case "list":
		es := make([]string, len(v.L))
		for i, e := range v.L {
			es[i] = p.sv(e)
		}
		return "(SList " + vh.List(es) + ")"
	case "json":
		return "(SJson " + p.str(v.S) + ")"
	case "jsonietf":
		return "(SJsonIetf " + p.str(v.S) + ")"
	}
	// a value kind the model does not know: rendered as a string no model value equals
	return "(SStr " + p.str("<<unprojectable:"+v.S+">>") + ")"
}

func (p printer) view(v ViewObs) string {
	leaves := func() string {
		ls := make([]string, len(v.Leaves))
		for i, l := range v.Leaves {
			ls[i] = fmt.Sprintf("(%s, %s)", p.strs(l.P), p.sv(l.V))
		}
		return vh.List(ls)
	}
	switch v.Kind {
	case "leaves":
		return "OView (VLeaves " + leaves() + ")"
	case "notfound":
		return "OView (VSubFailed SubNotFound)"
	case "invalid":
		return "OView (VSubFailed SubInvalid)"
	case "suberr":
		return "OView (VSubFailed SubQueryError)"
	case "clienterr":
		return "OView (VClientError " + leaves() + ")"
	case "down":
		return "OView VCollectorDown"
	}
	return "OHang"
}

func (p printer) tok(t Tok) string {
	switch t.K {
	case "str":
		return "(CStr " + p.str(t.S) + ")"
	case "num":
		i := "None"
		if t.HasInt {
			i = "(Some " + zlit(t.Int) + ")"
		}
		return fmt.Sprintf("(CNum %s %s %s)", i, zlit(fmt.Sprint(t.F32)), zlit(fmt.Sprint(t.F64)))
	case "bool":
		return "(CBool " + vh.Bool(t.B) + ")"
	case "seq":
		es := make([]string, len(t.L))
		for i, e := range t.L {
			es[i] = p.tok(e)
		}
		return fmt.Sprintf("(CSeq %s %s)", vh.Bool(t.Comma), vh.List(es))
	case "dep":
		return "(CDeprecated " + vh.Bool(t.IETF) + ")"
	}
	return "(CRaw " + p.str(t.S) + ")"
}

func (p printer) cliArgs(a CliArgs) string {
	return fmt.Sprintf("(Ca %s %s %s %s %s)", p.str(a.Target), p.strs(a.Queries), p.str(a.QType), p.str(a.Proto), p.str(a.ProtoFile))
}

func (p printer) cliReq(s CliSpec) string {
	return fmt.Sprintf("(Cr MOnce %s [%s])", p.str(s.Target), p.strs(s.Query))
}

// gallina renders a case with its observations.
func gallina(n *vh.Names, c *Case, addrOf map[string]string) string {
	p := printer{n}
	var b strings.Builder
	// config
	rs := make([]string, len(c.Requests))
	for i, r := range c.Requests {
		ps := make([]string, len(r.Paths))
		for j, g := range r.Paths {
			ps[j] = p.gpath(g)
		}
		rs[i] = fmt.Sprintf("(%s, Rq %s %s)", p.str(r.Name), p.optGpath(r.Prefix), vh.List(ps))
	}
	ts := make([]string, len(c.Targets))
	for i, t := range c.Targets {
		addrs := "[]"
		if !t.NoAddr {
			addrs = "[" + p.str("addr") + "]"
		}
		ts[i] = fmt.Sprintf("(%s, Tc %s %s)", p.str(t.Name), addrs, p.str(t.Request))
	}
	fmt.Fprintf(&b, "Case (Cf %s %s)\n", vh.List(rs), vh.List(ts))
	// streams, in target order of first appearance in the configuration, then others
	names := []string{}
	seen := map[string]bool{}
	for _, t := range c.Targets {
		if !seen[t.Name] {
			seen[t.Name] = true
			names = append(names, t.Name)
		}
	}
	for _, o := range c.Ops {
		if !o.Subscribe && !seen[o.T] {
			seen[o.T] = true
			names = append(names, o.T)
		}
	}
	ss := make([]string, 0, len(names))
	p1 := make([]string, 0, len(names))
	for _, nm := range names {
		items := []string{}
		before := 0
		subscribed := false
		for _, o := range c.Ops {
			if o.Subscribe {
				subscribed = true
				continue
			}
			if o.T != nm {
				continue
			}
			if o.Break {
				items = append(items, "IReset")
			} else {
				items = append(items, p.item(o.N))
			}
			if !subscribed {
				before++
			}
		}
		ss = append(ss, fmt.Sprintf("(%s, %s)", p.str(nm), vh.List(items)))
		p1 = append(p1, fmt.Sprintf("(%s, %s)", p.str(nm), vh.Nat(before)))
	}
	fmt.Fprintf(&b, " %s\n %s\n", vh.List(ss), vh.List(p1))
	// seen
	sn := make([]string, len(c.Obs.Seen))
	for i, s := range c.Obs.Seen {
		if !s.Got {
			sn[i] = fmt.Sprintf("(%s, None)", p.str(s.Name))
			continue
		}
		ps := make([]string, len(s.Paths))
		for j, g := range s.Paths {
			ps[j] = p.gpath(g)
		}
		sn[i] = fmt.Sprintf("(%s, Some (Rq %s %s))", p.str(s.Name), p.optGpath(s.Prefix), vh.List(ps))
	}
	fmt.Fprintf(&b, " %s\n", vh.List(sn))
	// clients
	cl := make([]string, len(c.Clients))
	for i, q := range c.Clients {
		if len(q.More) == 0 {
			cl[i] = fmt.Sprintf("(Cq %s %s, %s)", p.gpath(q.Prefix), p.gpath(q.Path), p.view(c.Obs.Clients[i]))
		} else {
			more := make([]string, len(q.More))
			for j, g := range q.More {
				more[j] = p.gpath(g)
			}
			cl[i] = fmt.Sprintf("(Cqs %s %s %s, %s)", p.gpath(q.Prefix), p.gpath(q.Path), vh.List(more), p.view(c.Obs.Clients[i]))
		}
	}
	fmt.Fprintf(&b, " %s\n", vh.List(cl))
	// files, protos
	fk := make([]string, 0, len(c.Obs.Files))
	for k := range c.Obs.Files {
		fk = append(fk, k)
	}
	sort.Strings(fk)
	fs := make([]string, len(fk))
	for i, k := range fk {
		fs[i] = fmt.Sprintf("(%s, %s)", p.str(k), p.str(c.Obs.Files[k]))
	}
	pk := make([]string, 0, len(c.Obs.Protos))
	for k := range c.Obs.Protos {
		pk = append(pk, k)
	}
	sort.Strings(pk)
	ps := make([]string, len(pk))
	for i, k := range pk {
		ps[i] = fmt.Sprintf("(%s, %s)", p.str(k), p.cliReq(c.Cli[c.Obs.Protos[k]]))
	}
	ws := make([]string, 0, len(pk))
	for _, k := range pk {
		if w, ok := c.Obs.Wire[k]; ok {
			ws = append(ws, fmt.Sprintf("(%s, Cq %s %s)", p.str(k), p.gpath(w.Prefix), p.gpath(w.Path)))
		}
	}
	fmt.Fprintf(&b, " %s\n %s\n %s\n", vh.List(fs), vh.List(ps), vh.List(ws))
	// cli runs
	runs := make([]string, len(c.Obs.Cli))
	for i, r := range c.Obs.Cli {
		res := "CFail"
		if r.OK {
			ls := make([]string, len(r.Leaves))
			for j, l := range r.Leaves {
				ls[j] = fmt.Sprintf("(%s, %s)", p.strs(l.P), p.tok(l.V))
			}
			res = "(CTree " + vh.List(ls) + ")"
		}
		runs[i] = fmt.Sprintf("Run %s %s %s", p.cliArgs(r.Args), p.cliReq(c.Cli[r.Spec]), res)
	}
	fmt.Fprintf(&b, " %s", vh.List(runs))
	return b.String()
}

// Harness for C01: end-to-end relay on built binaries.  For every scenario it
// starts scripted TLS fake targets on loopback, the gnmi_collector binary built
// from the working tree with a generated configuration, library clients
// (client.CacheClient) and gnmi_cli runs in the three invocation styles, waits
// for quiescence, and writes the scenario with everything observed as a Gallina
// term for PipelineCheck.check_all.
package main

import (
	"encoding/json"
	"flag"
	"fmt"
	"os"
	"path/filepath"
	"sort"
	"strings"
	"sync"

	"github.com/openconfig/gnmi/zz_verif/vh"
)

func mustJSON(v interface{}) string {
	b, err := json.Marshal(v)
	if err != nil {
		return err.Error()
	}
	return string(b)
}

func loadCases(file string) ([]*Case, error) {
	b, err := os.ReadFile(file)
	if err != nil {
		return nil, err
	}
	var cs []*Case
	if err := json.Unmarshal(b, &cs); err != nil {
		var one Case
		if err2 := json.Unmarshal(b, &one); err2 != nil {
			return nil, err
		}
		cs = []*Case{&one}
	}
	return cs, nil
}

func nontrivial(c *Case) bool {
	if c.Obs == nil {
		return false
	}
	upd, del := 0, 0
	for _, o := range c.Ops {
		if o.N != nil {
			upd += len(o.N.Updates)
			del += len(o.N.Deletes)
		}
	}
	return upd >= 3 && len(c.Clients) > 0
}

func main() {
	flag.Set("logtostderr", "true")
	flag.Set("stderrthreshold", "FATAL")
	o := vh.ParseFlags()
	meta := vh.NewMeta("one case = one end-to-end scenario (collector process + fake targets + library clients + 3 gnmi_cli styles per query); distinct = distinct scenario inputs; non-trivial = at least 3 updates streamed and at least one client")
	colBin, cliBin := os.Getenv("VERIF_COLLECTOR_BIN"), os.Getenv("VERIF_CLI_BIN")
	if colBin == "" || cliBin == "" {
		vh.Die("VERIF_COLLECTOR_BIN / VERIF_CLI_BIN not set (lib/props/c01.py builds them)")
	}
	abs, err := filepath.Abs(o.Out)
	if err != nil {
		vh.Die("%v", err)
	}
	work := filepath.Join(abs, "e2e")
	if err := os.MkdirAll(work, 0o755); err != nil {
		vh.Die("%v", err)
	}
	tf, err := makeCert(work)
	if err != nil {
		vh.Die("certificate: %v", err)
	}
	e := &env{collectorBin: colBin, cliBin: cliBin, tf: tf, root: work}

	var cases []*Case
	if o.Replay != "" {
		cs, err := loadCases(o.Replay)
		if err != nil {
			vh.Die("replay: %v", err)
		}
		for _, c := range cs {
			if c.Family == "" {
				c.Family = "replay"
			}
			cases = append(cases, c)
		}
	} else {
		if dir := os.Getenv("VERIF_CORPUS"); dir != "" {
			ents, _ := os.ReadDir(dir)
			names := []string{}
			for _, en := range ents {
				if strings.HasSuffix(en.Name(), ".json") {
					names = append(names, en.Name())
				}
			}
			sort.Strings(names)
			for _, nm := range names {
				cs, err := loadCases(filepath.Join(dir, nm))
				if err != nil {
					vh.Die("corpus file %s unreadable: %v", nm, err)
				}
				for _, c := range cs {
					c.Family = "corpus:" + strings.TrimSuffix(nm, ".json")
					cases = append(cases, c)
				}
			}
		}
		r := vh.NewRand(o.Seed)
		fams := []string{"basic", "values", "origins", "keys-element", "deletes", "multi"}
		if o.Thorough() {
			for rep := 0; rep < 20; rep++ {
				fs := append(append([]string{}, fams...), "undecodable", "nonpf")
				if rep%3 == 0 {
					fs = append(fs, "reconnect", "burst", "live") // slower families: every third round
				}
				for _, f := range fs {
					cases = append(cases, genScenario(r.Fork(), f, true))
				}
			}
			for _, f := range []string{"badcfg", "badcfg", "kf-path-origin", "kf-negzero", "kf-mixed"} {
				cases = append(cases, genScenario(r.Fork(), f, true))
			}
		} else {
			for rep := 0; rep < 2; rep++ {
				for _, f := range fams {
					cases = append(cases, genScenario(r.Fork(), f, false))
				}
			}
			for _, f := range []string{"undecodable", "nonpf", "reconnect", "reconnect", "burst", "burst", "live"} {
				cases = append(cases, genScenario(r.Fork(), f, false))
			}
		}
	}

	// run the scenarios, a few at a time
	workers := 6
	if o.Thorough() {
		workers = 8
	}
	sem := make(chan struct{}, workers)
	var wg sync.WaitGroup
	errs := make([]error, len(cases))
	for i, c := range cases {
		wg.Add(1)
		sem <- struct{}{}
		go func(i int, c *Case) {
			defer wg.Done()
			defer func() { <-sem }()
			c.Obs = nil
			obs, err := runScenario(e, i, c)
			if err != nil {
				errs[i] = err
				return
			}
			c.Obs = obs
		}(i, c)
	}
	wg.Wait()
	for i, err := range errs {
		if err != nil {
			vh.Die("scenario %d (%s): harness failure: %v", i, cases[i].Family, err)
		}
	}

	// emit
	cf := vh.NewCaseFile()
	shard := 0
	flush := func() {
		if cf.Len() == 0 {
			return
		}
		if err := cf.Write(o.Out, shard, "CTree.CTreeModel Pipeline.PipelineModel Pipeline.PipelineCheck", "case", "check_all"); err != nil {
			vh.Die("write: %v", err)
		}
		shard++
		cf = vh.NewCaseFile()
	}
	perShard := 1
	if len(cases) > 12 {
		perShard = (len(cases) + 11) / 12
	}
	for _, c := range cases {
		cf.Add(gallina(cf.Names, c, nil), c)
		cc := *c
		cc.Obs = nil
		sample := map[string]interface{}{"family": c.Family, "targets": len(c.Targets), "ops": len(c.Ops), "clients": len(c.Clients), "cli_runs": len(c.Obs.Cli)}
		meta.Count(c.Family, mustJSON(cc), nontrivial(c), sample)
		lastTS := map[string]int64{}
		for _, op := range c.Ops {
			if op.N != nil {
				if t0, ok := lastTS[op.T]; ok && op.N.TS <= t0 {
					meta.Hist("ts:not-after-previous")
				}
				lastTS[op.T] = op.N.TS
				seen := map[string]bool{}
				for _, u := range op.N.Updates {
					k := mustJSON(u)
					if seen[k] {
						meta.Hist("update:repeated-in-notification")
					}
					seen[k] = true
				}
			}
			switch {
			case op.Subscribe:
				meta.Hist("op:subscribe-point")
			case op.Break:
				meta.Hist("op:stream-failure")
			case op.N == nil:
				meta.Hist("op:sync")
			default:
				meta.Hist("op:notification")
				for _, u := range op.N.Updates {
					meta.Hist("value:" + u.Val.K)
					if len(u.Path.Element) > 0 {
						meta.Hist("path:element-encoding")
					}
					for _, el := range u.Path.Elem {
						if len(el.Keys) > 0 {
							meta.Hist("path:keyed")
							break
						}
					}
				}
				meta.Hist(fmt.Sprintf("deletes:%d", len(op.N.Deletes)))
				if op.N.Prefix == nil {
					meta.Hist("prefix:nil")
				} else if op.N.Prefix.Origin != "" {
					meta.Hist("prefix:origin")
				}
			}
		}
		for _, v := range c.Obs.Clients {
			meta.Hist("client-view:" + v.Kind)
		}
		for _, r := range c.Obs.Cli {
			if r.OK {
				meta.Hist("cli:" + r.Style + ":ok")
			} else {
				meta.Hist("cli:" + r.Style + ":fail")
			}
		}
		if cf.Len() >= perShard {
			flush()
		}
	}
	flush()
	meta.Extra["scenarios"] = len(cases)
	meta.Extra["binaries"] = []string{colBin, cliBin}
	if err := meta.Write(o.Out); err != nil {
		vh.Die("meta: %v", err)
	}
}

// Harness for C19: drives the real path.ToStrings / path.CompletePath /
// cache.joinPrefixAndPath / client/gnmi query construction / value.FromScalar
// / value.ToScalar / value.Equal and writes, per case, the input and the
// projected result as Gallina terms for C19Check.check_all.
package main

import (
	"encoding/hex"
	"encoding/json"
	"flag"
	"fmt"
	"math"
	"os"
	"sort"
	"strings"
	"unicode/utf8"

	"github.com/openconfig/gnmi/cache"
	"github.com/openconfig/gnmi/client"
	gclient "github.com/openconfig/gnmi/client/gnmi"
	"github.com/openconfig/gnmi/path"
	gpb "github.com/openconfig/gnmi/proto/gnmi"
	"github.com/openconfig/gnmi/value"
	"github.com/openconfig/gnmi/zz_verif/vh"
	"google.golang.org/protobuf/proto"
	anypb "google.golang.org/protobuf/types/known/anypb"
)

// ---------------------------------------------------------------------------
// JSON forms of the inputs (what replay reads back)

// BS is a byte string; JSON strings must be valid UTF-8, anything else is
// written as {"hex": "..."}.
type BS string

func (b BS) MarshalJSON() ([]byte, error) {
	if utf8.ValidString(string(b)) {
		return json.Marshal(string(b))
	}
	return json.Marshal(map[string]string{"hex": hex.EncodeToString([]byte(b))})
}

func (b *BS) UnmarshalJSON(d []byte) error {
	var s string
	if json.Unmarshal(d, &s) == nil {
		*b = BS(s)
		return nil
	}
	var m map[string]string
	if err := json.Unmarshal(d, &m); err != nil {
		return err
	}
	raw, err := hex.DecodeString(m["hex"])
	if err != nil {
		return err
	}
	*b = BS(raw)
	return nil
}

// ElemJ is one PathElem; Keys is the key map as a list (distinct names, order
// irrelevant).
type ElemJ struct {
	Nil  bool    `json:"nil,omitempty"`
	Name BS      `json:"name"`
	Keys [][2]BS `json:"keys,omitempty"`
}

// PathJ is a *gnmi.Path.
type PathJ struct {
	Nil     bool    `json:"nil,omitempty"`
	Target  BS      `json:"target,omitempty"`
	Origin  BS      `json:"origin,omitempty"`
	Elems   []ElemJ `json:"elems,omitempty"`
	Element []BS    `json:"element,omitempty"`
}

// TVJ is a *gnmi.TypedValue.  K: nil unset string int uint bool bytes float
// double decimal decimalnil leaflist leaflistnil any json jsonietf ascii
// protobytes.
type TVJ struct {
	K      string `json:"k"`
	S      BS     `json:"s,omitempty"`
	I      int64  `json:"i,omitempty"`
	U      uint64 `json:"u,omitempty"`
	B      bool   `json:"b,omitempty"`
	Bits   uint64 `json:"bits,omitempty"`
	Prec   uint32 `json:"prec,omitempty"`
	NilBuf bool   `json:"nilbuf,omitempty"` // bytes arm with a nil slice
	L      []TVJ  `json:"l,omitempty"`
}

// ScalarJ is a Go value handed to FromScalar / returned by ToScalar.  K:
// string int int8 int16 int32 int64 uint uint8 uint16 uint32 uint64 float32
// float64 bool strings bytes list decimalfloat deprecated other.
type ScalarJ struct {
	K    string    `json:"k"`
	S    BS        `json:"s,omitempty"`
	I    int64     `json:"i,omitempty"`
	U    uint64    `json:"u,omitempty"`
	B    bool      `json:"b,omitempty"`
	Bits uint64    `json:"bits,omitempty"`
	SS   []BS      `json:"ss,omitempty"`
	L    []ScalarJ `json:"l,omitempty"`
	Ietf bool      `json:"ietf,omitempty"`
	What string    `json:"what,omitempty"` // for other: nil struct map
}

// Res is an observed outcome: ok / err / panic.
type Res struct {
	R      string   `json:"r"`
	Strs   []BS     `json:"strs,omitempty"`
	Elems  []ElemJ  `json:"elems,omitempty"`
	Elemnt []BS     `json:"element,omitempty"`
	TV     *TVJ     `json:"tv,omitempty"`
	Sc     *ScalarJ `json:"sc,omitempty"`
	Bool   bool     `json:"bool,omitempty"`
	Msg    string   `json:"msg,omitempty"`
}

// Case is what is written to cases_k.json and read back for replay.
type Case struct {
	Family  string   `json:"family"`
	Kind    string   `json:"kind"` // index complete join query fromto toscalar equal
	Prefix  bool     `json:"prefix,omitempty"`
	Pre     *PathJ   `json:"pre,omitempty"`
	P       *PathJ   `json:"p,omitempty"`
	Q       []BS     `json:"q,omitempty"`
	X       *ScalarJ `json:"x,omitempty"`
	T       *TVJ     `json:"t,omitempty"`
	A       *TVJ     `json:"a,omitempty"`
	B       *TVJ     `json:"b,omitempty"`
	Rep     int      `json:"rep,omitempty"`     // base in-memory representation of empty slices / maps (see rep)
	Reuse   bool     `json:"reuse,omitempty"`   // index: the one long-lived *gnmi.Path object, refilled in place
	SamePtr bool     `json:"sameptr,omitempty"` // equal: Equal(a, a) on one pointer
	Group   [][]BS   `json:"group,omitempty"`   // query: all queries of the one client.Query; Q = Group[GI]
	GI      int      `json:"gi,omitempty"`
	// observations (recomputed on replay)
	Obs  []Res `json:"obs,omitempty"`
	JSON []BS  `json:"json_valid,omitempty"`
}

// ---------------------------------------------------------------------------
// building the real messages

// rep selects the in-memory representation of everything EMPTY in the
// messages and Go values built below.  protobuf does not distinguish a nil
// slice / map from an allocated empty one (proto.Equal, identical wire bytes),
// Go does.  Bits: repElem Path.Elem, repElement Path.Element, repKey
// PathElem.Key, repList ScalarArray.Element / []string / []interface{} /
// client.Path, repBytes every []byte.  A set bit means "allocated, length 0"
// where the plain construction gives nil, and nil where it gives an
// allocated empty value.
var rep int

const (
	repElem = 1 << iota
	repElement
	repKey
	repList
	repBytes
	repAll = 1<<iota - 1
)

func mkBytes(s BS, explicitNil bool) []byte {
	if len(s) > 0 {
		return []byte(s)
	}
	if explicitNil != (rep&repBytes != 0) {
		return nil
	}
	return []byte{}
}

func mkPath(p *PathJ, r *vh.Rand) *gpb.Path {
	if p == nil || p.Nil {
		return nil
	}
	out := &gpb.Path{Target: string(p.Target), Origin: string(p.Origin)}
	if len(p.Elems) == 0 && rep&repElem != 0 {
		out.Elem = make([]*gpb.PathElem, 0, 4)
	}
	if len(p.Element) == 0 && rep&repElement != 0 {
		out.Element = []string{}
	}
	for _, e := range p.Elems {
		if e.Nil {
			out.Elem = append(out.Elem, nil)
			continue
		}
		pe := &gpb.PathElem{Name: string(e.Name)}
		if len(e.Keys) == 0 && rep&repKey != 0 {
			pe.Key = map[string]string{}
		}
		if len(e.Keys) > 0 {
			pe.Key = map[string]string{}
			// insertion order varies from run to run as well
			idx := make([]int, len(e.Keys))
			for i := range idx {
				idx[i] = i
			}
			if r != nil {
				for i := len(idx) - 1; i > 0; i-- {
					j := r.Intn(i + 1)
					idx[i], idx[j] = idx[j], idx[i]
				}
			}
			for _, i := range idx {
				pe.Key[string(e.Keys[i][0])] = string(e.Keys[i][1])
			}
		}
		out.Elem = append(out.Elem, pe)
	}
	for _, s := range p.Element {
		out.Element = append(out.Element, string(s))
	}
	return out
}

func mkTV(t *TVJ) *gpb.TypedValue {
	switch t.K {
	case "nil":
		return nil
	case "unset":
		return &gpb.TypedValue{}
	case "string":
		return &gpb.TypedValue{Value: &gpb.TypedValue_StringVal{StringVal: string(t.S)}}
	case "int":
		return &gpb.TypedValue{Value: &gpb.TypedValue_IntVal{IntVal: t.I}}
	case "uint":
		return &gpb.TypedValue{Value: &gpb.TypedValue_UintVal{UintVal: t.U}}
	case "bool":
		return &gpb.TypedValue{Value: &gpb.TypedValue_BoolVal{BoolVal: t.B}}
	case "bytes":
		return &gpb.TypedValue{Value: &gpb.TypedValue_BytesVal{BytesVal: mkBytes(t.S, t.NilBuf)}}
	case "float":
		return &gpb.TypedValue{Value: &gpb.TypedValue_FloatVal{FloatVal: math.Float32frombits(uint32(t.Bits))}}
	case "double":
		return &gpb.TypedValue{Value: &gpb.TypedValue_DoubleVal{DoubleVal: math.Float64frombits(t.Bits)}}
	case "decimal":
		return &gpb.TypedValue{Value: &gpb.TypedValue_DecimalVal{DecimalVal: &gpb.Decimal64{Digits: t.I, Precision: t.Prec}}}
	case "decimalnil":
		return &gpb.TypedValue{Value: &gpb.TypedValue_DecimalVal{}}
	case "leaflist":
		sa := &gpb.ScalarArray{}
		if len(t.L) == 0 && rep&repList != 0 {
			sa.Element = make([]*gpb.TypedValue, 0, 2)
		}
		for i := range t.L {
			sa.Element = append(sa.Element, mkTV(&t.L[i]))
		}
		return &gpb.TypedValue{Value: &gpb.TypedValue_LeaflistVal{LeaflistVal: sa}}
	case "leaflistnil":
		return &gpb.TypedValue{Value: &gpb.TypedValue_LeaflistVal{}}
	case "any":
		return &gpb.TypedValue{Value: &gpb.TypedValue_AnyVal{AnyVal: &anypb.Any{TypeUrl: "x"}}}
	case "json":
		return &gpb.TypedValue{Value: &gpb.TypedValue_JsonVal{JsonVal: mkBytes(t.S, true)}}
	case "jsonietf":
		return &gpb.TypedValue{Value: &gpb.TypedValue_JsonIetfVal{JsonIetfVal: mkBytes(t.S, true)}}
	case "ascii":
		return &gpb.TypedValue{Value: &gpb.TypedValue_AsciiVal{AsciiVal: string(t.S)}}
	case "protobytes":
		return &gpb.TypedValue{Value: &gpb.TypedValue_ProtoBytes{ProtoBytes: mkBytes(t.S, true)}}
	}
	panic("mkTV: " + t.K)
}

// projTV projects a real TypedValue back (observation of FromScalar).
func projTV(t *gpb.TypedValue) TVJ {
	if t == nil {
		return TVJ{K: "nil"}
	}
	switch v := t.Value.(type) {
	case nil:
		return TVJ{K: "unset"}
	case *gpb.TypedValue_StringVal:
		return TVJ{K: "string", S: BS(v.StringVal)}
	case *gpb.TypedValue_IntVal:
		return TVJ{K: "int", I: v.IntVal}
	case *gpb.TypedValue_UintVal:
		return TVJ{K: "uint", U: v.UintVal}
	case *gpb.TypedValue_BoolVal:
		return TVJ{K: "bool", B: v.BoolVal}
	case *gpb.TypedValue_BytesVal:
		return TVJ{K: "bytes", S: BS(v.BytesVal)}
	case *gpb.TypedValue_FloatVal:
		return TVJ{K: "float", Bits: uint64(math.Float32bits(v.FloatVal))}
	case *gpb.TypedValue_DoubleVal:
		return TVJ{K: "double", Bits: math.Float64bits(v.DoubleVal)}
	case *gpb.TypedValue_DecimalVal:
		if v.DecimalVal == nil {
			return TVJ{K: "decimalnil"}
		}
		return TVJ{K: "decimal", I: v.DecimalVal.Digits, Prec: v.DecimalVal.Precision}
	case *gpb.TypedValue_LeaflistVal:
		if v.LeaflistVal == nil {
			return TVJ{K: "leaflistnil"}
		}
		out := TVJ{K: "leaflist"}
		for _, e := range v.LeaflistVal.Element {
			out.L = append(out.L, projTV(e))
		}
		return out
	case *gpb.TypedValue_AnyVal:
		return TVJ{K: "any"}
	case *gpb.TypedValue_JsonVal:
		return TVJ{K: "json", S: BS(v.JsonVal)}
	case *gpb.TypedValue_JsonIetfVal:
		return TVJ{K: "jsonietf", S: BS(v.JsonIetfVal)}
	case *gpb.TypedValue_AsciiVal:
		return TVJ{K: "ascii", S: BS(v.AsciiVal)}
	case *gpb.TypedValue_ProtoBytes:
		return TVJ{K: "protobytes", S: BS(v.ProtoBytes)}
	}
	return TVJ{K: "unset"}
}

type someStruct struct{ A int }

func mkScalar(x *ScalarJ) interface{} {
	switch x.K {
	case "string":
		return string(x.S)
	case "int":
		return int(x.I)
	case "int8":
		return int8(x.I)
	case "int16":
		return int16(x.I)
	case "int32":
		return int32(x.I)
	case "int64":
		return x.I
	case "uint":
		return uint(x.U)
	case "uint8":
		return uint8(x.U)
	case "uint16":
		return uint16(x.U)
	case "uint32":
		return uint32(x.U)
	case "uint64":
		return x.U
	case "float32":
		return math.Float32frombits(uint32(x.Bits))
	case "float64":
		return math.Float64frombits(x.Bits)
	case "bool":
		return x.B
	case "strings":
		out := make([]string, len(x.SS))
		for i, s := range x.SS {
			out[i] = string(s)
		}
		if len(out) == 0 && rep&repList != 0 {
			return []string(nil)
		}
		return out
	case "bytes":
		return mkBytes(x.S, false)
	case "list":
		out := make([]interface{}, len(x.L))
		for i := range x.L {
			out[i] = mkScalar(&x.L[i])
		}
		if len(out) == 0 && rep&repList != 0 {
			return []interface{}(nil)
		}
		return out
	case "other":
		switch x.What {
		case "struct":
			return someStruct{1}
		case "map":
			return map[string]int{"a": 1}
		case "ptr":
			s := "x"
			return &s
		}
		return nil
	}
	panic("mkScalar: " + x.K)
}

// projScalar projects what ToScalar returned.
func projScalar(v interface{}) ScalarJ {
	switch x := v.(type) {
	case string:
		return ScalarJ{K: "string", S: BS(x)}
	case int64:
		return ScalarJ{K: "int64", I: x}
	case uint64:
		return ScalarJ{K: "uint64", U: x}
	case bool:
		return ScalarJ{K: "bool", B: x}
	case float32:
		return ScalarJ{K: "float32", Bits: uint64(math.Float32bits(x))}
	case float64:
		return ScalarJ{K: "float64", Bits: math.Float64bits(x)}
	case []byte:
		return ScalarJ{K: "bytes", S: BS(x)}
	case []interface{}:
		out := ScalarJ{K: "list"}
		for _, e := range x {
			out.L = append(out.L, projScalar(e))
		}
		return out
	case value.DeprecatedScalar:
		b, err := json.Marshal(x.Value)
		if err != nil {
			b = []byte("?")
		}
		return ScalarJ{K: "deprecated", Ietf: strings.Contains(x.Message, "JsonIetf"), S: BS(b)}
	}
	return ScalarJ{K: "other", What: fmt.Sprintf("%T", v)}
}

// ---------------------------------------------------------------------------
// running the real code

func guard(f func() Res) (res Res) {
	defer func() {
		if r := recover(); r != nil {
			res = Res{R: "panic", Msg: fmt.Sprint(r)}
		}
	}()
	return f()
}

func bss(l []string) []BS {
	out := make([]BS, len(l))
	for i, s := range l {
		out[i] = BS(s)
	}
	return out
}

const indexRuns = 20

// jsonInputs collects the byte strings of json / json_ietf arms of a value.
func jsonInputs(t *TVJ, acc map[string]bool) {
	if t == nil {
		return
	}
	if t.K == "json" || t.K == "jsonietf" {
		acc[string(t.S)] = true
	}
	for i := range t.L {
		jsonInputs(&t.L[i], acc)
	}
}

func validJSON(ts ...*TVJ) []BS {
	acc := map[string]bool{}
	for _, t := range ts {
		jsonInputs(t, acc)
	}
	var out []BS
	for s := range acc {
		// the oracle is encoding/json itself, asked independently of value.ToScalar
		var v interface{}
		if json.Unmarshal([]byte(s), &v) == nil {
			out = append(out, BS(s))
		}
	}
	sort.Slice(out, func(i, j int) bool { return out[i] < out[j] })
	return out
}

// reusePath is ONE long-lived object refilled in place by the index-reuse
// family (a result memoised by pointer goes stale on it); decoyPath is a long
// unrelated path indexed between observations (a shared result buffer would
// be overwritten by it).
var reusePath = &gpb.Path{}
var decoyPath = func() *gpb.Path {
	p := &gpb.Path{Target: "decoyT", Origin: "decoyO"}
	for i := 0; i < 30; i++ {
		p.Elem = append(p.Elem, &gpb.PathElem{Name: fmt.Sprintf("decoy%d", i), Key: map[string]string{"dk1": "dv1", "dk2": "dv2"}})
	}
	return p
}()

func clonePath(p *gpb.Path) *gpb.Path {
	if p == nil {
		return nil
	}
	return proto.Clone(p).(*gpb.Path)
}

func samePath(a, b *gpb.Path) bool {
	if a == nil || b == nil {
		return a == nil && b == nil
	}
	return proto.Equal(a, b)
}

func sameStrs(a, b []string) bool {
	if len(a) != len(b) {
		return false
	}
	for i := range a {
		if a[i] != b[i] {
			return false
		}
	}
	return true
}

// runIndex indexes one path indexRuns times: the first half on freshly built
// objects, the second half on one object (the long-lived one for Reuse).
// Every second result is scribbled on right away (a result aliasing the path
// corrupts the next run), the others are retained untouched and compared with
// their copy after an unrelated path has been indexed (a shared buffer shows).
func runIndex(c *Case, r *vh.Rand) {
	var shared *gpb.Path
	rep = c.Rep & repAll
	defer func() { rep = 0 }()
	if c.Reuse && c.P != nil && !c.P.Nil {
		src := mkPath(c.P, r)
		reusePath.Reset()
		reusePath.Target, reusePath.Origin, reusePath.Elem, reusePath.Element = src.Target, src.Origin, src.Elem, src.Element
		shared = reusePath
	} else {
		shared = mkPath(c.P, r)
	}
	raw := make([][]string, indexRuns)
	cp := make([][]string, indexRuns)
	obs := make([]Res, indexRuns)
	for i := 0; i < indexRuns; i++ {
		in := shared
		if i < indexRuns/2 && !c.Reuse {
			// the same message in another in-memory representation of its empty slices / maps
			rep = (c.Rep + i) & repAll
			in = mkPath(c.P, r)
		}
		keep := clonePath(in)
		i := i
		obs[i] = guard(func() Res {
			raw[i] = path.ToStrings(in, c.Prefix)
			cp[i] = append([]string{}, raw[i]...)
			return Res{R: "ok"}
		})
		if obs[i].R == "ok" && !samePath(keep, in) {
			obs[i] = Res{R: "err", Msg: "input modified"}
		}
		if i%2 == 0 {
			for j := range raw[i] {
				raw[i][j] = "scribbled"
			}
		}
	}
	guard(func() Res { path.ToStrings(decoyPath, true); return Res{} })
	for i := range obs {
		if obs[i].R != "ok" {
			continue
		}
		if i%2 == 1 && !sameStrs(raw[i], cp[i]) {
			obs[i] = Res{R: "err", Msg: "result changed by a later call (shared buffer)"}
			continue
		}
		obs[i].Strs = bss(cp[i])
	}
	c.Obs = append(c.Obs, obs...)
}

func run(c *Case, r *vh.Rand) {
	c.Obs = nil
	switch c.Kind {
	case "index":
		runIndex(c, r)
	case "complete", "join":
		call := func(pre, p *gpb.Path) ([]string, error) {
			if c.Kind == "join" {
				return cache.VerifJoinPrefixAndPath(pre, p), nil
			}
			return path.CompletePath(pre, p)
		}
		c.Obs = append(c.Obs, guard(func() Res {
			rep = c.Rep & repAll
			defer func() { rep = 0 }()
			pre, p := mkPath(c.Pre, r), mkPath(c.P, r)
			kpre, kp := clonePath(pre), clonePath(p)
			s1, err := call(pre, p)
			// the same two messages, their empty slices / maps represented differently
			for _, alt := range []int{repElem, repElement, repElem | repElement, repKey, repElem | repElement | repKey} {
				rep = (c.Rep ^ alt) & repAll
				apre, ap := mkPath(c.Pre, r), mkPath(c.P, r)
				if !samePath(apre, pre) || !samePath(ap, p) {
					return Res{R: "panic", Msg: "harness: representations are not proto.Equal"}
				}
				s2, err2 := call(apre, ap)
				if (err == nil) != (err2 == nil) || (err == nil && !sameStrs(s1, s2)) {
					return Res{R: "diff", Msg: fmt.Sprintf("proto.Equal inputs, representation %d vs %d: %q/%v vs %q/%v", c.Rep&repAll, rep, s1, err, s2, err2)}
				}
			}
			rep = c.Rep & repAll
			if err != nil {
				if !samePath(kpre, pre) || !samePath(kp, p) {
					return Res{R: "err", Msg: "input modified"}
				}
				if _, err2 := call(pre, p); err2 == nil {
					return Res{R: "panic", Msg: "second call on the same input succeeded"}
				}
				return Res{R: "err", Msg: err.Error()}
			}
			first := append([]string{}, s1...)
			// an aliased or shared result shows when another call is made and the first result is scribbled on
			call(decoyPath, decoyPath)
			if !sameStrs(s1, first) {
				return Res{R: "panic", Msg: "result changed by a later call (shared buffer)"}
			}
			for j := range s1 {
				s1[j] = "scribbled"
			}
			s2, err := call(pre, p)
			if err != nil || !sameStrs(s2, first) {
				return Res{R: "panic", Msg: "second call on the same input differs (result aliases the input)"}
			}
			if !samePath(kpre, pre) || !samePath(kp, p) {
				return Res{R: "panic", Msg: "input modified"}
			}
			return Res{R: "ok", Strs: bss(first)}
		}))
	case "query":
		c.Obs = append(c.Obs, guard(func() Res {
			group := c.Group
			gi := c.GI
			if group == nil {
				group, gi = [][]BS{c.Q}, 0
			}
			var qs, keeps []client.Path
			for _, g := range group {
				q := make(client.Path, len(g))
				for i, s := range g {
					q[i] = string(s)
				}
				if len(q) == 0 && c.Rep&repList != 0 {
					q = nil
				}
				qs = append(qs, q)
				keeps = append(keeps, append(client.Path{}, q...))
			}
			sr, err := gclient.VerifSubscribeRequest(client.Query{Target: "dev", Queries: qs, Type: client.Once})
			for k := range qs {
				for i := range qs[k] {
					if qs[k][i] != keeps[k][i] {
						return Res{R: "panic", Msg: "query path modified by the client"}
					}
				}
			}
			if err != nil {
				if len(group) > 1 {
					// the error may stem from another query of the group: ask for this one alone
					_, err1 := gclient.VerifSubscribeRequest(client.Query{Target: "dev", Queries: []client.Path{qs[gi]}, Type: client.Once})
					if err1 == nil {
						c.Group, c.GI = nil, 0
						run(c, r)
						return c.Obs[0]
					}
				}
				return Res{R: "err", Msg: err.Error()}
			}
			subs := sr.GetSubscribe().GetSubscription()
			if len(subs) != len(group) {
				return Res{R: "panic", Msg: fmt.Sprintf("%d subscriptions for %d queries", len(subs), len(group))}
			}
			if pt := sr.GetSubscribe().GetPrefix().GetTarget(); pt != "dev" {
				return Res{R: "panic", Msg: "prefix target " + pt}
			}
			pp := subs[gi].GetPath()
			res := Res{R: "ok", Strs: bss(path.ToStrings(pp, false)), Elemnt: bss(pp.GetElement())}
			if pp.GetTarget() != "" || pp.GetOrigin() != "" {
				return Res{R: "panic", Msg: "target/origin set on the subscription path"}
			}
			for _, e := range pp.GetElem() {
				ej := ElemJ{Name: BS(e.GetName())}
				ks := make([]string, 0, len(e.GetKey()))
				for k := range e.GetKey() {
					ks = append(ks, k)
				}
				sort.Strings(ks)
				for _, k := range ks {
					ej.Keys = append(ej.Keys, [2]BS{BS(k), BS(e.GetKey()[k])})
				}
				res.Elems = append(res.Elems, ej)
			}
			return res
		}))
	case "fromto":
		var tv *gpb.TypedValue
		first := guard(func() Res {
			rep = c.Rep & repAll
			defer func() { rep = 0 }()
			t, err := value.FromScalar(mkScalar(c.X))
			for _, alt := range []int{repList, repBytes, repList | repBytes} {
				rep = (c.Rep ^ alt) & repAll
				t2, err2 := value.FromScalar(mkScalar(c.X))
				if (err == nil) != (err2 == nil) || (err == nil && !proto.Equal(t, t2)) {
					return Res{R: "diff", Msg: fmt.Sprintf("equal Go values (nil vs empty slices), representation %d vs %d: %v/%v vs %v/%v", c.Rep&repAll, rep, t, err, t2, err2)}
				}
			}
			if err != nil {
				return Res{R: "err", Msg: err.Error()}
			}
			tv = t
			p := projTV(t)
			return Res{R: "ok", TV: &p}
		})
		c.Obs = append(c.Obs, first)
		if first.R == "ok" {
			c.Obs = append(c.Obs, guard(func() Res {
				v, err := value.ToScalar(tv)
				if err != nil {
					return Res{R: "err", Msg: err.Error()}
				}
				p := projScalar(v)
				return Res{R: "ok", Sc: &p}
			}))
		} else {
			c.Obs = append(c.Obs, Res{R: first.R})
		}
	case "toscalar":
		c.JSON = validJSON(c.T)
		c.Obs = append(c.Obs, guard(func() Res {
			defer func() { rep = 0 }()
			one := func(rp int) (string, *ScalarJ, error) {
				rep = rp & repAll
				v, err := value.ToScalar(mkTV(c.T))
				if err != nil {
					return "err", nil, err
				}
				p := projScalar(v)
				b, _ := json.Marshal(p)
				return "ok:" + string(b), &p, nil
			}
			k, p, err := one(c.Rep)
			for _, alt := range []int{repList, repBytes, repList | repBytes} {
				if k2, _, _ := one(c.Rep ^ alt); k2 != k {
					return Res{R: "diff", Msg: fmt.Sprintf("proto.Equal values, representation %d vs %d: %s vs %s", c.Rep&repAll, rep, k, k2)}
				}
			}
			if err != nil {
				return Res{R: "err", Msg: err.Error()}
			}
			return Res{R: "ok", Sc: p}
		}))
	case "equal":
		eq := func(x, y *TVJ) Res {
			return guard(func() Res {
				defer func() { rep = 0 }()
				var first bool
				alts := []int{0, repList, repBytes, repList | repBytes}
				for i, ra := range alts {
					for j, rb := range alts {
						rep = (c.Rep ^ ra) & repAll
						a := mkTV(x)
						rep = (c.Rep ^ rb) & repAll
						b := mkTV(y)
						if c.SamePtr {
							b = a
						}
						var ka, kb *gpb.TypedValue
						if a != nil {
							ka = proto.Clone(a).(*gpb.TypedValue)
						}
						if b != nil {
							kb = proto.Clone(b).(*gpb.TypedValue)
						}
						r1 := value.Equal(a, b)
						r2 := value.Equal(a, b)
						if r1 != r2 {
							return Res{R: "diff", Msg: "two calls on the same operands differ"}
						}
						if (a != nil && !proto.Equal(ka, a)) || (b != nil && !proto.Equal(kb, b)) {
							return Res{R: "err", Msg: "operand modified"}
						}
						if i == 0 && j == 0 {
							first = r1
						} else if r1 != first {
							return Res{R: "diff", Msg: fmt.Sprintf("proto.Equal operands, representations %d/%d: %v, base: %v", ra, rb, r1, first)}
						}
					}
				}
				return Res{R: "ok", Bool: first}
			})
		}
		c.Obs = append(c.Obs, eq(c.A, c.B), eq(c.B, c.A))
	default:
		vh.Die("unknown case kind %q", c.Kind)
	}
}

// ---------------------------------------------------------------------------
// Gallina

func strList(n *vh.Names, l []BS) string {
	parts := make([]string, len(l))
	for i, s := range l {
		parts[i] = n.Ref(string(s))
	}
	return vh.List(parts)
}

func nTerm(u uint64) string { return fmt.Sprintf("%d%%N", u) }

func elemTerm(n *vh.Names, e ElemJ) string {
	if e.Nil {
		// a nil *PathElem reads as an element with empty name and no keys (nil-safe getters)
		return fmt.Sprintf("(%s, [])", n.Ref(""))
	}
	ks := make([]string, len(e.Keys))
	for i, kv := range e.Keys {
		ks[i] = fmt.Sprintf("(%s, %s)", n.Ref(string(kv[0])), n.Ref(string(kv[1])))
	}
	return fmt.Sprintf("(%s, %s)", n.Ref(string(e.Name)), vh.List(ks))
}

func elemsTerm(n *vh.Names, es []ElemJ) string {
	parts := make([]string, len(es))
	for i, e := range es {
		parts[i] = elemTerm(n, e)
	}
	return vh.List(parts)
}

func pathTerm(n *vh.Names, p *PathJ) string {
	if p == nil || p.Nil {
		return "None"
	}
	return fmt.Sprintf("(Some (GPath %s %s %s %s))", n.Ref(string(p.Target)), n.Ref(string(p.Origin)), elemsTerm(n, p.Elems), strList(n, p.Element))
}

func tvTerm(n *vh.Names, t *TVJ) string {
	switch t.K {
	case "nil":
		return "TVnil"
	case "unset":
		return "TVunset"
	case "string":
		return "(TVString " + n.Ref(string(t.S)) + ")"
	case "int":
		return "(TVInt " + vh.Z(t.I) + ")"
	case "uint":
		return "(TVUint " + nTerm(t.U) + ")"
	case "bool":
		return "(TVBool " + vh.Bool(t.B) + ")"
	case "bytes":
		return "(TVBytes " + n.Ref(string(t.S)) + ")"
	case "float":
		return "(TVFloat " + nTerm(t.Bits) + ")"
	case "double":
		return "(TVDouble " + nTerm(t.Bits) + ")"
	case "decimal":
		return fmt.Sprintf("(TVDecimal %s %s)", vh.Z(t.I), nTerm(uint64(t.Prec)))
	case "decimalnil":
		return "TVDecimalNil"
	case "leaflist":
		parts := make([]string, len(t.L))
		for i := range t.L {
			parts[i] = tvTerm(n, &t.L[i])
		}
		return "(TVLeaflist " + vh.List(parts) + ")"
	case "leaflistnil":
		return "TVLeaflistNil"
	case "any":
		return "TVAny"
	case "json":
		return "(TVJson " + n.Ref(string(t.S)) + ")"
	case "jsonietf":
		return "(TVJsonIetf " + n.Ref(string(t.S)) + ")"
	case "ascii":
		return "(TVAscii " + n.Ref(string(t.S)) + ")"
	case "protobytes":
		return "(TVProtoBytes " + n.Ref(string(t.S)) + ")"
	}
	panic("tvTerm " + t.K)
}

var widths = map[string]string{"int": "W0", "int8": "W8", "int16": "W16", "int32": "W32", "int64": "W64",
	"uint": "W0", "uint8": "W8", "uint16": "W16", "uint32": "W32", "uint64": "W64"}

func scTerm(n *vh.Names, x *ScalarJ) string {
	switch x.K {
	case "string":
		return "(GString " + n.Ref(string(x.S)) + ")"
	case "int", "int8", "int16", "int32", "int64":
		return fmt.Sprintf("(GInt %s %s)", widths[x.K], vh.Z(x.I))
	case "uint", "uint8", "uint16", "uint32", "uint64":
		return fmt.Sprintf("(GUint %s %s)", widths[x.K], nTerm(x.U))
	case "float32":
		return "(GFloat32 " + nTerm(x.Bits) + ")"
	case "float64":
		return "(GFloat64 " + nTerm(x.Bits) + ")"
	case "bool":
		return "(GBool " + vh.Bool(x.B) + ")"
	case "strings":
		return "(GStrings " + strList(n, x.SS) + ")"
	case "bytes":
		return "(GBytes " + n.Ref(string(x.S)) + ")"
	case "list":
		parts := make([]string, len(x.L))
		for i := range x.L {
			parts[i] = scTerm(n, &x.L[i])
		}
		return "(GList " + vh.List(parts) + ")"
	case "deprecated":
		return fmt.Sprintf("(GDeprecated %s %s)", vh.Bool(x.Ietf), n.Ref(string(x.S)))
	case "other":
		return "GOther"
	}
	panic("scTerm " + x.K)
}

func resTerm(r Res, ok func() string) string {
	switch r.R {
	case "ok":
		return "(ROk " + ok() + ")"
	case "err":
		return "RErr"
	case "diff":
		return "RDiff"
	}
	return "RPanic"
}

func caseTerm(n *vh.Names, c *Case) string {
	switch c.Kind {
	case "index":
		runs := make([]string, len(c.Obs))
		for i, r := range c.Obs {
			r := r
			runs[i] = resTerm(r, func() string { return strList(n, r.Strs) })
		}
		return fmt.Sprintf("CIndex %s %s %s", vh.Bool(c.Prefix), pathTerm(n, c.P), vh.List(runs))
	case "complete", "join":
		r := c.Obs[0]
		ctor := "CComplete"
		if c.Kind == "join" {
			ctor = "CJoin"
		}
		return fmt.Sprintf("%s %s %s %s", ctor, pathTerm(n, c.Pre), pathTerm(n, c.P), resTerm(r, func() string { return strList(n, r.Strs) }))
	case "query":
		r := c.Obs[0]
		return fmt.Sprintf("CQuery %s %s", strList(n, c.Q), resTerm(r, func() string {
			return fmt.Sprintf("(%s, %s, %s)", elemsTerm(n, r.Elems), strList(n, r.Elemnt), strList(n, r.Strs))
		}))
	case "fromto":
		r1, r2 := c.Obs[0], c.Obs[1]
		return fmt.Sprintf("CFromTo %s %s %s %s", scTerm(n, c.X), strList(n, c.JSON),
			resTerm(r1, func() string { return tvTerm(n, r1.TV) }),
			resTerm(r2, func() string { return scTerm(n, r2.Sc) }))
	case "toscalar":
		r := c.Obs[0]
		return fmt.Sprintf("CToScalar %s %s %s", tvTerm(n, c.T), strList(n, c.JSON), resTerm(r, func() string { return scTerm(n, r.Sc) }))
	case "equal":
		r1, r2 := c.Obs[0], c.Obs[1]
		return fmt.Sprintf("CEqual %s %s %s %s", tvTerm(n, c.A), tvTerm(n, c.B),
			resTerm(r1, func() string { return vh.Bool(r1.Bool) }), resTerm(r2, func() string { return vh.Bool(r2.Bool) }))
	}
	panic("caseTerm " + c.Kind)
}

// ---------------------------------------------------------------------------
// Generators

var names = []BS{"a", "b", "", "*", "a/b", "é", "interfaces", "c", " a", "a ", "A", "a,b", "a[b=c]", "a:b", "..", "a\\/b"}
var keyNames = []BS{"a", "b", "B", "aa", "", "é", "10", "9", "name", "z", " a", "a ", "a/b", "*"}
var keyVals = []BS{"z", "y", "x", "", "1", "*", "a/b", "é", "m", " z", "Z", "z "}
var targets = []BS{"", "dev1", "*", "o", "a"}
var origins = []BS{"", "openconfig", "o", "dev1", "*", "a"}

func randElem(r *vh.Rand, maxKeys int) ElemJ {
	if r.Chance(1, 25) {
		return ElemJ{Nil: true}
	}
	e := ElemJ{Name: names[r.Pick(6, 5, 1, 2, 2, 2, 2, 3, 1, 1, 1, 1, 1, 1, 1, 1)]}
	nk := r.Pick(4, 3, 4, 3, 1)
	if nk > maxKeys {
		nk = maxKeys
	}
	perm := make([]int, len(keyNames))
	for i := range perm {
		perm[i] = i
	}
	for i := len(perm) - 1; i > 0; i-- {
		j := r.Intn(i + 1)
		perm[i], perm[j] = perm[j], perm[i]
	}
	for i := 0; i < nk; i++ {
		e.Keys = append(e.Keys, [2]BS{keyNames[perm[i]], keyVals[r.Intn(len(keyVals))]})
	}
	return e
}

func randPath(r *vh.Rand) *PathJ {
	switch r.Pick(1, 12, 3) {
	case 0:
		return &PathJ{Nil: true}
	case 2: // deprecated element form
		p := &PathJ{Target: targets[r.Pick(6, 6, 2, 2, 1)], Origin: origins[r.Pick(6, 4, 4, 2, 1, 1)]}
		n := r.Intn(4)
		for i := 0; i < n; i++ {
			p.Element = append(p.Element, names[r.Intn(len(names))])
		}
		return p
	}
	p := &PathJ{Target: targets[r.Pick(6, 6, 2, 2, 1)], Origin: origins[r.Pick(6, 4, 4, 2, 1, 1)]}
	n := r.Pick(2, 4, 4, 3, 1)
	for i := 0; i < n; i++ {
		p.Elems = append(p.Elems, randElem(r, 4))
	}
	if r.Chance(1, 5) { // both forms present: elem wins when non-empty
		p.Element = append(p.Element, "old", "form")
	}
	return p
}

// longPath has n elements of which every third carries nk keys (key names
// k00..; values in reverse order so that value order differs from key order).
func longPath(n, nk int, elementForm bool) *PathJ {
	p := &PathJ{Target: "dev1", Origin: "oc"}
	for i := 0; i < n; i++ {
		if elementForm {
			p.Element = append(p.Element, BS(fmt.Sprintf("e%d", i)))
			continue
		}
		e := ElemJ{Name: BS(fmt.Sprintf("e%d", i))}
		if i%3 == 0 {
			for k := 0; k < nk; k++ {
				e.Keys = append(e.Keys, [2]BS{BS(fmt.Sprintf("k%02d", (k*7)%nk)), BS(fmt.Sprintf("v%02d", nk-(k*7)%nk))})
			}
		}
		p.Elems = append(p.Elems, e)
	}
	return p
}

// neighbour returns p with one spot changed (so that a result memoised under
// an incomplete key is served for the wrong path).
func neighbour(r *vh.Rand, p *PathJ) *PathJ {
	b, _ := json.Marshal(p)
	var q PathJ
	json.Unmarshal(b, &q)
	switch r.Intn(6) {
	case 0:
		q.Target += "x"
	case 1:
		q.Origin += "x"
	case 2:
		if len(q.Elems) > 0 {
			i := r.Intn(len(q.Elems))
			q.Elems[i].Name += "x"
		} else {
			q.Element = append(q.Element, "x")
		}
	case 3, 4:
		for try := 0; try < 4; try++ {
			if len(q.Elems) == 0 {
				break
			}
			i := r.Intn(len(q.Elems))
			if len(q.Elems[i].Keys) > 0 {
				j := r.Intn(len(q.Elems[i].Keys))
				if r.Chance(1, 2) {
					q.Elems[i].Keys[j][1] += "x"
				} else {
					q.Elems[i].Keys[j][0] += "~"
				}
				break
			}
		}
	default:
		if len(q.Elems) > 1 {
			q.Elems[0], q.Elems[len(q.Elems)-1] = q.Elems[len(q.Elems)-1], q.Elems[0]
		}
	}
	return &q
}

// smallPaths enumerates a fixed family of paths for the origin / prefix
// combinations of CompletePath and joinPrefixAndPath.
func smallPaths() []*PathJ {
	var out []*PathJ
	out = append(out, nil, &PathJ{Nil: true})
	shapes := []func() *PathJ{
		func() *PathJ { return &PathJ{} },
		func() *PathJ { return &PathJ{Elems: []ElemJ{{Name: "a"}}} },
		func() *PathJ {
			return &PathJ{Elems: []ElemJ{{Name: "a", Keys: [][2]BS{{"k2", "v1"}, {"k1", "v2"}}}, {Name: "b"}}}
		},
		func() *PathJ { return &PathJ{Element: []BS{"x", "y"}} },
		func() *PathJ { return &PathJ{Elems: []ElemJ{{Name: ""}}} },
	}
	for _, t := range []BS{"", "dev1"} {
		for _, o := range []BS{"", "oc"} {
			for _, sh := range shapes {
				p := sh()
				p.Target, p.Origin = t, o
				out = append(out, p)
			}
		}
	}
	return out
}

var plainElems = []BS{"a", "b", "a/b", "/", "a/", "/a", "é", "x=y", "*", "...", "interfaces", "a//b", "=", "日本"}
var oddElems = []BS{"", "a\\", "a[x=1]", "a[x=1][y=2]", "a[y=2][x=\\]]", "a b", "[", "]", "a[", "a]", "\\", "\\\\", "a[x=1]b", "a[x=]",
	"a[=1]", "[x=1]", "a[x y=1]", "a[x=1][x=2]", "\xff", "a\xc3", "a[x=1/2]", "a\\[x", "a[x=a=b]", "a[x=\\=]", " ",
	"\xe0\xa0", "a\xffb/c", "\xed\xa0\x80", "\xf0\x9f\x98", "\xc3\x28", "a[k=\xff]", "a[\xff=1]", "\xff/", "\xc3/", "/\xe2\x82"}

func randQuery(r *vh.Rand, odd bool) []BS {
	n := r.Pick(1, 4, 5, 4, 2)
	q := make([]BS, 0, n)
	for i := 0; i < n; i++ {
		if odd && r.Chance(2, 5) {
			q = append(q, oddElems[r.Intn(len(oddElems))])
		} else {
			q = append(q, plainElems[r.Intn(len(plainElems))])
		}
	}
	return q
}

// utf8Alphabet: the bytes at which utf8.ValidString changes its mind.
var utf8Alphabet = []byte{0x2f, 0x41, 0x7f, 0x80, 0x8f, 0x90, 0x9f, 0xa0, 0xbf, 0xc0, 0xc1, 0xc2, 0xdf, 0xe0, 0xe1, 0xed, 0xee, 0xef, 0xf0, 0xf1, 0xf4, 0xf5, 0xff}

func utf8Strings(n int) []BS {
	var out []BS
	var rec func(prefix []byte, k int)
	rec = func(prefix []byte, k int) {
		if k == 0 {
			out = append(out, BS(prefix))
			return
		}
		for _, b := range utf8Alphabet {
			rec(append(append([]byte{}, prefix...), b), k-1)
		}
	}
	for k := 1; k <= n; k++ {
		rec(nil, k)
	}
	return out
}

func randUTF8ish(r *vh.Rand) BS {
	n := 1 + r.Intn(6)
	b := make([]byte, n)
	for i := range b {
		b[i] = utf8Alphabet[r.Intn(len(utf8Alphabet))]
	}
	return BS(b)
}

func f64(x float64) uint64 { return math.Float64bits(x) }
func f32(x float32) uint64 { return uint64(math.Float32bits(x)) }

// tvBasis: every oneof arm, nil, unset, nil inner messages, NaN (two
// payloads), +0, -0, infinities, boundary integers, equal-looking values in
// different arms.
func tvBasis() []TVJ {
	return []TVJ{
		{K: "nil"}, {K: "unset"},
		{K: "string", S: "a"}, {K: "string", S: ""}, {K: "string", S: "b"}, {K: "string", S: "A"}, {K: "string", S: "a "}, {K: "string", S: "é"}, {K: "string", S: "e\u0301"},
		{K: "leaflist", L: []TVJ{{K: "string", S: "a"}, {K: "string", S: "a"}, {K: "string", S: "b"}}}, {K: "leaflist", L: []TVJ{{K: "string", S: "a"}, {K: "string", S: "b"}, {K: "string", S: "b"}}},
		{K: "leaflist", L: []TVJ{{K: "string", S: "b"}, {K: "string", S: "a"}, {K: "string", S: "a"}}},
		{K: "int", I: 0}, {K: "int", I: 1}, {K: "int", I: -1}, {K: "int", I: math.MinInt64},
		{K: "uint", U: 0}, {K: "uint", U: 1}, {K: "uint", U: math.MaxUint64},
		{K: "bool", B: true}, {K: "bool", B: false},
		{K: "bytes", S: "a"}, {K: "bytes", S: ""}, {K: "bytes", NilBuf: true}, {K: "bytes", S: "A"},
		{K: "float", Bits: f32(1)}, {K: "float", Bits: f32(0)}, {K: "float", Bits: 0x80000000}, {K: "float", Bits: 0x7fc00000}, {K: "float", Bits: f32(1.5)},
		{K: "float", Bits: 1}, {K: "float", Bits: 2}, {K: "float", Bits: f32(1) + 1}, {K: "float", Bits: 0x7f800000}, {K: "float", Bits: 0xffc00001},
		{K: "double", Bits: f64(1)}, {K: "double", Bits: f64(0)}, {K: "double", Bits: 0x8000000000000000}, {K: "double", Bits: 0x7ff8000000000001},
		{K: "double", Bits: 0x7ff8000000000002}, {K: "double", Bits: f64(math.Inf(1))}, {K: "double", Bits: f64(1.5)},
		{K: "double", Bits: 1}, {K: "double", Bits: 2}, {K: "double", Bits: f64(1) + 1}, {K: "double", Bits: f64(math.Inf(-1))},
		{K: "decimal", I: 0, Prec: 0}, {K: "decimal", I: 15, Prec: 1}, {K: "decimal", I: 15, Prec: 2}, {K: "decimal", I: 150, Prec: 2}, {K: "decimalnil"},
		{K: "decimal", I: -15, Prec: 1}, {K: "decimal", I: math.MaxInt64, Prec: 0}, {K: "decimal", I: math.MinInt64, Prec: 18}, {K: "decimal", I: 1 << 32, Prec: 3},
		{K: "decimal", I: 1, Prec: 45}, {K: "decimal", I: 1<<53 + 1, Prec: 7}, {K: "decimal", I: 7, Prec: 127}, {K: "decimal", I: 7, Prec: 128}, {K: "decimal", I: 7, Prec: 255},
		{K: "decimal", I: 7, Prec: 256}, {K: "decimal", I: -7, Prec: 330}, {K: "decimal", I: 7, Prec: math.MaxUint32}, {K: "decimal", I: 7, Prec: 1 << 31}, {K: "decimal", I: 1<<31 - 1, Prec: 9}, {K: "decimal", I: -(1 << 31), Prec: 9},
		{K: "int", I: math.MaxInt64}, {K: "int", I: 1 << 32}, {K: "int", I: 1 << 31}, {K: "int", I: -(1 << 32)}, {K: "uint", U: 1 << 32}, {K: "uint", U: 1 << 63}, {K: "uint", U: 1<<64 - 2},
		{K: "leaflist"}, {K: "leaflistnil"},
		{K: "leaflist", L: []TVJ{{K: "string", S: "a"}}},
		{K: "leaflist", L: []TVJ{{K: "string", S: "a"}, {K: "int", I: 1}}},
		{K: "leaflist", L: []TVJ{{K: "string", S: "a"}, {K: "int", I: 2}}},
		{K: "leaflist", L: []TVJ{{K: "double", Bits: f64(1)}}},
		{K: "leaflist", L: []TVJ{{K: "nil"}}},
		{K: "leaflist", L: []TVJ{{K: "double", Bits: 0x7ff8000000000001}}},
		{K: "leaflist", L: []TVJ{{K: "leaflist", L: []TVJ{{K: "uint", U: 1}}}}},
		{K: "leaflist", L: []TVJ{{K: "leaflistnil"}}},
		{K: "any"}, {K: "json", S: `{"a":1}`}, {K: "json", S: `{`}, {K: "jsonietf", S: `[1,2]`}, {K: "jsonietf", S: `"x"`}, {K: "jsonietf", S: ``},
		{K: "ascii", S: "a"}, {K: "protobytes", S: "a"},
	}
}

func randTV(r *vh.Rand, depth int) TVJ {
	b := tvBasis()
	if depth > 0 && r.Chance(1, 3) {
		n := r.Intn(4)
		out := TVJ{K: "leaflist"}
		for i := 0; i < n; i++ {
			out.L = append(out.L, randTV(r, depth-1))
		}
		return out
	}
	t := b[r.Intn(len(b))]
	switch t.K {
	case "int":
		if r.Chance(1, 2) {
			t.I = int64(r.Intn(5)) - 2
		}
	case "uint":
		if r.Chance(1, 2) {
			t.U = uint64(r.Intn(4))
		}
	case "double":
		switch r.Pick(4, 1, 1) {
		case 1:
			t.Bits = r.U64()
		case 2:
			t.Bits = r.U64() & 0x800000000000000f // tiny sub-normals and zeros
		}
	case "float":
		switch r.Pick(4, 1, 1) {
		case 1:
			t.Bits = r.U64() & 0xffffffff
		case 2:
			t.Bits = r.U64() & 0x8000000f
		}
	case "decimal":
		switch r.Pick(2, 2, 2, 1) {
		case 1:
			t.I, t.Prec = int64(r.Intn(4)), uint32(r.Intn(3))
		case 2:
			t.I, t.Prec = int64(r.U64()), uint32(r.Intn(60))
		case 3:
			t.I, t.Prec = int64(r.U64()>>uint(r.Intn(64))), uint32(r.U64()>>uint(r.Intn(32)))
		}
	}
	return t
}

// nearMiss returns a value in the same oneof arm differing from t in one
// field by the smallest possible amount (one ulp, one unit, one byte).
func nearMiss(r *vh.Rand, t TVJ) TVJ {
	switch t.K {
	case "string", "bytes", "json", "jsonietf", "ascii", "protobytes":
		switch {
		case len(t.S) > 0 && r.Chance(1, 4):
			t.S = t.S[:len(t.S)-1]
		case len(t.S) > 0 && r.Chance(1, 3): // flip the case bit of one byte
			b := []byte(t.S)
			b[r.Intn(len(b))] ^= 0x20
			t.S = BS(b)
		case r.Chance(1, 3):
			t.S = " " + t.S
		case r.Chance(1, 2):
			t.S += " "
		default:
			t.S += "a"
		}
		t.NilBuf = false
	case "int":
		switch r.Intn(5) {
		case 0:
			t.I += 1 << 32
		case 1:
			t.I ^= math.MinInt64
		case 2:
			t.I += 1 << 53
		default:
			t.I += int64(r.Intn(2))*2 - 1
		}
	case "uint":
		switch r.Intn(5) {
		case 0:
			t.U += 1 << 32
		case 1:
			t.U ^= 1 << 63
		case 2:
			t.U += 1 << 53
		default:
			t.U += uint64(r.Intn(2))*2 - 1
		}
	case "bool":
		t.B = !t.B
	case "float":
		switch r.Intn(3) {
		case 0:
			t.Bits = (t.Bits + 1) & 0xffffffff
		case 1:
			t.Bits = (t.Bits - 1) & 0xffffffff
		default:
			t.Bits ^= 0x80000000
		}
	case "double":
		switch r.Intn(3) {
		case 0:
			t.Bits++
		case 1:
			t.Bits--
		default:
			t.Bits ^= 0x8000000000000000
		}
	case "decimal":
		switch r.Intn(6) {
		case 4:
			t.I += 1 << 32
		case 5:
			t.Prec += 1 << (8 * uint(1+r.Intn(3)))
		case 0:
			t.I++
		case 1:
			t.Prec++
		case 2:
			if t.Prec > 0 {
				t.Prec--
			} else {
				t.I--
			}
		default: // numerically equal, different representation
			t.I *= 10
			t.Prec++
		}
	}
	return t
}

// mutateTV returns a value equal to t or differing in one place (so that
// Equal sees near misses deep inside leaf-lists).
func mutateTV(r *vh.Rand, t TVJ) TVJ {
	if t.K == "leaflist" && len(t.L) > 0 && r.Chance(3, 4) {
		out := TVJ{K: "leaflist", L: append([]TVJ{}, t.L...)}
		switch r.Pick(5, 1, 1, 1, 1) {
		case 4: // same set of elements, different multiplicities
			i, j := r.Intn(len(out.L)), r.Intn(len(out.L))
			out.L[i] = out.L[j]
		case 0:
			i := r.Intn(len(out.L))
			out.L[i] = mutateTV(r, out.L[i])
		case 1:
			out.L = out.L[:len(out.L)-1]
		case 2:
			out.L = append(out.L, randTV(r, 0))
		case 3:
			i, j := r.Intn(len(out.L)), r.Intn(len(out.L))
			out.L[i], out.L[j] = out.L[j], out.L[i]
		}
		return out
	}
	switch r.Pick(3, 5, 2) {
	case 0:
		return t
	case 1:
		return nearMiss(r, t)
	}
	return randTV(r, 1)
}

func scalarBasis() []ScalarJ {
	return []ScalarJ{
		{K: "string", S: "a"}, {K: "string", S: ""}, {K: "string", S: "é/日本"}, {K: "string", S: "\xff"}, {K: "string", S: "a\xc3"},
		{K: "string", S: "\xed\xa0\x80"}, {K: "string", S: "\xf4\x90\x80\x80"}, {K: "string", S: "\xc0\xaf"}, {K: "string", S: "\xf0\x9f\x98\x80"},
		{K: "string", S: "\xe0\x9f\xbf"}, {K: "string", S: "\xef\xbf\xbd"}, {K: "string", S: "\xf4\x8f\xbf\xbf"},
		{K: "int", I: -5}, {K: "int", I: math.MaxInt64}, {K: "int8", I: -128}, {K: "int8", I: 127}, {K: "int8", I: -1}, {K: "int16", I: -1}, {K: "int32", I: -1}, {K: "int16", I: 32767}, {K: "int32", I: math.MaxInt32}, {K: "int16", I: -32768}, {K: "int32", I: math.MinInt32},
		{K: "int64", I: math.MinInt64}, {K: "int64", I: 0}, {K: "int", I: 1 << 31}, {K: "int", I: 1 << 32}, {K: "int", I: math.MinInt64}, {K: "int64", I: 1<<53 + 1}, {K: "int16", I: -32768}, {K: "int32", I: -1 << 31},
		{K: "uint", U: 1 << 31}, {K: "uint", U: 1 << 32}, {K: "uint", U: 1 << 63}, {K: "uint32", U: 1 << 31}, {K: "uint16", U: 1 << 15}, {K: "uint8", U: 128}, {K: "uint64", U: 1 << 63}, {K: "uint64", U: 1<<53 + 1},
		{K: "uint", U: math.MaxUint64}, {K: "uint8", U: 255}, {K: "uint16", U: 65535}, {K: "uint32", U: math.MaxUint32}, {K: "uint64", U: math.MaxUint64}, {K: "uint64", U: 0},
		{K: "float32", Bits: f32(1.5)}, {K: "float32", Bits: f32(0.1)}, {K: "float32", Bits: 0}, {K: "float32", Bits: 0x80000000}, {K: "float32", Bits: 1},
		{K: "float32", Bits: 0x007fffff}, {K: "float32", Bits: 0x00800000}, {K: "float32", Bits: 0x7f7fffff}, {K: "float32", Bits: 0x7f800000}, {K: "float32", Bits: 0xff800000},
		{K: "float32", Bits: 0x7fc00000}, {K: "float32", Bits: 0x7f800001}, {K: "float32", Bits: 0x80000400}, {K: "float32", Bits: 0x00000003},
		{K: "float64", Bits: f64(0.1)}, {K: "float64", Bits: 0x8000000000000000}, {K: "float64", Bits: 0x7ff8000000000001}, {K: "float64", Bits: 1},
		{K: "bool", B: true}, {K: "bool", B: false},
		{K: "strings"}, {K: "strings", SS: []BS{"a", "b"}}, {K: "strings", SS: []BS{"\xff"}},
		{K: "bytes", S: "\x00\xff"}, {K: "bytes", S: ""},
		{K: "list"}, {K: "list", L: []ScalarJ{{K: "string", S: "a"}, {K: "int8", I: 3}, {K: "float32", Bits: f32(2.5)}}},
		{K: "list", L: []ScalarJ{{K: "string", S: "\xff"}}}, {K: "list", L: []ScalarJ{{K: "other", What: "nil"}}},
		{K: "list", L: []ScalarJ{{K: "list", L: []ScalarJ{{K: "uint16", U: 7}, {K: "strings", SS: []BS{"q"}}}}}},
		{K: "list", L: []ScalarJ{{K: "int", I: 1}, {K: "list", L: []ScalarJ{{K: "string", S: "a\xc3"}}}}},
		{K: "other", What: "nil"}, {K: "other", What: "struct"}, {K: "other", What: "map"}, {K: "other", What: "ptr"},
	}
}

func randScalar(r *vh.Rand, depth int) ScalarJ {
	b := scalarBasis()
	if depth > 0 && r.Chance(1, 3) {
		n := r.Intn(4)
		out := ScalarJ{K: "list"}
		for i := 0; i < n; i++ {
			out.L = append(out.L, randScalar(r, depth-1))
		}
		return out
	}
	x := b[r.Intn(len(b))]
	switch x.K {
	case "float32":
		if r.Chance(1, 2) {
			x.Bits = r.U64() & 0xffffffff
			if r.Chance(1, 4) { // sub-normal
				x.Bits &= 0x807fffff
			}
		}
	case "float64":
		if r.Chance(1, 2) {
			x.Bits = r.U64()
		}
	case "int64", "int":
		if r.Chance(1, 2) {
			x.I = int64(r.U64())
		}
	case "int8":
		x.I = int64(int8(r.U64()))
	case "int16":
		x.I = int64(int16(r.U64()))
	case "int32":
		x.I = int64(int32(r.U64()))
	case "uint64", "uint":
		if r.Chance(1, 2) {
			x.U = r.U64()
		}
	case "uint8":
		x.U = uint64(uint8(r.U64()))
	case "uint16":
		x.U = uint64(uint16(r.U64()))
	case "uint32":
		x.U = uint64(uint32(r.U64()))
	}
	return x
}

// ---------------------------------------------------------------------------

type emitter struct {
	dir   string
	shard int
	cf    *vh.CaseFile
	meta  *vh.Meta
	limit int
	rnd   *vh.Rand
	fixed bool // replay: keep the representation recorded in the case
}

func nontrivial(c *Case) bool {
	switch c.Kind {
	case "index":
		if c.P == nil || c.P.Nil {
			return false
		}
		for _, e := range c.P.Elems {
			if len(e.Keys) >= 2 {
				return true
			}
		}
		return false
	case "complete", "join":
		return c.Pre != nil && c.P != nil && !c.Pre.Nil && !c.P.Nil
	case "query":
		return len(c.Q) >= 2
	case "fromto":
		return c.Obs[0].R == "ok"
	case "toscalar":
		return c.T.K != "nil" && c.T.K != "unset"
	case "equal":
		return c.A.K == c.B.K
	}
	return false
}

func (e *emitter) add(c *Case) {
	if !e.fixed && c.Family != "corpus" {
		c.Rep = e.rnd.Intn(repAll + 1)
	}
	run(c, e.rnd)
	e.cf.Add(caseTerm(e.cf.Names, c), c)
	e.meta.Hist("kind:" + c.Kind)
	for _, r := range c.Obs {
		e.meta.Hist(c.Kind + ":" + r.R)
	}
	switch c.Kind {
	case "index":
		mk := 0
		if c.P != nil {
			for _, el := range c.P.Elems {
				if len(el.Keys) > mk {
					mk = len(el.Keys)
				}
			}
		}
		e.meta.Hist(fmt.Sprintf("index:maxkeys=%d", mk))
	case "equal":
		e.meta.Hist("equal:lhs=" + c.A.K)
		if c.Obs[0].R == "ok" && c.Obs[0].Bool {
			e.meta.Hist("equal:true")
		}
	case "query":
		if c.Obs[0].R == "ok" {
			same := len(c.Obs[0].Strs) == len(c.Q)
			for i := 0; same && i < len(c.Q); i++ {
				same = c.Obs[0].Strs[i] == c.Q[i]
			}
			if same {
				e.meta.Hist("query:arrives-unchanged")
			} else {
				e.meta.Hist("query:arrives-changed")
			}
		}
	}
	in := *c
	in.Obs = nil
	b, _ := json.Marshal(in)
	e.meta.Count(c.Family, string(b), nontrivial(c), c)
	if e.cf.Len() >= e.limit {
		e.flush()
	}
}

func (e *emitter) flush() {
	if e.cf.Len() == 0 {
		return
	}
	if err := e.cf.Write(e.dir, e.shard, "Path.PathModel Path.QueryString Value.ValueModel Path.C19Check", "case", "check_all"); err != nil {
		vh.Die("write: %v", err)
	}
	e.shard++
	e.cf = vh.NewCaseFile()
}

func readCases(file string) []Case {
	b, err := os.ReadFile(file)
	if err != nil {
		vh.Die("read %s: %v", file, err)
	}
	var cs []Case
	if err := json.Unmarshal(b, &cs); err != nil {
		var one Case
		if err2 := json.Unmarshal(b, &one); err2 != nil {
			vh.Die("%s unreadable: %v", file, err)
		}
		cs = []Case{one}
	}
	return cs
}

func main() {
	o := vh.ParseFlags()
	flag.Set("logtostderr", "true")
	flag.Set("stderrthreshold", "FATAL")
	meta := vh.NewMeta("corpus cases; index: every path of a fixed family and seeded random paths (0..4 elems, 0..4 keys, nil path / nil elem / deprecated element form, names incl. empty, '*', 'a/b', UTF-8), each indexed 20 times on freshly built key maps; complete/join: all pairs of a 22-path family (origins, targets, prefix shapes) plus random pairs; query: all sequences of length <=2 over 14 plain elements, random longer ones, and a malformed stream; fromto/toscalar: a fixed basis of Go scalars / TypedValues plus seeded random nested ones; equal: all ordered pairs of the TypedValue basis plus random near-miss pairs. distinct = distinct input; non-trivial = index: some element has >=2 keys; complete/join: both paths non-nil; query: >=2 elements; fromto: FromScalar succeeded; toscalar: value set; equal: both operands in the same oneof arm")
	e := &emitter{dir: o.Out, cf: vh.NewCaseFile(), meta: meta, limit: 500, rnd: vh.NewRand(o.Seed ^ 0x5eed)}

	if o.Replay != "" {
		e.fixed = true
		for _, c := range readCases(o.Replay) {
			c := c
			if c.Family == "" {
				c.Family = "replay"
			}
			e.add(&c)
		}
		e.flush()
		meta.Write(o.Out)
		return
	}

	if dir := os.Getenv("VERIF_CORPUS"); dir != "" {
		ents, _ := os.ReadDir(dir)
		for _, en := range ents {
			if !strings.HasSuffix(en.Name(), ".json") {
				continue
			}
			for _, c := range readCases(dir + "/" + en.Name()) {
				c := c
				c.Family = "corpus"
				e.add(&c)
			}
		}
	}

	r := vh.NewRand(o.Seed)
	scale := 1
	if o.Thorough() {
		scale = 12
	}

	// --- indexing
	for _, p := range smallPaths() {
		for _, pf := range []bool{false, true} {
			e.add(&Case{Family: "index-fixed", Kind: "index", Prefix: pf, P: p})
		}
	}
	for i := 0; i < 900*scale; i++ {
		e.add(&Case{Family: "index-random", Kind: "index", Prefix: r.Chance(1, 2), P: randPath(r)})
	}

	// sizes around the pre-allocated capacity (20) of the result, 0/1/25 keys, both path forms
	for _, n := range []int{1, 9, 10, 18, 19, 20, 21, 22, 25, 40} {
		for _, nk := range []int{0, 1, 2, 25} {
			for _, pf := range []bool{false, true} {
				e.add(&Case{Family: "index-long", Kind: "index", Prefix: pf, P: longPath(n, nk, false)})
			}
		}
		e.add(&Case{Family: "index-long", Kind: "index", Prefix: true, P: longPath(n, 0, true)})
	}
	// one long-lived object refilled in place; consecutive paths differ in one spot
	for i := 0; i < 150*scale; i++ {
		p := randPath(r)
		pf := r.Chance(1, 2)
		e.add(&Case{Family: "index-reuse", Kind: "index", Prefix: pf, P: p, Reuse: true})
		if !p.Nil {
			q := neighbour(r, p)
			e.add(&Case{Family: "index-reuse", Kind: "index", Prefix: pf, P: q, Reuse: true})
			e.add(&Case{Family: "index-reuse", Kind: "index", Prefix: !pf, P: q, Reuse: true})
			e.add(&Case{Family: "index-neighbour", Kind: "index", Prefix: pf, P: p})
			e.add(&Case{Family: "index-neighbour", Kind: "index", Prefix: pf, P: neighbour(r, p)})
		}
	}
	for _, n := range []int{19, 20, 21, 25} {
		a, b := longPath(n, 2, false), longPath(3, 25, false)
		e.add(&Case{Family: "complete-long", Kind: "complete", Pre: a, P: &PathJ{Elems: b.Elems}})
		e.add(&Case{Family: "complete-long", Kind: "complete", Pre: &PathJ{Target: "t", Elems: b.Elems}, P: &PathJ{Elems: a.Elems}})
		e.add(&Case{Family: "join-long", Kind: "join", Pre: a, P: &PathJ{Elems: b.Elems}})
		e.add(&Case{Family: "join-long", Kind: "join", Pre: &PathJ{Target: "t", Elems: b.Elems}, P: &PathJ{Elems: a.Elems}})
	}

	// the same string in two roles: origin of one path = target / origin / element name of the other
	for _, x := range []BS{"dev1", "oc", "a", "*"} {
		shapes := []*PathJ{{}, {Elems: []ElemJ{{Name: "a"}}}, {Elems: []ElemJ{{Name: x}}}, {Element: []BS{x}}}
		for _, sa := range shapes {
			for _, sb := range shapes {
				for _, ro := range [][4]BS{{x, "", "", x}, {x, x, "", ""}, {x, "", x, x}, {"", x, x, ""}, {"", "", x, x}, {x, "oc", x, ""}} {
					a, b := *sa, *sb
					a.Target, a.Origin, b.Target, b.Origin = ro[0], ro[1], ro[2], ro[3]
					e.add(&Case{Family: "complete-roles", Kind: "complete", Pre: &a, P: &b})
					e.add(&Case{Family: "join-roles", Kind: "join", Pre: &a, P: &b})
				}
			}
		}
		e.add(&Case{Family: "index-roles", Kind: "index", Prefix: true, P: &PathJ{Target: x, Origin: x, Elems: []ElemJ{{Name: x, Keys: [][2]BS{{x, x}}}}}})
		e.add(&Case{Family: "index-roles", Kind: "index", Prefix: false, P: &PathJ{Target: x, Origin: x, Elems: []ElemJ{{Name: x, Keys: [][2]BS{{x, x}, {"k", x}}}}}})
	}

	// --- CompletePath / joinPrefixAndPath
	sp := smallPaths()
	for _, a := range sp {
		for _, b := range sp {
			e.add(&Case{Family: "complete-pairs", Kind: "complete", Pre: a, P: b})
			e.add(&Case{Family: "join-pairs", Kind: "join", Pre: a, P: b})
		}
	}
	for i := 0; i < 300*scale; i++ {
		a, b := randPath(r), randPath(r)
		e.add(&Case{Family: "complete-random", Kind: "complete", Pre: a, P: b})
		e.add(&Case{Family: "join-random", Kind: "join", Pre: a, P: b})
	}

	// --- client queries
	e.add(&Case{Family: "query-plain", Kind: "query", Q: []BS{}})
	for _, a := range plainElems {
		e.add(&Case{Family: "query-plain", Kind: "query", Q: []BS{a}})
		for _, b := range plainElems {
			e.add(&Case{Family: "query-plain", Kind: "query", Q: []BS{a, b}})
		}
	}
	for i := 0; i < 300*scale; i++ {
		e.add(&Case{Family: "query-plain", Kind: "query", Q: randQuery(r, false)})
	}
	for i := 0; i < 100*scale; i++ {
		n := 2 + r.Intn(3)
		var group [][]BS
		for k := 0; k < n; k++ {
			group = append(group, randQuery(r, i%4 == 3))
		}
		if r.Chance(1, 3) { // the same query twice in one request
			group = append(group, group[0])
		}
		for k := range group {
			e.add(&Case{Family: "query-group", Kind: "query", Q: group[k], Group: group, GI: k})
		}
	}
	for _, n := range []int{19, 20, 21, 31, 32, 33, 40, 64, 65} {
		var q []BS
		for i := 0; i < n; i++ {
			q = append(q, plainElems[i%len(plainElems)])
		}
		q = append(q, "tail/with/slashes", "end")
		e.add(&Case{Family: "query-long", Kind: "query", Q: q})
		e.add(&Case{Family: "query-long", Kind: "query", Q: []BS{BS(strings.Repeat("ab/é", n*10)), "x"}})
	}
	for _, a := range oddElems {
		e.add(&Case{Family: "query-malformed", Kind: "query", Q: []BS{a}})
		e.add(&Case{Family: "query-malformed", Kind: "query", Q: []BS{"x", a}})
		e.add(&Case{Family: "query-malformed", Kind: "query", Q: []BS{a, "y"}})
		e.add(&Case{Family: "query-malformed", Kind: "query", Q: []BS{"x", a, "y"}})
	}
	for i := 0; i < 300*scale; i++ {
		e.add(&Case{Family: "query-malformed", Kind: "query", Q: randQuery(r, true)})
	}

	// --- UTF-8: validity (FromScalar) and rune re-encoding (query) at the byte boundaries
	depth := 2
	if o.Thorough() {
		depth = 3
	}
	for _, us := range utf8Strings(depth) {
		x := ScalarJ{K: "string", S: us}
		e.add(&Case{Family: "utf8-exhaustive", Kind: "fromto", X: &x})
	}
	for i := 0; i < 500*scale; i++ {
		us := randUTF8ish(r)
		x := ScalarJ{K: "string", S: us}
		e.add(&Case{Family: "utf8-random", Kind: "fromto", X: &x})
		e.add(&Case{Family: "utf8-random", Kind: "query", Q: []BS{"x", us}})
	}

	// --- scalars
	for _, x := range scalarBasis() {
		x := x
		e.add(&Case{Family: "fromto-basis", Kind: "fromto", X: &x})
	}
	for i := 0; i < 400*scale; i++ {
		x := randScalar(r, 2)
		e.add(&Case{Family: "fromto-random", Kind: "fromto", X: &x})
	}
	for _, t := range tvBasis() {
		t := t
		e.add(&Case{Family: "toscalar-basis", Kind: "toscalar", T: &t})
	}
	for i := 0; i < 300*scale; i++ {
		t := randTV(r, 2)
		e.add(&Case{Family: "toscalar-random", Kind: "toscalar", T: &t})
	}

	// --- Equal: all ordered pairs of the basis
	basis := tvBasis()
	for i := range basis {
		for j := range basis {
			a, b := basis[i], basis[j]
			e.add(&Case{Family: "equal-pairs", Kind: "equal", A: &a, B: &b})
		}
	}
	// Equal(a, a) on ONE pointer (a pointer-equality fast path would answer true for NaN and the unhandled arms)
	for i := range basis {
		a := basis[i]
		e.add(&Case{Family: "equal-sameptr", Kind: "equal", A: &a, B: &a, SamePtr: true})
	}
	// sizes: long leaf-lists differing only at the far end, deep nesting, long strings
	for _, n := range []int{15, 16, 17, 31, 32, 33, 64, 65, 100, 257} {
		mk := func(last int64) TVJ {
			t := TVJ{K: "leaflist"}
			for i := 0; i < n; i++ {
				t.L = append(t.L, TVJ{K: "int", I: int64(i)})
			}
			t.L[n-1].I = last
			return t
		}
		a, b, c2 := mk(1), mk(2), mk(1)
		e.add(&Case{Family: "equal-size", Kind: "equal", A: &a, B: &b})
		e.add(&Case{Family: "equal-size", Kind: "equal", A: &a, B: &c2})
		e.add(&Case{Family: "toscalar-size", Kind: "toscalar", T: &a})
		sa, sb := TVJ{K: "string", S: BS(strings.Repeat("x", n) + "a")}, TVJ{K: "string", S: BS(strings.Repeat("x", n) + "b")}
		ba, bb := TVJ{K: "bytes", S: sa.S}, TVJ{K: "bytes", S: sb.S}
		e.add(&Case{Family: "equal-size", Kind: "equal", A: &sa, B: &sb})
		e.add(&Case{Family: "equal-size", Kind: "equal", A: &ba, B: &bb})
		xs := ScalarJ{K: "string", S: BS(strings.Repeat("é", n) + "\xff")}
		xl := ScalarJ{K: "list"}
		xss := ScalarJ{K: "strings"}
		for i := 0; i < n; i++ {
			xl.L = append(xl.L, ScalarJ{K: "int8", I: int64(int8(i))})
			xss.SS = append(xss.SS, BS(fmt.Sprint(i)))
		}
		xl2 := xl
		xl2.L = append(append([]ScalarJ{}, xl.L...), ScalarJ{K: "string", S: "\xff"})
		e.add(&Case{Family: "fromto-size", Kind: "fromto", X: &xs})
		e.add(&Case{Family: "fromto-size", Kind: "fromto", X: &xl})
		e.add(&Case{Family: "fromto-size", Kind: "fromto", X: &xl2})
		e.add(&Case{Family: "fromto-size", Kind: "fromto", X: &xss})
	}
	for _, depth := range []int{3, 6, 12} {
		mk := func(leaf TVJ) TVJ {
			t := leaf
			for i := 0; i < depth; i++ {
				t = TVJ{K: "leaflist", L: []TVJ{{K: "uint", U: uint64(i)}, t}}
			}
			return t
		}
		a, b := mk(TVJ{K: "double", Bits: f64(1)}), mk(TVJ{K: "double", Bits: f64(1) + 1})
		c2 := mk(TVJ{K: "double", Bits: f64(1)})
		e.add(&Case{Family: "equal-size", Kind: "equal", A: &a, B: &b})
		e.add(&Case{Family: "equal-size", Kind: "equal", A: &a, B: &c2})
		e.add(&Case{Family: "toscalar-size", Kind: "toscalar", T: &a})
		x := ScalarJ{K: "float32", Bits: 1}
		for i := 0; i < depth; i++ {
			x = ScalarJ{K: "list", L: []ScalarJ{{K: "int16", I: int64(-i)}, x}}
		}
		e.add(&Case{Family: "fromto-size", Kind: "fromto", X: &x})
	}

	// look-alikes across arms: the same number / the same bytes in every arm that can hold them
	for _, v := range []int64{0, 1, 2} {
		var fam []TVJ
		fam = append(fam, TVJ{K: "int", I: v}, TVJ{K: "uint", U: uint64(v)}, TVJ{K: "float", Bits: f32(float32(v))},
			TVJ{K: "double", Bits: f64(float64(v))}, TVJ{K: "decimal", I: v}, TVJ{K: "decimal", I: v * 10, Prec: 1},
			TVJ{K: "bool", B: v != 0}, TVJ{K: "string", S: BS(fmt.Sprint(v))}, TVJ{K: "bytes", S: BS(fmt.Sprint(v))},
			TVJ{K: "leaflist", L: []TVJ{{K: "int", I: v}}}, TVJ{K: "leaflist", L: []TVJ{{K: "uint", U: uint64(v)}}})
		for i := range fam {
			for j := range fam {
				a, b := fam[i], fam[j]
				e.add(&Case{Family: "equal-lookalike", Kind: "equal", A: &a, B: &b})
			}
		}
	}
	for _, sv := range []BS{"", "a", `"x"`} {
		var fam []TVJ
		for _, k := range []string{"string", "bytes", "ascii", "json", "jsonietf", "protobytes"} {
			fam = append(fam, TVJ{K: k, S: sv})
		}
		fam = append(fam, TVJ{K: "leaflist", L: []TVJ{{K: "string", S: sv}}}, TVJ{K: "leaflist", L: []TVJ{{K: "bytes", S: sv}}})
		for i := range fam {
			for j := range fam {
				a, b := fam[i], fam[j]
				e.add(&Case{Family: "equal-lookalike", Kind: "equal", A: &a, B: &b})
			}
		}
	}
	for i := 0; i < 1500*scale; i++ {
		a := randTV(r, 2)
		b := mutateTV(r, a)
		e.add(&Case{Family: "equal-random", Kind: "equal", A: &a, B: &b})
	}

	e.flush()
	meta.Extra["index_runs_per_path"] = indexRuns
	meta.Extra["equal_basis_size"] = len(basis)
	if err := meta.Write(o.Out); err != nil {
		vh.Die("meta: %v", err)
	}
}

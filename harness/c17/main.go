// Harness for C17: drives the real target.Config (NewConfig /
// NewConfigWithBase, Load, Current, Handler callbacks) with histories of
// configuration loads and writes, per case, the inputs and the projected
// observations as Gallina terms for TargetCfgCheck.check_all.
package main

import (
	"bytes"
	"encoding/hex"
	"encoding/json"
	"flag"
	"fmt"
	"math"
	"os"
	"runtime"
	"sort"
	"strconv"
	"strings"
	"sync"
	"time"

	"google.golang.org/protobuf/proto"

	gpb "github.com/openconfig/gnmi/proto/gnmi"
	pb "github.com/openconfig/gnmi/proto/target"
	"github.com/openconfig/gnmi/target"
	"github.com/openconfig/gnmi/zz_verif/vh"
)

// ---------------------------------------------------------------------------
// Abstract inputs (what replay files hold)

// Req is one entry of Configuration.request.  V selects the content from a
// fixed pool; V == 0 is a nil message pointer.
type Req struct {
	K string `json:"k"`
	V int    `json:"v"`
}

// Tgt is one entry of Configuration.target.  O selects what the Target holds
// besides addresses and request name (credentials, meta, dialer).
type Tgt struct {
	K     string   `json:"k"`
	Nil   bool     `json:"nil,omitempty"`
	Addrs []string `json:"addrs,omitempty"`
	Req   string   `json:"req"`
	O     int      `json:"o,omitempty"`
}

// Cfg is one Configuration message.  X selects instance id / meta.
type Cfg struct {
	Rev  int64 `json:"rev"`
	Reqs []Req `json:"reqs"`
	Tgts []Tgt `json:"tgts"`
	X    int   `json:"x,omitempty"`
}

// Op is one step: K = "load" (Cfg nil: Load(nil)) or "mutate" (the caller
// overwrites, in place, the message it handed to the last accepted Load or to
// NewConfigWithBase with the content of Cfg).
//
// K = "par": two overlapping Loads under a forced schedule.  Load(Cfg) is
// started on its own goroutine and parked inside its first handler call (if it
// makes any); Load(Cfg2) is then started on a second goroutine and watched
// until it has returned or sits in c.mu.Lock(); then the first call is
// released and both loads run to completion.
//
// K = "mutate": the caller edits, IN PLACE and at every level of sharing, the
// message it handed to the last accepted Load (or NewConfigWithBase) until its
// content is that of Cfg: the Request / Target / Meta map objects stay the
// same, existing *SubscribeRequest / *Target / *Credentials messages, the
// Addresses slice and the nested Subscription / Path / PathElem messages are
// edited where they are.
//
// K = "reload": Load of a configuration BUILT FROM THE SAME OBJECTS as that
// message, with revision Cfg.Rev: Share 0 = the very same *Configuration,
// Share 1 = a new Configuration with new maps whose values (request and
// target messages) and Meta map are the same objects.
type Op struct {
	K     string `json:"k"`
	Cfg   *Cfg   `json:"cfg"`
	Cfg2  *Cfg   `json:"cfg2,omitempty"`
	Share int    `json:"share,omitempty"`
	// K = "race": the Loads of Cfgs are started together on one goroutine each,
	// behind a barrier, with no forced schedule.
	Cfgs []*Cfg `json:"cfgs,omitempty"`
	// content of the message actually edited / loaded, projected at run time
	actual *PCfg
}

// Case is what is written to cases_k.json and read back for replay.
type Case struct {
	Family   string `json:"family"`
	WithBase bool   `json:"with_base,omitempty"` // use NewConfigWithBase even when Base is nil
	Base     *Cfg   `json:"base"`
	Ops      []Op   `json:"ops"`
	BaseErr  bool   `json:"base_err,omitempty"`
	Cur0     *PCfg  `json:"cur0,omitempty"`
	Obs      []Obs  `json:"obs,omitempty"`
}

// ---------------------------------------------------------------------------
// Projected observations

// PT is a projected *pb.Target.
type PT struct {
	Nil   bool     `json:"nil,omitempty"`
	Addrs []string `json:"addrs,omitempty"`
	Req   string   `json:"req,omitempty"`
	O     string   `json:"o,omitempty"`
}

// PR is a projected *gpb.SubscribeRequest.
type PR struct {
	Nil bool   `json:"nil,omitempty"`
	S   string `json:"s,omitempty"`
}

// PCall is one handler invocation.
type PCall struct {
	Kind string `json:"kind"` // add update delete
	Name string `json:"name"`
	R    PR     `json:"r"`
	T    PT     `json:"t"`
	By   int    `json:"by,omitempty"` // par: 0 = made by Load(Cfg), 1 = by Load(Cfg2)
}

// PReq / PTgt are map bindings.
type PReq struct {
	K string `json:"k"`
	R PR     `json:"r"`
}
type PTgt struct {
	K string `json:"k"`
	T PT     `json:"t"`
}

// PCfg is a projected *pb.Configuration (nil pointer when Nil).
type PCfg struct {
	Nil  bool   `json:"nil,omitempty"`
	Rev  int64  `json:"rev,omitempty"`
	Reqs []PReq `json:"reqs,omitempty"`
	Tgts []PTgt `json:"tgts,omitempty"`
	X    string `json:"x,omitempty"`
}

// Obs is the projected outcome of one step.
type Obs struct {
	Kind  string  `json:"kind"` // load cur par panic hang
	Err   bool    `json:"err,omitempty"`
	Err2  bool    `json:"err2,omitempty"`  // par: result of Load(Cfg2)
	Errs  []bool  `json:"errs,omitempty"`  // race: result of each Load
	Early bool    `json:"early,omitempty"` // par: Load(Cfg2) returned while Load(Cfg) was parked in a handler
	Note  string  `json:"note,omitempty"`
	Calls []PCall `json:"calls,omitempty"`
	Cur   PCfg    `json:"cur"`
	Msg   string  `json:"msg,omitempty"`
}

// ---------------------------------------------------------------------------
// Concretisation

func elem(names ...string) *gpb.Path {
	p := &gpb.Path{}
	for _, n := range names {
		p.Elem = append(p.Elem, &gpb.PathElem{Name: n})
	}
	return p
}

func sub(mode gpb.SubscriptionList_Mode, names ...string) *gpb.SubscribeRequest {
	return &gpb.SubscribeRequest{Request: &gpb.SubscribeRequest_Subscribe{Subscribe: &gpb.SubscriptionList{
		Prefix:       &gpb.Path{Origin: "openconfig"},
		Mode:         mode,
		Subscription: []*gpb.Subscription{{Path: elem(names...)}},
	}}}
}

const nReqVariants = 7

func mkReq(v int) *gpb.SubscribeRequest {
	switch v {
	case 0:
		return nil
	case 1:
		return &gpb.SubscribeRequest{}
	case 2:
		return sub(gpb.SubscriptionList_STREAM, "a", "b")
	case 3:
		return sub(gpb.SubscriptionList_STREAM, "a", "c")
	case 4:
		return sub(gpb.SubscriptionList_ONCE, "a", "b")
	case 6:
		m := sub(gpb.SubscriptionList_STREAM, "a", "b")
		m.GetSubscribe().Subscription = append(m.GetSubscribe().Subscription, &gpb.Subscription{Path: elem("x")})
		return m
	default:
		return &gpb.SubscribeRequest{Request: &gpb.SubscribeRequest_Poll{Poll: &gpb.Poll{}}}
	}
}

const nOtherVariants = 7

func mkTgt(t Tgt) *pb.Target {
	if t.Nil {
		return nil
	}
	m := &pb.Target{Addresses: append([]string(nil), t.Addrs...), Request: t.Req}
	switch t.O {
	case 1:
		m.Dialer = "d"
	case 2:
		m.Credentials = &pb.Credentials{}
	case 3:
		m.Credentials = &pb.Credentials{Username: "u"}
	case 4:
		m.Meta = map[string]string{"k": "v"}
	case 5:
		m.Meta = map[string]string{"k": "w"}
	case 6:
		m.Credentials = &pb.Credentials{Username: "u", Password: "p"}
	}
	return m
}

func mkCfg(c *Cfg) *pb.Configuration {
	if c == nil {
		return nil
	}
	m := &pb.Configuration{Revision: c.Rev}
	if len(c.Reqs) > 0 {
		m.Request = map[string]*gpb.SubscribeRequest{}
		for _, r := range c.Reqs {
			m.Request[r.K] = mkReq(r.V)
		}
	}
	if len(c.Tgts) > 0 {
		m.Target = map[string]*pb.Target{}
		for _, t := range c.Tgts {
			m.Target[t.K] = mkTgt(t)
		}
	}
	switch c.X {
	case 1:
		m.InstanceId = "i"
	case 2:
		m.Meta = map[string]string{"m": "1"}
	}
	return m
}

// ---------------------------------------------------------------------------
// Projection (deterministic wire form stands for the content of a message)

func wire(m proto.Message) string {
	b, err := proto.MarshalOptions{Deterministic: true}.Marshal(m)
	if err != nil {
		panic("marshal: " + err.Error())
	}
	return hex.EncodeToString(b)
}

func projReq(r *gpb.SubscribeRequest) PR {
	if r == nil {
		return PR{Nil: true}
	}
	return PR{S: wire(r)}
}

func projTgt(t *pb.Target) PT {
	if t == nil {
		return PT{Nil: true}
	}
	rest := &pb.Target{Credentials: t.Credentials, Meta: t.Meta, Dialer: t.Dialer}
	return PT{Addrs: append([]string(nil), t.Addresses...), Req: t.Request, O: wire(rest)}
}

func projCfg(c *pb.Configuration) PCfg {
	if c == nil {
		return PCfg{Nil: true}
	}
	out := PCfg{Rev: c.Revision}
	for k, r := range c.Request {
		out.Reqs = append(out.Reqs, PReq{K: k, R: projReq(r)})
	}
	sort.Slice(out.Reqs, func(i, j int) bool { return out.Reqs[i].K < out.Reqs[j].K })
	for k, t := range c.Target {
		out.Tgts = append(out.Tgts, PTgt{K: k, T: projTgt(t)})
	}
	sort.Slice(out.Tgts, func(i, j int) bool { return out.Tgts[i].K < out.Tgts[j].K })
	out.X = wire(&pb.Configuration{InstanceId: c.InstanceId, Meta: c.Meta})
	return out
}

// ---------------------------------------------------------------------------
// Running one case against the real code

type runner struct {
	mu    sync.Mutex
	calls []PCall
	// par: goroutine id -> tag; the first call made by the goroutine tagged 0
	// is parked until release is closed
	tags    map[int64]int
	park    bool
	// race with a two-load leader: its second load (tag 1) is parked as well
	park2    bool
	entered2 chan struct{}
	release2 chan struct{}
	entered chan struct{}
	release chan struct{}
}

// goid returns the id of the calling goroutine (from its stack header).
func goid() int64 {
	var buf [64]byte
	n := runtime.Stack(buf[:], false)
	f := bytes.Fields(buf[:n])
	if len(f) < 2 {
		return -1
	}
	id, _ := strconv.ParseInt(string(f[1]), 10, 64)
	return id
}

func (r *runner) record(c PCall) {
	r.mu.Lock()
	parkNow, park2Now := false, false
	if r.tags != nil {
		c.By = r.tags[goid()]
		if r.park && c.By == 0 {
			r.park = false
			parkNow = true
		} else if r.park2 && c.By == 1 {
			r.park2 = false
			park2Now = true
		}
	}
	r.calls = append(r.calls, c)
	r.mu.Unlock()
	if parkNow {
		close(r.entered)
		<-r.release
	}
	if park2Now {
		close(r.entered2)
		<-r.release2
	}
}

func (r *runner) take() []PCall {
	r.mu.Lock()
	defer r.mu.Unlock()
	c := r.calls
	r.calls = nil
	return c
}

func (r *runner) handler() target.Handler {
	return target.Handler{
		Add: func(u target.Update) {
			r.record(PCall{Kind: "add", Name: u.Name, R: projReq(u.Request), T: projTgt(u.Target)})
		},
		Update: func(u target.Update) {
			r.record(PCall{Kind: "update", Name: u.Name, R: projReq(u.Request), T: projTgt(u.Target)})
		},
		Delete: func(name string) {
			r.record(PCall{Kind: "delete", Name: name})
		},
	}
}

// blockedInLoad reports whether goroutine id is parked on a mutex inside
// target.(*Config).Load itself (not inside a handler called from it).
func blockedInLoad(id int64) bool {
	buf := make([]byte, 1<<16)
	for {
		n := runtime.Stack(buf, true)
		if n < len(buf) {
			buf = buf[:n]
			break
		}
		buf = make([]byte, 2*len(buf))
	}
	hdr := []byte("goroutine " + strconv.FormatInt(id, 10) + " [")
	for _, blk := range bytes.Split(buf, []byte("\n\n")) {
		if !bytes.HasPrefix(blk, hdr) {
			continue
		}
		line := blk
		if i := bytes.IndexByte(blk, '\n'); i >= 0 {
			line = blk[:i]
		}
		state := string(line[len(hdr):])
		if !(strings.HasPrefix(state, "sync.Mutex.Lock") || strings.HasPrefix(state, "sync.RWMutex") || strings.HasPrefix(state, "semacquire")) {
			return false
		}
		i := bytes.Index(blk, []byte("target.(*Config).Load"))
		if i < 0 {
			return false
		}
		// a harness (handler) frame above Load means the goroutine waits inside a handler
		return !bytes.Contains(blk[:i], []byte("zz_verif"))
	}
	return false
}

// raceStep starts one goroutine per configuration of o.Cfgs behind a barrier.
// With o.Cfg set, Load(o.Cfg) is started first and parked inside its first
// handler call; the others are started and watched until each has returned or
// sits in c.mu.Lock(); they are left waiting there for a few milliseconds (a
// sync.Mutex whose waiters have waited for more than 1 ms hands the lock over
// in FIFO order instead of letting the last owner take it again, which is what
// lets a second waiter run between two critical sections of the first); then
// the parked call is released.  Threads are numbered leader 0, others 1...
func raceStep(r *runner, c *target.Config, held **pb.Configuration, o Op) Obs {
	var cfgs []*Cfg
	leader := o.Cfg != nil
	two := leader && o.Cfg2 != nil // the leader goroutine loads Cfg, then at once Cfg2
	if leader {
		cfgs = append(cfgs, o.Cfg)
	}
	if two {
		cfgs = append(cfgs, o.Cfg2)
	}
	cfgs = append(cfgs, o.Cfgs...)
	n := len(cfgs)
	ms := make([]*pb.Configuration, n)
	for i, cf := range cfgs {
		ms[i] = mkCfg(cf)
	}
	r.take()
	r.mu.Lock()
	r.tags = map[int64]int{}
	r.park = leader
	r.entered = make(chan struct{})
	r.release = make(chan struct{})
	r.park2 = two
	r.entered2 = make(chan struct{})
	r.release2 = make(chan struct{})
	r.mu.Unlock()
	released, released2 := false, false
	defer func() {
		r.mu.Lock()
		r.tags = nil
		r.park, r.park2 = false, false
		r.mu.Unlock()
		if !released {
			close(r.release)
		}
		if !released2 {
			close(r.release2)
		}
	}()
	errs := make([]bool, n)
	pans := make([]interface{}, n)
	ids := make([]int64, n)
	dones := make([]chan struct{}, n)
	gate := make(chan struct{})
	var ready sync.WaitGroup
	launch := func(i int, wait bool) {
		dones[i] = make(chan struct{})
		ready.Add(1)
		go func() {
			defer close(dones[i])
			id := goid()
			r.mu.Lock()
			r.tags[id] = i
			ids[i] = id
			r.mu.Unlock()
			ready.Done()
			if wait {
				<-gate
			}
			defer func() { pans[i] = recover() }()
			errs[i] = c.Load(ms[i]) != nil
			if two && i == 0 {
				// the same goroutine goes straight on to its next load: it takes c.mu
				// again before the waiters it has just woken get to run
				r.mu.Lock()
				r.tags[id] = 1
				r.mu.Unlock()
				errs[1] = c.Load(ms[1]) != nil
			}
		}()
	}
	first := 0
	if leader {
		launch(0, false)
		ready.Wait()
		select {
		case <-dones[0]: // made no handler call: nothing is parked
		case <-r.entered:
		case <-time.After(10 * time.Second):
			return Obs{Kind: "hang", Msg: "leading Load neither returned nor called a handler"}
		}
		first = 1
		if two {
			first = 2
			dones[1] = dones[0]
		}
	}
	for i := first; i < n; i++ {
		launch(i, true)
	}
	ready.Wait()
	close(gate)
	if leader {
		// let every other Load come to rest (returned, or waiting for c.mu)
		deadline := time.Now().Add(10 * time.Second)
		for i := first; i < n; i++ {
		watch:
			for {
				select {
				case <-dones[i]:
					break watch
				default:
				}
				if blockedInLoad(ids[i]) || time.Now().After(deadline) {
					break watch
				}
				time.Sleep(200 * time.Microsecond)
			}
		}
		time.Sleep(3 * time.Millisecond)
		released = true
		close(r.release)
		if two {
			// the leader's second load: parked in its first handler call (or returned)
			select {
			case <-r.entered2:
			case <-dones[0]:
			case <-time.After(10 * time.Second):
				return Obs{Kind: "hang", Msg: "leader's second Load neither returned nor called a handler"}
			}
			time.Sleep(3 * time.Millisecond)
			released2 = true
			close(r.release2)
		}
	}
	fin := make(chan struct{})
	go func() {
		for i := 0; i < n; i++ {
			<-dones[i]
		}
		close(fin)
	}()
	select {
	case <-fin:
	case <-time.After(10 * time.Second):
		return Obs{Kind: "hang", Msg: "racing Loads did not all return"}
	}
	for _, p := range pans {
		if p != nil {
			return Obs{Kind: "panic", Msg: fmt.Sprint(p)}
		}
	}
	*held = nil // which message took effect last is not known; in-place edits are not combined with races
	return Obs{Kind: "race", Errs: errs, Calls: r.take(), Cur: observeCurrent(c)}
}

// parStep runs the forced two-thread schedule.
func parStep(r *runner, c *target.Config, held **pb.Configuration, o Op) Obs {
	ma, mb := mkCfg(o.Cfg), mkCfg(o.Cfg2)
	r.take()
	r.mu.Lock()
	r.tags = map[int64]int{}
	r.park = true
	r.entered = make(chan struct{})
	r.release = make(chan struct{})
	r.mu.Unlock()
	defer func() {
		r.mu.Lock()
		r.tags = nil
		r.park = false
		r.mu.Unlock()
	}()

	type res struct {
		err   error
		panic interface{}
	}
	start := func(tag int, m *pb.Configuration, idc chan int64) chan res {
		done := make(chan res, 1)
		go func() {
			id := goid()
			r.mu.Lock()
			r.tags[id] = tag
			r.mu.Unlock()
			idc <- id
			var out res
			defer func() {
				if p := recover(); p != nil {
					out.panic = p
				}
				done <- out
			}()
			out.err = c.Load(m)
		}()
		return done
	}
	note := ""
	ida, idb := make(chan int64, 1), make(chan int64, 1)
	doneA := start(0, ma, ida)
	<-ida
	var ra, rb res
	var doneB chan res
	aDone, bDone, early := false, false, false
	select {
	case ra = <-doneA:
		aDone = true
	case <-r.entered:
		// Load a is parked inside its first handler call, holding whatever it holds
		doneB = start(1, mb, idb)
		bid := <-idb
		deadline := time.Now().Add(15 * time.Second)
	watch:
		for {
			select {
			case rb = <-doneB:
				bDone, early = true, true
				break watch
			default:
			}
			if blockedInLoad(bid) {
				break watch
			}
			if time.Now().After(deadline) {
				// neither returned nor visibly blocked: treated as blocked (this can
				// only hide a defect, never invent one)
				note = "watch-timeout"
				break watch
			}
			time.Sleep(200 * time.Microsecond)
		}
		close(r.release)
	case <-time.After(20 * time.Second):
		return Obs{Kind: "hang", Msg: "first Load neither returned nor called a handler"}
	}
	if !aDone {
		select {
		case ra = <-doneA:
		case <-time.After(20 * time.Second):
			return Obs{Kind: "hang", Msg: "first Load did not return after release"}
		}
	}
	r.mu.Lock()
	r.park = false
	r.mu.Unlock()
	if doneB == nil {
		doneB = start(1, mb, idb)
		<-idb
	}
	if !bDone {
		select {
		case rb = <-doneB:
		case <-time.After(20 * time.Second):
			return Obs{Kind: "hang", Msg: "second Load did not return"}
		}
	}
	if ra.panic != nil || rb.panic != nil {
		return Obs{Kind: "panic", Msg: fmt.Sprint(ra.panic, rb.panic)}
	}
	// the message the Config may still refer to: the one of the load that took effect last
	if ra.err == nil {
		*held = ma
	}
	if rb.err == nil {
		*held = mb
	}
	return Obs{Kind: "par", Err: ra.err != nil, Err2: rb.err != nil, Early: early, Calls: r.take(),
		Cur: observeCurrent(c), Note: note}
}

// observeCurrent projects Current(), then scribbles all over the message it
// was handed and looks again: what Current() hands out must be the caller's.
func observeCurrent(c *target.Config) PCfg {
	m := c.Current()
	p := projCfg(m)
	if m != nil {
		m.Revision += 17
		for k, r := range m.Request {
			if r != nil {
				proto.Reset(r)
				r.Request = &gpb.SubscribeRequest_Poll{Poll: &gpb.Poll{}}
			}
			_ = k
		}
		for k, t := range m.Target {
			if t != nil {
				t.Addresses = append(t.Addresses[:0], "scribbled")
				t.Request = "scribbled"
			}
			if len(k)%2 == 0 {
				delete(m.Target, k)
			}
		}
		if m.Request == nil {
			m.Request = map[string]*gpb.SubscribeRequest{}
		}
		m.Request["scribbled"] = &gpb.SubscribeRequest{}
		m.InstanceId = "scribbled"
	}
	if p2 := projCfg(c.Current()); !samePCfg(p, p2) {
		return p2
	}
	return p
}

func overwrite(dst, src *pb.Configuration) {
	dst.Revision = src.Revision
	dst.Request = src.Request
	dst.Target = src.Target
	dst.InstanceId = src.InstanceId
	dst.Meta = src.Meta
}

func editStrMap(dst, src map[string]string) map[string]string {
	if dst == nil {
		if len(src) == 0 {
			return nil
		}
		dst = map[string]string{}
	}
	for k := range dst {
		if _, ok := src[k]; !ok {
			delete(dst, k)
		}
	}
	for k, v := range src {
		dst[k] = v
	}
	return dst
}

func editPath(o, n *gpb.Path) *gpb.Path {
	if o == nil || n == nil || len(o.Elem) != len(n.Elem) || len(o.Element) != 0 || len(n.Element) != 0 {
		return n
	}
	o.Origin, o.Target = n.Origin, n.Target
	for i := range o.Elem {
		if o.Elem[i] == nil || n.Elem[i] == nil || len(o.Elem[i].Key) != 0 || len(n.Elem[i].Key) != 0 {
			o.Elem[i] = n.Elem[i]
		} else {
			o.Elem[i].Name = n.Elem[i].Name
		}
	}
	return o
}

// editReq makes o's content that of n, editing nested messages where they are.
func editReq(o, n *gpb.SubscribeRequest) {
	os, ns := o.GetSubscribe(), n.GetSubscribe()
	if os != nil && ns != nil {
		os.Mode, os.Encoding, os.UpdatesOnly, os.AllowAggregation = ns.Mode, ns.Encoding, ns.UpdatesOnly, ns.AllowAggregation
		os.Qos, os.UseModels = ns.Qos, ns.UseModels
		os.Prefix = editPath(os.Prefix, ns.Prefix)
		k := len(os.Subscription)
		if len(ns.Subscription) < k {
			k = len(ns.Subscription)
		}
		for i := 0; i < k; i++ {
			a, b := os.Subscription[i], ns.Subscription[i]
			if a == nil || b == nil {
				os.Subscription[i] = b
				continue
			}
			a.Path = editPath(a.Path, b.Path)
			a.Mode, a.SampleInterval, a.SuppressRedundant, a.HeartbeatInterval = b.Mode, b.SampleInterval, b.SuppressRedundant, b.HeartbeatInterval
		}
		os.Subscription = append(os.Subscription[:k], ns.Subscription[k:]...)
		o.Extension = n.Extension
	}
	if !proto.Equal(o, n) {
		proto.Reset(o)
		proto.Merge(o, n)
	}
}

func editTgt(o, n *pb.Target) {
	k := len(o.Addresses)
	if len(n.Addresses) < k {
		k = len(n.Addresses)
	}
	for i := 0; i < k; i++ {
		o.Addresses[i] = n.Addresses[i]
	}
	o.Addresses = append(o.Addresses[:k], n.Addresses[k:]...)
	o.Request, o.Dialer = n.Request, n.Dialer
	if o.Credentials != nil && n.Credentials != nil {
		o.Credentials.Username, o.Credentials.Password, o.Credentials.PasswordId = n.Credentials.Username, n.Credentials.Password, n.Credentials.PasswordId
	} else {
		o.Credentials = n.Credentials
	}
	o.Meta = editStrMap(o.Meta, n.Meta)
}

// deepEdit turns dst into src by editing dst and everything it refers to in place.
func deepEdit(dst, src *pb.Configuration) {
	dst.Revision, dst.InstanceId = src.Revision, src.InstanceId
	dst.Meta = editStrMap(dst.Meta, src.Meta)
	if dst.Request == nil && len(src.Request) > 0 {
		dst.Request = map[string]*gpb.SubscribeRequest{}
	}
	for k := range dst.Request {
		if _, ok := src.Request[k]; !ok {
			delete(dst.Request, k)
		}
	}
	for k, nv := range src.Request {
		if ov, ok := dst.Request[k]; ok && ov != nil && nv != nil {
			editReq(ov, nv)
		} else {
			dst.Request[k] = nv
		}
	}
	if dst.Target == nil && len(src.Target) > 0 {
		dst.Target = map[string]*pb.Target{}
	}
	for k := range dst.Target {
		if _, ok := src.Target[k]; !ok {
			delete(dst.Target, k)
		}
	}
	for k, nv := range src.Target {
		if ov, ok := dst.Target[k]; ok && ov != nil && nv != nil {
			editTgt(ov, nv)
		} else {
			dst.Target[k] = nv
		}
	}
}

func samePCfg(a, b PCfg) bool {
	x, _ := json.Marshal(a)
	y, _ := json.Marshal(b)
	return string(x) == string(y)
}

// sharing builds the message of a "reload" from the objects of held.
func sharing(held *pb.Configuration, rev int64, share int) *pb.Configuration {
	if share == 0 {
		held.Revision = rev
		return held
	}
	m := &pb.Configuration{Revision: rev, InstanceId: held.InstanceId, Meta: held.Meta}
	if held.Request != nil {
		m.Request = map[string]*gpb.SubscribeRequest{}
		for k, v := range held.Request {
			m.Request[k] = v
		}
	}
	if held.Target != nil {
		m.Target = map[string]*pb.Target{}
		for k, v := range held.Target {
			m.Target[k] = v
		}
	}
	return m
}

func step(r *runner, c *target.Config, held **pb.Configuration, o *Op) (res Obs) {
	defer func() {
		if p := recover(); p != nil {
			res = Obs{Kind: "panic", Msg: fmt.Sprint(p)}
		}
	}()
	switch o.K {
	case "load":
		r.take()
		m := mkCfg(o.Cfg)
		err := c.Load(m)
		if err == nil {
			*held = m
		}
		return Obs{Kind: "load", Err: err != nil, Calls: r.take(), Cur: observeCurrent(c)}
	case "reload":
		r.take()
		var m *pb.Configuration
		if *held == nil {
			m = mkCfg(o.Cfg)
		} else {
			m = sharing(*held, o.Cfg.Rev, o.Share)
		}
		a := projCfg(m)
		o.actual = &a
		err := c.Load(m)
		if err == nil {
			*held = m
		}
		return Obs{Kind: "load", Err: err != nil, Calls: r.take(), Cur: observeCurrent(c)}
	case "mutate":
		r.take()
		note := ""
		if *held != nil && o.Cfg != nil {
			want := mkCfg(o.Cfg)
			deepEdit(*held, want)
			if !samePCfg(projCfg(*held), projCfg(want)) {
				overwrite(*held, mkCfg(o.Cfg)) // not reachable with the pools in use; kept as a guard
				note = "mutate-fallback"
			}
			a := projCfg(*held)
			o.actual = &a
		}
		if len(r.take()) != 0 {
			panic("handler called without a Load")
		}
		return Obs{Kind: "cur", Cur: observeCurrent(c), Note: note}
	case "par":
		return parStep(r, c, held, *o)
	case "race":
		return raceStep(r, c, held, *o)
	}
	panic("unknown op " + o.K)
}

// hangs counts cases in which the code under test did not return; after a few
// of them the generators stop (every further case would cost a watchdog period
// and the verdict is settled).
var hangs int

func runCase(c *Case) {
	done := make(chan struct{})
	work := *c // the worker owns its own copy; a hung worker never touches c again
	go func() {
		defer close(done)
		runCaseInner(&work)
	}()
	select {
	case <-done:
		*c = work
	case <-time.After(12 * time.Second):
		// a hang of the code under test: every step is reported as hung
		hangs++
		c.Obs = nil
		for range c.Ops {
			c.Obs = append(c.Obs, Obs{Kind: "hang"})
		}
		if c.Base != nil || c.WithBase {
			cur := projCfg(mkCfg(c.Base))
			c.Cur0 = &cur
		} else {
			c.Cur0 = &PCfg{Nil: true}
		}
	}
}

func runCaseInner(c *Case) {
	r := &runner{}
	var cfg *target.Config
	var held *pb.Configuration
	c.Obs = nil
	c.BaseErr = false
	c.Cur0 = nil
	func() {
		defer func() {
			if p := recover(); p != nil {
				c.BaseErr = true
				cfg = nil
			}
		}()
		if c.Base == nil && !c.WithBase {
			cfg = target.NewConfig(r.handler())
		} else {
			b := mkCfg(c.Base)
			var err error
			cfg, err = target.NewConfigWithBase(r.handler(), b)
			if err != nil {
				c.BaseErr = true
				cfg = nil
				return
			}
			held = b
		}
		cur := observeCurrent(cfg)
		c.Cur0 = &cur
	}()
	if cfg == nil {
		c.BaseErr = true
		return
	}
	if len(r.take()) != 0 {
		// a handler call during construction: make the first step disagree
		c.Cur0 = &PCfg{Rev: -424242}
	}
	out := make([]Obs, 0, len(c.Ops))
	for i := range c.Ops {
		out = append(out, step(r, cfg, &held, &c.Ops[i]))
		c.Obs = out
	}
}

// ---------------------------------------------------------------------------
// Gallina

func strList(n *vh.Names, l []string) string {
	el := make([]string, len(l))
	for i, s := range l {
		el[i] = n.Ref(s)
	}
	return vh.List(el)
}

func prTerm(n *vh.Names, r PR) string {
	if r.Nil {
		return "None"
	}
	return "(Some " + n.Ref(r.S) + ")"
}

func ptTerm(n *vh.Names, t PT) string {
	if t.Nil {
		return "None"
	}
	return fmt.Sprintf("(Some (mkTarget %s %s %s))", strList(n, t.Addrs), n.Ref(t.Req), n.Ref(t.O))
}

func pcfgTerm(n *vh.Names, c PCfg) string {
	if c.Nil {
		return "None"
	}
	return "(Some " + pcfgBare(n, c) + ")"
}

func pcfgBare(n *vh.Names, c PCfg) string {
	rs := make([]string, len(c.Reqs))
	for i, r := range c.Reqs {
		rs[i] = fmt.Sprintf("(%s, %s)", n.Ref(r.K), prTerm(n, r.R))
	}
	ts := make([]string, len(c.Tgts))
	for i, t := range c.Tgts {
		ts[i] = fmt.Sprintf("(%s, %s)", n.Ref(t.K), ptTerm(n, t.T))
	}
	return fmt.Sprintf("(mkConfig %s %s %s %s)", vh.Z(c.Rev), vh.List(rs), vh.List(ts), n.Ref(c.X))
}

// input configurations are rendered by projecting the very message that is
// handed to the code (before the call)
func inCfg(c *Cfg) PCfg { return projCfg(mkCfg(c)) }

func callTerm(n *vh.Names, c PCall) string {
	switch c.Kind {
	case "add":
		return fmt.Sprintf("HAdd %s %s %s", n.Ref(c.Name), prTerm(n, c.R), ptTerm(n, c.T))
	case "update":
		return fmt.Sprintf("HUpdate %s %s %s", n.Ref(c.Name), prTerm(n, c.R), ptTerm(n, c.T))
	}
	return "HDelete " + n.Ref(c.Name)
}

func opTerm(n *vh.Names, o Op) string {
	if o.K == "par" {
		return fmt.Sprintf("OPar %s %s", pcfgTerm(n, inCfg(o.Cfg)), pcfgTerm(n, inCfg(o.Cfg2)))
	}
	if o.K == "race" {
		var as []string
		if o.Cfg != nil {
			as = append(as, pcfgTerm(n, inCfg(o.Cfg)))
			if o.Cfg2 != nil {
				as = append(as, pcfgTerm(n, inCfg(o.Cfg2)))
			}
		}
		for _, cf := range o.Cfgs {
			as = append(as, pcfgTerm(n, inCfg(cf)))
		}
		return "ORace " + vh.List(as)
	}
	if o.K == "mutate" {
		if o.Cfg == nil {
			return "OLoad None" // not generated; a mutate without content is nothing
		}
		if o.actual != nil {
			return "OMutate " + pcfgBare(n, *o.actual)
		}
		return "OMutate " + pcfgBare(n, inCfg(o.Cfg))
	}
	if o.actual != nil {
		return "OLoad " + pcfgTerm(n, *o.actual)
	}
	return "OLoad " + pcfgTerm(n, inCfg(o.Cfg))
}

func obsTerm(n *vh.Names, r Obs) string {
	switch r.Kind {
	case "load":
		cs := make([]string, len(r.Calls))
		for i, c := range r.Calls {
			cs[i] = callTerm(n, c)
		}
		return fmt.Sprintf("RLoad %s %s %s", vh.Bool(r.Err), vh.List(cs), pcfgTerm(n, r.Cur))
	case "cur":
		return "RCur " + pcfgTerm(n, r.Cur)
	case "race":
		cs := make([]string, len(r.Calls))
		for i, c := range r.Calls {
			cs[i] = fmt.Sprintf("(%s, %s)", vh.Nat(c.By), callTerm(n, c))
		}
		es := make([]string, len(r.Errs))
		for i, e := range r.Errs {
			es[i] = vh.Bool(e)
		}
		return fmt.Sprintf("RRace %s %s %s", vh.List(es), vh.List(cs), pcfgTerm(n, r.Cur))
	case "par":
		cs := make([]string, len(r.Calls))
		for i, c := range r.Calls {
			cs[i] = fmt.Sprintf("(%s, %s)", vh.Nat(c.By), callTerm(n, c))
		}
		return fmt.Sprintf("RPar %s %s %s %s %s", vh.Bool(r.Early), vh.List(cs), vh.Bool(r.Err), vh.Bool(r.Err2), pcfgTerm(n, r.Cur))
	}
	return "RPanic"
}

func caseTerm(n *vh.Names, c Case) string {
	steps := make([]string, len(c.Obs))
	for i := range c.Obs {
		steps[i] = fmt.Sprintf("(%s, %s)", opTerm(n, c.Ops[i]), obsTerm(n, c.Obs[i]))
	}
	cur0 := "None"
	if c.Cur0 != nil {
		cur0 = pcfgTerm(n, *c.Cur0)
	}
	return fmt.Sprintf("mkCase %s %s %s %s", pcfgTerm(n, inCfg(c.Base)), vh.Bool(c.BaseErr), cur0, vh.List(steps))
}

// ---------------------------------------------------------------------------
// Generators

func cloneCfg(c *Cfg) *Cfg {
	if c == nil {
		return nil
	}
	d := &Cfg{Rev: c.Rev, X: c.X}
	d.Reqs = append([]Req(nil), c.Reqs...)
	for _, t := range c.Tgts {
		t.Addrs = append([]string(nil), t.Addrs...)
		d.Tgts = append(d.Tgts, t)
	}
	return d
}

var tnames = []string{"t1", "t2", "t3", "t4", "dev-é/x", "*", " "}
var rnames = []string{"r1", "r2", "r3", "interfaces", "R1", "*/x"}
var addrs = []string{"10.0.0.1:1", "10.0.0.2:1", "h:9339", "10.0.0.1:1", ""}

func (c *Cfg) hasReq(k string) int {
	for i, r := range c.Reqs {
		if r.K == k {
			return i
		}
	}
	return -1
}

func (c *Cfg) hasTgt(k string) int {
	for i, t := range c.Tgts {
		if t.K == k {
			return i
		}
	}
	return -1
}

func (c *Cfg) freeReqName(r *vh.Rand) string {
	for try := 0; try < 8; try++ {
		k := rnames[r.Intn(len(rnames))]
		if c.hasReq(k) < 0 {
			return k
		}
	}
	return ""
}

func randAddrs(r *vh.Rand) []string {
	n := 1 + r.Intn(2)
	out := make([]string, n)
	for i := range out {
		out[i] = addrs[r.Intn(len(addrs))]
	}
	return out
}

// validEdit applies one edit that keeps a valid configuration valid; it
// returns a label for the histogram.
func validEdit(r *vh.Rand, c *Cfg) string {
	for try := 0; try < 6; try++ {
		if l := validEdit1(r, c); l != "edit:none" {
			return l
		}
	}
	return "edit:none"
}

func validEdit1(r *vh.Rand, c *Cfg) string {
	switch r.Pick(14, 10, 10, 8, 10, 8, 4, 4, 4, 3, 6) {
	case 0: // add a target
		k := tnames[r.Intn(len(tnames))]
		if c.hasTgt(k) >= 0 {
			return "edit:none"
		}
		var rq string
		if len(c.Reqs) > 0 && r.Chance(3, 4) {
			rq = c.Reqs[r.Intn(len(c.Reqs))].K
		} else {
			rq = c.freeReqName(r)
			if rq == "" {
				return "edit:none"
			}
			c.Reqs = append(c.Reqs, Req{K: rq, V: 1 + r.Intn(nReqVariants-1)})
		}
		c.Tgts = append(c.Tgts, Tgt{K: k, Addrs: randAddrs(r), Req: rq, O: r.Pick(5, 1, 1, 1, 1, 1, 1)})
		return "edit:add-target"
	case 1: // remove a target
		if len(c.Tgts) == 0 {
			return "edit:none"
		}
		i := r.Intn(len(c.Tgts))
		c.Tgts = append(c.Tgts[:i], c.Tgts[i+1:]...)
		return "edit:remove-target"
	case 2: // edit a target's addresses
		if len(c.Tgts) == 0 {
			return "edit:none"
		}
		i := r.Intn(len(c.Tgts))
		switch r.Intn(3) {
		case 0:
			c.Tgts[i].Addrs = randAddrs(r)
		case 1:
			c.Tgts[i].Addrs = append(c.Tgts[i].Addrs, addrs[r.Intn(len(addrs))])
		default:
			a := c.Tgts[i].Addrs
			if len(a) >= 2 {
				a[0], a[1] = a[1], a[0]
			} else {
				c.Tgts[i].Addrs = randAddrs(r)
			}
		}
		return "edit:target-addresses"
	case 3: // edit what else a target holds
		if len(c.Tgts) == 0 {
			return "edit:none"
		}
		c.Tgts[r.Intn(len(c.Tgts))].O = r.Intn(nOtherVariants)
		return "edit:target-other"
	case 4: // re-point a target to another existing request
		if len(c.Tgts) == 0 || len(c.Reqs) < 2 {
			return "edit:none"
		}
		c.Tgts[r.Intn(len(c.Tgts))].Req = c.Reqs[r.Intn(len(c.Reqs))].K
		return "edit:re-point"
	case 5: // edit a request
		if len(c.Reqs) == 0 {
			return "edit:none"
		}
		i := r.Intn(len(c.Reqs))
		c.Reqs[i].V = r.Intn(nReqVariants) // 0: nil message pointer
		return "edit:request-content"
	case 6: // rename a request and re-point its targets
		if len(c.Reqs) == 0 {
			return "edit:none"
		}
		i := r.Intn(len(c.Reqs))
		nk := c.freeReqName(r)
		if nk == "" {
			return "edit:none"
		}
		old := c.Reqs[i].K
		c.Reqs[i].K = nk
		for j := range c.Tgts {
			if c.Tgts[j].Req == old {
				c.Tgts[j].Req = nk
			}
		}
		if r.Chance(1, 3) {
			c.Reqs[i].V = 1 + r.Intn(nReqVariants-1)
		}
		return "edit:rename-request+re-point"
	case 7: // swap the contents of two requests
		if len(c.Reqs) < 2 {
			return "edit:none"
		}
		i, j := r.Intn(len(c.Reqs)), r.Intn(len(c.Reqs))
		c.Reqs[i].V, c.Reqs[j].V = c.Reqs[j].V, c.Reqs[i].V
		return "edit:swap-requests"
	case 8: // add an unused request
		nk := c.freeReqName(r)
		if nk == "" {
			return "edit:none"
		}
		c.Reqs = append(c.Reqs, Req{K: nk, V: r.Intn(nReqVariants)})
		return "edit:add-request"
	case 9: // remove an unused request
		for i, q := range c.Reqs {
			used := false
			for _, t := range c.Tgts {
				if t.Req == q.K {
					used = true
				}
			}
			if !used {
				c.Reqs = append(c.Reqs[:i], c.Reqs[i+1:]...)
				return "edit:remove-request"
			}
		}
		return "edit:none"
	default:
		c.X = r.Intn(3)
		return "edit:config-other"
	}
}

// innerEdit changes something INSIDE a message that stays in place: the
// content of a request, a target's addresses or its other fields.
func innerEdit(r *vh.Rand, c *Cfg) string {
	want := map[string]bool{"edit:request-content": true, "edit:target-addresses": true, "edit:target-other": true, "edit:swap-requests": true}
	for try := 0; try < 30; try++ {
		t := cloneCfg(c)
		if l := validEdit1(r, t); want[l] {
			*c = *t
			return l
		}
	}
	return validEdit(r, c)
}

// aliasDeep: for each kind of in-place edit at each level of sharing: load
// revision 1, edit in place, load revision 2 built from the same objects (the
// same message / a new configuration sharing the request and target objects /
// a fresh message), then one more fresh load.
func aliasDeep() []Case {
	base := func() *Cfg {
		return &Cfg{Rev: 1,
			Reqs: []Req{{K: "r1", V: 2}, {K: "r2", V: 3}},
			Tgts: []Tgt{
				{K: "t1", Addrs: []string{"a:1", "a:2"}, Req: "r1", O: 3},
				{K: "t2", Addrs: []string{"b:1"}, Req: "r1", O: 4},
				{K: "t3", Addrs: []string{"c:1"}, Req: "r2", O: 0}}}
	}
	edits := []func(*Cfg){
		func(c *Cfg) { c.Reqs[0].V = 3 },                            // PathElem name inside a shared request
		func(c *Cfg) { c.Reqs[0].V = 4 },                            // SubscriptionList mode
		func(c *Cfg) { c.Reqs[0].V = 6 },                            // Subscription appended to the nested list
		func(c *Cfg) { c.Reqs[0].V = 5 },                            // request replaced wholesale (oneof changes)
		func(c *Cfg) { c.Reqs[1].V = 6 },                            // the other request
		func(c *Cfg) { c.Reqs[0].V, c.Reqs[1].V = 3, 2 },            // contents swapped
		func(c *Cfg) { c.Tgts[0].Addrs[0] = "z:9" },                 // element of the Addresses slice
		func(c *Cfg) { c.Tgts[0].Addrs = c.Tgts[0].Addrs[:1] },      // slice shortened
		func(c *Cfg) { c.Tgts[1].Addrs = append(c.Tgts[1].Addrs, "b:2") }, // slice extended
		func(c *Cfg) { c.Tgts[0].O = 6 },                            // Credentials field
		func(c *Cfg) { c.Tgts[1].O = 5 },                            // value in the target's Meta map
		func(c *Cfg) { c.Tgts[2].O = 1 },                            // scalar field of the target
		func(c *Cfg) { c.Tgts[1].Req = "r2" },                       // re-pointed
		func(c *Cfg) { c.X = 2 },                                    // configuration Meta map
		func(c *Cfg) { c.Tgts = c.Tgts[:2] },                        // entry deleted from the target map
		func(c *Cfg) { c.Tgts = append(c.Tgts, Tgt{K: "t4", Addrs: []string{"d:1"}, Req: "r2"}) },
		func(c *Cfg) { c.Reqs = append(c.Reqs, Req{K: "r3", V: 4}); c.Tgts[2].Req = "r3" },
		func(c *Cfg) {},                                             // nothing edited
	}
	var out []Case
	for _, ed := range edits {
		for kind := 0; kind < 3; kind++ {
			for _, rev2 := range []int64{2, 1} {
				m := base()
				ed(m)
				l := cloneCfg(m)
				l.Rev = rev2
				ops := []Op{{K: "load", Cfg: base()}, {K: "mutate", Cfg: m}}
				switch kind {
				case 0:
					ops = append(ops, Op{K: "reload", Cfg: l, Share: 0})
				case 1:
					ops = append(ops, Op{K: "reload", Cfg: l, Share: 1})
				default:
					ops = append(ops, Op{K: "load", Cfg: l})
				}
				f := cloneCfg(m)
				f.Rev = 3
				f.Tgts[0].O = 1
				ops = append(ops, Op{K: "load", Cfg: f})
				out = append(out, Case{Family: "alias-deep", Ops: ops})
			}
		}
	}
	return out
}

// sizes: configurations with 0 / 1 / 8 / 9 / 33 targets, every ordered pair of
// sizes: the second load keeps the common names, changes every other one of
// them, and adds / removes the rest.
func sizeCases() []Case {
	mk := func(n int, rev int64, alt bool) *Cfg {
		c := &Cfg{Rev: rev, Reqs: []Req{{K: "r1", V: 2}, {K: "r2", V: 3}}}
		for i := 0; i < n; i++ {
			t := Tgt{K: fmt.Sprintf("t%03d", i), Addrs: []string{fmt.Sprintf("h%d:1", i)}, Req: "r1"}
			if alt && i%2 == 1 {
				t.Addrs = append(t.Addrs, "x:2")
			}
			if i%3 == 0 {
				t.Req = "r2"
			}
			c.Tgts = append(c.Tgts, t)
		}
		return c
	}
	var out []Case
	sizes := []int{0, 1, 8, 9, 33}
	for _, a := range sizes {
		for _, b := range sizes {
			out = append(out, Case{Family: "sizes", Ops: []Op{
				{K: "load", Cfg: mk(a, 1, false)}, {K: "load", Cfg: mk(b, 2, true)}, {K: "load", Cfg: mk(0, 3, false)}}})
		}
	}
	return out
}

// maskedDiffers runs the loads of c again on a fresh Config whose Handler
// lacks the callbacks in mask (1 Add, 2 Update, 4 Delete: nil function
// values) and reports the first step whose error result, Current() or
// remaining handler calls differ from the full run, or which panics.
func maskedDiffers(c Case, mask int) (int, string) {
	kindBit := map[string]int{"add": 1, "update": 2, "delete": 4}
	key := func(cs []PCall) string {
		var ks []string
		for _, cl := range cs {
			if kindBit[cl.Kind]&mask != 0 {
				continue
			}
			b, _ := json.Marshal(cl)
			ks = append(ks, string(b))
		}
		sort.Strings(ks)
		return strings.Join(ks, "|")
	}
	r := &runner{}
	h := r.handler()
	if mask&1 != 0 {
		h.Add = nil
	}
	if mask&2 != 0 {
		h.Update = nil
	}
	if mask&4 != 0 {
		h.Delete = nil
	}
	var cfg *target.Config
	if c.Base == nil && !c.WithBase {
		cfg = target.NewConfig(h)
	} else {
		var err error
		cfg, err = target.NewConfigWithBase(h, mkCfg(c.Base))
		if err != nil {
			return -1, ""
		}
	}
	for i, o := range c.Ops {
		if i >= len(c.Obs) || o.K != "load" || c.Obs[i].Kind != "load" {
			return -1, ""
		}
		var err error
		var pan interface{}
		func() {
			defer func() { pan = recover() }()
			err = cfg.Load(mkCfg(o.Cfg))
		}()
		if pan != nil {
			return i, fmt.Sprint("panic with a nil callback: ", pan)
		}
		got := r.take()
		if (err != nil) != c.Obs[i].Err || key(got) != key(c.Obs[i].Calls) || !samePCfg(observeCurrent(cfg), c.Obs[i].Cur) {
			return i, "run with a nil callback differs from the full run"
		}
	}
	return -1, ""
}

// invalidEdit makes a configuration invalid (when it can).
func invalidEdit(r *vh.Rand, c *Cfg) string {
	if len(c.Tgts) == 0 {
		c.Tgts = append(c.Tgts, Tgt{K: "t1", Addrs: []string{"a:1"}, Req: "nosuch"})
		return "invalid:missing-request"
	}
	i := r.Intn(len(c.Tgts))
	switch r.Pick(4, 3, 3, 2, 2, 2) {
	case 0: // drop the request a target names
		j := c.hasReq(c.Tgts[i].Req)
		if j >= 0 {
			c.Reqs = append(c.Reqs[:j], c.Reqs[j+1:]...)
		}
		return "invalid:missing-request"
	case 1:
		c.Tgts[i].Addrs = nil
		return "invalid:no-address"
	case 2:
		c.Tgts[i].Req = ""
		if r.Chance(1, 2) && c.hasReq("") < 0 {
			c.Reqs = append(c.Reqs, Req{K: "", V: 2})
		}
		return "invalid:empty-request-name"
	case 3:
		c.Tgts[i].K = ""
		return "invalid:empty-target-name"
	case 4:
		c.Tgts[i].Nil = true
		return "invalid:nil-target"
	default: // rename a request without re-pointing
		j := c.hasReq(c.Tgts[i].Req)
		nk := c.freeReqName(r)
		if j >= 0 && nk != "" {
			c.Reqs[j].K = nk
		} else if j >= 0 {
			c.Reqs = append(c.Reqs[:j], c.Reqs[j+1:]...)
		}
		return "invalid:rename-request-only"
	}
}

func randValid(r *vh.Rand, rev int64) *Cfg {
	c := &Cfg{Rev: rev}
	n := r.Intn(5)
	for i := 0; i < n+2; i++ {
		validEdit(r, c)
	}
	return c
}

// revisions at and near the int64 limits and far apart from each other: any
// arithmetic on them (a difference, a negation) wraps
var extremeRevs = []int64{math.MinInt64, math.MinInt64 + 1, -(1 << 62) - 1, -1, 0, 1, 1 << 62, math.MaxInt64 - 1, math.MaxInt64}

// revExtremes: every ordered pair (x, y) of extreme revisions: load x then load
// y; base x then load y; and load 0, load x, load y.
func revExtremes() []Case {
	a := func(rev int64) *Cfg {
		return &Cfg{Rev: rev, Reqs: []Req{{K: "r1", V: 2}}, Tgts: []Tgt{{K: "t1", Addrs: []string{"a:1"}, Req: "r1"}}}
	}
	b := func(rev int64) *Cfg {
		return &Cfg{Rev: rev, Reqs: []Req{{K: "r1", V: 3}}, Tgts: []Tgt{{K: "t1", Addrs: []string{"a:1"}, Req: "r1"}, {K: "t2", Addrs: []string{"b:1"}, Req: "r1"}}}
	}
	z := func(rev int64) *Cfg { return &Cfg{Rev: rev, Reqs: []Req{{K: "r1", V: 2}}} }
	var out []Case
	for _, x := range extremeRevs {
		for _, y := range extremeRevs {
			out = append(out,
				Case{Family: "rev-extremes", Ops: []Op{{K: "load", Cfg: a(x)}, {K: "load", Cfg: b(y)}}},
				Case{Family: "rev-extremes", Base: a(x), Ops: []Op{{K: "load", Cfg: b(y)}}},
				Case{Family: "rev-extremes", Ops: []Op{{K: "load", Cfg: z(0)}, {K: "load", Cfg: a(x)}, {K: "load", Cfg: b(y)}}})
		}
	}
	return out
}

func revDelta(r *vh.Rand) int64 {
	switch r.Pick(60, 12, 10, 8, 4, 3, 3) {
	case 0:
		return 1
	case 1:
		return 0
	case 2:
		return -1
	case 3:
		return 5
	case 4:
		return -7
	case 5:
		return 1 << 40
	default:
		return -(1 << 40)
	}
}

// randHistory: a history of loads evolving one configuration.  Edits that are
// expected to be rejected (invalid, revision not newer) are made on a copy and
// not carried forward.
func randHistory(r *vh.Rand, h *vh.Meta, mutate bool) Case {
	c := Case{Family: "random"}
	if mutate {
		c.Family = "random-alias"
	}
	var w *Cfg // last configuration expected to be in force
	rev := int64(r.Intn(5)) - 2
	switch r.Pick(6, 2, 1, 1) {
	case 1:
		w = randValid(r, rev)
		c.Base = cloneCfg(w)
	case 2:
		c.WithBase = true
	case 3:
		b := randValid(r, rev)
		invalidEdit(r, b)
		c.Base = b
	}
	n := 2 + r.Intn(6)
	for i := 0; i < n; i++ {
		if mutate && w != nil && r.Chance(1, 3) {
			m := cloneCfg(w)
			k := 1 + r.Intn(2)
			for j := 0; j < k; j++ {
				if r.Chance(2, 3) {
					h.Hist("mutate:" + innerEdit(r, m))
				} else {
					h.Hist("mutate:" + validEdit(r, m))
				}
			}
			valid := true
			if r.Chance(1, 8) {
				h.Hist("mutate:" + invalidEdit(r, m))
				for j := range m.Tgts { // nil map values are kept out of in-place edits
					m.Tgts[j].Nil = false
				}
				valid = false
			}
			if r.Chance(1, 2) {
				m.Rev++
			}
			c.Ops = append(c.Ops, Op{K: "mutate", Cfg: m})
			// usually the caller then loads what it edited: a fresh message of the same
			// content, the very same message, or a new configuration built from the
			// same request / target objects -- mostly with a higher revision
			kind := r.Pick(2, 3, 3, 4)
			if kind > 0 {
				l := cloneCfg(m)
				if r.Chance(3, 4) {
					l.Rev = w.Rev + 1
				}
				switch kind {
				case 1:
					c.Ops = append(c.Ops, Op{K: "load", Cfg: l})
					h.Hist("mutate:then-load-fresh")
				case 2:
					c.Ops = append(c.Ops, Op{K: "reload", Cfg: l, Share: 0})
					h.Hist("mutate:then-reload-same-message")
				default:
					c.Ops = append(c.Ops, Op{K: "reload", Cfg: l, Share: 1})
					h.Hist("mutate:then-reload-shared-objects")
				}
				if valid && l.Rev > w.Rev {
					w = l
				}
			}
			continue
		}
		if r.Chance(1, 25) {
			c.Ops = append(c.Ops, Op{K: "load"})
			h.Hist("load:nil")
			continue
		}
		var nc *Cfg
		if w == nil {
			nc = randValid(r, rev)
		} else {
			nc = cloneCfg(w)
			k := r.Pick(2, 6, 4, 2)
			for j := 0; j < k; j++ {
				h.Hist(validEdit(r, nc))
			}
			if k == 0 {
				h.Hist("edit:identical")
			}
		}
		carry := true
		if r.Chance(1, 5) {
			h.Hist(invalidEdit(r, nc))
			carry = false
		}
		d := revDelta(r)
		switch {
		case r.Chance(1, 12):
			// an absolute revision at or near the int64 limits
			nc.Rev = extremeRevs[r.Intn(len(extremeRevs))]
			h.Hist("rev:extreme")
		case w != nil:
			nc.Rev = w.Rev + d // may wrap once w.Rev is extreme; what counts is the comparison below
			h.Hist(fmt.Sprintf("rev-delta:%+d", d))
		}
		if w != nil && nc.Rev <= w.Rev {
			carry = false
		}
		c.Ops = append(c.Ops, Op{K: "load", Cfg: nc})
		if carry {
			w = nc
		}
	}
	return c
}

// raceCase: one sequential load (revision 1), then three Loads started
// together: different contents with the same next revision (exactly one may
// win), or revisions 2, 3, 2.
func raceCase(r *vh.Rand, h *vh.Meta) Case {
	c := Case{Family: "race"}
	w := randValid(r, 1)
	c.Ops = append(c.Ops, Op{K: "load", Cfg: cloneCfg(w)})
	mk := func(rev int64) *Cfg {
		n := cloneCfg(w)
		k := 1 + r.Intn(3)
		for j := 0; j < k; j++ {
			validEdit(r, n)
		}
		n.Rev = rev
		return n
	}
	var cfgs []*Cfg
	if r.Chance(2, 3) {
		cfgs = []*Cfg{mk(2), mk(2), mk(2)}
		h.Hist("race:same-revision")
	} else {
		cfgs = []*Cfg{mk(2), mk(3), mk(2)}
		h.Hist("race:revisions-2-3-2")
	}
	if r.Chance(2, 3) {
		// behind a load that is parked in a handler: the racers queue on c.mu
		lead := mk(2)
		if len(lead.Reqs) == 0 {
			lead.Reqs = append(lead.Reqs, Req{K: "r1", V: 2})
		}
		lead.Tgts = append(lead.Tgts, Tgt{K: "lead", Addrs: []string{"l:1"}, Req: lead.Reqs[0].K})
		for _, x := range cfgs {
			x.Rev++
		}
		if r.Chance(1, 2) {
			// the leader goroutine loads twice in a row (revisions 2 and 3), the racers carry revision 4
			lead2 := cloneCfg(lead)
			lead2.Rev = 3
			lead2.Tgts = append(lead2.Tgts, Tgt{K: "lead2", Addrs: []string{"l:2"}, Req: lead.Reqs[0].K})
			for _, x := range cfgs {
				x.Rev = 4
			}
			c.Ops = append(c.Ops, Op{K: "race", Cfg: lead, Cfg2: lead2, Cfgs: cfgs[:2]})
			h.Hist("race:queued-behind-two-parked-loads")
		} else {
			c.Ops = append(c.Ops, Op{K: "race", Cfg: lead, Cfgs: cfgs[:2]})
			h.Hist("race:queued-behind-parked-load")
		}
	} else {
		c.Ops = append(c.Ops, Op{K: "race", Cfgs: cfgs})
	}
	c.Ops = append(c.Ops, Op{K: "load", Cfg: mk(9)})
	return c
}

// parCase: optionally one sequential load, then two overlapping loads (the
// second usually an edit of the first with the next revision), optionally one
// more sequential load.
func parCase(r *vh.Rand, h *vh.Meta) Case {
	c := Case{Family: "concurrent"}
	var w *Cfg
	if r.Chance(2, 3) {
		w = randValid(r, 1)
		c.Ops = append(c.Ops, Op{K: "load", Cfg: cloneCfg(w)})
	}
	mk := func(from *Cfg, rev int64, edits int) *Cfg {
		var n *Cfg
		if from == nil {
			n = randValid(r, rev)
		} else {
			n = cloneCfg(from)
			for j := 0; j < edits; j++ {
				h.Hist("par:" + validEdit(r, n))
			}
		}
		n.Rev = rev
		return n
	}
	base := int64(1)
	if w != nil {
		base = w.Rev
	}
	a := mk(w, base+1, 1+r.Intn(3))
	switch r.Pick(8, 1, 1) {
	case 1:
		h.Hist("par:first-" + invalidEdit(r, a))
	case 2:
		a.Rev = base
		h.Hist("par:first-stale")
	}
	var b *Cfg
	src := a
	if r.Chance(1, 3) && w != nil {
		src = w
	}
	b = mk(src, base+2, r.Intn(4))
	switch r.Pick(12, 2, 2, 2, 1) {
	case 1:
		b.Rev = base + 1 // equal to the first load's
		h.Hist("par:second-rev-equal")
	case 2:
		b.Rev = base
		h.Hist("par:second-rev-lower")
	case 3:
		h.Hist("par:second-" + invalidEdit(r, b))
	case 4:
		b = nil
		h.Hist("par:second-nil")
	}
	c.Ops = append(c.Ops, Op{K: "par", Cfg: a, Cfg2: b})
	if r.Chance(1, 2) {
		src := a
		if b != nil && r.Chance(1, 2) {
			src = b
		}
		c.Ops = append(c.Ops, Op{K: "load", Cfg: mk(src, base+3, 1+r.Intn(2))})
	}
	return c
}

// universe of the exhaustive pair family: two target names, two request names
func pairUniverse(thorough bool) []*Cfg {
	type topt struct {
		present bool
		req     string
		addr    string
		o       int
	}
	topts := []topt{{}, {true, "r1", "a:1", 0}, {true, "r1", "b:1", 0}, {true, "r2", "a:1", 0}}
	if thorough {
		topts = append(topts, topt{true, "r1", "a:1", 3})
	}
	ropts := []int{-1, 2, 3}
	var out []*Cfg
	for _, t1 := range topts {
		for _, t2 := range topts {
			for _, r1 := range ropts {
				for _, r2 := range ropts {
					c := &Cfg{}
					if r1 >= 0 {
						c.Reqs = append(c.Reqs, Req{K: "r1", V: r1})
					}
					if r2 >= 0 {
						c.Reqs = append(c.Reqs, Req{K: "r2", V: r2})
					}
					if t1.present {
						c.Tgts = append(c.Tgts, Tgt{K: "t1", Addrs: []string{t1.addr}, Req: t1.req, O: t1.o})
					}
					if t2.present {
						c.Tgts = append(c.Tgts, Tgt{K: "t2", Addrs: []string{t2.addr}, Req: t2.req, O: t2.o})
					}
					out = append(out, c)
				}
			}
		}
	}
	return out
}

// universe of the nil-pointer pair family: one request name whose value is
// absent / a nil pointer / the empty message / a subscription, two targets
// that either use it or are absent
func nilUniverse() []*Cfg {
	var out []*Cfg
	for _, r1 := range []int{-1, 0, 1, 2} {
		for t1 := 0; t1 < 2; t1++ {
			for t2 := 0; t2 < 2; t2++ {
				c := &Cfg{}
				if r1 >= 0 {
					c.Reqs = append(c.Reqs, Req{K: "r1", V: r1})
				}
				if t1 == 1 {
					c.Tgts = append(c.Tgts, Tgt{K: "t1", Addrs: []string{"a:1"}, Req: "r1"})
				}
				if t2 == 1 {
					c.Tgts = append(c.Tgts, Tgt{K: "t2", Addrs: []string{"a:1"}, Req: "r1", O: 3})
				}
				out = append(out, c)
			}
		}
	}
	return out
}

func cfgValid(c *Cfg) bool {
	for _, t := range c.Tgts {
		if t.K == "" || t.Nil || len(t.Addrs) == 0 || t.Req == "" || c.hasReq(t.Req) < 0 {
			return false
		}
	}
	return true
}

// ---------------------------------------------------------------------------

func nontrivial(c Case) bool {
	accepted := c.Base != nil && !c.BaseErr
	for i, o := range c.Ops {
		if i >= len(c.Obs) {
			break
		}
		r := c.Obs[i]
		if o.K == "par" && r.Kind == "par" {
			na, nb := 0, 0
			for _, cl := range r.Calls {
				if cl.By == 0 {
					na++
				} else {
					nb++
				}
			}
			if na > 0 && nb > 0 {
				return true
			}
			if !r.Err || !r.Err2 {
				accepted = true
			}
		}
		if (o.K == "load" || o.K == "reload") && r.Kind == "load" {
			if !r.Err && accepted && len(r.Calls) > 0 {
				return true
			}
			if !r.Err {
				accepted = true
			}
		}
	}
	return false
}

func canonical(c Case) string {
	b, _ := json.Marshal(struct {
		W bool
		B *Cfg
		O []Op
	}{c.WithBase, c.Base, c.Ops})
	return string(b)
}

type emitter struct {
	dir   string
	shard int
	cf    *vh.CaseFile
	meta  *vh.Meta
	limit int
}

func (e *emitter) add(c Case) {
	if hangs >= 3 && c.Family != "replay" {
		e.meta.Hist("skipped-after-hangs")
		return
	}
	runCase(&c)
	if c.Family == "random" && e.meta.Evaluations%5 == 0 && !c.BaseErr {
		for _, mask := range []int{1, 2, 4, 7} {
			if hangs > 0 {
				break
			}
			type md struct {
				i   int
				msg string
			}
			ch := make(chan md, 1)
			go func() { i, msg := maskedDiffers(c, mask); ch <- md{i, msg} }()
			i, msg := -1, ""
			select {
			case x := <-ch:
				i, msg = x.i, x.msg
			case <-time.After(12 * time.Second):
				hangs++
				i, msg = 0, "run with a nil callback hangs"
				if len(c.Obs) == 0 {
					i = -1
				}
			}
			if i >= 0 {
				c.Obs[i] = Obs{Kind: "panic", Msg: fmt.Sprintf("handler mask %d: %s", mask, msg)}
				e.meta.Hist("nil-callback-run-differs")
				break
			}
		}
		e.meta.Hist("nil-callback-runs")
	}
	e.cf.Add(caseTerm(e.cf.Names, c), c)
	if c.BaseErr {
		e.meta.Hist("base:rejected")
	} else if c.Base != nil {
		e.meta.Hist("base:accepted")
	}
	for i, o := range c.Ops {
		if i >= len(c.Obs) {
			break
		}
		r := c.Obs[i]
		switch {
		case r.Kind == "panic" || r.Kind == "hang":
			e.meta.Hist(r.Kind)
		case r.Kind == "race":
			e.meta.Hist("op:race")
			acc := 0
			for _, x := range r.Errs {
				if !x {
					acc++
				}
			}
			e.meta.Hist(fmt.Sprintf("race:accepted:%d", acc))
		case r.Kind == "par":
			e.meta.Hist("op:par")
			na, nb := 0, 0
			for _, cl := range r.Calls {
				if cl.By == 0 {
					na++
				} else {
					nb++
				}
			}
			switch {
			case na == 0:
				e.meta.Hist("par:first-load-not-parked")
			case r.Early:
				e.meta.Hist("par:second-returned-while-first-parked")
			default:
				e.meta.Hist("par:second-blocked-while-first-parked")
			}
			if r.Err2 {
				e.meta.Hist("par:second-rejected")
			} else {
				e.meta.Hist(fmt.Sprintf("par:second-accepted-calls:%d", nb))
			}
			if r.Note != "" {
				e.meta.Hist("par:" + r.Note)
			}
		case o.K == "mutate":
			e.meta.Hist("op:mutate")
			if r.Note != "" {
				e.meta.Hist(r.Note)
			}
		case r.Err:
			e.meta.Hist("load:rejected")
		default:
			e.meta.Hist("load:accepted")
			e.meta.Hist(fmt.Sprintf("calls:%d", len(r.Calls)))
			for _, cl := range r.Calls {
				e.meta.Hist("call:" + cl.Kind)
			}
		}
	}
	e.meta.Count(c.Family, canonical(c), nontrivial(c), describe(c))
	if e.cf.Len() >= e.limit {
		e.flush()
	}
}

func describe(c Case) map[string]interface{} {
	var steps []string
	for i, o := range c.Ops {
		if i >= len(c.Obs) {
			break
		}
		in, _ := json.Marshal(o.Cfg)
		r := c.Obs[i]
		var cs []string
		for _, cl := range r.Calls {
			cs = append(cs, cl.Kind+"("+cl.Name+")")
		}
		steps = append(steps, fmt.Sprintf("%s %s -> err=%v calls=[%s]", o.K, in, r.Err, strings.Join(cs, " ")))
	}
	return map[string]interface{}{"family": c.Family, "base": c.Base, "steps": steps}
}

func (e *emitter) flush() {
	if e.cf.Len() == 0 {
		return
	}
	if err := e.cf.Write(e.dir, e.shard, "TargetCfg.TargetCfgModel TargetCfg.TargetCfgCheck", "case", "check_all"); err != nil {
		vh.Die("write: %v", err)
	}
	e.shard++
	e.cf = vh.NewCaseFile()
}

func readCases(path string) ([]Case, error) {
	b, err := os.ReadFile(path)
	if err != nil {
		return nil, err
	}
	var cs []Case
	if err := json.Unmarshal(b, &cs); err != nil {
		var one Case
		if err2 := json.Unmarshal(b, &one); err2 != nil {
			return nil, err
		}
		cs = []Case{one}
	}
	return cs, nil
}

func main() {
	o := vh.ParseFlags()
	// the target package does not log; should a dependency register glog flags,
	// keep it from writing files
	if f := flag.Lookup("logtostderr"); f != nil {
		f.Value.Set("true")
	}
	if f := flag.Lookup("stderrthreshold"); f != nil {
		f.Value.Set("FATAL")
	}
	meta := vh.NewMeta("corpus cases; every ordered pair (A, B) of configurations over two target names x two request names (target: absent / ->r1 addr a / ->r1 addr b / ->r2 addr a; request: absent / content 1 / content 2) loaded as revisions 1 and 2 (quick: A valid; thorough: all A over a 225-configuration universe, for valid A also revisions 2-then-2 and 2-then-1, plus A as base); every ordered pair over one request name whose value is absent / nil pointer / empty message / a subscription and two targets using it or absent (256); seeded random histories of 2..7 loads evolving one configuration by 0..3 edits per load (add/remove/edit target, re-point, edit/rename/swap/add/remove request, nil request pointer, other fields), invalid variants, nil loads, revision deltas {+1,0,-1,+5,-7,+-2^40} and absolute revisions at the int64 limits; 'race': after one load, three Loads started together behind a barrier with no forced schedule (same next revision, or revisions 2,3,2), accepted if SOME sequential order explains results, calls and Current(); 'sizes': every ordered pair of configurations with 0/1/8/9/33 targets; every fifth random history is run again with nil Add / Update / Delete / all callbacks and must agree with the full run on the remaining calls; Current() is observed twice with the first result scribbled over in between; names include '*', ' ', 'R1' next to 'r1', an empty address and duplicate addresses; 'rev-extremes': every ordered pair of {MinInt64, MinInt64+1, -2^62-1, -1, 0, 1, 2^62, MaxInt64-1, MaxInt64} as load-then-load, base-then-load and after a revision-0 load (243); with and without a (valid/invalid/nil) base; in every fourth history the caller also edits the message it loaded last IN PLACE AT EVERY LEVEL OF SHARING (same map objects, request / target / credentials messages, Addresses slice, nested Subscription / Path / PathElem messages edited where they are) and then usually loads a higher revision built from the same objects (the same message, or a new configuration sharing the request and target objects) or a fresh message; 'alias-deep': 18 kinds of in-place edit x {same message, shared objects, fresh} x revision {2, 1} after a fixed first load; 'concurrent' cases: two overlapping Loads under a forced schedule (the first parked inside its first handler call while the second is issued from another goroutine and watched until it returned or sits in c.mu.Lock()), over every ordered pair of the 16-configuration nil-pointer universe as revisions (1,2) and (2,1) and over seeded random pairs (second load an edit of the first / of the base, revision above / equal / below, invalid, nil) with optional sequential loads before and after. distinct = distinct (base, operations); non-trivial = some accepted load on a non-nil current configuration that produced at least one handler call")
	e := &emitter{dir: o.Out, cf: vh.NewCaseFile(), meta: meta, limit: 1500}

	if o.Replay != "" {
		cs, err := readCases(o.Replay)
		if err != nil {
			vh.Die("replay: %v", err)
		}
		for _, c := range cs {
			if c.Family == "" {
				c.Family = "replay"
			}
			e.add(c)
		}
		e.flush()
		meta.Write(o.Out)
		return
	}

	// corpus first
	if dir := os.Getenv("VERIF_CORPUS"); dir != "" {
		ents, _ := os.ReadDir(dir)
		for _, en := range ents {
			if !strings.HasSuffix(en.Name(), ".json") {
				continue
			}
			cs, err := readCases(dir + "/" + en.Name())
			if err != nil {
				vh.Die("corpus file %s unreadable: %v", en.Name(), err)
			}
			for _, c := range cs {
				c.Family = "corpus"
				e.add(c)
			}
		}
	}

	// exhaustive pairs
	uni := pairUniverse(o.Thorough())
	npairs := 0
	for _, a := range uni {
		if !o.Thorough() && !cfgValid(a) {
			continue
		}
		for _, b := range uni {
			revs := [][2]int64{{1, 2}}
			if o.Thorough() && cfgValid(a) {
				revs = append(revs, [2]int64{2, 2}, [2]int64{2, 1})
			}
			for _, rv := range revs {
				ca, cb := cloneCfg(a), cloneCfg(b)
				ca.Rev, cb.Rev = rv[0], rv[1]
				e.add(Case{Family: "pairs", Ops: []Op{{K: "load", Cfg: ca}, {K: "load", Cfg: cb}}})
				npairs++
			}
			if o.Thorough() {
				ca, cb := cloneCfg(a), cloneCfg(b)
				ca.Rev, cb.Rev = 1, 2
				e.add(Case{Family: "pairs-base", Base: ca, Ops: []Op{{K: "load", Cfg: cb}}})
			}
		}
	}
	nu := nilUniverse()
	for _, a := range nu {
		for _, b := range nu {
			ca, cb := cloneCfg(a), cloneCfg(b)
			ca.Rev, cb.Rev = 1, 2
			e.add(Case{Family: "pairs-nil", Ops: []Op{{K: "load", Cfg: ca}, {K: "load", Cfg: cb}}})
		}
	}
	for _, c := range aliasDeep() {
		e.add(c)
	}
	for _, c := range revExtremes() {
		e.add(c)
	}
	for _, c := range sizeCases() {
		e.add(c)
	}
	// two overlapping loads: every ordered pair of the nil-pointer universe, as
	// revisions (1, 2) and (2, 1)
	for _, a := range nu {
		for _, b := range nu {
			for _, rv := range [][2]int64{{1, 2}, {2, 1}} {
				ca, cb := cloneCfg(a), cloneCfg(b)
				ca.Rev, cb.Rev = rv[0], rv[1]
				e.add(Case{Family: "concurrent-pairs", Ops: []Op{{K: "par", Cfg: ca, Cfg2: cb}}})
			}
		}
	}
	meta.Extra["pair_universe_size"] = len(uni)
	meta.Extra["pairs"] = npairs

	// random histories
	r := vh.NewRand(o.Seed)
	nrand := 3400
	if o.Thorough() {
		nrand = 44000
	}
	// every fourth history also has the caller edit its loaded message in
	// place (since b7e5099 that must not reach the Config)
	for i := 0; i < nrand; i++ {
		e.add(randHistory(r.Fork(), meta, i%4 == 3))
	}
	npar := 700
	if o.Thorough() {
		npar = 6000
	}
	for i := 0; i < npar; i++ {
		e.add(parCase(r.Fork(), meta))
	}
	nrace := 400
	if o.Thorough() {
		nrace = 4000
	}
	for i := 0; i < nrace; i++ {
		e.add(raceCase(r.Fork(), meta))
	}
	e.flush()
	meta.Exhaustive = false
	if err := meta.Write(o.Out); err != nil {
		vh.Die("meta: %v", err)
	}
}

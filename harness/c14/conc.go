// Atomicity of [mutate; announce] (C14, concurrent family): call X is parked at
// its announce point while calls Y run on a second goroutine against the same
// name; see C14Check.v (check_conc).
package main

import (
	"bytes"
	"encoding/json"
	"fmt"
	"runtime"
	"strings"
	"sync"
	"time"

	"github.com/openconfig/gnmi/cache"
	"github.com/openconfig/gnmi/ctree"
	"github.com/openconfig/gnmi/zz_verif/vh"

	pb "github.com/openconfig/gnmi/proto/gnmi"
)

type concRunner struct {
	c       *cache.Cache
	mu      sync.Mutex
	feed    []NotiJ
	armed   string // "", "now", "cb": park at the armedAt-th call of that kind
	armedAt int
	parked  chan struct{}
	release chan struct{}
	now     int64
}

func (r *concRunner) maybePark(kind string) {
	r.mu.Lock()
	hit := false
	if r.armed == kind {
		r.armedAt--
		if r.armedAt <= 0 {
			hit = true
			r.armed = ""
		}
	}
	r.mu.Unlock()
	if hit {
		close(r.parked)
		<-r.release
	}
}

func (r *concRunner) do(o *Op) {
	defer func() { recover() }()
	switch o.K {
	case "upd":
		r.c.GnmiUpdate(mkNoti(o.N))
	case "reset":
		r.c.Reset(o.Tgt)
	case "remove":
		r.c.Remove(o.Tgt)
	case "add":
		r.c.Add(o.Tgt)
	case "sync":
		r.c.Sync(o.Tgt)
	case "connect":
		r.c.Connect(o.Tgt)
	case "updatemeta":
		r.c.UpdateMetadata()
	default:
		panic("conc op " + o.K)
	}
}

// runY is looked for by name in goroutine dumps.
func (r *concRunner) runY(ys []Op, done chan struct{}) {
	defer close(done)
	for i := range ys {
		r.do(&ys[i])
	}
}

// yBlocked: the goroutine running runY waits for a lock.
func yBlocked() bool {
	n := runtime.Stack(stackBuf, true)
	for _, blk := range bytes.Split(stackBuf[:n], []byte("\n\n")) {
		if !bytes.Contains(blk, []byte("(*concRunner).runY")) {
			continue
		}
		nl := bytes.IndexByte(blk, '\n')
		if nl < 0 {
			return false
		}
		head := string(blk[:nl])
		return strings.Contains(head, "sync.") || strings.Contains(head, "semacquire")
	}
	return false
}

func runConc(c *Case) {
	r := &concRunner{parked: make(chan struct{}), release: make(chan struct{})}
	cache.Now = func() time.Time {
		r.maybePark("now")
		r.mu.Lock()
		defer r.mu.Unlock()
		return time.Unix(0, r.now)
	}
	defer func() { cache.Now = time.Now }()
	var opts []cache.Option
	if !c.Cfg.EventDriven {
		opts = append(opts, cache.DisableEventDrivenEmulation())
	}
	r.c = cache.New(c.Targets, opts...)
	r.c.SetClient(func(l *ctree.Leaf) {
		if n, ok := l.Value().(*pb.Notification); ok {
			r.mu.Lock()
			r.feed = append(r.feed, projNoti(n))
			r.mu.Unlock()
		}
		r.maybePark("cb")
	})
	for i := range c.Ops {
		r.mu.Lock()
		r.now = c.Ops[i].Now
		r.mu.Unlock()
		r.do(&c.Ops[i])
	}
	r.mu.Lock()
	r.now = c.X.Now
	r.armed = c.Park
	r.armedAt = c.ParkAt
	r.mu.Unlock()
	xdone := make(chan struct{})
	go func() { defer close(xdone); r.do(c.X) }()
	note := ""
	select {
	case <-r.parked:
		note = "parked"
	case <-xdone:
		note = "x-finished-without-parking"
	case <-time.After(5 * time.Second):
		note = "hang-x"
	}
	r.mu.Lock()
	r.armed = ""
	r.mu.Unlock()
	ydone := make(chan struct{})
	go r.runY(c.Y, ydone)
	if note == "parked" {
		t0 := time.Now()
		for i := 0; ; i++ {
			finished := false
			select {
			case <-ydone:
				finished = true
			default:
			}
			if finished {
				note += ",y-finished-while-parked"
				break
			}
			if i > 20 && yBlocked() {
				note += ",y-blocked"
				break
			}
			if time.Since(t0) > 200*time.Millisecond {
				note += ",y-slow"
				break
			}
			pause(i)
		}
		close(r.release)
	}
	for _, ch := range []chan struct{}{xdone, ydone} {
		select {
		case <-ch:
		case <-time.After(5 * time.Second):
			note += ",hang"
		}
	}
	c.CNote = note
	r.mu.Lock()
	c.CFeed = append([]NotiJ{}, r.feed...)
	r.mu.Unlock()
	rr := &runner{c: r.c, names: concNames(c)}
	c.CFinal = rr.observe()
}

func concNames(c *Case) []string {
	all := &Case{Targets: c.Targets, Ops: append(append(append([]Op{}, c.Ops...), *c.X), c.Y...)}
	return caseNames(all)
}

func concTerm(t *termer, c *Case) string {
	names := concNames(c)
	ops := func(l []Op) string {
		el := make([]string, len(l))
		for i := range l {
			el[i] = t.op(&l[i], names)
		}
		return vh.List(el)
	}
	feed := make([]string, len(c.CFeed))
	for i := range c.CFeed {
		feed[i] = t.noti(&c.CFeed[i])
	}
	tg := make([]string, len(c.Targets))
	for i, s := range c.Targets {
		tg[i] = t.str(s)
	}
	blocked := "None"
	switch {
	case strings.Contains(c.CNote, "y-blocked"):
		blocked = "(Some true)"
	case strings.Contains(c.CNote, "y-finished-while-parked"):
		blocked = "(Some false)"
	}
	return fmt.Sprintf("CConc (Cfg %s %s [], %s, %s, %s, %s, %s, %s, %s, %s)", zlit(c.Cfg.Thr), vh.Bool(c.Cfg.EventDriven),
		vh.List(tg), ops(c.Ops), t.op(c.X, names), ops(c.Y), vh.Bool(c.Park == "now"), blocked, vh.List(feed), t.tobs(c.CFinal))
}

func addConcCase(e *emitter, c *Case) {
	runConc(c)
	e.cf.addRaw(concTerm(e.cf.t, c), c)
	e.meta.Hist("conc:x=" + c.X.K + "/" + c.Park)
	for _, part := range strings.Split(c.CNote, ",") {
		e.meta.Hist("conc:" + part)
	}
	cj, _ := json.Marshal(struct {
		T []string
		O []Op
		X *Op
		Y []Op
		P string
	}{c.Targets, c.Ops, c.X, c.Y, c.Park})
	e.meta.Count(c.Family, string(cj), strings.Contains(c.CNote, "parked"),
		map[string]interface{}{"family": c.Family, "kind": "conc", "targets": c.Targets, "ops": c.Ops, "x": c.X, "y": c.Y, "park": c.Park})
	if e.cf.Len() >= e.limit {
		e.flush()
	}
}

// ---------------------------------------------------------------------------
// generator: every X x park point x Y on the name t (u = a bystander)

func generateConc(e *emitter, o vh.Opts, r *vh.Rand) {
	const N = 50 // clock of the concurrent phase
	leaf := func(t, l string, ts, v int64) *NotiJ { return updN(ts, pfx(t, "a"), pth(l), ival(v)) }
	setups := [][]Op{
		{{K: "upd", Now: 1, N: leaf("t", "b", 5, 1)}, {K: "upd", Now: 2, N: leaf("t", "c", 5, 1)}, {K: "upd", Now: 3, N: leaf("u", "b", 5, 1)}},
		{{K: "upd", Now: 1, N: leaf("t", "b", 5, 1)}, {K: "sync", Now: 2, Tgt: "t"}, {K: "updatemeta", Now: 3}},
	}
	type xs struct {
		op   Op
		park []string
		ats  []int // which call of that kind parks (Reset stamps every announcement)
	}
	xsl := []xs{
		{Op{K: "remove", Now: N, Tgt: "t"}, []string{"now", "cb"}, []int{1}},
		// Reset: first call (a metadata update) and later ones, up to the announcement of the root deletes
		{Op{K: "reset", Now: N, Tgt: "t"}, []string{"now", "cb"}, []int{1, 2, 4, 6, 8, 12, 13, 14, 15}},
		{Op{K: "upd", Now: N, N: leaf("t", "b", 9, 2)}, []string{"cb"}, []int{1}},
		{Op{K: "upd", Now: N, N: delN(9, pfx("t", "a"), pth("*"))}, []string{"cb"}, []int{1, 2}},
		{Op{K: "sync", Now: N, Tgt: "t"}, []string{"now", "cb"}, []int{1}},
		{Op{K: "connect", Now: N, Tgt: "t"}, []string{"now", "cb"}, []int{1, 2}},
	}
	ysl := func(x Op) [][]Op {
		out := [][]Op{
			{{K: "upd", Now: N, N: leaf("t", "d", 8, 3)}},
			{{K: "upd", Now: N, N: leaf("t", "b", 12, 4)}},
			{{K: "upd", Now: N, N: delN(10, pfx("t", "a"), pth("*"))}},
			{{K: "reset", Now: N, Tgt: "t"}},
			{{K: "remove", Now: N, Tgt: "t"}},
			{{K: "upd", Now: N, N: leaf("u", "c", 8, 3)}},
			{{K: "reset", Now: N, Tgt: "t"}, {K: "upd", Now: N, N: leaf("t", "e", 8, 5)}},
		}
		if x.K == "remove" {
			// the old incarnation goes, a new one is added and fed at once
			out = append(out,
				[]Op{{K: "add", Now: N, Tgt: "t"}, {K: "upd", Now: N, N: leaf("t", "d", 8, 3)}},
				[]Op{{K: "add", Now: N, Tgt: "t"}, {K: "upd", Now: N, N: leaf("t", "b", 12, 4)}, {K: "upd", Now: N, N: leaf("t", "c", 12, 4)}})
		}
		return out
	}
	reps := 1
	if o.Thorough() {
		reps = 5
	}
	for rep := 0; rep < reps; rep++ {
		for _, su := range setups {
			for _, x := range xsl {
				for _, pk := range x.park {
					for _, at := range x.ats {
						ys := ysl(x.op)
						if at > 1 && !o.Thorough() {
							ys = ys[:3] // update new leaf, update same leaf, wildcard delete
						}
						for _, y := range ys {
							xo := x.op
							c := &Case{Family: "atomicity", Kind: "conc", Cfg: CfgJ{EventDriven: false}, Targets: []string{"t", "u"},
								Ops: append([]Op{}, su...), X: &xo, Y: append([]Op{}, y...), Park: pk, ParkAt: at}
							e.add(c)
						}
					}
				}
			}
		}
	}
	_ = r
}

// Generators of the C14 harness.
package main

import (
	"fmt"

	"github.com/openconfig/gnmi/zz_verif/vh"
)

const requireLibs = "CTree.CTreeModel Path.PathModel Cache.CacheModel Cache.MultiCache Cache.C14Check"
const caseTypeName = "c14case"
const checkFnName = "check_all"

func wrapCase(t *termer, c *Case, term string) string {
	if c.Cfg.Srv != "" {
		return "CSeqS " + t.str(c.Cfg.Srv) + " " + term
	}
	return "CSeq " + term
}

// latency histories belong to C15
func addLatCase(e *emitter, c *Case) {}
func addClatCase(e *emitter, c *Case) {}

var allTargets = []string{"t", "u", "v", "w"}

// ---------------------------------------------------------------------------
// non-triviality: the step is a Reset / Remove of a target that held at least
// one non-metadata leaf while another target held one too, or some subscriber
// received a response during the step.

func dataLeaves(o *TObsJ) int {
	n := 0
	for _, e := range o.Dump {
		if len(e.Path) > 0 && e.Path[0] != "meta" {
			n++
		}
	}
	return n
}

func nontrivialStep(c *Case, i int) bool {
	prev := c.Init
	if i > 0 {
		prev = c.Obs[i-1].Tgts
	}
	o := &c.Ops[i]
	if o.K == "reset" || o.K == "remove" {
		mine, others := 0, 0
		for j := range prev {
			if prev[j].Name == o.Tgt {
				mine += dataLeaves(&prev[j])
			} else {
				others += dataLeaves(&prev[j])
			}
		}
		if mine > 0 && others > 0 {
			return true
		}
	}
	for _, s := range c.Obs[i].Subs {
		if len(s.Resp) > 0 && o.K != "sub" {
			return true
		}
	}
	return false
}

// ---------------------------------------------------------------------------
// exhaustive short histories over two targets

func exhAlphabet() []Op {
	return []Op{
		{K: "upd", N: updN(5, pfx("t", "a"), pth("b"), ival(1))},
		{K: "upd", N: updN(5, pfx("u", "a"), pth("b"), ival(1))},
		{K: "upd", N: updN(6, pfx("t"), pth("d", "e"), ival(2))},
		{K: "reset", Tgt: "t"},
		{K: "remove", Tgt: "t"},
		{K: "add", Tgt: "t"},
		{K: "sync", Tgt: "t"},
		{K: "connect", Tgt: "u"},
		{K: "updatemeta"},
	}
}

func exhaustive(e *emitter, family string, al []Op, depth int) {
	idx := make([]int, depth)
	var rec func(d int)
	rec = func(d int) {
		if d == depth {
			ops := make([]Op, depth)
			for i, k := range idx {
				ops[i] = al[k]
				ops[i].Now = int64(i + 1)
			}
			e.add(&Case{Family: family, Cfg: CfgJ{EventDriven: true}, Targets: []string{"t", "u"}, Ops: ops})
			return
		}
		for i := range al {
			idx[d] = i
			rec(d + 1)
		}
	}
	rec(0)
}

// ---------------------------------------------------------------------------
// random histories

type gen struct {
	r      *vh.Rand
	names  []string
	clock  int64
	stream bool
}

func (g *gen) tick() int64 {
	g.clock += int64(g.r.Intn(3))
	return g.clock
}

func (g *gen) ts() int64 {
	switch g.r.Pick(20, 3, 1) {
	case 0:
		return int64(1 + g.r.Intn(4))
	case 1:
		return 5 + int64(g.r.Intn(6))
	}
	return 1700000000000000000 + int64(g.r.Intn(3))
}

func (g *gen) target() string { return g.names[g.r.Intn(len(g.names))] }

func (g *gen) val() *ValJ {
	switch g.r.Pick(10, 3, 1, 1, 1) {
	case 0:
		return ival(int64(1 + g.r.Intn(2)))
	case 1:
		return sval([]string{"x", "y"}[g.r.Intn(2)])
	case 2:
		return &ValJ{K: "uint", I: int64(1 + g.r.Intn(2))}
	case 3:
		return bval(g.r.Chance(1, 2))
	}
	return &ValJ{K: "json", S: "{\"k\":1}"}
}

var fullPaths = [][]ElemJ{
	elems("a", "b"),
	elems("a", "c"),
	{{Name: "d", Keys: map[string]string{"k": "1"}}, {Name: "e"}},
	elems("f"),
	elems("g", "h", "i"),
	elems("a", "b", "c"), // collides with a/b
	elems("intf", "eth0"), // a root with a longer name
	elems("g", "*"),       // a leaf literally named "*" (stored literally; queries and deletes read it as a glob)
}

func (g *gen) fullPath() []ElemJ { return fullPaths[g.r.Pick(8, 6, 3, 4, 3, 1, 3, 1)] }

func (g *gen) prefix(t string, pe []ElemJ) *PathJ {
	p := &PathJ{Target: t, Elems: pe}
	if g.r.Chance(1, 8) {
		p.Origin = "o"
	}
	return p
}

func (g *gen) notification() *NotiJ {
	t := g.target()
	switch g.r.Pick(50, 12, 6, 8, 2, 4, 2, 3) {
	case 0: // single update, random prefix/path split
		full := g.fullPath()
		k := g.r.Intn(len(full) + 1)
		n := &NotiJ{TS: g.ts(), Prefix: g.prefix(t, full[:k]), Upd: []UpdJ{{Path: &PathJ{Elems: full[k:]}, Val: g.val()}}}
		if g.r.Chance(1, 25) && k == 0 { // deprecated element form
			var names []string
			for _, x := range full {
				names = append(names, x.Name)
			}
			n.Upd[0].Path = &PathJ{Element: names}
		}
		return n
	case 1: // single delete
		q := [][]string{{"a", "b"}, {"a", "*"}, {"*"}, {"a"}, {"d", "*"}, {"f"}, {"g"}, {"*", "b"}}[g.r.Pick(6, 5, 4, 5, 2, 3, 2, 2)]
		k := 0
		if len(q) > 1 && q[0] != "*" && g.r.Chance(1, 2) {
			k = 1
		}
		return &NotiJ{TS: g.ts(), Prefix: g.prefix(t, elems(q[:k]...)), Del: []PathJ{{Elems: elems(q[k:]...)}}}
	case 2: // atomic container
		at := [][]string{{"a", "b"}, {"g"}, {"a"}}[g.r.Pick(3, 4, 1)]
		n := &NotiJ{TS: g.ts(), Prefix: g.prefix(t, elems(at...)), Atomic: true}
		k := 1 + g.r.Intn(2)
		for i := 0; i < k; i++ {
			n.Upd = append(n.Upd, UpdJ{Path: pth([]string{"x", "y"}[i]), Val: g.val()})
		}
		return n
	case 3: // multi, pairwise distinct update paths
		n := &NotiJ{TS: g.ts(), Prefix: &PathJ{Target: t}}
		perm := []int{0, 1, 2, 3, 4}
		for i := range perm {
			j := i + g.r.Intn(len(perm)-i)
			perm[i], perm[j] = perm[j], perm[i]
		}
		nu, nd := g.r.Intn(4), g.r.Intn(3)
		if nu+nd < 2 {
			nu = 2
		}
		for i := 0; i < nu; i++ {
			n.Upd = append(n.Upd, UpdJ{Path: &PathJ{Elems: fullPaths[perm[i]]}, Val: g.val()})
		}
		for i := 0; i < nd; i++ {
			q := [][]string{{"a", "b"}, {"a", "*"}, {"f"}, {"d", "*"}, {"g"}}[g.r.Intn(5)]
			n.Del = append(n.Del, PathJ{Elems: elems(q...)})
		}
		return n
	case 4: // empty
		return &NotiJ{TS: g.ts(), Prefix: &PathJ{Target: t}}
	case 5: // metadata written from outside, stamped with the clock as the cache's own writers do
		if g.r.Chance(1, 2) { // round 7: a DELETE addressed to the metadata subtree (gnmiRemove -> ResetEntry)
			q := [][]string{{"meta", "targetLeaves"}, {"meta", "targetLeavesAdded"}, {"meta", "targetLeavesUpdated"}, {"meta", "targetLeavesDeleted"},
				{"meta", "latestTimestamp"}, {"meta", "targetSize"}, {"meta", "sync"}, {"meta", "connected"}, {"meta", "connectError"}, {"meta"}, {"meta", "*"}}[g.r.Intn(11)]
			return delN(g.clock+1, &PathJ{Target: t}, pth(q...))
		}
		k := []string{"sync", "connected", "connectedAddress"}[g.r.Intn(3)]
		var v *ValJ
		switch k {
		case "sync", "connected":
			v = bval(g.r.Chance(2, 3))
		default:
			v = sval("10.0.0.1")
		}
		return &NotiJ{TS: g.clock, Prefix: &PathJ{Target: t}, Upd: []UpdJ{{Path: pth("meta", k), Val: v}}}
	case 6: // unknown target / no prefix
		n := updN(g.ts(), pfx("nosuch", "a"), pth("b"), ival(1))
		if g.r.Chance(1, 2) {
			n.Prefix = nil
		}
		return n
	default: // whole path in the prefix
		full := g.fullPath()
		return &NotiJ{TS: g.ts(), Prefix: g.prefix(t, full), Upd: []UpdJ{{Path: &PathJ{}, Val: g.val()}}}
	}
}

// randomCase: 2..4 target names with overlapping path sets; GnmiUpdate calls
// interleaved with lifecycle calls; the clock never runs backwards.
func randomCase(r *vh.Rand, stream bool, maxOps int) *Case {
	g := &gen{r: r, stream: stream}
	k := 2 + r.Intn(3)
	g.names = append([]string{}, allTargets[:k]...)
	c := &Case{Family: "random"}
	if stream {
		c.Family = "stream"
	}
	for _, nm := range g.names {
		if r.Chance(3, 4) {
			c.Targets = append(c.Targets, nm)
		}
	}
	if len(c.Targets) == 0 {
		c.Targets = []string{g.names[0]}
	}
	c.Cfg.EventDriven = r.Chance(2, 3)
	if r.Chance(1, 3) {
		c.Cfg.Thr = 2
	}
	// construction options of the cache
	if r.Chance(1, 3) {
		c.Cfg.Srv = []string{"collector-1", "srv"}[r.Intn(2)]
	}
	if r.Chance(1, 4) {
		c.Cfg.Excl = [][]string{{"sync"}, {"targetLeaves", "connectedAddress"}, {"latestTimestamp", "connected", "connectError"}}[r.Intn(3)]
	}
	n := 3 + r.Intn(maxOps-2)
	wSub := 0
	if stream {
		wSub = 8
	}
	for i := 0; i < n; i++ {
		switch r.Pick(55, 9, 6, 5, 4, 4, 3, 6, 2, wSub) {
		case 0:
			now := g.tick()
			c.Ops = append(c.Ops, Op{K: "upd", Now: now, N: g.notification()})
		case 1:
			c.Ops = append(c.Ops, Op{K: "reset", Now: g.tick(), Tgt: g.target()})
		case 2:
			c.Ops = append(c.Ops, Op{K: "remove", Now: g.tick(), Tgt: g.target()})
		case 3:
			c.Ops = append(c.Ops, Op{K: "add", Now: g.tick(), Tgt: g.target()})
		case 4:
			c.Ops = append(c.Ops, Op{K: "sync", Now: g.tick(), Tgt: g.target()})
		case 5:
			c.Ops = append(c.Ops, Op{K: "connect", Now: g.tick(), Tgt: g.target()})
		case 6:
			c.Ops = append(c.Ops, Op{K: "connecterror", Now: g.tick(), Tgt: g.target(), Msg: "boom"})
		case 7:
			c.Ops = append(c.Ops, Op{K: "updatemeta", Now: g.tick()})
		case 8:
			c.Ops = append(c.Ops, Op{K: "updatesize", Now: g.tick()})
		default:
			t := g.target()
			if r.Chance(1, 4) {
				t = "*"
			}
			if r.Chance(1, 2) {
				c.Ops = append(c.Ops, Op{K: "sub", Now: g.tick(), Tgt: t})
			} else { // with the initial walk; often a Remove lands between registration and walk
				o := Op{K: "subwalk", Now: g.tick(), Tgt: t}
				switch r.Pick(3, 2, 3) {
				case 0:
					o.Rm = t
					if t == "*" {
						o.Rm = g.target()
					}
				case 1:
					o.Rm = g.target()
				}
				c.Ops = append(c.Ops, o)
			}
		}
	}
	if stream && r.Chance(1, 3) {
		// a leaf literally named "*" is stored and deleted again while streams run: its delete
		// notification ends with "*" but is no whole-target delete
		t := g.target()
		c.Ops = append(c.Ops,
			Op{K: "upd", Now: g.tick(), N: updN(50, pfx(t, "g"), pth("*"), ival(1))},
			Op{K: "upd", Now: g.tick(), N: delN(60, pfx(t), pth("g"))})
	}
	if stream { // at least one subscriber, early
		t := g.target()
		if r.Chance(1, 3) {
			t = "*"
		}
		at := r.Intn(2)
		ops := append([]Op{}, c.Ops[:at]...)
		ops = append(ops, Op{K: "sub", Tgt: t})
		c.Ops = append(ops, c.Ops[at:]...)
	}
	return c
}

func ruleText() string {
	return "corpus cases; every history of 1..D calls (D=3 quick, 4 thorough) over a 9-call alphabet on targets t,u " +
		"(update t:a/b, update u:a/b, update t:d/e, Reset t, Remove t, Add t, Sync t, Connect u, UpdateMetadata); " +
		"seeded random histories of 3..12 calls over 2..4 target names sharing the index paths a/b a/c d[k]/e f g/h/i a/b/c intf/eth0 g/* (a leaf literally named *) (+origin o) " +
		"(single/multi/atomic/delete/empty notifications, wildcard deletes, metadata written from outside, unknown targets, " +
		"Reset/Remove/Add/Sync/Connect/ConnectError/UpdateMetadata/UpdateSize, monotone clock, future threshold in {0,2}); " +
		"the same with 1..4 STREAM subscribers (single target or *) attached at random points, half of them with the initial walk and a " +
		"Cache.Remove forced between registration and walk (hook process:before-walk). " +
		"nested: 2..3 STREAM subscribers of one target on nested / sibling subscription paths (a, a/b, a/c, a/b/x, d, whole target, *) disconnecting in " +
		"every order before an update / device delete / Reset / Remove; backlog: subscribers whose Send is blocked while updates queue up, then " +
		"Reset / Remove / device delete / re-Add, then the release; " +
		"options: cache built with/without a server name x future threshold x excluded metadata x event-driven emulation, through Sync / Connect / " +
		"UpdateMetadata / Reset / wildcard delete / Remove / re-Add (the random family draws these options too); " +
		"names: roots / origins named openconfig, Openconfig, default, the target's own name, another target's name, meta, * under Reset / Remove / " +
		"device delete with single-target and * subscribers open and traffic afterwards; " +
		"atomicity of [mutate; announce]: a call X (Remove / Reset / update / delete / Sync / Connect) parked inside its first cache.Now() or inside its " +
		"first feed callback while calls Y (Add+update, update, delete, Reset, Remove, update of another target) run on a second goroutine " +
		"against the same name, every X x park point x Y; " +
		"metaaddr: legal input addressed to the metadata subtree (delete of meta/<every registered int / bool / string entry>, of an unknown entry, of meta, meta/*, " +
		"the same through the prefix, several in one notification, updates of meta/<counter> from outside) on one or both of two targets holding data, followed by " +
		"Reset / Remove / UpdateMetadata+Reset / Sync+Connect+Reset / data delete+Reset / ConnectError+Reset twice / Reset of the other / wildcard delete, then traffic and Reset of both; " +
		"distinct = distinct (config, targets, calls); non-trivial = some Reset/Remove hits a target holding a non-metadata leaf " +
		"while another target holds one too, or a subscriber received a response"
}

func generate(e *emitter, o vh.Opts) {
	depth := 3
	if o.Thorough() {
		depth = 4
	}
	al := exhAlphabet()
	for d := 1; d <= depth; d++ {
		exhaustive(e, fmt.Sprintf("exhaustive-%d", d), al, d)
	}
	e.meta.Extra["exhaustive_alphabet_size"] = len(al)
	e.meta.Extra["exhaustive_depth"] = depth
	r := vh.NewRand(o.Seed)
	nrand, nstream := 700, 250
	if o.Thorough() {
		nrand, nstream = 20000, 6000
	}
	for i := 0; i < nrand; i++ {
		e.add(randomCase(r.Fork(), false, 12))
	}
	for i := 0; i < nstream; i++ {
		e.add(randomCase(r.Fork(), true, 10))
	}
	generateConc(e, o, r.Fork())
	generateSubs(e, o, r.Fork())
	generateNames(e, o)
	generateOptions(e, o)
	generateMetaAddr(e, o)
}

// Round 5v families of C14.
//
// "nested": several STREAM subscribers of ONE target on nested / sibling
// subscription paths (and the whole target, and "*"), disconnecting in every
// order (none, the first, the second, both ways), before an update / a device
// delete / Reset / Remove of that target.
//
// "backlog": subscribers (single target, a path below it, "*") whose Send is
// blocked while updates of distinct leaves queue up, then Reset / Remove / a
// device delete, more traffic, and only then the release: queued updates first,
// then the deletes, single-target streams end cleanly after a whole-target
// delete, the others stay open.
package main

import "github.com/openconfig/gnmi/zz_verif/vh"

func generateSubs(e *emitter, o vh.Opts, r *vh.Rand) {
	leaf := func(t string, ts, v int64, p ...string) *NotiJ {
		return updN(ts, pfx(t, p[0]), pth(p[1:]...), ival(v))
	}
	type sp struct {
		t string
		p []string
	}
	pairs := [][]sp{
		{{"t", []string{"a"}}, {"t", []string{"a", "b"}}},
		{{"t", []string{"a", "b"}}, {"t", []string{"a"}}},
		{{"t", []string{"a", "b"}}, {"t", []string{"a", "c"}}},
		{{"t", nil}, {"t", []string{"a", "b"}}},
		{{"t", []string{"a"}}, {"t", []string{"a"}}},
		{{"t", []string{"a", "b"}}, {"t", []string{"a", "b", "x"}}},
		{{"*", []string{"a"}}, {"t", []string{"a", "b"}}},
		{{"t", []string{"a"}}, {"t", []string{"a", "b"}}, {"t", []string{"a", "b"}}},
		{{"t", []string{"a"}}, {"t", []string{"d"}}, {"t", []string{"a", "b"}}},
	}
	finals := func(now int64) [][]Op {
		return [][]Op{
			{{K: "upd", Now: now, N: leaf("t", 20, 7, "a", "b")}},
			{{K: "upd", Now: now, N: leaf("t", 20, 7, "a", "c")}, {K: "upd", Now: now + 1, N: leaf("t", 21, 8, "a", "b", "x", "y")}},
			{{K: "upd", Now: now, N: delN(30, pfx("t"), pth("a"))}},
			{{K: "reset", Now: now, Tgt: "t"}},
			{{K: "remove", Now: now, Tgt: "t"}},
			{{K: "upd", Now: now, N: leaf("t", 20, 7, "a", "b")}, {K: "remove", Now: now + 1, Tgt: "t"}},
		}
	}
	setup := []Op{
		{K: "upd", Now: 1, N: leaf("t", 5, 1, "a", "b")},
		{K: "upd", Now: 2, N: leaf("t", 5, 1, "a", "c")},
		{K: "upd", Now: 3, N: leaf("t", 5, 1, "d", "e")},
		{K: "upd", Now: 4, N: leaf("u", 5, 1, "a", "b")},
	}
	for _, pr := range pairs {
		// disconnect orders over the subscribers of this case
		orders := [][]int{{}, {0}, {1}, {len(pr) - 1}, {0, 1}, {1, 0}}
		if len(pr) == 3 {
			orders = append(orders, []int{2, 1}, []int{1, 2}, []int{2, 0})
		}
		for _, ord := range orders {
			for fi, fin := range finals(10) {
				if !o.Thorough() && len(pr) == 3 && fi%2 == 1 {
					continue
				}
				c := &Case{Family: "nested", Cfg: CfgJ{EventDriven: false}, Targets: []string{"t", "u"}}
				c.Ops = append(c.Ops, setup...)
				for _, s := range pr {
					c.Ops = append(c.Ops, Op{K: "subp", Now: 5, Tgt: s.t, SP: s.p})
				}
				c.Ops = append(c.Ops, Op{K: "upd", Now: 6, N: leaf("t", 10, 2, "a", "b")})
				for _, i := range ord {
					c.Ops = append(c.Ops, Op{K: "unsub", Now: 7, Idx: i})
				}
				c.Ops = append(c.Ops, fin...)
				e.add(c)
			}
		}
	}

	// backlog
	subsets := [][]sp{
		{{"t", nil}},
		{{"*", nil}},
		{{"t", nil}, {"*", nil}},
		{{"t", []string{"a"}}, {"u", nil}},
		{{"t", []string{"a", "b"}}, {"t", nil}, {"*", []string{"a"}}},
	}
	queued := [][]Op{
		{{K: "upd", N: leaf("t", 20, 3, "a", "b")}},
		{{K: "upd", N: leaf("t", 20, 3, "a", "b")}, {K: "upd", N: leaf("t", 20, 3, "d", "e")}, {K: "upd", N: leaf("u", 20, 3, "a", "b")}},
		{{K: "upd", N: leaf("t", 20, 3, "a", "n1")}, {K: "upd", N: leaf("t", 20, 3, "a", "n2")}},
		{},
	}
	clears := [][]Op{
		{{K: "reset", Tgt: "t"}},
		{{K: "remove", Tgt: "t"}},
		{{K: "upd", N: delN(30, pfx("t"), pth("a"))}},
		{{K: "upd", N: delN(30, pfx("t"), pth("*"))}},
		{{K: "reset", Tgt: "t"}, {K: "upd", N: leaf("t", 40, 9, "a", "z")}},
		{{K: "remove", Tgt: "t"}, {K: "add", Tgt: "t"}, {K: "upd", N: leaf("t", 40, 9, "a", "z")}},
		{{K: "reset", Tgt: "u"}},
	}
	for si, ss := range subsets {
		for qi, q := range queued {
			for ci, cl := range clears {
				if !o.Thorough() && (si+qi+ci)%2 == 1 && si > 1 {
					continue
				}
				c := &Case{Family: "backlog", Cfg: CfgJ{EventDriven: false}, Targets: []string{"t", "u"}}
				c.Ops = append(c.Ops, setup...)
				now := int64(5)
				for _, s := range ss {
					c.Ops = append(c.Ops, Op{K: "subp", Now: now, Tgt: s.t, SP: s.p})
				}
				c.Ops = append(c.Ops, Op{K: "gate", Now: now})
				for _, x := range append(append([]Op{}, q...), cl...) {
					now++
					x.Now = now
					c.Ops = append(c.Ops, x)
				}
				c.Ops = append(c.Ops, Op{K: "ungate", Now: now + 1})
				c.Ops = append(c.Ops, Op{K: "upd", Now: now + 2, N: leaf("u", 50, 5, "a", "c")})
				e.add(c)
			}
		}
	}
	_ = r
}

// Round 6 family "names": roots and origins whose NAMES look like defaults or
// reserved words -- openconfig, Openconfig, default, the target's own name,
// another target's name, meta, "*" -- for the data that a Reset / Remove /
// device delete announces, with single-target subscribers (whole target, the
// path of that root) and a "*" subscriber open; traffic goes on afterwards.
func generateNames(e *emitter, o vh.Opts) {
	names := []string{"openconfig", "Openconfig", "default", "t", "u", "meta", "*"}
	for _, nm := range names {
		for form := 0; form < 2; form++ { // 0: the name is the prefix ORIGIN, 1: it is the first path element
			mk := func(ts, v int64, leafName string) *NotiJ {
				if form == 0 {
					return updN(ts, &PathJ{Target: "t", Origin: nm, Elems: elems("a")}, pth(leafName), ival(v))
				}
				return updN(ts, pfx("t", nm), pth(leafName), ival(v))
			}
			finals := [][]Op{
				{{K: "reset", Tgt: "t"}},
				{{K: "remove", Tgt: "t"}},
				{{K: "reset", Tgt: "t"}, {K: "reset", Tgt: "t"}},
			}
			if form == 0 {
				finals = append(finals, []Op{{K: "upd", N: delN(30, &PathJ{Target: "t", Origin: nm}, pth("*"))}})
			} else {
				finals = append(finals, []Op{{K: "upd", N: delN(30, pfx("t"), pth(nm))}})
			}
			for _, fin := range finals {
				c := &Case{Family: "names", Cfg: CfgJ{EventDriven: false}, Targets: []string{"t", "u"}}
				now := int64(1)
				add := func(x Op) { x.Now = now; now++; c.Ops = append(c.Ops, x) }
				add(Op{K: "upd", N: mk(5, 1, "b")})
				add(Op{K: "upd", N: updN(5, pfx("t", "a"), pth("c"), ival(1))})
				add(Op{K: "upd", N: updN(5, pfx("t", "zz"), pth("y"), ival(1))})
				add(Op{K: "upd", N: updN(5, pfx("u", "a"), pth("c"), ival(1))})
				add(Op{K: "sync", Tgt: "t"})
				add(Op{K: "updatemeta"})
				add(Op{K: "subp", Tgt: "t"})
				add(Op{K: "subp", Tgt: "t", SP: []string{nm}})
				add(Op{K: "subp", Tgt: "*"})
				add(Op{K: "upd", N: mk(10, 2, "b")})
				for _, x := range fin {
					add(x)
				}
				// what is re-delivered afterwards must still reach the subscribers that are open
				add(Op{K: "upd", N: updN(40, pfx("t", "a"), pth("c"), ival(7))})
				add(Op{K: "upd", N: mk(41, 8, "b")})
				add(Op{K: "upd", N: updN(40, pfx("u", "a"), pth("c"), ival(7))})
				e.add(c)
			}
		}
	}
}

// Round 6 family "options": the construction options of the cache (server
// name, future threshold, excluded metadata, event-driven emulation) x the
// lifecycle: every metadata value after Reset must be what it was right after
// Add, and the exported leaves must show it.
func generateOptions(e *emitter, o vh.Opts) {
	excls := [][]string{nil, {"sync"}, {"targetLeaves", "connectedAddress"}, {"serverName"}}
	for _, srv := range []string{"", "collector-1"} {
		for _, thr := range []int64{0, 2} {
			for _, ex := range excls {
				for _, ed := range []bool{true, false} {
					for variant := 0; variant < 3; variant++ {
						c := &Case{Family: "options", Cfg: CfgJ{Thr: thr, EventDriven: ed, Srv: srv, Excl: ex}, Targets: []string{"t"}}
						now := int64(1)
						add := func(x Op) { x.Now = now; now++; c.Ops = append(c.Ops, x) }
						add(Op{K: "upd", N: updN(5, pfx("t", "a"), pth("b"), ival(1))})
						add(Op{K: "sync", Tgt: "t"})
						add(Op{K: "connect", Tgt: "t"})
						if variant != 1 {
							add(Op{K: "updatemeta"})
						}
						if variant == 2 {
							add(Op{K: "add", Tgt: "u"})
							add(Op{K: "subp", Tgt: "t", SP: []string{"meta"}})
						}
						add(Op{K: "reset", Tgt: "t"})
						add(Op{K: "updatemeta"})
						add(Op{K: "upd", N: updN(6, pfx("t", "a"), pth("b"), ival(2))})
						add(Op{K: "upd", N: delN(50, pfx("t"), pth("*"))}) // also wipes the exported metadata leaves
						add(Op{K: "updatemeta"})
						add(Op{K: "reset", Tgt: "t"})
						if variant == 2 {
							add(Op{K: "reset", Tgt: "u"})
						}
						add(Op{K: "remove", Tgt: "t"})
						add(Op{K: "add", Tgt: "t"})
						add(Op{K: "updatemeta"})
						add(Op{K: "reset", Tgt: "t"})
						e.add(c)
					}
				}
			}
		}
	}
}

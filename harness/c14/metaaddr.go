package main

import (
	"github.com/openconfig/gnmi/zz_verif/vh"
)

// Round 7 family "metaaddr": LEGAL REMOTE INPUT ADDRESSED TO THE METADATA
// SUBTREE followed by lifecycle calls.  A delete whose index path is
// meta/<entry> goes through gnmiRemove -> Metadata.ResetEntry, i.e. it rewrites
// the target's bookkeeping (counters, flags, strings) while the data leaves stay
// stored; an update of meta/<entry> overwrites the exported leaf only.  After
// such input the bookkeeping no longer mirrors the tree, and every lifecycle
// call (Reset, Remove, Sync, Connect, ConnectError, UpdateMetadata, UpdateSize,
// a device delete of the data) must still do what the property says: the
// post-conditions of K_P are judged on the tree and the feed, never on what the
// counters claim.
//
// meta-addressed input M: delete of meta/<every registered int, bool, string
// entry>, of meta/<unknown entry>, of meta, of meta/*, the same with the
// element `meta` carried by the prefix, one notification holding several such
// deletes, an update of meta/<int counter> written from outside (value 0 / 7).
// x lifecycle L x setup {bookkeeping exported (UpdateMetadata) or not} over the
// targets t (addressed), u (bystander with the same index paths), and, in
// one variant, M addressed to BOTH targets followed by the lifecycle of each.
func metaEntries() []string {
	return []string{
		// ints
		"targetLeaves", "targetLeavesAdded", "targetLeavesDeleted", "targetLeavesEmpty", "targetLeavesUpdated",
		"targetLeavesStale", "targetLeavesFuture", "targetLeavesSuppressed", "targetSize", "latestTimestamp",
		// bools
		"sync", "connected",
		// strings
		"connectedAddress", "connectError",
		// not registered
		"nosuchEntry",
	}
}

type metaInput struct {
	name string
	mk   func(t string, ts int64) []*NotiJ
}

func metaInputs() []metaInput {
	var ms []metaInput
	for _, k := range metaEntries() {
		k := k
		ms = append(ms, metaInput{"del:meta/" + k, func(t string, ts int64) []*NotiJ {
			return []*NotiJ{delN(ts, pfx(t), pth("meta", k))}
		}})
	}
	ms = append(ms,
		metaInput{"del:meta", func(t string, ts int64) []*NotiJ { return []*NotiJ{delN(ts, pfx(t), pth("meta"))} }},
		metaInput{"del:meta/*", func(t string, ts int64) []*NotiJ { return []*NotiJ{delN(ts, pfx(t), pth("meta", "*"))} }},
		metaInput{"del:[meta]targetLeaves", func(t string, ts int64) []*NotiJ {
			return []*NotiJ{delN(ts, pfx(t, "meta"), pth("targetLeaves"))}
		}},
		metaInput{"del:[meta]*", func(t string, ts int64) []*NotiJ { return []*NotiJ{delN(ts, pfx(t, "meta"), pth("*"))} }},
		metaInput{"del:meta/targetLeaves/x", func(t string, ts int64) []*NotiJ {
			return []*NotiJ{delN(ts, pfx(t), pth("meta", "targetLeaves", "x"))}
		}},
		metaInput{"del:multi", func(t string, ts int64) []*NotiJ {
			n := &NotiJ{TS: ts, Prefix: pfx(t)}
			for _, k := range []string{"targetLeaves", "targetLeavesAdded", "sync", "latestTimestamp"} {
				n.Del = append(n.Del, PathJ{Elems: elems("meta", k)})
			}
			return []*NotiJ{n}
		}},
		metaInput{"del:all-ints-one-by-one", func(t string, ts int64) []*NotiJ {
			var ns []*NotiJ
			for _, k := range metaEntries()[:10] {
				ns = append(ns, delN(ts, pfx(t), pth("meta", k)))
			}
			return ns
		}},
		metaInput{"upd:meta/targetLeaves=0", func(t string, ts int64) []*NotiJ {
			return []*NotiJ{updN(ts, pfx(t), pth("meta", "targetLeaves"), ival(0))}
		}},
		metaInput{"upd:meta/targetLeavesAdded=7", func(t string, ts int64) []*NotiJ {
			return []*NotiJ{updN(ts, pfx(t), pth("meta", "targetLeavesAdded"), ival(7))}
		}},
		metaInput{"upd:meta/sync=false+del:meta/targetLeaves", func(t string, ts int64) []*NotiJ {
			return []*NotiJ{updN(ts, pfx(t), pth("meta", "sync"), bval(false)), delN(ts, pfx(t), pth("meta", "targetLeaves"))}
		}},
	)
	return ms
}

func generateMetaAddr(e *emitter, o vh.Opts) {
	type life struct {
		name string
		ops  []Op
	}
	lives := []life{
		{"reset", []Op{{K: "reset", Tgt: "t"}}},
		{"remove", []Op{{K: "remove", Tgt: "t"}}},
		{"updatemeta+reset", []Op{{K: "updatemeta"}, {K: "reset", Tgt: "t"}}},
		{"sync+connect+reset", []Op{{K: "sync", Tgt: "t"}, {K: "connect", Tgt: "t"}, {K: "reset", Tgt: "t"}}},
		{"datadelete+reset", []Op{{K: "upd", N: delN(60, pfx("t", "a"), pth("b"))}, {K: "reset", Tgt: "t"}}},
		{"connecterror+reset+reset", []Op{{K: "connecterror", Tgt: "t", Msg: "refused"}, {K: "reset", Tgt: "t"}, {K: "reset", Tgt: "t"}}},
		{"resetother+reset", []Op{{K: "reset", Tgt: "u"}, {K: "reset", Tgt: "t"}}},
		{"wilddelete", []Op{{K: "upd", N: delN(60, pfx("t"), pth("*"))}, {K: "updatemeta"}}},
	}
	for mi, m := range metaInputs() {
		for li, l := range lives {
			for setup := 0; setup < 2; setup++ {
				// the full cross product for the leaf counter (the entry the data path reads back);
				// the other inputs rotate through the lifecycles so that every (M, L) pair occurs in one setup
				if !o.Thorough() && m.name != "del:meta/targetLeaves" && (mi+li)%2 != setup {
					continue
				}
				c := &Case{Family: "metaaddr", Cfg: CfgJ{EventDriven: setup == 0}, Targets: []string{"t", "u"}}
				now := int64(100) // the clock is ahead of every data timestamp; meta-addressed input is stamped with the clock (as the cache's own writers do)
				add := func(x Op) { x.Now = now; now++; c.Ops = append(c.Ops, x) }
				add(Op{K: "upd", N: updN(10, pfx("t", "a"), pth("b"), ival(1))})
				add(Op{K: "upd", N: updN(11, pfx("t", "a"), pth("c"), ival(2))})
				add(Op{K: "upd", N: updN(12, pfx("t", "x"), pth("y"), ival(3))})
				add(Op{K: "upd", N: updN(10, pfx("u", "a"), pth("b"), ival(4))})
				add(Op{K: "upd", N: updN(11, pfx("u", "x"), pth("y"), ival(5))})
				add(Op{K: "sync", Tgt: "t"})
				add(Op{K: "connect", Tgt: "t"})
				if setup == 1 {
					add(Op{K: "updatemeta"})
				}
				for _, n := range m.mk("t", now) {
					add(Op{K: "upd", N: n})
				}
				if li%2 == 1 { // the same input addressed to the second target as well
					for _, n := range m.mk("u", now) {
						add(Op{K: "upd", N: n})
					}
				}
				for _, x := range l.ops {
					add(x)
				}
				// afterwards: bookkeeping regenerated, traffic goes on, the bystander is reset too
				add(Op{K: "updatemeta"})
				add(Op{K: "upd", N: updN(70, pfx("t", "a"), pth("b"), ival(6))})
				add(Op{K: "upd", N: updN(70, pfx("u", "a"), pth("b"), ival(7))})
				add(Op{K: "reset", Tgt: "u"})
				add(Op{K: "reset", Tgt: "t"})
				e.add(c)
			}
		}
	}
}

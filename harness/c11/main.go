// Harness for C11: drives the real coalesce.Queue
//
//	mode E  single-goroutine operation sequences (exhaustive to a bound + random),
//	mode S  forced schedules of producers x consumer x Close x Cancel under the
//	        barrier scheduler of sched.go, through the verif hook points
//	        insert:checked, insert:inserted, next:empty,
//	stress  free-running producers and one consumer (totals only),
//
// and writes the cases as Gallina terms for Coalesce.QueueCheck.check_all.
package main

import (
	"context"
	"encoding/json"
	"flag"
	"fmt"
	"os"
	"runtime"
	"sort"
	"strings"
	"sync"
	"sync/atomic"
	"time"

	"github.com/openconfig/gnmi/coalesce"
	"github.com/openconfig/gnmi/zz_verif/vh"
)

// ---------------------------------------------------------------------------
// case description (JSON; only the inputs are read back on replay)

// Op is one API call of a mode E case.  K: insert next close len isclosed.
// C (for next): bg cancelled short.
type Op struct {
	K string `json:"k"`
	I int    `json:"i,omitempty"`
	C string `json:"c,omitempty"`
}

// Obs is a projected result.
type Obs struct {
	Kind string `json:"kind"` // ins next len bool unit panic
	R    string `json:"r,omitempty"`
	// ins: new dup closed; next: item closed ctx hang
	I int    `json:"i,omitempty"`
	D uint32 `json:"d,omitempty"`
	N int    `json:"n,omitempty"`
	B bool   `json:"b,omitempty"`
}

// Step is one recorded scheduler step of a mode S case.
type Step struct {
	T int    `json:"t"` // 0.. producers, 100 consumer, 200 closer, 300 canceller
	E string `json:"e"` // at retins retnext blocked ret hang panic
	P string `json:"p,omitempty"`
	R string `json:"r,omitempty"`
	I int    `json:"i,omitempty"`
	D uint32 `json:"d,omitempty"`
}

// SchedCfg is the input of a mode S case: programs and the thread choices.
type SchedCfg struct {
	Progs   [][]int `json:"progs"`
	NNext   int     `json:"nnext"`
	NClose  int     `json:"nclose"`
	NCancel int     `json:"ncancel"`
	Sched   []int   `json:"sched"`
}

// BurstCfg: Producers goroutines, released together, each insert Items[k%len]
// PerProd times round-robin starting at its own offset; nobody consumes.
type BurstCfg struct {
	Producers int   `json:"producers"`
	PerProd   int   `json:"per_producer"`
	Items     []int `json:"items"`
	Closers   int   `json:"closers"`
	Rounds    int   `json:"rounds"`
}

// KeepupCfg: Producers goroutines insert PerProd items each (item = (p*Stride+k) mod Items)
// against a free-running consumer; nobody closes the queue.
type KeepupCfg struct {
	Producers int `json:"producers"`
	PerProd   int `json:"per_producer"`
	Items     int `json:"items"`
	Stride    int `json:"stride"`
	Procs     int `json:"gomaxprocs"`
}

// StressCfg is the input of a stress case.
type StressCfg struct {
	Producers int    `json:"producers"`
	PerProd   int    `json:"per_producer"`
	Items     int    `json:"items"`
	Seed      uint64 `json:"seed"`
}

// Case is one case of any family.
type Case struct {
	Family string `json:"family"`
	Ops    []Op   `json:"ops,omitempty"`
	Obs    []Obs  `json:"obs,omitempty"`

	S            *SchedCfg `json:"s,omitempty"`
	Steps        []Step    `json:"steps,omitempty"`
	FinalBlocked bool      `json:"final_blocked,omitempty"`
	FinalLen     int       `json:"final_len,omitempty"`

	Bulk    [][2]int       `json:"bulk,omitempty"` // (item, repeat) script
	News    []int          `json:"news,omitempty"`
	Dels    [][2]int       `json:"dels,omitempty"`
	Broken  bool           `json:"broken,omitempty"`
	Burst   *BurstCfg      `json:"burst,omitempty"`
	BurstIn [][3]int       `json:"burst_ins,omitempty"` // item, calls, trues
	Keepup  *KeepupCfg     `json:"keepup,omitempty"`
	Ping    int            `json:"ping,omitempty"` // rounds
	Stalled bool           `json:"stalled,omitempty"`
	CtxErr  string         `json:"ctxerr,omitempty"` // cancelled | short
	ErrKind string         `json:"errkind,omitempty"`
	Stress  *StressCfg     `json:"stress,omitempty"`
	Ins     map[string]int `json:"ins,omitempty"`
	Del     map[string]int `json:"del,omitempty"`
	Closed  bool           `json:"closed_seen,omitempty"`
	Hang    bool           `json:"hang,omitempty"`
	Comment string         `json:"comment,omitempty"`
}

// Items are small ids in the cases; the Go values handed to the queue are of
// several types (equal-looking values of different types are different keys,
// nil is a legal item, pointers compare by identity).
type pt struct{ a int }

var ptrA, ptrB = &pt{1}, &pt{1}

func itemVal(id int) interface{} {
	switch id {
	case 3:
		return "1"
	case 4:
		return int64(1)
	case 5:
		return nil
	case 6:
		return ptrA
	case 7:
		return ptrB
	case 8:
		return pt{1}
	}
	return id
}

func itemID(v interface{}) (int, bool) {
	switch x := v.(type) {
	case nil:
		return 5, true
	case int:
		if x == 3 || x == 4 || x == 5 || x == 6 || x == 7 || x == 8 {
			return 0, false
		}
		return x, true
	case string:
		return 3, x == "1"
	case int64:
		return 4, x == 1
	case *pt:
		if x == ptrA {
			return 6, true
		}
		return 7, x == ptrB
	case pt:
		return 8, x.a == 1
	}
	return 0, false
}

// hangs counts calls that did not return; after a few the rest of the run is
// cut short (every further case would wait for the watchdog again).
var hangs int32

func tooManyHangs() bool { return atomic.LoadInt32(&hangs) >= 3 }

const (
	tidCons   = 100
	tidClose  = 200
	tidCancel = 300
)

// ---------------------------------------------------------------------------
// mode E

const hangAfter = 5 * time.Second

type nextRes struct {
	kind string // item closed ctx other
	i    int
	d    uint32
}

func classifyNext(i interface{}, d uint32, err error) nextRes {
	switch {
	case err == nil:
		x, ok := itemID(i)
		if !ok {
			return nextRes{kind: "other"}
		}
		return nextRes{kind: "item", i: x, d: d}
	case coalesce.IsClosedQueue(err):
		return nextRes{kind: "closed"}
	case err == context.Canceled || err == context.DeadlineExceeded:
		return nextRes{kind: "ctx"}
	}
	return nextRes{kind: "other"}
}

// applyOp runs one call on its own goroutine under a watchdog; hung reports
// that the call did not return (the goroutine is then left behind).
func applyOp(q *coalesce.Queue, o Op) (res Obs, hung bool) {
	ch := make(chan Obs, 1)
	go func() {
		defer func() {
			if r := recover(); r != nil {
				ch <- Obs{Kind: "panic", R: fmt.Sprint(r)}
			}
		}()
		ch <- applyOp1(q, o)
	}()
	select {
	case r := <-ch:
		return r, false
	case <-time.After(hangAfter):
		atomic.AddInt32(&hangs, 1)
		if o.K == "next" {
			return Obs{Kind: "next", R: "hang"}, true
		}
		return Obs{Kind: "panic", R: "hang in " + o.K}, true
	}
}

func applyOp1(q *coalesce.Queue, o Op) Obs {
	switch o.K {
	case "insert":
		ok, err := q.Insert(itemVal(o.I))
		switch {
		case err == nil && ok:
			return Obs{Kind: "ins", R: "new"}
		case err == nil:
			return Obs{Kind: "ins", R: "dup"}
		case coalesce.IsClosedQueue(err) && !ok:
			return Obs{Kind: "ins", R: "closed"}
		}
		return Obs{Kind: "panic", R: "insert: unexpected result"}
	case "next":
		ctx := context.Background()
		cancel := func() {}
		switch o.C {
		case "cancelled":
			ctx, cancel = context.WithCancel(ctx)
			cancel()
		case "short":
			ctx, cancel = context.WithTimeout(ctx, time.Millisecond)
		}
		defer cancel()
		i, d, err := q.Next(ctx)
		r := classifyNext(i, d, err)
		if r.kind == "other" {
			return Obs{Kind: "panic", R: "next: unexpected result"}
		}
		return Obs{Kind: "next", R: r.kind, I: r.i, D: r.d}
	case "close":
		q.Close()
		return Obs{Kind: "unit"}
	case "len":
		return Obs{Kind: "len", N: q.Len()}
	case "isclosed":
		return Obs{Kind: "bool", B: q.IsClosed()}
	}
	return Obs{Kind: "panic", R: "unknown op " + o.K}
}

// runSeq applies ops to a fresh queue.  A Next with a background context is
// only issued as such when the real queue says it cannot block (non-empty or
// closed); otherwise it is turned into a Next with a short deadline (the
// returned ops are what was actually run).  After a hang the rest is dropped.
func runSeq(ops []Op, guardBg bool) ([]Op, []Obs) {
	q := coalesce.NewQueue()
	ran := make([]Op, 0, len(ops))
	obs := make([]Obs, 0, len(ops))
	for _, o := range ops {
		if guardBg && o.K == "next" && o.C == "bg" && q.Len() == 0 && !q.IsClosed() {
			o.C = "short"
		}
		r, hung := applyOp(q, o)
		ran = append(ran, o)
		obs = append(obs, r)
		if hung || r.Kind == "panic" {
			break
		}
	}
	return ran, obs
}

// ---------------------------------------------------------------------------
// mode S

var curSched atomic.Pointer[Sched]

func hookDispatch(point string) {
	if s := curSched.Load(); s != nil {
		s.Hook(point)
	}
}

type insRes struct{ r string }

func pointName(p string) string {
	switch p {
	case "insert:checked":
		return "checked"
	case "insert:inserted":
		return "inserted"
	case "next:empty":
		return "empty"
	}
	return p
}

func toStep(ev Event) Step {
	st := Step{T: ev.T.ID}
	switch ev.Kind {
	case "at":
		st.E, st.P = "at", pointName(ev.Point)
	case "ret":
		switch v := ev.Val.(type) {
		case insRes:
			st.E, st.R = "retins", v.r
		case nextRes:
			st.E, st.R, st.I, st.D = "retnext", v.kind, v.i, v.d
			if v.kind == "other" {
				st.E = "panic"
			}
		default:
			st.E = "ret"
		}
	case "blocked":
		if ev.T.ID == tidCons && ev.Point == "select" {
			st.E = "blocked"
		} else {
			// nothing but the consumer's select may wait in this code
			st.E, st.P = "hang", ev.Point
		}
	case "panic":
		st.E, st.P = "panic", fmt.Sprint(ev.Val)
	case "hang":
		st.E, st.P = "hang", ev.Point
	default:
		st.E, st.P = "panic", "unexpected event "+ev.Kind
	}
	return st
}

type schedResult struct {
	steps        []Step
	decisions    []int
	ready        []int // thread ids ready when the run stopped
	finalBlocked bool
	finalLen     int
	broken       bool // hang or panic seen
}

// runSched executes one forced schedule.  decide gets the ready thread ids
// (sorted) and the number of decisions made so far and returns the thread to
// release, or -1 to stop the run here.
func runSched(cfg SchedCfg, decide func(ready []int, k int) int) schedResult {
	q := coalesce.NewQueue()
	ctx, cancel := context.WithCancel(context.Background())
	s := NewSched()
	curSched.Store(s)
	byID := map[int]*Thread{}
	for n, prog := range cfg.Progs {
		prog := prog
		byID[n] = s.Spawn(n, fmt.Sprintf("producer%d", n), len(prog), func(t *Thread) {
			for _, it := range prog {
				atomic.AddInt32(&t.Left, -1)
				ok, err := q.Insert(itemVal(it))
				r := "new"
				switch {
				case err != nil && coalesce.IsClosedQueue(err) && !ok:
					r = "closed"
				case err != nil:
					panic("insert: unexpected error")
				case !ok:
					r = "dup"
				}
				t.Stop("ret", insRes{r})
			}
		})
	}
	if cfg.NNext > 0 {
		byID[tidCons] = s.Spawn(tidCons, "consumer", cfg.NNext, func(t *Thread) {
			for k := 0; k < cfg.NNext; k++ {
				atomic.AddInt32(&t.Left, -1)
				i, d, err := q.Next(ctx)
				t.Stop("ret", classifyNext(i, d, err))
			}
		})
	}
	if cfg.NClose > 0 {
		byID[tidClose] = s.Spawn(tidClose, "closer", cfg.NClose, func(t *Thread) {
			for k := 0; k < cfg.NClose; k++ {
				atomic.AddInt32(&t.Left, -1)
				q.Close()
				t.Stop("ret", nil)
			}
		})
	}
	if cfg.NCancel > 0 {
		byID[tidCancel] = s.Spawn(tidCancel, "canceller", cfg.NCancel, func(t *Thread) {
			for k := 0; k < cfg.NCancel; k++ {
				atomic.AddInt32(&t.Left, -1)
				cancel()
				t.Stop("ret", nil)
			}
		})
	}
	var res schedResult
	readyIDs := func() []int {
		var ids []int
		for _, t := range s.Ready() {
			ids = append(ids, t.ID)
		}
		sort.Ints(ids)
		return ids
	}
	for {
		ready := readyIDs()
		if len(ready) == 0 {
			break
		}
		c := decide(ready, len(res.decisions))
		if c < 0 {
			break
		}
		ok := false
		for _, r := range ready {
			if r == c {
				ok = true
			}
		}
		if !ok {
			break // the choice is not available in this execution
		}
		res.decisions = append(res.decisions, c)
		for _, ev := range s.Step(byID[c]) {
			st := toStep(ev)
			res.steps = append(res.steps, st)
			if st.E == "hang" || st.E == "panic" {
				res.broken = true
			}
		}
		if res.broken {
			atomic.AddInt32(&hangs, 1)
			break
		}
	}
	res.ready = readyIDs()
	for _, t := range s.Blocked() {
		if t.ID == tidCons {
			res.finalBlocked = true
		}
	}
	if !res.broken {
		if guarded(hangAfter, func() { res.finalLen = q.Len() }) {
			res.broken = true
			res.steps = append(res.steps, Step{T: tidCons, E: "hang", P: "Len"})
		}
	}
	s.Abort(func() {
		defer func() { recover() }() // a broken Close must not take the harness down
		cancel()
		q.Close()
	})
	curSched.Store(nil)
	return res
}

func stepsEqual(a, b []Step) bool {
	if len(a) != len(b) {
		return false
	}
	for i := range a {
		if a[i] != b[i] {
			return false
		}
	}
	return true
}

// confirmed re-executes the decisions until some trace has been seen twice
// (a Go select with several ready cases may legitimately give different
// traces; a trace that never repeats is not used).  first is a trace already
// obtained for these decisions.
func confirmed(cfg SchedCfg, first schedResult, tries int, want []Step) (schedResult, bool) {
	seen := []schedResult{first}
	if want != nil && stepsEqual(first.steps, want) {
		// replay: prefer the recorded trace
	}
	for k := 0; k < tries; k++ {
		c := cfg
		c.Sched = first.decisions
		r := runSched(c, func(ready []int, n int) int {
			if n < len(first.decisions) {
				return first.decisions[n]
			}
			return -1
		})
		for _, p := range seen {
			if stepsEqual(p.steps, r.steps) && p.finalBlocked == r.finalBlocked && p.finalLen == r.finalLen {
				if want == nil || stepsEqual(r.steps, want) || k == tries-1 {
					return r, true
				}
			}
		}
		seen = append(seen, r)
	}
	return first, false
}

// ---------------------------------------------------------------------------
// stress

func runStress(cfg StressCfg) (ins, del map[string]int, closedSeen, hang bool) {
	defer func() {
		if r := recover(); r != nil {
			hang = true // reported as tag 4 (hang or panic)
		}
	}()
	q := coalesce.NewQueue()
	ins, del = map[string]int{}, map[string]int{}
	var mu sync.Mutex
	var wg sync.WaitGroup
	for p := 0; p < cfg.Producers; p++ {
		wg.Add(1)
		r := vh.NewRand(cfg.Seed*1000 + uint64(p))
		go func() {
			defer wg.Done()
			local := map[int]int{}
			for k := 0; k < cfg.PerProd; k++ {
				it := r.Intn(cfg.Items)
				if _, err := q.Insert(it); err == nil {
					local[it]++
				}
				if r.Chance(1, 8) {
					time.Sleep(time.Microsecond)
				}
			}
			mu.Lock()
			for k, v := range local {
				ins[fmt.Sprint(k)] += v
			}
			mu.Unlock()
		}()
	}
	done := make(chan bool, 1)
	go func() {
		for {
			i, d, err := q.Next(context.Background())
			if err != nil {
				done <- coalesce.IsClosedQueue(err)
				return
			}
			mu.Lock()
			del[fmt.Sprint(i)] += 1 + int(d)
			mu.Unlock()
		}
	}()
	wg.Wait()
	q.Close() // every producer has returned: all accepted inserts completed before the close
	select {
	case closedSeen = <-done:
	case <-time.After(20 * time.Second):
		hang = true
		atomic.AddInt32(&hangs, 1)
	}
	return
}

// guarded runs f under recover and a watchdog.
func guarded(d time.Duration, f func()) (broken bool) {
	done := make(chan bool, 1)
	go func() {
		defer func() {
			if r := recover(); r != nil {
				done <- true
			}
		}()
		f()
		done <- false
	}()
	select {
	case b := <-done:
		return b
	case <-time.After(d):
		atomic.AddInt32(&hangs, 1)
		return true
	}
}

// drain closes q and collects deliveries until "closed" (at most limit).
func drain(q *coalesce.Queue, limit int) (dels [][2]int, ok bool) {
	q.Close()
	for k := 0; k <= limit; k++ {
		i, d, err := q.Next(context.Background())
		if err != nil {
			return dels, coalesce.IsClosedQueue(err)
		}
		id, good := itemID(i)
		if !good {
			return dels, false
		}
		dels = append(dels, [2]int{id, int(d)})
	}
	return dels, false
}

func runBulk(script [][2]int) (news []int, length int, dels [][2]int, broken bool) {
	broken = guarded(60*time.Second, func() {
		q := coalesce.NewQueue()
		distinct := map[int]bool{}
		for _, e := range script {
			n := 0
			v := itemVal(e[0])
			for k := 0; k < e[1]; k++ {
				ok, err := q.Insert(v)
				if err != nil {
					panic("bulk: insert refused")
				}
				if ok {
					n++
				}
			}
			news = append(news, n)
			distinct[e[0]] = true
		}
		length = q.Len()
		var ok bool
		dels, ok = drain(q, length+len(distinct)+2)
		if !ok {
			panic("bulk: drain did not end with closed")
		}
	})
	return
}

func runBurst(cfg BurstCfg) (ins [][3]int, length int, dels [][2]int, broken bool) {
	rounds := cfg.Rounds
	if rounds < 1 {
		rounds = 1
	}
	// Several fresh queues are tried; the round reported is the first on
	// which Len() differs from the number of distinct items inserted (only a
	// choice of which round to hand to the checker), else the last one.
	for r := 0; r < rounds; r++ {
		ins, length, dels, broken = runBurst1(cfg)
		used := 0
		for _, t := range ins {
			if t[1] > 0 {
				used++
			}
		}
		if broken || length != used || len(dels) != used {
			return
		}
	}
	return
}

// spinBarrier releases n goroutines as closely together as possible.
type spinBarrier struct{ n, arrived int32 }

func (b *spinBarrier) wait() {
	atomic.AddInt32(&b.arrived, 1)
	for atomic.LoadInt32(&b.arrived) < b.n {
		runtime.Gosched()
	}
}

func runBurst1(cfg BurstCfg) (ins [][3]int, length int, dels [][2]int, broken bool) {
	broken = guarded(60*time.Second, func() {
		q := coalesce.NewQueue()
		calls := make([]int64, len(cfg.Items))
		trues := make([]int64, len(cfg.Items))
		bar := &spinBarrier{n: int32(cfg.Producers)}
		var wg sync.WaitGroup
		var bad int32
		for p := 0; p < cfg.Producers; p++ {
			p := p
			wg.Add(1)
			go func() {
				defer wg.Done()
				defer func() {
					if r := recover(); r != nil {
						atomic.StoreInt32(&bad, 1)
					}
				}()
				bar.wait()
				for k := 0; k < cfg.PerProd; k++ {
					x := (p + k) % len(cfg.Items)
					ok, err := q.Insert(itemVal(cfg.Items[x]))
					if err != nil {
						atomic.StoreInt32(&bad, 1)
						return
					}
					atomic.AddInt64(&calls[x], 1)
					if ok {
						atomic.AddInt64(&trues[x], 1)
					}
				}
			}()
		}
		wg.Wait()
		length = q.Len()
		// concurrent Close calls: exactly what Close's lock is for
		barC := &spinBarrier{n: int32(cfg.Closers)}
		for c := 0; c < cfg.Closers; c++ {
			wg.Add(1)
			go func() {
				defer wg.Done()
				defer func() {
					if r := recover(); r != nil {
						atomic.StoreInt32(&bad, 1)
					}
				}()
				barC.wait()
				q.Close()
			}()
		}
		wg.Wait()
		var ok bool
		dels, ok = drain(q, length+len(cfg.Items)+2)
		if !ok || atomic.LoadInt32(&bad) != 0 {
			panic("burst: broken")
		}
		for x, it := range cfg.Items {
			ins = append(ins, [3]int{it, int(calls[x]), int(trues[x])})
		}
	})
	return
}

// runKeepup: producers run freely against a consumer that keeps up, so the
// queue keeps oscillating between empty and non-empty.  The queue is NOT
// closed when the producers are done: the consumer has to get everything by
// the wake-ups of the insertions alone.  stalled = the consumer made no
// progress for stallAfter although accepted insertions are undelivered.
func runKeepup(cfg KeepupCfg, stallAfter time.Duration) (ins, del map[string]int, stalled bool) {
	if cfg.Procs > 0 {
		defer runtime.GOMAXPROCS(runtime.GOMAXPROCS(cfg.Procs))
	}
	q := coalesce.NewQueue()
	ctx, cancel := context.WithCancel(context.Background())
	defer cancel()
	ins, del = map[string]int{}, map[string]int{}
	delv := make([]int64, cfg.Items)
	var got int64
	go func() {
		defer func() { recover() }()
		for {
			i, d, err := q.Next(ctx)
			if err != nil {
				return
			}
			if id, ok := i.(int); ok && id >= 0 && id < cfg.Items {
				atomic.AddInt64(&delv[id], 1+int64(d))
			}
			atomic.AddInt64(&got, 1+int64(d))
		}
	}()
	insv := make([]int64, cfg.Items)
	var accepted int64
	var wg sync.WaitGroup
	for p := 0; p < cfg.Producers; p++ {
		p := p
		wg.Add(1)
		go func() {
			defer wg.Done()
			defer func() { recover() }()
			for k := 0; k < cfg.PerProd; k++ {
				it := (p*cfg.Stride + k) % cfg.Items
				if _, err := q.Insert(it); err == nil {
					atomic.AddInt64(&insv[it], 1)
					atomic.AddInt64(&accepted, 1)
				}
			}
		}()
	}
	wg.Wait()
	want := atomic.LoadInt64(&accepted)
	last, lastChange := atomic.LoadInt64(&got), time.Now()
	for atomic.LoadInt64(&got) < want {
		time.Sleep(200 * time.Microsecond)
		if g := atomic.LoadInt64(&got); g != last {
			last, lastChange = g, time.Now()
		} else if time.Since(lastChange) > stallAfter {
			stalled = true
			atomic.AddInt32(&hangs, 1)
			break
		}
	}
	cancel()
	for it := 0; it < cfg.Items; it++ {
		if v := atomic.LoadInt64(&insv[it]); v > 0 {
			ins[fmt.Sprint(it)] = int(v)
		}
		if v := atomic.LoadInt64(&delv[it]); v > 0 {
			del[fmt.Sprint(it)] = int(v)
		}
	}
	return
}

// runPing: one producer and one consumer in lock-step.  The producer inserts
// an item the moment the previous one was delivered, i.e. while the consumer
// is on its way from an empty next() into the select -- the window in which a
// wake-up can be lost.  A round that does not complete within stallAfter is a
// lost wake-up (nothing else can delay it that long).
func runPing(rounds int, stallAfter time.Duration) (stalled bool) {
	q := coalesce.NewQueue()
	ctx, cancel := context.WithCancel(context.Background())
	defer cancel()
	ack := make(chan int, 1)
	go func() {
		defer func() { recover() }()
		for {
			i, _, err := q.Next(ctx)
			if err != nil {
				return
			}
			id, _ := itemID(i)
			ack <- id
		}
	}()
	tm := time.NewTimer(stallAfter)
	defer tm.Stop()
	for k := 0; k < rounds; k++ {
		func() {
			defer func() { recover() }()
			q.Insert(k % 3)
		}()
		if !tm.Stop() {
			select {
			case <-tm.C:
			default:
			}
		}
		tm.Reset(stallAfter)
		select {
		case <-ack:
		case <-tm.C:
			atomic.AddInt32(&hangs, 1)
			return true
		}
		if k%7 == 0 {
			runtime.Gosched()
		}
	}
	return false
}

func runCtxErr(kind string) string {
	q := coalesce.NewQueue()
	ctx, cancel := context.WithCancel(context.Background())
	if kind == "short" {
		ctx, cancel = context.WithTimeout(context.Background(), time.Millisecond)
	} else {
		cancel()
	}
	defer cancel()
	res := "other"
	guarded(hangAfter, func() {
		_, _, err := q.Next(ctx)
		switch err {
		case context.Canceled:
			res = "canceled"
		case context.DeadlineExceeded:
			res = "deadline"
		}
	})
	return res
}

// ---------------------------------------------------------------------------
// Gallina

func nlit(v int) string { return fmt.Sprintf("%d%%N", v) }

func opTerm(o Op) string {
	switch o.K {
	case "insert":
		return "OInsert " + nlit(o.I)
	case "next":
		switch o.C {
		case "cancelled":
			return "ONext CtxCancelled"
		case "short":
			return "ONext CtxShort"
		}
		return "ONext CtxBg"
	case "close":
		return "OClose"
	case "len":
		return "OLen"
	case "isclosed":
		return "OIsClosed"
	}
	panic("opTerm " + o.K)
}

func nresTerm(r string, i int, d uint32) string {
	switch r {
	case "item":
		return fmt.Sprintf("(NItem %s %s)", nlit(i), nlit(int(d)))
	case "closed":
		return "NClosed"
	case "ctx":
		return "NCtx"
	}
	return "NHang"
}

func iresTerm(r string) string {
	switch r {
	case "new":
		return "(IOk true)"
	case "dup":
		return "(IOk false)"
	}
	return "IClosed"
}

func obsTerm(r Obs) string {
	switch r.Kind {
	case "ins":
		return "RIns " + iresTerm(r.R)
	case "next":
		return "RNext " + nresTerm(r.R, r.I, r.D)
	case "len":
		return "RLen " + vh.Nat(r.N)
	case "bool":
		return "RBool " + vh.Bool(r.B)
	case "unit":
		return "RUnit"
	}
	return "RPanic"
}

func tidTerm(t int) string {
	switch t {
	case tidCons:
		return "TC"
	case tidClose:
		return "TK"
	case tidCancel:
		return "TX"
	}
	return fmt.Sprintf("TP %d%%nat", t)
}

func stepTerm(s Step) string {
	var e string
	switch s.E {
	case "at":
		switch s.P {
		case "checked":
			e = "SAt PtChecked"
		case "inserted":
			e = "SAt PtInserted"
		case "empty":
			e = "SAt PtEmpty"
		default:
			e = "SPanic"
		}
	case "retins":
		e = "SRetIns " + iresTerm(s.R)
	case "retnext":
		e = "SRetNext " + nresTerm(s.R, s.I, s.D)
	case "blocked":
		e = "SBlocked"
	case "ret":
		e = "SRet"
	case "hang":
		e = "SHang"
	default:
		e = "SPanic"
	}
	return fmt.Sprintf("(%s, %s)", tidTerm(s.T), e)
}

func totalsTerm(m map[string]int) string {
	ks := make([]string, 0, len(m))
	for k := range m {
		ks = append(ks, k)
	}
	sort.Strings(ks)
	el := make([]string, len(ks))
	for i, k := range ks {
		var it int
		fmt.Sscan(k, &it)
		el[i] = fmt.Sprintf("(%s, %s)", nlit(it), nlit(m[k]))
	}
	return vh.List(el)
}

func pairsTerm(l [][2]int) string {
	el := make([]string, len(l))
	for i, p := range l {
		el[i] = fmt.Sprintf("(%s, %s)", nlit(p[0]), nlit(p[1]))
	}
	return vh.List(el)
}

func caseTerm(c Case) string {
	switch {
	case c.Bulk != nil:
		nw := make([]string, len(c.News))
		for i, n := range c.News {
			nw[i] = nlit(n)
		}
		return fmt.Sprintf("CBulk %s %s %s %s %s", pairsTerm(c.Bulk), vh.List(nw), vh.Nat(c.FinalLen), pairsTerm(c.Dels), vh.Bool(c.Broken))
	case c.Burst != nil:
		el := make([]string, len(c.BurstIn))
		for i, t := range c.BurstIn {
			el[i] = fmt.Sprintf("(%s, %s, %s)", nlit(t[0]), nlit(t[1]), nlit(t[2]))
		}
		return fmt.Sprintf("CBurst %s %s %s %s", vh.List(el), vh.Nat(c.FinalLen), pairsTerm(c.Dels), vh.Bool(c.Broken))
	case c.Keepup != nil:
		return fmt.Sprintf("CKeepup %s %s %s", totalsTerm(c.Ins), totalsTerm(c.Del), vh.Bool(c.Stalled))
	case c.Ping > 0:
		return fmt.Sprintf("CPing %s %s", nlit(c.Ping), vh.Bool(c.Stalled))
	case c.CtxErr != "":
		ck, ek := "CtxCancelled", "EKOther"
		if c.CtxErr == "short" {
			ck = "CtxShort"
		}
		switch c.ErrKind {
		case "canceled":
			ek = "EKCanceled"
		case "deadline":
			ek = "EKDeadline"
		}
		return fmt.Sprintf("CCtxErr %s %s", ck, ek)
	case c.S != nil:
		progs := make([]string, len(c.S.Progs))
		for i, p := range c.S.Progs {
			el := make([]string, len(p))
			for j, it := range p {
				el[j] = nlit(it)
			}
			progs[i] = vh.List(el)
		}
		steps := make([]string, len(c.Steps))
		for i, s := range c.Steps {
			steps[i] = stepTerm(s)
		}
		return fmt.Sprintf("CSched %s %s %s %s", vh.List(progs), vh.List(steps), vh.Bool(c.FinalBlocked), vh.Nat(c.FinalLen))
	case c.Stress != nil:
		return fmt.Sprintf("CStress %s %s %s %s", totalsTerm(c.Ins), totalsTerm(c.Del), vh.Bool(c.Closed), vh.Bool(c.Hang))
	}
	el := make([]string, len(c.Ops))
	for i := range c.Ops {
		el[i] = fmt.Sprintf("(%s, %s)", opTerm(c.Ops[i]), obsTerm(c.Obs[i]))
	}
	return "CSeq " + vh.List(el)
}

// ---------------------------------------------------------------------------
// emission

type emitter struct {
	dir   string
	shard int
	cf    *vh.CaseFile
	meta  *vh.Meta
	limit int
}

func (e *emitter) flush() {
	if e.cf.Len() == 0 {
		return
	}
	if err := e.cf.Write(e.dir, e.shard, "Coalesce.QueueModel Coalesce.QueueCheck", "case", "check_all"); err != nil {
		vh.Die("write: %v", err)
	}
	e.shard++
	e.cf = vh.NewCaseFile()
}

func (e *emitter) emit(c Case) {
	e.cf.Add(caseTerm(c), c)
	if e.cf.Len() >= e.limit {
		e.flush()
	}
}

func (e *emitter) addSeq(family string, ops []Op, guardBg bool) {
	ran, obs := runSeq(ops, guardBg)
	e.addSeqDone(family, ran, obs)
}

func (e *emitter) addSeqDone(family string, ran []Op, obs []Obs) {
	c := Case{Family: family, Ops: ran, Obs: obs}
	ins, got, coalesced := false, false, false
	for i, o := range ran {
		k := o.K
		if k == "next" {
			k += ":" + o.C
		}
		e.meta.Hist("op:" + k)
		r := obs[i]
		switch r.Kind {
		case "ins":
			e.meta.Hist("insert->" + r.R)
			if r.R != "closed" {
				ins = true
			}
			if r.R == "dup" {
				coalesced = true
			}
		case "next":
			e.meta.Hist("next->" + r.R)
			if r.R == "item" {
				got = true
			}
		case "panic":
			e.meta.Hist("panic")
		}
	}
	_ = coalesced
	e.meta.Hist(fmt.Sprintf("seq-len:%02d", (len(ran)/5)*5))
	b, _ := json.Marshal(ran)
	e.meta.Count(family, "E"+string(b), ins && got, map[string]interface{}{"family": family, "ops": describeSeq(c)})
	e.emit(c)
}

func describeSeq(c Case) []string {
	out := make([]string, len(c.Ops))
	for i, o := range c.Ops {
		b, _ := json.Marshal(c.Obs[i])
		out[i] = fmt.Sprintf("%s(%d,%s) -> %s", o.K, o.I, o.C, b)
	}
	return out
}

func (e *emitter) addSched(family string, cfg SchedCfg, r schedResult) {
	cfg.Sched = r.decisions
	c := Case{Family: family, S: &cfg, Steps: r.steps, FinalBlocked: r.finalBlocked, FinalLen: r.finalLen}
	prod, cons := false, false
	for _, s := range r.steps {
		e.meta.Hist("sched-step:" + s.E + ":" + s.P + s.R)
		if s.T < tidCons {
			prod = true
		}
		if s.T == tidCons {
			cons = true
		}
	}
	if r.finalBlocked {
		e.meta.Hist("sched-final:consumer-waiting")
	}
	e.meta.Hist(fmt.Sprintf("sched-len:%02d", (len(r.steps)/5)*5))
	b, _ := json.Marshal(c.Steps)
	pb, _ := json.Marshal(cfg.Progs)
	var desc []string
	for _, s := range r.steps {
		desc = append(desc, fmt.Sprintf("%d:%s%s%s", s.T, s.E, s.P, s.R))
	}
	e.meta.Count(family, "S"+string(pb)+string(b), prod && cons,
		map[string]interface{}{"family": family, "progs": cfg.Progs, "trace": strings.Join(desc, " ")})
	e.emit(c)
}

func (e *emitter) addStress(family string, cfg StressCfg) {
	if tooManyHangs() {
		e.meta.Hist("skipped-after-hangs")
		return
	}
	ins, del, closed, hang := runStress(cfg)
	c := Case{Family: family, Stress: &cfg, Ins: ins, Del: del, Closed: closed, Hang: hang}
	e.meta.Hist("stress-run")
	b, _ := json.Marshal(cfg)
	e.meta.Count(family, "X"+string(b), true, map[string]interface{}{"family": family, "cfg": cfg, "inserted": ins, "delivered": del})
	e.emit(c)
}

func (e *emitter) addBulk(family string, script [][2]int) {
	if tooManyHangs() {
		return
	}
	news, n, dels, broken := runBulk(script)
	c := Case{Family: family, Bulk: script, News: news, FinalLen: n, Dels: dels, Broken: broken}
	b, _ := json.Marshal(script)
	e.meta.Hist("bulk-run")
	e.meta.Count(family, "B"+string(b), true, map[string]interface{}{"family": family, "script": script, "news": news, "len": n})
	e.emit(c)
}

func (e *emitter) addBurst(family string, cfg BurstCfg) {
	if tooManyHangs() {
		return
	}
	ins, n, dels, broken := runBurst(cfg)
	c := Case{Family: family, Burst: &cfg, BurstIn: ins, FinalLen: n, Dels: dels, Broken: broken}
	e.meta.Hist("burst-run")
	e.meta.Count(family, fmt.Sprintf("U%v%v", cfg, ins), true, map[string]interface{}{"family": family, "cfg": cfg, "ins": ins, "len": n})
	e.emit(c)
}

func (e *emitter) addKeepup(family string, cfg KeepupCfg) {
	if tooManyHangs() {
		e.meta.Hist("skipped-after-hangs")
		return
	}
	ins, del, st := runKeepup(cfg, 10*time.Second)
	e.meta.Hist("keepup-run")
	if st {
		e.meta.Hist("keepup-stalled")
	}
	b, _ := json.Marshal(cfg)
	e.meta.Count(family, "K"+string(b), true, map[string]interface{}{"family": family, "cfg": cfg, "stalled": st})
	e.emit(Case{Family: family, Keepup: &cfg, Ins: ins, Del: del, Stalled: st})
}

func (e *emitter) addPing(family string, rounds int) {
	if tooManyHangs() {
		return
	}
	st := runPing(rounds, 10*time.Second)
	e.meta.Hist("ping-run")
	e.meta.Count(family, fmt.Sprintf("P%d", rounds), true, map[string]interface{}{"family": family, "rounds": rounds, "stalled": st})
	e.emit(Case{Family: family, Ping: rounds, Stalled: st})
}

func (e *emitter) addCtxErr(family, kind string) {
	k := runCtxErr(kind)
	e.meta.Hist("ctxerr:" + kind + "->" + k)
	e.meta.Count(family, "C"+kind, false, nil)
	e.emit(Case{Family: family, CtxErr: kind, ErrKind: k})
}

// replayCase re-executes the inputs of c.
func (e *emitter) replayCase(family string, c Case) {
	switch {
	case c.Bulk != nil:
		e.addBulk(family, c.Bulk)
	case c.Burst != nil:
		e.addBurst(family, *c.Burst)
	case c.Keepup != nil:
		e.addKeepup(family, *c.Keepup)
	case c.Ping > 0:
		e.addPing(family, c.Ping)
	case c.CtxErr != "":
		e.addCtxErr(family, c.CtxErr)
	case c.S != nil:
		cfg := *c.S
		dec := cfg.Sched
		first := runSched(cfg, func(ready []int, n int) int {
			if n < len(dec) {
				return dec[n]
			}
			return -1
		})
		r := first
		if !first.broken {
			if rr, ok := confirmed(cfg, first, 6, c.Steps); ok {
				r = rr
			} else {
				e.meta.Hist("sched-unconfirmed")
				return
			}
		}
		e.addSched(family, cfg, r)
	case c.Stress != nil:
		e.addStress(family, *c.Stress)
	default:
		e.addSeq(family, c.Ops, false)
	}
}

// ---------------------------------------------------------------------------
// generators

// drain suffix: with at most nItems distinct items pending, nItems+1 Nexts
// after Close must end with "closed".
func drainSuffix(nItems int) []Op {
	ops := []Op{{K: "len"}, {K: "close"}}
	for i := 0; i <= nItems; i++ {
		ops = append(ops, Op{K: "next", C: "bg"})
	}
	return ops
}

func exhaustiveAlphabet() []Op {
	return []Op{
		{K: "insert", I: 0}, {K: "insert", I: 1},
		{K: "next", C: "cancelled"}, {K: "next", C: "short"},
		{K: "close"}, {K: "len"}, {K: "isclosed"},
	}
}

// canonical: item 1 is never inserted before item 0 has been (the two items
// are interchangeable).
func canonicalSeq(ops []Op) bool {
	seen0 := false
	for _, o := range ops {
		if o.K == "insert" {
			if o.I == 0 {
				seen0 = true
			} else if !seen0 {
				return false
			}
		}
	}
	return true
}

func randSeq(r *vh.Rand, maxOps int) []Op {
	n := 4 + r.Intn(maxOps-3)
	items := 2 + r.Intn(2)
	// a third of the cases use items of mixed Go types (string "1", int64 1,
	// int 1, nil, two pointers to equal structs, a struct value)
	pool := []int{0, 1, 2}
	if r.Chance(1, 3) {
		pool = []int{1, 3, 4, 5, 6, 7, 8}
		items = 3 + r.Intn(5)
	}
	ops := make([]Op, 0, n+6)
	closeW := 1
	if r.Chance(1, 3) {
		closeW = 0
	}
	for i := 0; i < n; i++ {
		switch r.Pick(40, 12, 6, 10, closeW, 6, 3) {
		case 0:
			ops = append(ops, Op{K: "insert", I: pool[r.Intn(items)]})
		case 1:
			ops = append(ops, Op{K: "next", C: "bg"})
		case 2:
			ops = append(ops, Op{K: "next", C: "short"})
		case 3:
			ops = append(ops, Op{K: "next", C: "cancelled"})
		case 4:
			ops = append(ops, Op{K: "close"})
		case 5:
			ops = append(ops, Op{K: "len"})
		case 6:
			ops = append(ops, Op{K: "isclosed"})
		}
	}
	return append(ops, drainSuffix(items)...)
}

type seqJob struct {
	family string
	ops    []Op
	ran    []Op
	obs    []Obs
}

// runSeqJobs runs the jobs on a few goroutines (each case has its own queue;
// no scheduler is installed) and emits them in order.
func (e *emitter) runSeqJobs(jobs []seqJob, workers int) {
	var wg sync.WaitGroup
	var next int64 = -1
	for w := 0; w < workers; w++ {
		wg.Add(1)
		go func() {
			defer wg.Done()
			for {
				k := int(atomic.AddInt64(&next, 1))
				if k >= len(jobs) {
					return
				}
				if tooManyHangs() {
					continue
				}
				jobs[k].ran, jobs[k].obs = runSeq(jobs[k].ops, true)
			}
		}()
	}
	wg.Wait()
	for _, j := range jobs {
		if j.ran == nil {
			e.meta.Hist("skipped-after-hangs")
			continue
		}
		e.addSeqDone(j.family, j.ran, j.obs)
	}
}

// dfs enumerates schedules of cfg blindly (stateless depth-first search with
// re-execution), to maxDepth decisions, at most maxLeaves leaves.
func (e *emitter) dfs(family string, cfg SchedCfg, maxDepth, maxLeaves int) (leaves int, complete bool) {
	complete = true
	var rec func(prefix []int)
	rec = func(prefix []int) {
		if tooManyHangs() {
			complete = false
			return
		}
		if leaves >= maxLeaves {
			complete = false
			return
		}
		r := runSched(cfg, func(ready []int, n int) int {
			if n < len(prefix) {
				return prefix[n]
			}
			return -1
		})
		if len(r.decisions) < len(prefix) {
			return // a select took another case this time; the prefix is not available
		}
		if len(r.ready) == 0 || len(prefix) >= maxDepth || r.broken {
			if len(r.ready) != 0 && !r.broken {
				complete = false
			}
			leaves++
			if r.broken {
				e.addSched(family, cfg, r)
				return
			}
			if rr, ok := confirmed(cfg, r, 4, nil); ok {
				e.addSched(family, cfg, rr)
			} else {
				e.meta.Hist("sched-unconfirmed")
			}
			return
		}
		for _, c := range r.ready {
			rec(append(append([]int{}, prefix...), c))
		}
	}
	rec(nil)
	return
}

func randCfg(r *vh.Rand) SchedCfg {
	prog := func() []int {
		n := 1 + r.Intn(2)
		p := make([]int, n)
		for i := range p {
			p[i] = r.Intn(2)
		}
		return p
	}
	cfg := SchedCfg{Progs: [][]int{prog()}, NNext: 1 + r.Intn(4)}
	if r.Chance(3, 4) {
		cfg.Progs = append(cfg.Progs, prog())
	}
	if r.Chance(2, 3) {
		cfg.NClose = 1
	}
	if r.Chance(1, 3) {
		cfg.NCancel = 1
	}
	return cfg
}

func (e *emitter) randomWalk(family string, r *vh.Rand) {
	if tooManyHangs() {
		e.meta.Hist("skipped-after-hangs")
		return
	}
	cfg := randCfg(r)
	// weights: keep the closer / canceller from always going first
	res := runSched(cfg, func(ready []int, n int) int {
		var w []int
		for _, id := range ready {
			switch {
			case id == tidClose || id == tidCancel:
				w = append(w, 1)
			case id == tidCons:
				w = append(w, 4)
			default:
				w = append(w, 3)
			}
		}
		return ready[r.Pick(w...)]
	})
	if res.broken {
		e.addSched(family, cfg, res)
		return
	}
	if rr, ok := confirmed(cfg, res, 4, nil); ok {
		e.addSched(family, cfg, rr)
	} else {
		e.meta.Hist("sched-unconfirmed")
	}
}

func readCases(path string) []Case {
	b, err := os.ReadFile(path)
	if err != nil {
		vh.Die("read %s: %v", path, err)
	}
	var cs []Case
	if json.Unmarshal(b, &cs) != nil {
		var one Case
		if err := json.Unmarshal(b, &one); err != nil {
			vh.Die("%s unreadable: %v", path, err)
		}
		cs = []Case{one}
	}
	return cs
}

func main() {
	flag.Set("logtostderr", "true")
	o := vh.ParseFlags()
	coalesce.VerifHook = hookDispatch
	// a pending timer keeps the runtime's "all goroutines are asleep" detector
	// quiet when a broken implementation deadlocks every thread of a run
	go func() {
		for {
			time.Sleep(time.Hour)
		}
	}()
	meta := vh.NewMeta("corpus; mode E: every canonical sequence of <=L operations (quick L=5, thorough L=6) over {Insert 0, Insert 1, Next(cancelled ctx), Next(1ms ctx), Close, Len, IsClosed} and every canonical sequence of L+1 operations over the same alphabet without Next(1ms ctx) and IsClosed, each followed by Len, Close and 3 draining Next, plus seeded random sequences of 4..40 operations over 2-3 items; mode S: blind depth-first enumeration of the schedules of small producer/consumer/Close/Cancel configurations under the barrier scheduler plus seeded random walks over 1-2 producers (1-2 inserts each, items {0,1}) x consumer (1-4 Next) x Close x Cancel, each trace kept only when reproduced; bulk: 255..65537 insertions of one pending item, 1..300 distinct pending items, all pairs of items of mixed Go types (int, string, int64, nil, pointers, struct); burst: 2-16 goroutines released together insert the same / a few items into fresh queues with nobody consuming, then concurrent Closes; ping: producer and consumer in lock-step (4 x 20000 rounds); keepup: 1-3 free-running producers (30000 inserts each, distinct and repeated items) against a consumer that keeps up, queue not closed, stall watchdog; ctx error kind; stress: free-running producers with one consumer. distinct = distinct operation sequence resp. distinct (programs, recorded trace); non-trivial = (E) an accepted Insert and a Next that returned an item, (S) at least one producer step and one consumer step")
	e := &emitter{dir: o.Out, cf: vh.NewCaseFile(), meta: meta, limit: 1500}

	if o.Replay != "" {
		for _, c := range readCases(o.Replay) {
			e.replayCase("replay", c)
		}
		e.flush()
		meta.Write(o.Out)
		return
	}

	// corpus first
	if dir := os.Getenv("VERIF_CORPUS"); dir != "" {
		ents, _ := os.ReadDir(dir)
		for _, en := range ents {
			if strings.HasSuffix(en.Name(), ".json") {
				for _, c := range readCases(dir + "/" + en.Name()) {
					e.replayCase("corpus", c)
				}
			}
		}
	}

	workers := 8

	// mode E, exhaustive: the full alphabet to length maxLen, and one level
	// deeper over the alphabet without Next(1ms ctx) and IsClosed
	al := exhaustiveAlphabet()
	maxLen := 5
	if o.Thorough() {
		maxLen = 6
	}
	var jobs []seqJob
	enum := func(al []Op, L int, family string) {
		idx := make([]int, L)
		var rec func(d int)
		rec = func(d int) {
			if d == L {
				ops := make([]Op, 0, L+5)
				for _, i := range idx {
					ops = append(ops, al[i])
				}
				if !canonicalSeq(ops) {
					return
				}
				ops = append(ops, drainSuffix(2)...)
				jobs = append(jobs, seqJob{family: family, ops: ops})
				return
			}
			for i := range al {
				idx[d] = i
				rec(d + 1)
			}
		}
		rec(0)
	}
	for L := 1; L <= maxLen; L++ {
		enum(al, L, fmt.Sprintf("E-exhaustive-%d", L))
	}
	var al5 []Op
	for _, op := range al {
		if !(op.K == "isclosed" || (op.K == "next" && op.C == "short")) {
			al5 = append(al5, op)
		}
	}
	enum(al5, maxLen+1, fmt.Sprintf("E-exhaustive5-%d", maxLen+1))
	meta.Extra["E_exhaustive_max_len"] = maxLen
	meta.Extra["E_exhaustive_alphabet"] = len(al)
	meta.Extra["E_exhaustive_cases"] = len(jobs)

	// mode E, random
	r := vh.NewRand(o.Seed)
	nrand := 1500
	if o.Thorough() {
		nrand = 30000
	}
	for i := 0; i < nrand; i++ {
		jobs = append(jobs, seqJob{family: "E-random", ops: randSeq(r.Fork(), 40)})
	}
	e.runSeqJobs(jobs, workers)

	// mode S
	type dcfg struct {
		name string
		cfg  SchedCfg
	}
	small := []dcfg{
		{"S-dfs-1p-close", SchedCfg{Progs: [][]int{{0}}, NNext: 2, NClose: 1}},
		{"S-dfs-1p-cancel", SchedCfg{Progs: [][]int{{0}}, NNext: 2, NCancel: 1}},
		{"S-dfs-2p-same", SchedCfg{Progs: [][]int{{0}, {0}}, NNext: 2}},
		{"S-dfs-1p2-close", SchedCfg{Progs: [][]int{{0, 0}}, NNext: 2, NClose: 1}},
		{"S-dfs-2p-distinct", SchedCfg{Progs: [][]int{{0}, {1}}, NNext: 1}},
		{"S-dfs-1p-close-cancel", SchedCfg{Progs: [][]int{{0}}, NNext: 2, NClose: 1, NCancel: 1}},
	}
	depth, leavesMax := 14, 1600
	if o.Thorough() {
		small = append(small,
			dcfg{"S-dfs-2p-close", SchedCfg{Progs: [][]int{{0}, {1}}, NNext: 3, NClose: 1}},
			dcfg{"S-dfs-2p-close-cancel", SchedCfg{Progs: [][]int{{0}, {0}}, NNext: 2, NClose: 1, NCancel: 1}},
			dcfg{"S-dfs-2p2", SchedCfg{Progs: [][]int{{0, 1}, {1, 0}}, NNext: 3}},
		)
		depth, leavesMax = 16, 20000
	}
	dfsInfo := map[string]interface{}{}
	for _, d := range small {
		n, complete := e.dfs(d.name, d.cfg, depth, leavesMax)
		dfsInfo[d.name] = map[string]interface{}{"leaves": n, "complete": complete}
	}
	meta.Extra["S_dfs"] = dfsInfo
	nwalk := 600
	if o.Thorough() {
		nwalk = 12000
	}
	for i := 0; i < nwalk; i++ {
		e.randomWalk("S-random", r.Fork())
	}

	// bulk: duplicate counts and queue lengths around powers of two
	for _, n := range []int{255, 256, 257, 1000, 65535, 65536, 65537} {
		e.addBulk("bulk-dup", [][2]int{{0, 1}, {1, n}, {0, 2}, {2, 1}})
	}
	for _, n := range []int{1, 2, 63, 64, 65, 127, 128, 129, 300} {
		var sc [][2]int
		for k := 0; k < n; k++ {
			sc = append(sc, [2]int{10 + k, 1 + k%2})
		}
		sc = append(sc, [2]int{10, 3})
		e.addBulk("bulk-many", sc)
	}
	// mixed item types, exhaustively in pairs: x, y, x again
	ex := []int{1, 3, 4, 5, 6, 7, 8}
	for _, x := range ex {
		for _, y := range ex {
			e.addBulk("bulk-types", [][2]int{{x, 1}, {y, 2}, {x, 1}})
		}
	}
	e.addCtxErr("ctxerr", "cancelled")
	e.addCtxErr("ctxerr", "short")
	// burst / ping: real concurrency
	nburst, nping, pingRounds, burstRounds := 200, 4, 20000, 40
	if o.Thorough() {
		nburst, nping, pingRounds, burstRounds = 2000, 20, 100000, 100
	}
	for i := 0; i < nburst; i++ {
		rr := r.Fork()
		items := []int{0, 1, 5, 6}[:1+rr.Intn(3)]
		cfg := BurstCfg{Producers: 2 + rr.Intn(6), PerProd: 1 + rr.Intn(3), Items: items, Closers: 2 + rr.Intn(7), Rounds: burstRounds}
		if i%2 == 0 {
			// all producers insert the same new item at the same moment
			cfg = BurstCfg{Producers: []int{2, 4, 8, 16}[rr.Intn(4)], PerProd: 1, Items: []int{[]int{0, 5, 6}[rr.Intn(3)]}, Closers: 8, Rounds: 10 * burstRounds}
		}
		e.addBurst("burst", cfg)
	}
	for i := 0; i < nping; i++ {
		e.addPing("ping", pingRounds)
	}
	// keep-up: free-running producers, consumer that keeps up, no Close
	nkeep, keepN := 9, 30000
	if o.Thorough() {
		nkeep, keepN = 60, 200000
	}
	for i := 0; i < nkeep; i++ {
		rr := r.Fork()
		e.addKeepup("keepup", KeepupCfg{Producers: 1 + i%3, PerProd: keepN, Items: []int{1, 2, 64, 1000}[rr.Intn(4)],
			Stride: 1 + rr.Intn(50), Procs: []int{0, 1, 2}[(i/3)%3]})
	}

	// stress
	nstress := 12
	if o.Thorough() {
		nstress = 200
	}
	for i := 0; i < nstress; i++ {
		rr := r.Fork()
		e.addStress("stress", StressCfg{Producers: 2 + rr.Intn(5), PerProd: 200 + rr.Intn(400), Items: 1 + rr.Intn(6), Seed: rr.U64() % 1000000})
	}

	e.flush()
	meta.Exhaustive = false
	if err := meta.Write(o.Out); err != nil {
		vh.Die("meta: %v", err)
	}
}

// Barrier scheduler for forced-schedule runs (DESIGN.md 3.2, mode S).
//
// Every harness thread is a goroutine registered with the scheduler.  A thread
// stops (a) at each `verif` hook point of the code under test (the package's
// VerifHook is pointed at Sched.Hook), (b) where its body calls Thread.Stop
// (start of its program, after each call returned), (c) when it is parked
// inside the Go runtime (select, channel, mutex ...) -- recognised from its
// goroutine state in a runtime.Stack snapshot, never from a time-out.
// Exactly one thread is released at a time (Sched.Step); Step returns when the
// system is quiescent again: every thread is parked at a stop, finished, or
// waiting inside the runtime.  A thread that was waiting in the runtime and is
// made runnable by the released thread's step (channel send, close, cancel)
// runs on by itself to its next stop; its events are returned after the
// released thread's own.
//
// This file has no dependency on the code under test; copy it as is.
package main

import (
	"bytes"
	"fmt"
	"runtime"
	"strconv"
	"sync"
	"sync/atomic"
	"time"
)

// Event is what a thread did until it stopped.
type Event struct {
	T     *Thread
	Kind  string      // start at ret blocked done panic hang
	Point string      // hook name for "at"
	Val   interface{} // result for "ret", panic value for "panic"
}

// Thread status as the controller knows it.
const (
	stRunning = iota
	stParked  // waiting for the controller at a stop
	stBlocked // waiting inside the Go runtime
	stDone
)

// Thread is one scheduled goroutine.
type Thread struct {
	ID     int
	Name   string
	s      *Sched
	goid   int64
	resume chan struct{}
	freed  bool
	status int
	// LastStop is the kind/point of the stop the thread is parked at.
	LastKind, LastPoint string
	// Left is maintained by the body: calls still to make (0 = program over).
	Left int32
}

// Sched is one run's scheduler.
type Sched struct {
	mu      sync.Mutex
	byGoid  map[int64]*Thread
	Threads []*Thread
	events  chan Event
	aborted atomic.Bool
	wg      sync.WaitGroup
	// HangAfter is how long a non-quiescent system is waited for.
	HangAfter time.Duration
}

// NewSched makes a scheduler.
func NewSched() *Sched {
	return &Sched{byGoid: map[int64]*Thread{}, events: make(chan Event, 256), HangAfter: 10 * time.Second}
}

func curGoid() int64 {
	var buf [64]byte
	n := runtime.Stack(buf[:], false)
	// "goroutine 123 [running]:"
	b := buf[:n]
	b = b[len("goroutine "):]
	i := bytes.IndexByte(b, ' ')
	id, _ := strconv.ParseInt(string(b[:i]), 10, 64)
	return id
}

// goStates returns the state string of every goroutine ("running", "select",
// "chan receive", ...), taken in one stop-the-world snapshot.
func goStates() map[int64]string {
	buf := make([]byte, 1<<16)
	for {
		n := runtime.Stack(buf, true)
		if n < len(buf) {
			buf = buf[:n]
			break
		}
		buf = make([]byte, 2*len(buf))
	}
	out := map[int64]string{}
	for _, blk := range bytes.Split(buf, []byte("\n\n")) {
		if !bytes.HasPrefix(blk, []byte("goroutine ")) {
			continue
		}
		b := blk[len("goroutine "):]
		i := bytes.IndexByte(b, ' ')
		if i < 0 {
			continue
		}
		id, err := strconv.ParseInt(string(b[:i]), 10, 64)
		if err != nil {
			continue
		}
		b = b[i+1:]
		if len(b) == 0 || b[0] != '[' {
			continue
		}
		j := bytes.IndexByte(b, ']')
		if j < 0 {
			continue
		}
		st := string(b[1:j])
		// "select, 2 minutes" / "chan receive, locked to thread"
		if k := bytes.IndexByte([]byte(st), ','); k >= 0 {
			st = st[:k]
		}
		out[id] = st
	}
	return out
}

// waitState reports whether a goroutine in this state can only be made
// runnable by another goroutine (so a system in which every live thread is in
// such a state, or parked by the controller, is quiescent).
func waitState(st string) bool {
	switch st {
	case "select", "select (no cases)", "chan receive", "chan send", "chan receive (nil chan)", "chan send (nil chan)",
		"sync.Mutex.Lock", "sync.RWMutex.RLock", "sync.RWMutex.Lock", "sync.Cond.Wait", "semacquire",
		"sync.WaitGroup.Wait":
		return true
	}
	return false
}

// Spawn starts a thread; body runs with the thread registered.  The thread
// first stops with event "start".  Spawn returns after that stop is reached.
func (s *Sched) Spawn(id int, name string, left int, body func(t *Thread)) *Thread {
	t := &Thread{ID: id, Name: name, s: s, resume: make(chan struct{}), status: stRunning, Left: int32(left)}
	s.Threads = append(s.Threads, t)
	s.wg.Add(1)
	reg := make(chan struct{})
	go func() {
		defer s.wg.Done()
		t.goid = curGoid()
		s.mu.Lock()
		s.byGoid[t.goid] = t
		s.mu.Unlock()
		close(reg)
		defer func() {
			if r := recover(); r != nil {
				s.events <- Event{T: t, Kind: "panic", Val: fmt.Sprint(r)}
				return
			}
			s.events <- Event{T: t, Kind: "done"}
		}()
		t.Stop("start", nil)
		body(t)
	}()
	<-reg
	ev := <-s.events // its "start"
	s.note(ev)
	return t
}

// Stop reports a stop of kind k (with a value) and parks until released.
func (t *Thread) Stop(kind string, val interface{}) {
	if t.s.aborted.Load() {
		return
	}
	t.s.events <- Event{T: t, Kind: kind, Val: val}
	<-t.resume
}

// Hook is to be installed as the package's VerifHook.
func (s *Sched) Hook(point string) {
	if s.aborted.Load() {
		return
	}
	s.mu.Lock()
	t := s.byGoid[curGoid()]
	s.mu.Unlock()
	if t == nil {
		return // a goroutine the run does not schedule
	}
	s.events <- Event{T: t, Kind: "at", Point: point}
	<-t.resume
}

func (s *Sched) note(ev Event) {
	t := ev.T
	switch ev.Kind {
	case "done", "panic":
		t.status = stDone
	default:
		t.status = stParked
	}
	t.LastKind, t.LastPoint = ev.Kind, ev.Point
}

// Ready lists the threads the controller may release: parked, and either
// inside a call (at a hook) or with calls left to make.
func (s *Sched) Ready() []*Thread {
	var out []*Thread
	for _, t := range s.Threads {
		if t.status == stParked && (t.LastKind == "at" || atomic.LoadInt32(&t.Left) > 0) {
			out = append(out, t)
		}
	}
	return out
}

// Blocked lists the threads waiting inside the runtime.
func (s *Sched) Blocked() []*Thread {
	var out []*Thread
	for _, t := range s.Threads {
		if t.status == stBlocked {
			out = append(out, t)
		}
	}
	return out
}

// Step releases t and waits for quiescence.  The returned events are t's own
// stop first (or "blocked"), then those of threads its step woke up.
func (s *Sched) Step(t *Thread) []Event {
	t.status = stRunning
	t.resume <- struct{}{}
	var own, others []Event
	put := func(ev Event) {
		if ev.T == t && own == nil {
			own = append(own, ev)
		} else {
			others = append(others, ev)
		}
	}
	take := func(ev Event) {
		s.note(ev)
		put(ev)
	}
	drain := func() bool {
		got := false
		for {
			select {
			case ev := <-s.events:
				take(ev)
				got = true
				continue
			default:
			}
			return got
		}
	}
	count := func(st int) int {
		n := 0
		for _, x := range s.Threads {
			if x.status == st {
				n++
			}
		}
		return n
	}
	deadline := time.Now().Add(s.HangAfter)
	wait := 20 * time.Microsecond
	for {
		if count(stRunning) > 0 {
			// the usual case: the released thread reports its next stop
			tm := time.NewTimer(wait)
			select {
			case ev := <-s.events:
				tm.Stop()
				take(ev)
				continue
			case <-tm.C:
				if wait < 2*time.Millisecond {
					wait *= 2
				}
			}
		}
		drain()
		if count(stRunning) == 0 && count(stBlocked) == 0 {
			break
		}
		// Some thread has not reported (it may be parked in the runtime), or
		// a thread parked in the runtime may have been woken by this step.
		states := goStates()
		if drain() {
			continue // an event sent before the snapshot is in the channel by now
		}
		for _, x := range s.Threads {
			// a thread woken from a runtime wait is running again
			if x.status == stBlocked && !waitState(states[x.goid]) {
				x.status = stRunning
			}
		}
		if count(stRunning) == 0 {
			break // whoever was parked in the runtime still is
		}
		quiet := true
		for _, x := range s.Threads {
			if x.status == stRunning && !waitState(states[x.goid]) {
				quiet = false
			}
		}
		if quiet {
			for _, x := range s.Threads {
				if x.status == stRunning {
					x.status = stBlocked
					x.LastKind, x.LastPoint = "blocked", states[x.goid]
					put(Event{T: x, Kind: "blocked", Point: states[x.goid]})
				}
			}
			break
		}
		if time.Now().After(deadline) {
			for _, x := range s.Threads {
				if x.status == stRunning {
					put(Event{T: x, Kind: "hang", Point: states[x.goid]})
				}
			}
			break
		}
	}
	return append(own, others...)
}

// Abort ends the run: stops are no longer honoured, every parked thread is
// released.  cleanup (closing queues, cancelling contexts) must make threads
// waiting in the runtime return.  Abort reports whether all threads ended.
func (s *Sched) Abort(cleanup func()) bool {
	s.aborted.Store(true)
	free := func(t *Thread) {
		if !t.freed {
			t.freed = true
			close(t.resume)
		}
	}
	for _, t := range s.Threads {
		if t.status == stParked {
			free(t)
		}
	}
	if cleanup != nil {
		// on its own goroutine: with a broken implementation the clean-up
		// itself may block (a lock that was never released)
		go func() {
			defer func() { recover() }()
			cleanup()
		}()
	}
	done := make(chan struct{})
	go func() { s.wg.Wait(); close(done) }()
	// keep the event channel from filling up
	for {
		select {
		case ev := <-s.events:
			if ev.Kind != "done" && ev.Kind != "panic" {
				free(ev.T) // it stopped just before the abort and waits to be released
			}
		case <-done:
			return true
		case <-time.After(5 * time.Second):
			return false
		}
	}
}

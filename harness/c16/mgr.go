// Manager family for C16: a real manager.Manager on top of the real
// connection.Manager with a counting dialer.  The target manager is a holder
// of connections like any other: once a target has been removed, every
// reference its monitor took must have been given back, so every connection
// dialled for it must be closed.
package main

import (
	"context"
	"errors"
	"fmt"
	"sync"
	"time"

	"github.com/openconfig/gnmi/connection"
	"github.com/openconfig/gnmi/manager"
	gpb "github.com/openconfig/gnmi/proto/gnmi"
	tpb "github.com/openconfig/gnmi/proto/target"
	"google.golang.org/grpc"
	"google.golang.org/grpc/connectivity"
	"google.golang.org/grpc/credentials/insecure"
)

type mgrDialer struct {
	mu      sync.Mutex
	conns   []*grpc.ClientConn
	addrs   []string
	failFor int // the next failFor Dial calls fail
	deadFor int // the next deadFor connections are closed before they are returned: Subscribe on them fails at once
	calls   int
}

// mgrCreds is the credentials backend: the next failFor look-ups fail.
type mgrCreds struct {
	mu      sync.Mutex
	failFor int
	calls   int
}

func (c *mgrCreds) Lookup(ctx context.Context, key string) (string, error) {
	c.mu.Lock()
	defer c.mu.Unlock()
	c.calls++
	if c.failFor > 0 {
		c.failFor--
		return "", errors.New("scripted credentials failure")
	}
	return "secret", nil
}

func (d *mgrDialer) dial(ctx context.Context, target string, _ ...grpc.DialOption) (*grpc.ClientConn, error) {
	d.mu.Lock()
	d.calls++
	if d.failFor > 0 {
		d.failFor--
		d.mu.Unlock()
		return nil, errors.New("scripted dial failure")
	}
	id := 2000 + len(d.conns)
	d.mu.Unlock()
	// a channel that never becomes ready and does no I/O: RPCs on it wait
	// until their context ends
	cc, err := grpc.NewClient(fmt.Sprintf("c16h:///%d/plain", id),
		grpc.WithTransportCredentials(insecure.NewCredentials()), grpc.WithResolvers(hBuilder{}),
		grpc.WithDefaultServiceConfig(`{"loadBalancingConfig":[{"c16bal":{}}]}`))
	if err != nil {
		return nil, err
	}
	cc.Connect()
	d.mu.Lock()
	if d.deadFor > 0 {
		d.deadFor--
		cc.Close()
	}
	d.conns = append(d.conns, cc)
	d.addrs = append(d.addrs, target)
	d.mu.Unlock()
	return cc, nil
}

func (d *mgrDialer) made() int {
	d.mu.Lock()
	defer d.mu.Unlock()
	return len(d.conns)
}

func (d *mgrDialer) ncalls() int {
	d.mu.Lock()
	defer d.mu.Unlock()
	return d.calls
}

func (d *mgrDialer) closed() []int {
	d.mu.Lock()
	defer d.mu.Unlock()
	var out []int
	for i, cc := range d.conns {
		if cc.GetState() == connectivity.Shutdown {
			out = append(out, i)
		}
	}
	return out
}

// settled waits until the number of Dial calls has not changed for a while.
func (d *mgrDialer) settled(min int) {
	last, since := -1, time.Now()
	for t0 := time.Now(); time.Since(t0) < 2*time.Second; {
		n := d.ncalls()
		if n != last {
			last, since = n, time.Now()
		}
		if n >= min && time.Since(since) > 15*time.Millisecond {
			return
		}
		time.Sleep(time.Millisecond)
	}
}

// runManager plays the cycles of one manager case.  Ev of kind "mgr":
// I = distinct next hops, A = Dial calls that fail first, EK = reconnects,
// ND = the address list repeats its first next hop, CF = credentials look-ups
// that fail first, SF = connections on which Subscribe fails at once.
func runManager(ops []Ev, emit func(Line)) {
	manager.RetryBaseDelay = 2 * time.Millisecond
	manager.RetryMaxDelay = 5 * time.Millisecond
	d := &mgrDialer{}
	cm, err := connection.NewManagerCustom(map[string]connection.Dial{connection.DEFAULT: d.dial})
	if err != nil {
		panic(err)
	}
	creds := &mgrCreds{}
	m, err := manager.NewManager(manager.Config{ConnectionManager: cm, Credentials: creds})
	if err != nil {
		panic(err)
	}
	for k, e := range ops {
		e := e
		emit(Line{Ev: &e})
		o := Obs{}
		func() {
			defer func() {
				if r := recover(); r != nil {
					o.Bad, o.Msg = 1, fmt.Sprint("panic: ", r)
				}
			}()
			before := d.made()
			d.mu.Lock()
			d.failFor = e.A
			d.deadFor = e.SF
			d.mu.Unlock()
			creds.mu.Lock()
			creds.failFor = e.CF
			creds.mu.Unlock()
			var addrs []string
			for h := 0; h < e.I; h++ {
				addrs = append(addrs, fmt.Sprintf("hop-%d-%d:1", k, h))
			}
			if e.ND && len(addrs) > 0 {
				addrs = append(addrs, addrs[0])
			}
			name := fmt.Sprintf("target-%d", k)
			sr := &gpb.SubscribeRequest{Request: &gpb.SubscribeRequest_Subscribe{Subscribe: &gpb.SubscriptionList{}}}
			tgt := &tpb.Target{Addresses: addrs}
			if e.CF > 0 || k%2 == 1 {
				// a target whose password has to be looked up in the credentials backend
				tgt.Credentials = &tpb.Credentials{Username: "user", PasswordId: "pw-id"}
			}
			if err := m.Add(name, tgt, sr); err != nil {
				o.Bad, o.Msg = 1, "Add: "+err.Error()
				return
			}
			calls := d.ncalls()
			d.settled(calls + 1)
			for r := 0; r < e.EK; r++ {
				calls = d.ncalls()
				m.Reconnect(name)
				d.settled(calls + 1)
			}
			done := make(chan error, 1)
			go func() { done <- m.Remove(name) }()
			select {
			case <-done:
			case <-time.After(5 * time.Second):
				o.Bad, o.Msg = 2, "Remove did not return"
				return
			}
			// Remove returns after the monitor has finished, i.e. after its
			// deferred done(); allow the close a moment all the same
			for t0 := time.Now(); len(d.closed()) < d.made() && time.Since(t0) < 300*time.Millisecond; {
				time.Sleep(time.Millisecond)
			}
			for h := before; h < d.made(); h++ {
				o.Dials = append(o.Dials, [2]int{h, k})
			}
		}()
		o.Closed = d.closed()
		emit(Line{Obs: &o})
		if o.Bad != 0 {
			break
		}
	}
	d.mu.Lock()
	for _, cc := range d.conns {
		cc.Close()
	}
	d.mu.Unlock()
	emit(Line{Done: true})
}

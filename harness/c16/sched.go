// Controller for C16: plays a script of events against one real
// connection.Manager and waits, after every event, until every goroutine that
// belongs to the case is parked again (at a schedule point, inside the
// scripted Dial, blocked in the Go runtime, or finished).  "Parked" is read
// from the goroutine states of a runtime.Stack snapshot, never from a
// time-out.
package main

import (
	"bytes"
	"context"
	"errors"
	"fmt"
	"io"
	"runtime"
	"sort"
	"strconv"
	"strings"
	"sync"
	"time"

	"github.com/openconfig/gnmi/connection"
	"google.golang.org/grpc"
	"google.golang.org/grpc/balancer"
	"google.golang.org/grpc/balancer/base"
	"google.golang.org/grpc/connectivity"
	"google.golang.org/grpc/credentials/insecure"
	"google.golang.org/grpc/resolver"
)

// Ev is one script event.  K: req pass dial failgo release cancel closego again break.
type Ev struct {
	K    string `json:"k"`
	I    int    `json:"i"`              // thread (req pass release cancel again), creator of the dial (dial failgo), handle (closego)
	A    int    `json:"a,omitempty"`    // req: address
	ND   bool   `json:"nd,omitempty"`   // req: name a dialer that does not exist
	OK   bool   `json:"ok,omitempty"`   // dial: succeed
	Slow bool   `json:"slow,omitempty"` // dial ok: the handle's Close() parks until closego
	Deaf bool   `json:"deaf,omitempty"` // req: the Dial started for this request ignores its context; cancel: of such a thread
	Hold bool   `json:"hold,omitempty"` // req: stop at connection:locked (inside the critical section) until closego 1000+i
	CF   int    `json:"cf,omitempty"`   // mgr: credentials look-ups that fail first
	SF   int    `json:"sf,omitempty"`   // mgr: connections whose Subscribe fails at once (handed out already closed)
	EK   int    `json:"ek,omitempty"`   // dial fail: kind of error (0 plain, 1 wraps context.DeadlineExceeded, 2 wraps io.EOF)
}

// Ret is one Connection call that returned.
type Ret struct {
	I    int    `json:"i"`
	Kind string `json:"kind"` // conn nil err
	H    int    `json:"h,omitempty"`
	Cls  int    `json:"cls,omitempty"` // 1 context cancelled, 2 scripted dial error, 3 other
}

// Obs is what became observable during one event.
type Obs struct {
	Ign     bool     `json:"ign,omitempty"`
	Rets    []Ret    `json:"rets,omitempty"`
	Joined  []int    `json:"joined,omitempty"`
	Dials   [][2]int `json:"dials,omitempty"`
	Failing []int    `json:"failing,omitempty"`
	Closed  []int    `json:"closed,omitempty"`
	InClose []int    `json:"inclose,omitempty"` // handles whose Close() was entered and is parked
	RelDone []int    `json:"reldone,omitempty"` // threads whose done() returned during this event
	Bad     int      `json:"bad,omitempty"` // 1 panic, 2 a call that cannot block did not come back
	Msg     string   `json:"msg,omitempty"`
}

type ctxKey struct{}

var errScripted = errors.New("scripted dial failure")

type thread struct {
	id       int
	addr     int
	goid     uint64
	cmd      chan int // 1 = call done
	started  bool
	atHook   bool // reached connection:joined at least once
	hold     bool // stop at connection:locked
	deaf     bool // its Dial does not listen to the context
	returned bool
	done     func()
	releases int
	agains   int
	busy     bool // a command has been handed over and is not finished
	stopped  bool // the command channel is closed
}

type dialrec struct {
	creator int
	addr    int
	inDial  bool
	slow    bool
	ek      int
	rel     chan bool
}

type ctl struct {
	mu       sync.Mutex
	m        *connection.Manager
	self     uint64
	threads  map[int]*thread
	ctxs     map[int]context.Context
	cancels  map[int]context.CancelFunc
	canceled map[int]bool
	dials    map[int]*dialrec
	pJoined  map[int]chan struct{}
	pFailed  map[int]chan struct{}
	byGoid   map[uint64]int // worker goroutine -> thread
	dialGoid map[uint64]int // dialer goroutine -> creator
	handles  map[int]*grpc.ClientConn
	byConn   map[*grpc.ClientConn]int
	curReq   int
	dialErrs map[error]bool        // the error values the scripted Dial returned
	bals     map[int]*hBalancer    // handle -> its balancer
	broken   map[int]bool          // handle was driven to TRANSIENT_FAILURE
	pClose   map[int]chan struct{} // handle -> its Close() is parked in the resolver
	parked   int                   // handle whose Close is parked, -1 if none
	used     int                   // lock-kind events already played during this park (at most 2)
	inclose  []int
	reldone  []int
	cleanup  bool
	extra    int
	// accumulators of the event in progress
	rets    []Ret
	joined  []int
	ndials  [][2]int
	failing []int
	bad     int
	msg     string
}

// holdSeen: the schedule point connection:locked exists in this repository;
// holdOK is set from it by a probe before the first case.
var holdSeen, holdOK bool

var current struct {
	mu sync.Mutex
	c  *ctl
}

func init() {
	connection.VerifHook = func(p string) {
		current.mu.Lock()
		c := current.c
		current.mu.Unlock()
		if c != nil {
			c.hook(p)
		}
	}
}

func goid() uint64 {
	var buf [64]byte
	n := runtime.Stack(buf[:], false)
	f := bytes.Fields(buf[:n])
	if len(f) < 2 {
		return 0
	}
	id, _ := strconv.ParseUint(string(f[1]), 10, 64)
	return id
}

// creatorGoid is the id of the goroutine that started the calling one.
func creatorGoid() uint64 {
	buf := make([]byte, 8192)
	n := runtime.Stack(buf, false)
	b := buf[:n]
	i := bytes.LastIndex(b, []byte(" in goroutine "))
	if i < 0 {
		return 0
	}
	f := bytes.Fields(b[i+len(" in goroutine "):])
	if len(f) == 0 {
		return 0
	}
	id, _ := strconv.ParseUint(string(f[0]), 10, 64)
	return id
}

func newCtl() *ctl {
	c := &ctl{
		threads: map[int]*thread{}, ctxs: map[int]context.Context{}, cancels: map[int]context.CancelFunc{},
		canceled: map[int]bool{}, dials: map[int]*dialrec{}, pJoined: map[int]chan struct{}{},
		pFailed: map[int]chan struct{}{}, byGoid: map[uint64]int{}, dialGoid: map[uint64]int{},
		handles: map[int]*grpc.ClientConn{}, byConn: map[*grpc.ClientConn]int{}, curReq: -1, extra: 900,
		pClose: map[int]chan struct{}{}, parked: -1, bals: map[int]*hBalancer{}, broken: map[int]bool{}, dialErrs: map[error]bool{errScripted: true},
	}
	c.self = goid()
	m, err := connection.NewManagerCustom(map[string]connection.Dial{connection.DEFAULT: c.dial})
	if err != nil {
		panic(err)
	}
	c.m = m
	current.mu.Lock()
	current.c = c
	current.mu.Unlock()
	return c
}

// scriptedErr makes the error a failing Dial returns: a fresh value (so that it
// is recognised by identity) of the kind the script asks for.
func (c *ctl) scriptedErr(kind int) error {
	var err error
	switch kind {
	case 1:
		err = fmt.Errorf("scripted dial failure: %w", context.DeadlineExceeded)
	case 2:
		err = fmt.Errorf("scripted dial failure: %w", io.EOF)
	default:
		err = errors.New("scripted dial failure")
	}
	c.mu.Lock()
	c.dialErrs[err] = true
	c.mu.Unlock()
	return err
}

// addrName is the address string of address number a: an ordinary one, the
// empty string, and one that differs from the first only by case.
func addrName(a int) string {
	switch a {
	case 0:
		return "addr-0"
	case 1:
		return ""
	case 2:
		return "ADDR-0"
	}
	return fmt.Sprintf("addr-%d", a)
}

func addrNum(s string) int {
	for a := 0; a < 3; a++ {
		if addrName(a) == s {
			return a
		}
	}
	if v, err := strconv.Atoi(strings.TrimPrefix(s, "addr-")); err == nil {
		return v
	}
	return 99
}

func (c *ctl) ctx(i int) context.Context {
	if x, ok := c.ctxs[i]; ok {
		return x
	}
	x, cancel := context.WithCancel(context.WithValue(context.Background(), ctxKey{}, i))
	c.ctxs[i], c.cancels[i] = x, cancel
	return x
}

// hook runs in the goroutine of the code under test.
func (c *ctl) hook(p string) {
	g := goid()
	c.mu.Lock()
	if c.cleanup {
		c.mu.Unlock()
		return
	}
	ch := make(chan struct{})
	switch p {
	case "connection:joined":
		t, ok := c.byGoid[g]
		if !ok {
			c.mu.Unlock()
			return
		}
		c.pJoined[t] = ch
		if th := c.threads[t]; th != nil {
			th.atHook = true
		}
		c.joined = append(c.joined, t)
	case "connection:locked":
		holdSeen = true
		t, ok := c.byGoid[g]
		th := c.threads[t]
		if !ok || th == nil || !th.hold {
			c.mu.Unlock()
			return
		}
		th.hold = false
		c.pClose[1000+t] = ch
		c.parked = 1000 + t
		c.used = 0
		c.inclose = append(c.inclose, 1000+t)
	case "dial:failed":
		d, ok := c.dialGoid[g]
		if !ok {
			// never entered Dial (unknown dialer name): it belongs to the request
			// whose goroutine created this one ("created by ... in goroutine N")
			d = c.curReq
			if t, ok := c.byGoid[creatorGoid()]; ok {
				d = t
			}
			if _, dup := c.pFailed[d]; dup || d < 0 {
				d = c.extra
				c.extra++
			}
			c.dialGoid[g] = d
		}
		c.pFailed[d] = ch
		c.failing = append(c.failing, d)
	default:
		c.mu.Unlock()
		return
	}
	c.mu.Unlock()
	<-ch
}

// dial is the Dial function given to the Manager.
func (c *ctl) dial(ctx context.Context, target string, _ ...grpc.DialOption) (*grpc.ClientConn, error) {
	creator, ok := ctx.Value(ctxKey{}).(int)
	if !ok {
		creator = -1
	}
	addr := addrNum(target)
	g := goid()
	c.mu.Lock()
	if c.cleanup {
		c.mu.Unlock()
		return nil, errScripted
	}
	if _, dup := c.dials[creator]; dup || creator < 0 {
		creator = c.extra
		c.extra++
	}
	d := &dialrec{creator: creator, addr: addr, inDial: true, rel: make(chan bool, 1)}
	c.dials[creator] = d
	c.dialGoid[g] = creator
	c.ndials = append(c.ndials, [2]int{creator, addr})
	deaf := false
	if t := c.threads[creator]; t != nil {
		deaf = t.deaf
	}
	c.mu.Unlock()
	done := ctx.Done()
	if deaf {
		done = nil // a Dial that does not return when its context ends
	}
	select {
	case ok := <-d.rel:
		c.mu.Lock()
		d.inDial = false
		c.mu.Unlock()
		if !ok {
			return nil, c.scriptedErr(d.ek)
		}
		// A real ClientConn with a resolver and a balancer of our own: the
		// resolver's Close parks for slow handles (ClientConn.Close waits for
		// it), the balancer lets the script set the connectivity state.
		kind := "plain"
		if d.slow {
			kind = "slow"
		}
		cc, err := grpc.NewClient(fmt.Sprintf("c16h:///%d/%s", creator, kind),
			grpc.WithTransportCredentials(insecure.NewCredentials()), grpc.WithResolvers(hBuilder{}),
			grpc.WithDefaultServiceConfig(`{"loadBalancingConfig":[{"c16bal":{}}]}`))
		if err != nil {
			panic(err)
		}
		cc.Connect() // leave idle mode so that resolver and balancer are built
		c.mu.Lock()
		c.handles[creator] = cc
		c.byConn[cc] = creator
		c.mu.Unlock()
		return cc, nil
	case <-done:
		c.mu.Lock()
		d.inDial = false
		c.mu.Unlock()
		return nil, ctx.Err()
	}
}

func (c *ctl) worker(t *thread, ctx context.Context, dialer string) {
	g := goid()
	cmd := t.cmd
	c.mu.Lock()
	c.byGoid[g] = t.id
	t.goid = g
	c.mu.Unlock()
	func() {
		defer func() {
			if r := recover(); r != nil {
				c.mu.Lock()
				c.bad, c.msg = 1, fmt.Sprint("panic in Connection: ", r)
				t.busy = false
				c.mu.Unlock()
			}
		}()
		conn, done, err := c.m.Connection(ctx, addrName(t.addr), dialer)
		c.mu.Lock()
		r := Ret{I: t.id}
		switch {
		case err != nil:
			r.Kind = "err"
			switch {
			case errors.Is(err, context.Canceled):
				r.Cls = 1
			case c.dialErrs[err]:
				r.Cls = 2
			default:
				r.Cls = 3
			}
		case conn == nil:
			r.Kind = "nil"
		default:
			r.Kind = "conn"
			h, ok := c.byConn[conn]
			if !ok {
				h = 999
			}
			r.H = h
		}
		t.done = done
		t.returned = true
		t.busy = false
		c.rets = append(c.rets, r)
		c.mu.Unlock()
	}()
	for range cmd {
		func() {
			defer func() {
				if r := recover(); r != nil {
					c.mu.Lock()
					c.bad, c.msg = 1, fmt.Sprint("panic in done: ", r)
					c.mu.Unlock()
				}
				c.mu.Lock()
				t.busy = false
				c.mu.Unlock()
			}()
			if t.done != nil {
				t.done()
				c.mu.Lock()
				c.reldone = append(c.reldone, t.id)
				c.mu.Unlock()
			}
		}()
	}
}

// ---------------------------------------------------------------------------
// quiescence

type gstate struct {
	id       uint64
	state    string
	relevant bool
}

var stackBuf = make([]byte, 1<<20)

func snapshot() []gstate {
	for {
		n := runtime.Stack(stackBuf, true)
		if n < len(stackBuf) {
			return parseStacks(stackBuf[:n])
		}
		stackBuf = make([]byte, 2*len(stackBuf))
	}
}

func parseStacks(b []byte) []gstate {
	var out []gstate
	for _, blk := range bytes.Split(b, []byte("\n\n")) {
		if !bytes.HasPrefix(blk, []byte("goroutine ")) {
			continue
		}
		nl := bytes.IndexByte(blk, '\n')
		if nl < 0 {
			nl = len(blk)
		}
		hdr := string(blk[:nl])
		f := strings.Fields(hdr)
		if len(f) < 3 {
			continue
		}
		id, _ := strconv.ParseUint(f[1], 10, 64)
		lb, rb := strings.IndexByte(hdr, '['), strings.LastIndexByte(hdr, ']')
		st := ""
		if lb >= 0 && rb > lb {
			st = hdr[lb+1 : rb]
			if k := strings.IndexByte(st, ','); k >= 0 {
				st = st[:k]
			}
		}
		rel := bytes.Contains(blk, []byte("openconfig/gnmi/connection.")) ||
			bytes.Contains(blk, []byte("google.golang.org/grpc")) ||
			bytes.Contains(blk, []byte("main.(*ctl)."))
		out = append(out, gstate{id: id, state: st, relevant: rel})
	}
	return out
}

func active(st string) bool {
	switch st {
	case "running", "runnable", "syscall", "sleep", "":
		return true
	}
	return false
}

// quiet reports whether no goroutine of the case can make progress by itself.
func (c *ctl) quiet() (bool, int) {
	n := 0
	for _, g := range snapshot() {
		if g.id == c.self || !g.relevant {
			continue
		}
		n++
		if active(g.state) {
			return false, n
		}
	}
	return true, n
}

func (c *ctl) counters() int {
	c.mu.Lock()
	defer c.mu.Unlock()
	return len(c.rets) + len(c.joined) + len(c.ndials) + len(c.failing) + len(c.inclose) + len(c.reldone)
}

// settle waits until two consecutive snapshots find every goroutine of the
// case parked and nothing was registered in between.  False: still busy after
// the time limit.
func (c *ctl) settle(limit time.Duration) bool {
	t0 := time.Now()
	pause := 5 * time.Microsecond
	okBefore, cntBefore := false, -1
	for {
		runtime.Gosched()
		q, _ := c.quiet()
		cnt := c.counters()
		if q && okBefore && cnt == cntBefore {
			return true
		}
		okBefore, cntBefore = q, cnt
		if !q {
			if time.Since(t0) > limit {
				return false
			}
			time.Sleep(pause)
			if pause < time.Millisecond {
				pause *= 2
			}
		}
	}
}

// ---------------------------------------------------------------------------
// events

// enabled reports whether the event applies in the controller's own view
// (which threads were started, are parked where, have returned).
func (c *ctl) enabled(e Ev) bool {
	c.mu.Lock()
	defer c.mu.Unlock()
	switch e.K {
	case "req":
		_, ok := c.threads[e.I]
		if e.Hold && holdOK && c.parked >= 0 {
			return false
		}
		return !ok
	case "pass":
		_, ok := c.pJoined[e.I]
		return ok
	case "dial":
		d, ok := c.dials[e.I]
		return ok && d.inDial
	case "failgo":
		_, ok := c.pFailed[e.I]
		return ok
	case "release":
		t, ok := c.threads[e.I]
		return ok && t.returned && !t.busy
	case "cancel":
		if t, ok := c.threads[e.I]; ok && c.parked >= 0 && !t.returned && !t.atHook {
			return false // its request is blocked on the mutex, past the ctx check
		}
		return true
	case "closego":
		_, ok := c.pClose[e.I]
		return ok
	case "break":
		cc, ok := c.handles[e.I]
		_, hasBal := c.bals[e.I]
		return ok && hasBal && cc.GetState() != connectivity.Shutdown
	case "again":
		// one more caller of a done function whose call is in flight (the
		// closer, or the release that is blocked behind the parked Close)
		t, ok := c.threads[e.I]
		return ok && c.parked >= 0 && t.returned && t.busy
	}
	return false
}

// again calls the done function of t from one more goroutine.
func (c *ctl) again(t *thread) {
	defer func() {
		if r := recover(); r != nil {
			c.mu.Lock()
			c.bad, c.msg = 1, fmt.Sprint("panic in done: ", r)
			c.mu.Unlock()
		}
	}()
	t.done()
	c.mu.Lock()
	c.reldone = append(c.reldone, t.id)
	c.mu.Unlock()
}

func lockKind(k string) bool { return k == "req" || k == "failgo" || k == "release" }

// admitted applies the rule for a parked Close: at most one event that may
// need m.mu is played, the others are ignored.
func (c *ctl) admitted(e Ev) bool {
	c.mu.Lock()
	defer c.mu.Unlock()
	if c.parked < 0 || !lockKind(e.K) {
		return true
	}
	if c.used >= 2 {
		return false
	}
	c.used++
	return true
}

func (c *ctl) closedHandles() []int {
	c.mu.Lock()
	defer c.mu.Unlock()
	var out []int
	for h, cc := range c.handles {
		if cc.GetState() == connectivity.Shutdown {
			out = append(out, h)
		}
	}
	sort.Ints(out)
	return out
}

// do plays one event and returns what became observable.
func (c *ctl) do(e Ev) Obs {
	if !c.admitted(e) || !c.enabled(e) {
		return Obs{Ign: true, Closed: c.closedHandles()}
	}
	c.mu.Lock()
	c.rets, c.joined, c.ndials, c.failing, c.inclose, c.reldone = nil, nil, nil, nil, nil, nil
	c.mu.Unlock()
	var t *thread
	switch e.K {
	case "req":
		c.mu.Lock()
		t = &thread{id: e.I, addr: e.A, cmd: make(chan int), started: true, busy: true, hold: e.Hold && holdOK && c.parked < 0, deaf: e.Deaf}
		c.threads[e.I] = t
		c.curReq = e.I
		ctx := c.ctx(e.I)
		c.mu.Unlock()
		dialer := connection.DEFAULT
		if e.ND {
			dialer = "no-such-dialer"
		}
		go c.worker(t, ctx, dialer)
	case "pass":
		c.mu.Lock()
		ch := c.pJoined[e.I]
		delete(c.pJoined, e.I)
		c.mu.Unlock()
		close(ch)
	case "dial":
		c.mu.Lock()
		d := c.dials[e.I]
		d.slow = e.OK && e.Slow
		d.ek = e.EK
		c.mu.Unlock()
		d.rel <- e.OK
	case "failgo":
		c.mu.Lock()
		ch := c.pFailed[e.I]
		delete(c.pFailed, e.I)
		c.mu.Unlock()
		close(ch)
	case "release":
		c.mu.Lock()
		t = c.threads[e.I]
		t.busy = true
		t.releases++
		c.mu.Unlock()
		t.cmd <- 1
	case "cancel":
		c.mu.Lock()
		c.ctx(e.I)
		cancel := c.cancels[e.I]
		c.canceled[e.I] = true
		c.mu.Unlock()
		cancel()
	case "break":
		c.mu.Lock()
		b := c.bals[e.I]
		c.broken[e.I] = true
		c.mu.Unlock()
		b.cc.UpdateState(balancer.State{ConnectivityState: connectivity.TransientFailure,
			Picker: base.NewErrPicker(errScripted)})
	case "again":
		c.mu.Lock()
		t = c.threads[e.I]
		t.agains++
		c.mu.Unlock()
		go c.again(t)
	case "closego":
		c.mu.Lock()
		ch := c.pClose[e.I]
		delete(c.pClose, e.I)
		c.parked, c.used = -1, 0
		c.mu.Unlock()
		close(ch)
	}
	busyForever := !c.settle(5 * time.Second)
	if e.K == "break" {
		// wait until the handle itself reports the state
		c.mu.Lock()
		cc := c.handles[e.I]
		c.mu.Unlock()
		for t0 := time.Now(); cc.GetState() != connectivity.TransientFailure && time.Since(t0) < 5*time.Second; {
			time.Sleep(50 * time.Microsecond)
			c.settle(time.Second)
		}
		if st := cc.GetState(); st != connectivity.TransientFailure {
			c.mu.Lock()
			c.bad, c.msg = 2, "handle did not reach TRANSIENT_FAILURE: "+st.String()
			c.mu.Unlock()
		}
	}
	c.mu.Lock()
	o := Obs{Rets: c.rets, Joined: c.joined, Dials: c.ndials, Failing: c.failing, InClose: c.inclose,
		RelDone: c.reldone, Bad: c.bad, Msg: c.msg}
	if o.Bad == 0 && busyForever {
		o.Bad, o.Msg = 2, "goroutines still running after 5s"
	}
	// a call that blocks (on m.mu behind a parked Close, or for ever) shows as
	// a missing arrival / return / done(), which the model and K_P predict
	_ = t
	if e.K == "closego" && c.parked >= 0 {
		c.used = 2 // a park that begins while the blocked events run admits no further lock-kind event
	}
	if c.curReq >= 0 {
		// a request still blocked on the mutex keeps the attribution of a
		// dialer that arrives at dial:failed without having entered Dial
		if tr := c.threads[c.curReq]; tr == nil || tr.atHook || tr.returned {
			c.curReq = -1
		}
	}
	c.mu.Unlock()
	sort.Slice(o.Rets, func(i, j int) bool { return o.Rets[i].I < o.Rets[j].I })
	sort.Ints(o.Joined)
	sort.Ints(o.Failing)
	sort.Ints(o.InClose)
	sort.Ints(o.RelDone)
	sort.Slice(o.Dials, func(i, j int) bool { return o.Dials[i][0] < o.Dials[j][0] })
	o.Closed = c.closedHandles()
	return o
}

// finish lets every goroutine of the case run to its end and closes what is
// still open.  It reports whether goroutines of the case stayed behind (only
// on a defective implementation); the child process is then replaced.
func (c *ctl) finish() (wedged bool) {
	c.mu.Lock()
	c.cleanup = true
	c.mu.Unlock()
	left := 0
	for round := 0; round < 4; round++ {
		c.mu.Lock()
		for _, cancel := range c.cancels {
			cancel()
		}
		for k, ch := range c.pJoined {
			close(ch)
			delete(c.pJoined, k)
		}
		for k, ch := range c.pFailed {
			close(ch)
			delete(c.pFailed, k)
		}
		for k, ch := range c.pClose {
			close(ch)
			delete(c.pClose, k)
		}
		for _, d := range c.dials {
			if d.inDial {
				select {
				case d.rel <- false:
				default:
				}
			}
		}
		for _, t := range c.threads {
			if !t.stopped && t.returned && !t.busy {
				close(t.cmd)
				t.stopped = true
			}
		}
		c.mu.Unlock()
		c.settle(100 * time.Millisecond)
		c.mu.Lock()
		left = 0
		for _, t := range c.threads {
			if !t.stopped {
				left++
			}
		}
		c.mu.Unlock()
		if left == 0 {
			break
		}
	}
	c.mu.Lock()
	var open []*grpc.ClientConn
	for _, cc := range c.handles {
		open = append(open, cc)
	}
	c.mu.Unlock()
	for _, cc := range open {
		cc.Close() // outside c.mu: a slow handle's resolver Close takes it
	}
	current.mu.Lock()
	current.c = nil
	current.mu.Unlock()
	quiet := c.settle(100 * time.Millisecond)
	_, n := c.quiet()
	return left > 0 || !quiet || n > 0
}

// ---------------------------------------------------------------------------
// handles: Close can be held open (slow), connectivity state can be set

type hBuilder struct{}

func (hBuilder) Scheme() string { return "c16h" }

func (hBuilder) Build(t resolver.Target, cc resolver.ClientConn, _ resolver.BuildOptions) (resolver.Resolver, error) {
	parts := strings.Split(strings.TrimPrefix(t.URL.Path, "/"), "/")
	h, err := strconv.Atoi(parts[0])
	if err != nil {
		h = 998
	}
	r := &hResolver{h: h, slow: len(parts) > 1 && parts[1] == "slow"}
	// one (unreachable, never dialled) address: makes the channel build the balancer
	cc.UpdateState(resolver.State{Addresses: []resolver.Address{{Addr: fmt.Sprintf("h-%d", h)}}})
	return r, nil
}

type hResolver struct {
	h    int
	slow bool
}

func (*hResolver) ResolveNow(resolver.ResolveNowOptions) {}

// Close is called by (*grpc.ClientConn).Close, which waits for it.
func (r *hResolver) Close() {
	if !r.slow {
		return
	}
	current.mu.Lock()
	c := current.c
	current.mu.Unlock()
	if c == nil {
		return
	}
	c.mu.Lock()
	if c.cleanup {
		c.mu.Unlock()
		return
	}
	ch := make(chan struct{})
	c.pClose[r.h] = ch
	c.parked = r.h
	c.used = 0
	c.inclose = append(c.inclose, r.h)
	c.mu.Unlock()
	<-ch
}

type hBalBuilder struct{}

func (hBalBuilder) Name() string { return "c16bal" }
func (hBalBuilder) Build(cc balancer.ClientConn, _ balancer.BuildOptions) balancer.Balancer {
	return &hBalancer{cc: cc}
}

// hBalancer creates no sub-connections; it reports CONNECTING until the script
// breaks the handle.
type hBalancer struct {
	cc balancer.ClientConn
}

func (b *hBalancer) UpdateClientConnState(s balancer.ClientConnState) error {
	h := -1
	if as := s.ResolverState.Addresses; len(as) > 0 {
		if v, err := strconv.Atoi(strings.TrimPrefix(as[0].Addr, "h-")); err == nil {
			h = v
		}
	}
	current.mu.Lock()
	c := current.c
	current.mu.Unlock()
	if c != nil && h >= 0 {
		c.mu.Lock()
		c.bals[h] = b
		c.mu.Unlock()
	}
	b.cc.UpdateState(balancer.State{ConnectivityState: connectivity.Connecting,
		Picker: base.NewErrPicker(balancer.ErrNoSubConnAvailable)})
	return nil
}
func (*hBalancer) ResolverError(error)                                      {}
func (*hBalancer) UpdateSubConnState(balancer.SubConn, balancer.SubConnState) {}
func (*hBalancer) Close()                                                   {}

func init() { balancer.Register(hBalBuilder{}) }

// Harness for C16 (shared gRPC connections are reference-counted correctly).
//
// The parent process plans the cases (corpus, exhaustive enumeration of short
// scripts, seeded random walks), hands them one at a time to a child process
// (-worker) that plays them against the real connection.Manager (sched.go),
// and writes cases_k.v / cases_k.json / meta.json.  The child streams every
// event before playing it and every observation after, so that a crash of the
// code under test inside one of its own goroutines (which no recover() of the
// harness can catch) costs one child: the parent records a panic observation
// for the event in flight and starts a new child.
package main

import (
	"bufio"
	"encoding/json"
	"flag"
	"fmt"
	"io"
	"os"
	"os/exec"
	"runtime"
	"strings"

	"github.com/openconfig/gnmi/zz_verif/vh"
	"google.golang.org/grpc/connectivity"
)

// Case is what is written to cases_k.json and read back for replay.
type Case struct {
	Family string `json:"family"`
	Ops    []Ev   `json:"ops"`
	Obs    []Obs  `json:"obs,omitempty"`
}

// Job is one request of the parent to the child.
type Job struct {
	Kind    string `json:"kind"` // script dfs random
	Ops     []Ev   `json:"ops,omitempty"`
	Path    []int  `json:"path,omitempty"`  // dfs: choice indices
	Depth   int    `json:"depth,omitempty"` // dfs / random: number of events
	Seed    uint64 `json:"seed,omitempty"`
	Threads int    `json:"threads,omitempty"`
	Addrs   int    `json:"addrs,omitempty"`
	Rich    bool   `json:"rich,omitempty"` // also unknown dialer names, cancels of any thread
}

// Line is one line of the child's answer.
type Line struct {
	Ev   *Ev  `json:"ev,omitempty"`
	NB   int  `json:"nb,omitempty"` // number of choices there were at this point (dfs)
	Obs  *Obs `json:"obs,omitempty"`
	Done bool `json:"done,omitempty"`
}

// ---------------------------------------------------------------------------
// child

// choices lists the events that apply now, in a fixed order, from the
// controller's own bookkeeping.
func (c *ctl) choices(j Job) []Ev {
	c.mu.Lock()
	defer c.mu.Unlock()
	var out []Ev
	next := len(c.threads)
	if next < j.Threads {
		for a := 0; a < j.Addrs; a++ {
			out = append(out, Ev{K: "req", I: next, A: a})
		}
		if j.Rich {
			out = append(out, Ev{K: "req", I: next, A: 0, Deaf: true})
		}
		if holdOK && c.parked < 0 && j.Rich {
			out = append(out, Ev{K: "req", I: next, A: 0, Hold: true})
		}
		if j.Rich {
			out = append(out, Ev{K: "req", I: next, A: 0, ND: true})
		}
	}
	for i := 0; i < next; i++ {
		if _, ok := c.pJoined[i]; ok {
			out = append(out, Ev{K: "pass", I: i})
		}
	}
	lockOK := c.parked < 0 || c.used < 2
	if !lockOK {
		out = out[:0]
	}
	for i := 0; i < next; i++ {
		if d, ok := c.dials[i]; ok && d.inDial {
			out = append(out, Ev{K: "dial", I: i, OK: true}, Ev{K: "dial", I: i, OK: true, Slow: true}, Ev{K: "dial", I: i, OK: false, EK: (i + len(c.threads)) % 3})
		}
	}
	for h := 0; h < next; h++ {
		if cc, ok := c.handles[h]; ok && !c.broken[h] && c.bals[h] != nil && cc.GetState() != connectivity.Shutdown {
			out = append(out, Ev{K: "break", I: h})
		}
	}
	if c.parked >= 0 {
		out = append(out, Ev{K: "closego", I: c.parked})
		for i := 0; i < next; i++ {
			if t := c.threads[i]; t != nil && t.returned && t.busy && t.agains < 2 {
				out = append(out, Ev{K: "again", I: i})
			}
		}
	}
	for i := 0; i < next && lockOK; i++ {
		if _, ok := c.pFailed[i]; ok {
			out = append(out, Ev{K: "failgo", I: i})
		}
	}
	for i := 0; i < next && lockOK; i++ {
		if t := c.threads[i]; t != nil && t.returned && !t.busy && t.releases < 2 {
			out = append(out, Ev{K: "release", I: i})
		}
	}
	for i := 0; i <= next && i < j.Threads; i++ {
		if c.canceled[i] {
			continue
		}
		if d, ok := c.dials[i]; (ok && d.inDial) || i == next || j.Rich {
			out = append(out, Ev{K: "cancel", I: i})
		}
	}
	return out
}

// category is the class of an event for the random walk; the walk first
// picks a class by weight and then an event of that class uniformly.
func category(e Ev, c *ctl) (string, int) {
	switch e.K {
	case "req":
		if e.ND {
			return "req-nd", 1
		}
		if e.Hold {
			return "req-hold", 3
		}
		if e.Deaf {
			return "req-deaf-dial", 2
		}
		return "req", 5
	case "pass":
		return "pass", 6
	case "dial":
		if e.OK && e.Slow {
			return "dial-ok-slow", 3
		}
		if e.OK {
			return "dial-ok", 4
		}
		return "dial-fail", 3
	case "closego":
		return "closego", 3
	case "again":
		return "again", 4
	case "break":
		return "break", 2
	case "failgo":
		return "failgo", 5
	case "release":
		c.mu.Lock()
		n := c.threads[e.I].releases
		c.mu.Unlock()
		if n > 0 {
			return "release-again", 1
		}
		return "release", 5
	case "cancel":
		return "cancel", 1
	}
	return "other", 1
}

func weights(ch []Ev, c *ctl) []int {
	cats := make([]string, len(ch))
	cw := make([]int, len(ch))
	count := map[string]int{}
	for i, e := range ch {
		cats[i], cw[i] = category(e, c)
		count[cats[i]]++
	}
	ws := make([]int, len(ch))
	for i := range ch {
		ws[i] = cw[i] * 60 / count[cats[i]]
		if e := ch[i]; e.K == "req" && !e.ND && e.A == 0 {
			ws[i] *= 2 // contention on one address is where the interesting interleavings are
		}
	}
	return ws
}

func childMain() {
	runtime.GOMAXPROCS(4)
	// probe: does the repository have the schedule point connection:locked?
	func() {
		c := newCtl()
		defer c.finish()
		c.do(Ev{K: "req", I: 0})
		holdOK = holdSeen
	}()
	in := bufio.NewReaderSize(os.Stdin, 1<<20)
	out := bufio.NewWriter(os.Stdout)
	emit := func(l Line) {
		b, _ := json.Marshal(l)
		out.Write(b)
		out.WriteByte('\n')
		out.Flush()
	}
	for {
		line, err := in.ReadBytes('\n')
		if len(line) > 0 {
			var j Job
			if e := json.Unmarshal(line, &j); e != nil {
				vh.Die("child: bad job: %v", e)
			}
			runJob(j, emit)
		}
		if err != nil {
			return
		}
	}
}

func runJob(j Job, emit func(Line)) {
	if j.Kind == "mgr" || (j.Kind == "script" && len(j.Ops) > 0 && j.Ops[0].K == "mgr") {
		runManager(j.Ops, emit)
		return
	}
	if j.Kind == "stress" || (j.Kind == "script" && len(j.Ops) > 0 && j.Ops[0].K == "stress") {
		runStress(j.Ops, emit)
		return
	}
	c := newCtl()
	defer func() {
		wedged := c.finish()
		emit(Line{Done: true})
		if wedged {
			os.Exit(0) // goroutines of this case stayed behind: the parent starts a clean child
		}
	}()
	play := func(e Ev, nb int) bool {
		if e.K == "cancel" {
			c.mu.Lock()
			t := c.threads[e.I]
			e.Deaf = t != nil && t.deaf // the kind of cancel is decided by how the thread was requested
			c.mu.Unlock()
		}
		if e.K == "req" && e.Hold && !holdOK {
			e.Hold = false // the schedule point does not exist here: an ordinary request
		}
		emit(Line{Ev: &e, NB: nb})
		o := c.do(e)
		emit(Line{Obs: &o})
		return o.Bad == 0
	}
	switch j.Kind {
	case "script":
		for _, e := range j.Ops {
			if !play(e, 0) {
				break
			}
		}
	case "dfs":
		for d := 0; d < j.Depth; d++ {
			ch := c.choices(j)
			if len(ch) == 0 {
				break
			}
			k := 0
			if d < len(j.Path) {
				k = j.Path[d]
			}
			if k >= len(ch) {
				k = len(ch) - 1
			}
			if !play(ch[k], len(ch)) {
				break
			}
		}
	case "random":
		r := vh.NewRand(j.Seed)
		for _, e := range j.Ops {
			if !play(e, 0) {
				return
			}
		}
		for d := 0; d < j.Depth; d++ {
			ch := c.choices(j)
			if len(ch) == 0 {
				break
			}
			if !play(ch[r.Pick(weights(ch, c)...)], len(ch)) {
				break
			}
		}
	}
}

// ---------------------------------------------------------------------------
// parent

type child struct {
	cmd *exec.Cmd
	in  io.WriteCloser
	out *bufio.Reader
}

func startChild() *child {
	cmd := exec.Command(os.Args[0], "-worker", "-out", outDir)
	cmd.Stderr = io.Discard
	in, err := cmd.StdinPipe()
	if err != nil {
		vh.Die("pipe: %v", err)
	}
	op, err := cmd.StdoutPipe()
	if err != nil {
		vh.Die("pipe: %v", err)
	}
	if err := cmd.Start(); err != nil {
		vh.Die("start child: %v", err)
	}
	return &child{cmd: cmd, in: in, out: bufio.NewReaderSize(op, 1<<20)}
}

func (c *child) stop() {
	c.in.Close()
	c.cmd.Wait()
}

type runner struct {
	ch      *child
	crashes int
}

// run plays one job; nbs are the numbers of choices at each event (dfs).
func (r *runner) run(j Job) (ops []Ev, obs []Obs, nbs []int) {
	if r.ch == nil {
		r.ch = startChild()
	}
	b, _ := json.Marshal(j)
	if _, err := r.ch.in.Write(append(b, '\n')); err != nil {
		r.ch.stop()
		r.ch = startChild()
		r.ch.in.Write(append(b, '\n'))
	}
	retried := false
	for {
		line, err := r.ch.out.ReadBytes('\n')
		if err != nil && len(ops) == 0 && !retried {
			// the child had retired after its previous case: same job to a new child
			retried = true
			r.ch.stop()
			r.ch = startChild()
			r.ch.in.Write(append(b, '\n'))
			continue
		}
		if err != nil {
			// the child died: the event in flight crashed the process
			r.ch.cmd.Wait()
			r.ch = nil
			r.crashes++
			if len(ops) > len(obs) {
				obs = append(obs, Obs{Bad: 1, Msg: "process died (panic in a goroutine of the code under test)"})
			}
			return
		}
		var l Line
		if json.Unmarshal(line, &l) != nil {
			continue
		}
		switch {
		case l.Ev != nil:
			ops = append(ops, *l.Ev)
			nbs = append(nbs, l.NB)
		case l.Obs != nil:
			obs = append(obs, *l.Obs)
		case l.Done:
			return
		}
	}
}

// ---------------------------------------------------------------------------
// Gallina

func evTerm(e Ev) string {
	switch e.K {
	case "req":
		if e.Hold {
			return fmt.Sprintf("XHoldReq %s %s %s", vh.Nat(e.I), vh.Nat(e.A), vh.Bool(!e.ND))
		}
		return fmt.Sprintf("XE (EReq %s %s %s)", vh.Nat(e.I), vh.Nat(e.A), vh.Bool(!e.ND))
	case "pass":
		return "XE (EPass " + vh.Nat(e.I) + ")"
	case "dial":
		if e.OK && e.Slow {
			return "XDialSlow " + vh.Nat(e.I)
		}
		return fmt.Sprintf("XE (EDial %s %s)", vh.Nat(e.I), vh.Bool(e.OK))
	case "failgo":
		return "XE (EFailGo " + vh.Nat(e.I) + ")"
	case "release":
		return "XE (ERelease " + vh.Nat(e.I) + ")"
	case "cancel":
		if e.Deaf {
			return "XCancelDeaf " + vh.Nat(e.I)
		}
		return "XE (ECancel " + vh.Nat(e.I) + ")"
	case "closego":
		return "XCloseGo " + vh.Nat(e.I)
	case "again":
		return "XAgain " + vh.Nat(e.I)
	case "break":
		return "XBreak " + vh.Nat(e.I)
	case "mgr":
		return "XManager " + vh.Nat(e.I)
	case "stress":
		return "XStress " + vh.Nat(e.I)
	}
	panic("evTerm " + e.K)
}

func nats(l []int) string {
	el := make([]string, len(l))
	for i, x := range l {
		el[i] = vh.Nat(x)
	}
	return vh.List(el)
}

func obsTerm(o Obs) string {
	rets := make([]string, len(o.Rets))
	for i, r := range o.Rets {
		var v string
		switch r.Kind {
		case "conn":
			v = "OConn " + vh.Nat(r.H)
		case "nil":
			v = "ONil"
		default:
			v = fmt.Sprintf("OErr %d%%N", r.Cls)
		}
		rets[i] = fmt.Sprintf("(%s, %s)", vh.Nat(r.I), v)
	}
	dials := make([]string, len(o.Dials))
	for i, d := range o.Dials {
		dials[i] = fmt.Sprintf("(%s, %s)", vh.Nat(d[0]), vh.Nat(d[1]))
	}
	return fmt.Sprintf("XObs (Obs %s %s %s %s %s %s %d%%N) %s %s", vh.Bool(o.Ign), vh.List(rets), nats(o.Joined),
		vh.List(dials), nats(o.Failing), nats(o.Closed), o.Bad, nats(o.InClose), nats(o.RelDone))
}

func caseTerm(c Case) string {
	el := make([]string, len(c.Obs))
	for i := range c.Obs {
		el[i] = fmt.Sprintf("(%s, %s)", evTerm(c.Ops[i]), obsTerm(c.Obs[i]))
	}
	return vh.List(el)
}

// ---------------------------------------------------------------------------

type emitter struct {
	dir   string
	shard int
	cf    *vh.CaseFile
	meta  *vh.Meta
	limit int
}

func nontrivial(c Case) bool {
	reqs, shared, finished := 0, false, false
	dialing := map[int]bool{}
	for i, e := range c.Ops {
		if i >= len(c.Obs) {
			break
		}
		o := c.Obs[i]
		if o.Ign {
			continue
		}
		switch e.K {
		case "req":
			reqs++
			if len(o.Dials) == 0 && len(o.Joined) > 0 && !e.ND {
				shared = true
			}
			_ = dialing
		case "failgo":
			finished = true
		case "release":
			finished = true
		}
	}
	return reqs >= 2 && shared && finished
}

func (e *emitter) add(family string, ops []Ev, obs []Obs) {
	if len(ops) > len(obs) {
		ops = ops[:len(obs)]
	}
	c := Case{Family: family, Ops: ops, Obs: obs}
	e.cf.Add(caseTerm(c), c)
	for i, o := range ops {
		k := o.K
		if o.K == "dial" {
			switch {
			case o.OK && o.Slow:
				k = "dial-ok-slow-close"
			case o.OK:
				k = "dial-ok"
			default:
				k = "dial-fail"
			}
		}
		if len(obs[i].InClose) > 0 {
			e.meta.Hist("close-parked")
		}
		if i > 0 && !obs[i].Ign && lockKind(o.K) && parkedBefore(ops, obs, i) {
			e.meta.Hist("lock-event-during-parked-close:" + o.K)
		}
		if o.K == "req" && o.ND {
			k = "req-unknown-dialer"
		}
		e.meta.Hist("ev:" + k)
		if obs[i].Ign {
			e.meta.Hist("ignored")
		}
		for _, r := range obs[i].Rets {
			if r.Kind == "err" {
				e.meta.Hist(fmt.Sprintf("ret:err%d", r.Cls))
			} else {
				e.meta.Hist("ret:" + r.Kind)
			}
		}
		if i > 0 && len(obs[i].Closed) > len(obs[i-1].Closed) {
			e.meta.Hist("handle-closed")
		}
		if o.K == "release" && !obs[i].Ign && i > 0 && len(obs[i].Closed) == len(obs[i-1].Closed) {
			e.meta.Hist("release-without-close")
		}
		if obs[i].Bad != 0 {
			e.meta.Hist(fmt.Sprintf("bad:%d", obs[i].Bad))
		}
	}
	e.meta.Hist(fmt.Sprintf("len:%02d", len(ops)))
	b, _ := json.Marshal(ops)
	desc := make([]string, len(ops))
	for i := range ops {
		eb, _ := json.Marshal(ops[i])
		ob, _ := json.Marshal(obs[i])
		desc[i] = string(eb) + " -> " + string(ob)
	}
	e.meta.Count(family, string(b), nontrivial(c), map[string]interface{}{"family": family, "trace": desc})
	if e.cf.Len() >= e.limit {
		e.flush()
	}
}

// parkedBefore reports whether a Close was parked when event i was played.
func parkedBefore(ops []Ev, obs []Obs, i int) bool {
	p := false
	for j := 0; j < i; j++ {
		if len(obs[j].InClose) > 0 {
			p = true
		}
		if ops[j].K == "closego" && !obs[j].Ign {
			p = false
		}
	}
	return p
}

func (e *emitter) flush() {
	if e.cf.Len() == 0 {
		return
	}
	if err := e.cf.Write(e.dir, e.shard, "Conn.ConnCheck", "list (xevent * xobs)", "xcheck_all"); err != nil {
		vh.Die("write: %v", err)
	}
	e.shard++
	e.cf = vh.NewCaseFile()
}

func readCases(path string) []Case {
	b, err := os.ReadFile(path)
	if err != nil {
		vh.Die("read %s: %v", path, err)
	}
	var cs []Case
	if json.Unmarshal(b, &cs) != nil {
		var one Case
		if err := json.Unmarshal(b, &one); err != nil {
			vh.Die("%s unreadable: %v", path, err)
		}
		cs = []Case{one}
	}
	return cs
}

// next advances a dfs path like an odometer over the branching factors seen.
func next(path, nbs []int) []int {
	p := make([]int, len(nbs))
	copy(p, path)
	for d := len(nbs) - 1; d >= 0; d-- {
		if p[d]+1 < nbs[d] {
			p[d]++
			return p[:d+1]
		}
	}
	return nil
}

var outDir string

var workerFlag = flag.Bool("worker", false, "child mode: play the jobs read from stdin")
var shardFlag = flag.Int("shardsize", 400, "cases per cases_k.v")

func main() {
	flag.Set("logtostderr", "true")
	flag.Set("stderrthreshold", "FATAL")
	o := vh.ParseFlags()
	outDir = o.Out
	if *workerFlag {
		devnull, _ := os.OpenFile(os.DevNull, os.O_WRONLY, 0)
		if devnull != nil {
			os.Stderr = devnull
		}
		childMain()
		return
	}
	meta := vh.NewMeta("corpus scripts; every script of D events (quick D=6, thorough D=8) over 3 threads and 1 address in which each event applies when it is played (request by the next thread, pass the join point, let a dial succeed/fail, pass the failure point, release (at most twice per thread), cancel the context of a dialling or not yet started thread), enumerated depth-first by re-execution; seeded random walks of up to 18 applicable events over 5 threads and 3 addresses, also with unknown dialer names and cancels of any thread. distinct = distinct event sequence; non-trivial = at least two requests, one of which joined an existing attempt or connection, and at least one release or completed failure")
	e := &emitter{dir: o.Out, cf: vh.NewCaseFile(), meta: meta, limit: *shardFlag}
	r := &runner{}
	finish := func() {
		if r.ch != nil {
			r.ch.stop()
		}
		e.flush()
		meta.Extra["child_process_crashes"] = r.crashes
		if err := meta.Write(o.Out); err != nil {
			vh.Die("meta: %v", err)
		}
	}

	if o.Replay != "" {
		for _, c := range readCases(o.Replay) {
			ops, obs, _ := r.run(Job{Kind: "script", Ops: c.Ops})
			e.add("replay", ops, obs)
		}
		finish()
		return
	}

	if dir := os.Getenv("VERIF_CORPUS"); dir != "" {
		ents, _ := os.ReadDir(dir)
		for _, en := range ents {
			if !strings.HasSuffix(en.Name(), ".json") {
				continue
			}
			if strings.Contains(en.Name(), "_thorough_") && !o.Thorough() {
				continue // long scripts (hundreds of events) run in the thorough tier only
			}
			for _, c := range readCases(dir + "/" + en.Name()) {
				ops, obs, _ := r.run(Job{Kind: "script", Ops: c.Ops})
				e.add("corpus", ops, obs)
			}
		}
	}

	depth, nrand := 6, 1500
	if o.Thorough() {
		depth, nrand = 8, 20000
	}
	fam := fmt.Sprintf("exhaustive-%d", depth)
	path := []int{}
	n := 0
	for path != nil {
		ops, obs, nbs := r.run(Job{Kind: "dfs", Path: path, Depth: depth, Threads: 3, Addrs: 1})
		e.add(fam, ops, obs)
		n++
		full := make([]int, len(nbs))
		copy(full, path)
		path = next(full, nbs)
	}
	meta.Extra["exhaustive_depth"] = depth
	meta.Extra["exhaustive_scripts"] = n

	// stress family: free-running Connection()/done() cycles on one or two addresses
	nst := 4
	if o.Thorough() {
		nst = 24
	}
	for i := 0; i < nst; i++ {
		ev := Ev{K: "stress", I: 3 + i%2, A: 1 + (i/2)%2, EK: 12, ND: i%2 == 1}
		if o.Thorough() {
			ev.EK = 40
		}
		po, pb, _ := r.run(Job{Kind: "stress", Ops: []Ev{ev}})
		e.add("stress", po, pb)
	}

	// manager family: Add / Reconnect* / Remove cycles of a real manager.Manager
	// over the real connection.Manager, targets with 1..3 distinct next hops
	mrng := vh.NewRand(vh.NewRand(o.Seed ^ 0xa11).U64())
	nmgr := 8
	if o.Thorough() {
		nmgr = 40
	}
	for i := 0; i < nmgr; i++ {
		f := mrng.Fork()
		var ops []Ev
		for k := 1 + f.Intn(3); k > 0; k-- {
			hops := 1 + f.Intn(3)
			if i < 3 {
				hops = i + 1 // each number of next hops at least once
			}
			ev := Ev{K: "mgr", I: hops, A: f.Intn(2) * f.Intn(hops+1), EK: f.Intn(3), ND: f.Chance(1, 3)}
			// faults at each preparation step of a monitor attempt
			if f.Chance(1, 2) || i == 1 {
				ev.CF = 1 + f.Intn(3)
			}
			if f.Chance(1, 3) || i == 2 {
				ev.SF = 1 + f.Intn(2)
			}
			ops = append(ops, ev)
		}
		po, pb, _ := r.run(Job{Kind: "mgr", Ops: ops})
		e.add("manager", po, pb)
	}

	// contended releases: one address with 1..3 holders, another whose slow
	// handle is being closed by its last holder (m.mu held); a holder of the
	// first releases (blocks on m.mu), the same done function is called again
	// from further goroutines, the Close returns; then a random walk goes on
	crng := vh.NewRand(vh.NewRand(o.Seed ^ 0x5eed).U64())
	ncont := 150
	if o.Thorough() {
		ncont = 2000
	}
	for i := 0; i < ncont; i++ {
		f := crng.Fork()
		h := 1 + f.Intn(3)
		var ops []Ev
		for t := 0; t < h; t++ {
			ops = append(ops, Ev{K: "req", I: t})
		}
		ops = append(ops, Ev{K: "req", I: h, A: 1})
		ops = append(ops, Ev{K: "dial", I: 0, OK: true, Slow: f.Chance(1, 3)}, Ev{K: "dial", I: h, OK: true, Slow: true})
		perm := make([]int, h+1)
		for t := range perm {
			perm[t] = t
		}
		for t := len(perm) - 1; t > 0; t-- {
			k := f.Intn(t + 1)
			perm[t], perm[k] = perm[k], perm[t]
		}
		for _, t := range perm {
			ops = append(ops, Ev{K: "pass", I: t})
		}
		if h > 1 && f.Chance(1, 3) {
			ops = append(ops, Ev{K: "release", I: f.Intn(h)}) // one holder is already gone
		}
		ops = append(ops, Ev{K: "release", I: h}) // parks inside Close, holding m.mu
		v := f.Intn(h)
		ops = append(ops, Ev{K: "release", I: v}) // blocks on m.mu
		for k := f.Intn(3); k > 0; k-- {
			ops = append(ops, Ev{K: "again", I: v})
		}
		if f.Chance(1, 3) {
			ops = append(ops, Ev{K: "again", I: h})
		}
		if f.Chance(1, 4) {
			ops = append(ops, Ev{K: "req", I: h + 1}) // ignored: one lock-kind event per parked Close
		}
		ops = append(ops, Ev{K: "closego", I: h})
		po, pb, _ := r.run(Job{Kind: "random", Ops: ops, Seed: f.U64(), Depth: 2 + f.Intn(6), Threads: 5, Addrs: 2, Rich: false})
		e.add("contended-release", po, pb)
	}

	// vh.NewRand(s+1) is vh.NewRand(s) advanced by one draw; re-seed from the
	// first output so that neighbouring seeds give unrelated walks
	rng := vh.NewRand(vh.NewRand(o.Seed).U64())
	for i := 0; i < nrand; i++ {
		f := rng.Fork()
		ln := 6 + f.Intn(13)
		ops, obs, _ := r.run(Job{Kind: "random", Seed: f.U64(), Depth: ln, Threads: 5, Addrs: 3, Rich: true})
		e.add("random", ops, obs)
	}
	finish()
}

// Stress family for C16: goroutines cycle Connection()/done() on one or two
// addresses of a real connection.Manager with an instant dialer, running
// freely (no schedule points are held).  Checked on the observations alone:
// a holder never sees the connection it was handed Shutdown before its own
// release (which also means: a handle handed out after a close was dialled
// afresh), no call panics or hangs, and when everybody has released every
// connection that was dialled is closed.
package main

import (
	"context"
	"fmt"
	"runtime"
	"sync"
	"sync/atomic"
	"time"

	"github.com/openconfig/gnmi/connection"
	"google.golang.org/grpc"
	"google.golang.org/grpc/connectivity"
	"google.golang.org/grpc/credentials/insecure"
)

// runStress plays one event of kind "stress": I = goroutines, A = addresses,
// EK = iterations per goroutine (in thousands), ND = every seventh release is
// done twice.
func runStress(ops []Ev, emit func(Line)) {
	for _, e := range ops {
		e := e
		emit(Line{Ev: &e})
		o := stressOnce(e)
		emit(Line{Obs: &o})
		if o.Bad != 0 {
			break
		}
	}
	emit(Line{Done: true})
}

func stressOnce(e Ev) Obs {
	var (
		mu    sync.Mutex
		conns []*grpc.ClientConn
		ids   sync.Map // *grpc.ClientConn -> int
		viol  []Ret
		bad   int32
		msg   atomic.Value
		stop  int32
	)
	dial := func(ctx context.Context, target string, _ ...grpc.DialOption) (*grpc.ClientConn, error) {
		cc, err := grpc.NewClient("passthrough:///x", grpc.WithTransportCredentials(insecure.NewCredentials()))
		if err != nil {
			return nil, err
		}
		mu.Lock()
		ids.Store(cc, len(conns))
		conns = append(conns, cc)
		mu.Unlock()
		return cc, nil
	}
	m, err := connection.NewManagerCustom(map[string]connection.Dial{connection.DEFAULT: dial})
	if err != nil {
		panic(err)
	}
	workers, addrs, iters := e.I, e.A, e.EK*1000
	if workers < 2 {
		workers = 2
	}
	if addrs < 1 {
		addrs = 1
	}
	seen := func(w int, cc *grpc.ClientConn) {
		if cc.GetState() != connectivity.Shutdown {
			return
		}
		h := 999
		if v, ok := ids.Load(cc); ok {
			h = v.(int)
		}
		mu.Lock()
		if len(viol) < 4 {
			viol = append(viol, Ret{I: w, Kind: "conn", H: h})
		}
		mu.Unlock()
		atomic.StoreInt32(&stop, 1)
	}
	var wg sync.WaitGroup
	for w := 0; w < workers; w++ {
		wg.Add(1)
		go func(w int) {
			defer wg.Done()
			defer func() {
				if r := recover(); r != nil {
					atomic.StoreInt32(&bad, 1)
					msg.Store(fmt.Sprint("panic: ", r))
					atomic.StoreInt32(&stop, 1)
				}
			}()
			ctx := context.Background()
			for it := 0; it < iters && atomic.LoadInt32(&stop) == 0; it++ {
				addr := addrName((w + it/5) % addrs)
				cc, done, err := m.Connection(ctx, addr, connection.DEFAULT)
				if err != nil || cc == nil {
					atomic.StoreInt32(&bad, 1)
					msg.Store(fmt.Sprint("Connection failed although the dial cannot fail: ", err))
					atomic.StoreInt32(&stop, 1)
					return
				}
				seen(w, cc)
				if it%3 == 0 {
					runtime.Gosched()
				}
				seen(w, cc)
				done()
				if e.ND && it%7 == 0 {
					done()
				}
			}
		}(w)
	}
	finished := make(chan struct{})
	go func() { wg.Wait(); close(finished) }()
	o := Obs{}
	select {
	case <-finished:
	case <-time.After(20 * time.Second):
		o.Bad, o.Msg = 2, "workers did not finish"
		return o
	}
	if atomic.LoadInt32(&bad) != 0 {
		o.Bad = 1
		if s, ok := msg.Load().(string); ok {
			o.Msg = s
		}
	}
	mu.Lock()
	o.Rets = viol
	// everybody has released: no connection may be left open
	for h, cc := range conns {
		if cc.GetState() != connectivity.Shutdown && len(o.Failing) < 4 && len(viol) == 0 && o.Bad == 0 {
			o.Failing = append(o.Failing, h)
		}
		cc.Close()
	}
	o.Msg += fmt.Sprintf(" dials=%d", len(conns))
	mu.Unlock()
	return o
}
